(* Typeddecproof.v — Decimal(str(d)) = d (same sign, digits and exponent) for every finite d: the model of Decimal.__str__
   (scientific notation included) composed with the model of the Decimal(text) parser is the identity. *)
From Coq Require Import List ZArith NArith Lia Bool Arith ZifyBool.
Import ListNotations.
Require Import Codec Codecproof Typed CodecUnit CodecUnitproof.

(* the unsigned body:  ip [. fp] [E sign digits]  *)
Definition dec_body (t1 : str) : option (N * Z) :=
  let '(ip, t2) := read_digits t1 in
  let '(fp, t3, dot) := match t2 with
                        | c :: r => if (c =? c_dot)%N then let '(f, r') := read_digits r in (f, r', true) else ([], t2, false)
                        | [] => ([], t2, false) end in
  match ip ++ fp with
  | [] => None
  | ds =>
    let coef := digits_val ds in
    let fl := Z.of_nat (length fp) in
    match t3 with
    | [] => Some (coef, (- fl)%Z)
    | c :: r =>
      if (c =? 101)%N || (c =? 69)%N then
        let '(eneg, r1) := read_sign r in
        match read_N r1 with
        | Some (e, []) => Some (coef, ((if eneg then - Z.of_N e else Z.of_N e) - fl)%Z)
        | _ => None
        end
      else None
    end
  end.
Lemma dec_of_text_body (neg : bool) t1 c e : dec_body t1 = Some (c, e) ->
  (match t1 with x :: _ => (x =? c_minus)%N = false /\ (x =? c_plus)%N = false | [] => True end) ->
  dec_of_text ((if neg then [c_minus] else []) ++ t1) = Some (mkdec neg c e).
Proof.
  intros Hb Hf. unfold dec_of_text.
  assert (Hs : read_sign ((if neg then [c_minus] else []) ++ t1) = (neg, t1)).
  { destruct neg; cbn [app]; [reflexivity|]. destruct t1 as [|x r]; [reflexivity|]. unfold read_sign. destruct Hf as [-> ->]. reflexivity. }
  rewrite Hs. unfold dec_body in Hb.
  destruct (read_digits t1) as [ip t2].
  destruct (match t2 with
            | [] => ([], t2, false)
            | c0 :: r => if (c0 =? c_dot)%N then let '(f, r') := read_digits r in (f, r', true) else ([], t2, false)
            end) as [[fp t3] dot].
  destruct (ip ++ fp) as [|d0 ds]; [discriminate|].
  destruct t3 as [|c3 r3].
  - injection Hb as <- <-. reflexivity.
  - destruct ((c3 =? 101)%N || (c3 =? 69)%N); [|discriminate].
    destruct (read_sign r3) as [eneg r1]. destruct (read_N r1) as [[en [|? ?]]|]; try discriminate.
    injection Hb as <- <-. reflexivity.
Qed.

(* the exponent suffix *)
Definition exp_suffix (z : Z) : str := 69%N :: print_Zplus z.
Lemma read_exp_suffix z : let '(eneg, r1) := read_sign (print_Zplus z) in
  match read_N r1 with Some (e, []) => (if eneg then - Z.of_N e else Z.of_N e)%Z = z | _ => False end.
Proof.
  unfold print_Zplus. destruct (Z.ltb_spec z 0).
  - cbn [read_sign]. change (c_minus =? c_minus)%N with true. cbn iota.
    rewrite <- (app_nil_r (print_N _)), read_print_N by reflexivity. lia.
  - cbn [read_sign]. change (c_plus =? c_minus)%N with false. change (c_plus =? c_plus)%N with true. cbn iota.
    rewrite <- (app_nil_r (print_N _)), read_print_N by reflexivity. lia.
Qed.

(* body = ip [. fp] suffix, where suffix is empty or an exponent *)
Lemma dec_body_shape ip fp (dot : bool) (suffix : option Z) :
  forallb is_digit ip = true -> forallb is_digit fp = true -> ip <> [] -> (dot = false -> fp = []) -> (dot = true -> fp <> []) ->
  dec_body (ip ++ (if dot then c_dot :: fp else []) ++ match suffix with Some z => exp_suffix z | None => [] end) =
  Some (digits_val (ip ++ fp), ((match suffix with Some z => z | None => 0 end) - Z.of_nat (length fp))%Z).
Proof.
  intros Hip Hfp Hne Hd0 Hd1. unfold dec_body.
  set (sfx := match suffix with Some z => exp_suffix z | None => [] end).
  assert (Hsfx : starts_digit sfx = false) by (unfold sfx; destruct suffix; reflexivity).
  assert (Hsfxdot : match sfx with c :: _ => (c =? c_dot)%N = false | [] => True end) by (unfold sfx; destruct suffix; [reflexivity | exact I]).
  assert (Htail : forall (coef : N) (fl : Z), match sfx with
     | [] => Some (coef, (- fl)%Z)
     | c :: r => if (c =? 101)%N || (c =? 69)%N then
                   let '(eneg, r1) := read_sign r in
                   match read_N r1 with Some (e, []) => Some (coef, ((if eneg then - Z.of_N e else Z.of_N e) - fl)%Z) | _ => None end
                 else None end = Some (coef, ((match suffix with Some z => z | None => 0 end) - fl)%Z)).
  { intros coef fl. unfold sfx. destruct suffix as [z|]; [|f_equal; f_equal; lia].
    unfold exp_suffix. change ((69 =? 101)%N || (69 =? 69)%N) with true. cbn iota.
    pose proof (read_exp_suffix z) as R. destruct (read_sign (print_Zplus z)) as [eneg r1].
    destruct (read_N r1) as [[e [|? ?]]|]; try contradiction. now rewrite R. }
  destruct dot.
  - cbn iota. cbn [app]. rewrite read_digits_app by (auto; reflexivity). change (c_dot =? c_dot)%N with true. cbn iota.
    rewrite read_digits_app by auto.
    destruct (ip ++ fp) as [|d0 ds] eqn:E; [apply app_eq_nil in E as [E _]; congruence|]. rewrite <- E. apply Htail.
  - rewrite (Hd0 eq_refl). cbn iota. change ([] ++ sfx) with sfx. cbn [length Z.of_nat]. rewrite !app_nil_r.
    rewrite read_digits_app by auto.
    destruct sfx as [|c r] eqn:Es; [|rewrite Hsfxdot]; cbn iota; rewrite app_nil_r; (destruct ip as [|i0 ip']; [congruence|]); cbn [length Z.of_nat]; apply Htail.
Qed.

Theorem dec_text_roundtrip_lemma d : dec_of_text (str_of_dec d) = Some d.
Proof.
  destruct d as [neg coef e]. unfold str_of_dec. cbn [dneg dcoef dexp].
  set (digits := print_N coef).
  assert (Hdig : forallb is_digit digits = true) by apply print_N_digits.
  assert (Hnz : digits <> []) by apply print_N_nonempty.
  assert (Hval : digits_val digits = coef) by apply digits_val_print_N.
  set (len := Z.of_nat (length digits)).
  assert (Hlen : (1 <= len)%Z) by (unfold len; destruct digits; [congruence | cbn [length]; lia]).
  set (lft := (e + len)%Z).
  set (dotplace := if (e <=? 0)%Z && (-6 <? lft)%Z then lft else 1%Z).
  set (sfx := if (lft =? dotplace)%Z then None else Some (lft - dotplace)%Z).
  assert (Hsfx : (if (lft =? dotplace)%Z then [] else 69%N :: print_Zplus (lft - dotplace)) =
                 match sfx with Some z => exp_suffix z | None => [] end) by (unfold sfx; destruct (lft =? dotplace)%Z; reflexivity).
  rewrite Hsfx.
  assert (Hdp : ((dotplace = lft /\ e <= 0 /\ -6 < lft) \/ (dotplace = 1 /\ ~ (e <= 0 /\ -6 < lft)))%Z).
  { unfold dotplace. destruct (Z.leb_spec e 0), (Z.ltb_spec (-6) lft); cbn [andb]; lia. }
  assert (Hsv : (match sfx with Some z => z | None => 0 end = lft - dotplace)%Z).
  { unfold sfx. destruct (Z.eqb_spec lft dotplace); lia. }
  assert (Hfinish : forall ip fp (dot : bool),
     forallb is_digit ip = true -> forallb is_digit fp = true -> ip <> [] -> (dot = false -> fp = []) -> (dot = true -> fp <> []) ->
     digits_val (ip ++ fp) = coef -> (lft - dotplace - Z.of_nat (length fp) = e)%Z ->
     dec_of_text ((if neg then [c_minus] else []) ++ ip ++ (if dot then c_dot :: fp else []) ++ match sfx with Some z => exp_suffix z | None => [] end)
       = Some (mkdec neg coef e)).
  { intros ip fp dot H1 H2 H3 H4 H5 Hc He.
    apply dec_of_text_body.
    - rewrite dec_body_shape by assumption. rewrite Hc, Hsv, He. reflexivity.
    - destruct ip as [|x r]; [congruence|]. cbn [app]. cbn [forallb] in H1. apply andb_true_iff in H1 as [Hx _].
      unfold is_digit, c_minus, c_plus in *. lia. }
  destruct (Z.leb_spec dotplace 0) as [Hc1|Hc1].
  - (* 0.000ddd *)
    change ([48%N] ++ (c_dot :: zeros (Z.to_nat (- dotplace)) ++ digits) ++ match sfx with Some z => exp_suffix z | None => [] end)
      with ([48%N] ++ (if true then c_dot :: zeros (Z.to_nat (- dotplace)) ++ digits else []) ++ match sfx with Some z => exp_suffix z | None => [] end).
    apply Hfinish; try reflexivity; try discriminate.
    + rewrite forallb_app, zeros_digits. exact Hdig.
    + intros _ E. apply app_eq_nil in E as [_ E]. congruence.
    + cbn [app]. now rewrite digits_val_zero, digits_val_zeros.
    + rewrite app_length, zeros_length. fold len. unfold lft in *. lia.
  - destruct (Z.leb_spec len dotplace) as [Hc2|Hc2].
    + (* no fraction: the padding is empty *)
      assert (Hk : Z.to_nat (dotplace - len) = 0%nat) by (unfold lft in *; lia).
      rewrite Hk. cbn [zeros]. rewrite app_nil_r.
      change (digits ++ [] ++ match sfx with Some z => exp_suffix z | None => [] end)
        with (digits ++ (if false then c_dot :: [] else []) ++ match sfx with Some z => exp_suffix z | None => [] end).
      apply Hfinish; try reflexivity; try assumption; try discriminate.
      * rewrite app_nil_r. exact Hval.
      * cbn [length Z.of_nat]. unfold lft in *. lia.
    + (* the point inside the digits *)
      set (n := Z.to_nat dotplace).
      assert (Hn : (0 < n < length digits)%nat) by (unfold n, len in *; lia).
      change (firstn n digits ++ (c_dot :: skipn n digits) ++ match sfx with Some z => exp_suffix z | None => [] end)
        with (firstn n digits ++ (if true then c_dot :: skipn n digits else []) ++ match sfx with Some z => exp_suffix z | None => [] end).
      apply Hfinish; try discriminate.
      * now apply forallb_firstn.
      * now apply forallb_skipn.
      * intros E. apply (f_equal (@length N)) in E. rewrite firstn_length in E. cbn in E. lia.
      * intros _ E. apply (f_equal (@length N)) in E. rewrite skipn_length in E. cbn in E. lia.
      * now rewrite firstn_skipn.
      * rewrite skipn_length. unfold n, len, lft in *. lia.
Qed.
