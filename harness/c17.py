"""C17: whole-table transformations preserve the content they are not meant to remove.

Theorems: coq/theories/C17.v (model Transform.v on the state type of Table.v, specification Transformspec.v on the
list-of-lists grid of Grid.v, transported through the C01 refinement).  Correspondence: histories of
{transpose, transpose(coord), rstrip, optimize_width, set_span, del_span} (length <= 3 quick, <= 5 thorough), each call
preceded by cache-filling reads and interleaved with probe writes of the C01 alphabet, are driven on the
implementation; after every call the table is abstracted by the independent lxml walk (values, styles, span attributes,
covered tag), and Coq (vm_compute, Transformchk.chk17) evaluates on the abstracted states the property's law for that
call, the pair laws (idempotence, del_span after set_span, transpose twice), map coherence, get_values() against the
grid, and compares with the model's step from the same pre-state.  CSV: to_csv / import_from_csv round trips are
compared at value level (Transformchk.chk_csv)."""
import io, json, multiprocessing, os, random, sys, time
from pathlib import Path
sys.path.insert(0, str(Path(__file__).resolve().parent))
import common
import tablelib as tl
import c17lib as xl

PROP = 'C17'
LAYERS = {6: ('law', 'property: the law of the call (transpose swaps coordinates / strip removes only empty trailing rows and cells and keeps every non-empty value / a span covers exactly the area, refuses overlap, changes no value / del_span restores) is false on (table before, table after)'),
          7: ('pair', 'property: a law relating two consecutive calls fails (second rstrip/optimize_width changed the table; del_span after set_span does not restore it; transpose twice is not the rectangular closure of the original matrix)'),
          12: ('table-attrs', 'property: the call changed the attributes of the table element (name, style): content it is not meant to remove'),
          13: ('row-style', 'property: a span call changed the style of a row (del_span after set_span does not restore the table)'),
          5: ('map', 'property: a private position map (_tmap/_cmap/_rmap of a cached row wrapper) is not the map of the XML after the call: later reads and writes address the wrong run'),
          4: ('read', 'property: get_values() after the call is not the matrix of the XML (a cached wrapper went stale)'),
          10: ('raised', 'property: the call raised on an input of the property\'s domain'),
          2: ('model', 'correspondence: the table after the call (or the returned boolean) is not what the model of the repaired code computes from the same pre-state')}
SOFT = {3: 'the model returned None on an implementation state', 8: 'the model\'s grid differs from the grid meaning of the call (a theorem instance fails)',
        11: 'state outside the modelled fragment', 14: 'the cell algebra tables computed by the harness are inconsistent'}
TRUSTED = ['lxml parse/serialise; lxml tag and attribute edits on one cell (the cell algebra: covered tag on/off, the two span attributes set/deleted), assumed to satisfy Transformspec.alg_cell_ok / C17 alg_ok (checked by Coq on every span call)',
           'Cell.get_value on a detached cell (once per distinct cell content, to learn its Python value for the get_values() comparison)',
           'the csv module: writer and reader for the comma dialect are the executable model Csv.v (C17_csv_dialect_roundtrip), validated against the csv module of the running CPython on every run (Csvchk.chk_csvmodel: written texts and random texts); csv.Sniffer is not modelled: that it finds the comma dialect is tested per case by calling it',
           'Grid.v / Transformspec.v as the meaning of "matrix", "rectangular closure", "trailing", "covers exactly"']
MODELLED = ('table.py: transpose() and transpose(coord), rstrip, optimize_width + _optimize_width_trim_rows/_length/_rstrip_rows/_adapt_columns, set_span(area, merge), '
            'del_span, get_cell(keep_repeated=False), get_cells(area), set_cells(clone=False), to_csv / import_from_csv / _get_python_value (value level); '
            'row.py: rstrip, is_empty, minimized_width, force_width, last_cell, traverse(start,end); cell.py: is_empty(aggressive), is_spanned. '
            'NOT modelled: string coordinates (C19), negative coordinates of areas, row/column groups and header rows, merge=True value concatenation (the merged content is taken from the observation)')
KINDS = ['rle17', 'rle17', 'rle17', 'rle', 'sample', 'prefilled', 'empty', 'rle17']


def _worker(job):
    seed, kind, nsteps, maxw, maxh = job
    odfdo = common.use_repo()
    case, err = xl.gen_and_run(odfdo, seed, kind, nsteps, maxw, maxh)
    if err is not None:
        return case, err
    return case, xl.run_case(odfdo, case)


def _replay_worker(case):
    odfdo = common.use_repo()
    return case, xl.run_case(odfdo, case)


def drive(jobs, fn, procs=16):
    if len(jobs) <= 2:
        return [fn(j) for j in jobs]
    ctx = multiprocessing.get_context('fork')
    with ctx.Pool(procs) as pool:
        return pool.map(fn, jobs, chunksize=max(1, len(jobs) // (procs * 8)))


def plan(tier, rng):
    n = 2400 if tier == 'quick' else 22000
    maxw, maxh = (7, 7) if tier == 'quick' else (10, 10)
    return [(rng.getrandbits(48), KINDS[i % len(KINDS)], rng.randint(1, 3 if tier == 'quick' else 5), maxw, maxh) for i in range(n)]


def evaluate(cases, tag):
    results = drive(cases, _replay_worker)
    terms, idx = [], []
    for i, (case, res) in enumerate(results):
        if res['term'] is not None:
            terms.append(res['term']); idx.append(i)
    bad, errors = common.run_shards(xl.HEADER, terms, 'chk17', tag, shard=min(300, max(1, len(terms) // 16 + 1)))
    return results, {idx[k]: c for k, c in bad.items()}, errors


def pre_xml_of(odfdo, case, step):
    d = xl.XDriver(odfdo, case['init_xml'])
    nodes = d.init_nodes
    for st in case['steps'][:step]:
        for q in st.get('reads', []):
            try: d.fill(q)
            except Exception: pass
        d.apply_x(st['op'], nodes)
        nodes = d.abs()
    return tl.timed(d.table.serialize)


def rowstyle_class(rec, alg_rows):
    """input class of a row-style change by a span call: every row whose style changed is one that the call rewrites
    from column A over its whole stored width (Row.set_cells(clone=False) then clears the row: finding F120)"""
    try:
        a = rec['abstract_op']
        _, rows = xl.expand_nodes(rec['pre'])
        styles = lambda nodes: [n[2] for n in nodes if n[0] == 'row' for _ in range(tl.rep_val(n[1]))]
        s0, s1 = styles(rec['pre']), styles(rec['post'])
        if a[0] == 'set_span':
            x, y, z, t = a[1:5]
        else:
            x, y = a[1], a[2]
            i = alg_rows[xl.cell_of(rows, x, y)[0]]
            z, t = x + i[2] - 1, y + i[3] - 1
        changed = [j for j in range(len(s0)) if j >= len(s1) or s0[j] != s1[j]]
        if changed and all(x == 0 and y <= j <= t and z + 1 >= len(rows[j]) and s1[j] == 0 for j in changed):
            return 'whole-row-from-column-A'
    except Exception:
        pass
    return 'other'


def histogram(results):
    ops, kinds, raised, rets, heights, pairs = {}, {}, 0, {}, {}, {}
    for case, res in results:
        kinds[case['kind']] = kinds.get(case['kind'], 0) + 1
        prev = None
        for r in res.get('records', []):
            k = r['op'][0]
            ops[k] = ops.get(k, 0) + 1
            if r['raised']: raised += 1
            if k in ('set_span', 'del_span'):
                kk = '%s->%s' % (k, r['ret']); rets[kk] = rets.get(kk, 0) + 1
            h = len(xl.expand_nodes(r['post'])[1]); heights[min(h, 12)] = heights.get(min(h, 12), 0) + 1
            if prev is not None:
                pk = '%s;%s' % (prev, k)
                if prev == k or (prev, k) == ('set_span', 'del_span'): pairs[pk] = pairs.get(pk, 0) + 1
            prev = k
    return dict(operations=ops, initial_kinds=kinds, implementation_exceptions=raised, span_answers=rets, post_heights=heights, law_pairs=pairs)


def nontrivial(results):
    seen = set()
    for case, res in results:
        for r in res.get('records', []):
            if r['post'] != r['pre'] or r['op'][0] in ('set_span', 'del_span'):
                cols, rows = tl.shape_of(r['pre'])
                seen.add(common.digest((cols, rows, [c[2:] for n in r['pre'] if n[0] == 'row' for c in n[3]], r['abstract_op'])))
    return len(seen)


def run(tier, seed, replay=None):
    t0 = time.time(); rng = random.Random(seed)
    odfdo = common.use_repo()
    proofs = common.build_proofs(PROP, ('Transformchk',))
    known = {e['key']: e for e in common.known_findings(PROP)}
    chk_proc = None
    if tier == 'thorough' and not replay and proofs['ok']:
        # independent re-check of the compiled proofs (and their whole dependency cone) by coqchk, in the background
        import subprocess
        chk_proc = subprocess.Popen('timeout 1500 coqchk -silent -o -R theories "" C17', shell=True, cwd=common.COQ,
                                    stdout=subprocess.PIPE, stderr=subprocess.STDOUT, text=True)
    corpus = [c['case'] for c in (json.load(open(f)) for f in sorted((common.ROOT / 'corpus' / PROP).glob('*.json'))) if 'case' in c]
    csv_part = None
    if replay:
        payload = json.load(open(replay))
        cases = [payload['case']] if 'case' in payload else []
        if 'csv_case' in payload:
            csv_part = csv_check(tier, rng, odfdo, only=payload['csv_case'])
        results, bad, errors = evaluate(cases, 'c17') if cases else ([], {}, [])
    else:
        gen = drive(plan(tier, rng), _worker)
        cases = corpus + [c for c, r in gen]
        results, bad, errors = evaluate(cases, 'c17')
        csv_part = csv_check(tier, rng, odfdo)
    violations, known_seen = [], []
    abstraction_failures = [(i, r['error']) for i, (c, r) in enumerate(results) if r['term'] is None]
    hard = {i: c for i, c in bad.items() if c != 9 and (c % 100) in LAYERS}
    soft = {i: c for i, c in bad.items() if c != 9 and (c % 100) not in LAYERS}
    seen_keys = set()
    for i in sorted(hard):
        code = hard[i]; step = code // 100 - 1; layer = code % 100
        case, res = results[i]
        rec = res['records'][step] if 0 <= step < len(res['records']) else None
        key = '%s/%s' % (rec['op'][0] if rec else 'initial-state', LAYERS[layer][0])
        if rec and layer == 7 and step > 0:
            key = '%s;%s/pair' % (res['records'][step - 1]['op'][0], rec['op'][0])
        if rec and layer == 13:
            key = '%s/row-style/%s' % (rec['op'][0], rowstyle_class(rec, res.get('alg_rows') or {}))
        if key in seen_keys:
            continue
        seen_keys.add(key)
        small = dict(kind=case['kind'], init_xml=case['init_xml'], steps=case['steps'][:step + 1])
        if rec is not None and not replay:
            # shrink: the failing step (with the one before it for a pair law) from the serialised pre-state, if that still fails
            try:
                first = step - 1 if (layer == 7 and step > 0) else step
                one = dict(kind='shrunk', init_xml=pre_xml_of(odfdo, case, first), steps=case['steps'][first:step + 1])
                r2, b2, e2 = evaluate([one], 'c17s')
                if b2 and list(b2.values())[0] % 100 == layer:
                    small = one
                else:       # drop the reads of the earlier steps
                    two = dict(kind=case['kind'], init_xml=case['init_xml'],
                               steps=[dict(reads=[], op=s['op']) for s in case['steps'][:step]] + [case['steps'][step]])
                    r3, b3, e3 = evaluate([two], 'c17s')
                    if b3 and list(b3.values())[0] % 100 == layer:
                        small = two
            except Exception:
                pass
        payload = dict(layer=LAYERS[layer][1], code=layer, key=key, step=len(small['steps']) - 1, case=small,
                       operation=rec['op'] if rec else None, implementation_raised=rec['raised'] if rec else None,
                       implementation_returned=rec['ret'] if rec else None,
                       theorem_or_correspondence='coq/theories/C17.v + Transformchk.chk17',
                       known_finding_key=key if key in known else None)
        if key in known:
            known_seen.append('%s (%s)' % (key, known[key]['description'][:110]))
            common.write_replay(PROP, seed, 'known-' + common.digest(key)[:8], payload)
        else:
            violations.append((common.write_replay(PROP, seed, common.digest((key, i))[:8], payload), False))
        if len(violations) >= 12:
            break
    cov_csv = {}
    if csv_part:
        errors += csv_part['errors']; cov_csv = csv_part['coverage']
        for key, payload in csv_part['failures']:
            if key in known:
                known_seen.append('%s (%s)' % (key, known[key]['description'][:110]))
            else:
                violations.append((common.write_replay(PROP, seed, 'csv-' + common.digest(key)[:8], payload), False))
    coqchk_cov = {}
    if chk_proc is not None:
        out = chk_proc.communicate()[0]
        summ = out[out.find('CONTEXT SUMMARY'):] if 'CONTEXT SUMMARY' in out else out[-600:]
        coqchk_cov = dict(coqchk_cmd='cd coq && coqchk -silent -o -R theories "" C17', coqchk_exit=chk_proc.returncode,
                          coqchk_summary=' '.join(summ.split()))
        if chk_proc.returncode != 0 or 'Axioms: <none>' not in ' '.join(summ.split()):
            errors.append('coqchk: ' + ' '.join(summ.split())[:400])
    # model-level / abstraction-level trouble: look for a concrete failing input with the direct Python reference
    soft_msgs, found = [], False
    if soft or abstraction_failures or not proofs['ok'] or errors:
        for i, (case, res) in enumerate(results):
            st = xl.python_oracle(res, res.get('alg_rows')) if res.get('term') else None
            if st is not None:
                key = 'oracle/%s' % res['records'][st]['op'][0]
                known_key = '%s/%s' % (res['records'][st]['op'][0], 'raised' if res['records'][st]['raised'] else 'law')
                if known_key in known:
                    continue
                found = True
                payload = dict(layer='direct Python reference of the law (search phase)', key=key,
                               case=dict(kind=case['kind'], init_xml=case['init_xml'], steps=case['steps'][:st + 1]), step=st)
                violations.append((common.write_replay(PROP, seed, 'oracle-%d' % i, payload), False))
                break
        for i, c in list(soft.items())[:5]:
            soft_msgs.append('case %s: code %s (%s)' % (i, c, SOFT.get(c % 100, 'model-level')))
        for i, e in abstraction_failures[:5]:
            soft_msgs.append('case %d: %s' % (i, e))
    violations += common.proof_violation(PROP, seed, proofs, errors + soft_msgs, bool(hard) or found or bool(csv_part and csv_part['failures']))
    steps = sum(len(r['records']) for c, r in results)
    fid = sum(1 for c in bad.values() if c == 9)
    cov = dict(
        trusted_base=TRUSTED, evaluations=steps + cov_csv.get('csv_round_trips', 0), histories=len(results), distinct_nontrivial=nontrivial(results),
        rule='initial tables {random run-length shapes with ragged rows, styled empty cells, trailing empty runs and (repeated) empty rows, existing spans with covered cells (also inconsistent ones), '
             'C01\'s shapes, tables of tests/samples/*.ods with clamped repeats, Table(w,h), empty}; histories of 1-%d calls of {transpose, transpose(coord), rstrip(aggressive or not), optimize_width, '
             'set_span(area, merge), del_span, probe writes of the C01 alphabet}, areas with corners around every run boundary of the addressed row (first/last cell of a run, the edge, beyond), '
             'follow-ups chosen to exercise the pair laws; 0-3 cache-filling reads (get_value/get_cell/get_row/get_cells/get_values) before every call; after every call: raw lxml abstraction, private maps, get_values(), table attributes; corpus first. '
             'distinct_nontrivial = distinct (pre-state run shape and contents, abstract call) where the call changed the XML or is a span call' % (3 if tier == 'quick' else 5),
        samples=[dict(initial=c['init_xml'][:500], steps=c['steps'][:3]) for c, r in results[len(corpus):len(corpus) + 3]],
        corpus_cases=len(corpus), fidelity_divergences=fid, fidelity_ratio=round(1 - fid / max(1, len(results)), 4),
        modelled=MODELLED, exhaustive=False, known_findings_reobserved=len(known_seen))
    cov.update(histogram(results)); cov.update(cov_csv); cov.update(coqchk_cov)
    if fid:
        print('NOTE: %d histories where only the exact run-length shape differs from the model (fidelity, not an alarm)' % fid)
    return common.finish(PROP, tier, seed, proofs, cov, violations, known_seen, t0,
                         assumptions=['areas are given as non-negative integer tuples with x <= z and y <= t', 'repeat attributes are absent or >= 2 (C07)',
                                      'tables consist of table:table-column elements followed by table:table-row elements',
                                      'CSV: values in the stable domain (None, integers, True, short ASCII words without blanks), dialect excel, the Sniffer finds the comma'])


CSV_VALUES = [None, None, None, 1, 2, 3, 12, -4, 'a', 'b', 'ab', 'x1', True, False, '', 'a,b', 'say "x"', 'two\nlines', 'a\u2028b', 'n\x85l', 'a;b', 'é']
CSV_ALPHABET = ['a', 'b', ' ', ',', '"', '\r', '\n', ';', '\u00a0', 'é', '\t', '\u2028']


def csv_model_cases(tier, rng, texts):
    """validation of the dialect model Csv.v against the csv module of this CPython: (matrix of fields | None, text, rows)"""
    import csv, io
    cl = lambda s_: '[%s]' % ';'.join(str(ord(c)) for c in s_)
    rows_c = lambda rows: '[%s]' % ';'.join('[%s]' % ';'.join(cl(f) for f in r) for r in rows)
    cases = []
    for _ in range(1500 if tier == 'quick' else 20000):
        m = [[''.join(rng.choice(CSV_ALPHABET) for _ in range(rng.choice([0, 0, 1, 1, 2, 3, 5]))) for _ in range(rng.choice([0, 1, 1, 2, 3]))]
             for _ in range(rng.randint(0, 4))]
        out = io.StringIO(newline=''); w = csv.writer(out, dialect='excel')
        for r in m: w.writerow(r)
        text = out.getvalue()
        cases.append('((Some %s, %s, %s) : csvm_case)' % (rows_c(m), cl(text), rows_c(list(csv.reader(io.StringIO(text, newline=''))))))
    for _ in range(1500 if tier == 'quick' else 20000):
        text = ''.join(rng.choice(CSV_ALPHABET) for _ in range(rng.randint(0, 10)))
        try:
            rows = list(csv.reader(io.StringIO(text, newline='')))
        except csv.Error:
            continue
        cases.append('((None, %s, %s) : csvm_case)' % (cl(text), rows_c(rows)))
    for text in texts:       # the texts Table.to_csv produced in this run
        try:
            rows = list(csv.reader(io.StringIO(text, newline='')))
        except csv.Error:
            continue
        cases.append('((None, %s, %s) : csvm_case)' % (cl(text), rows_c(rows)))
    return cases


CSVM_HEADER = 'Require Import Csv Csvchk.\nFrom Coq Require Import List NArith Bool Arith. Import ListNotations. Open Scope N_scope.\n'



def g_csv_table(rng):
    """tables whose values are in the stable domain: None, integers, booleans, short ASCII words (no blanks), the empty string"""
    h = rng.randint(0, 5); w = rng.randint(2, 5)
    rows = []
    for _ in range(h):
        cells = []
        for _ in range(rng.randint(0, w)):
            v = rng.choice(CSV_VALUES)
            if isinstance(v, str):      # the value is pasted into an attribute and into text:p by tablelib.cell_xml
                v = v.replace('&', '&amp;').replace('<', '&lt;').replace('"', '&quot;').replace('\n', '&#10;').replace('\r', '&#13;')
            cells.append([rng.choice((1, 1, 1, 2, 3)), v, rng.choice([None, None, 's1']), None])
        while sum(c[0] for c in cells) > 7: cells.pop()
        rows.append([rng.choice([1, 1, 2, 3]), rng.choice([None, 'rs']), cells])
    width = max([sum(c[0] for c in r[2]) for r in rows] + [0]) + rng.choice([0, 0, 1])
    cols = [(width, None)] if width else []
    return xl.table_xml17(cols, rows)


def _csv_worker(init):
    """(term or None, info): runs to_csv then import_from_csv; out-of-domain when the csv module's own Sniffer (called
    here independently) does not find the comma dialect in the exported text"""
    import csv, io
    odfdo = common.use_repo()
    try:
        d = tl.Driver(odfdo, init)
    except Exception as e:
        return None, 'initial table: %r' % (e,)
    pre = d.init_nodes
    raised, post, text, cls = None, [], None, 'other'
    try:
        text = tl.timed(d.table.to_csv)
    except Exception as e:
        raised = 'to_csv: %r' % (e,)
    if text is not None:
        try:
            dia = csv.Sniffer().sniff(''.join(text.splitlines(True)[:100]))
            if dia.delimiter != ',' or dia.quotechar != '"' or dia.skipinitialspace:
                return None, 'out-of-domain: sniffed delimiter %r' % dia.delimiter
            # input classes of the two defects repaired by fixes/F123, F124 (only used to key a failure)
            if any(ch in text for ch in '\u2028\u2029\x85\x0b\x0c\x1c\x1d\x1e'):
                cls = 'line-separator-character'
            elif not dia.doublequote and '""' in text:
                cls = 'doubled-quote-at-line-end'
        except csv.Error as e:
            return None, 'out-of-domain: %s' % e
        try:
            t2 = tl.timed(odfdo.table.import_from_csv, io.StringIO(text), 't')
            post = tl.abs_xml(tl.timed(t2.serialize), d.intern)
        except Exception as e:
            raised = 'import_from_csv: %r' % (e,)
    # the value class of the empty string (if any content of the case carries it)
    d._learn()
    blank = d.cls_of.get(repr(''), -7)
    term = '(([%s], (%d), %s, %s, %s) : csv_case)' % (';'.join('(%d,%d)' % p for p in d.vtab()), blank, tl.c_xtable(pre), tl.c_xtable(post),
                                                    'true' if raised else 'false')
    return term, dict(raised=raised, text=text, pre=pre, post=post, cls=cls)


def csv_check(tier, rng, odfdo, only=None):
    if only is not None:
        inits = [only]
    else:
        inits = [g_csv_table(rng) for _ in range(400 if tier == 'quick' else 6000)]
        for f in sorted((common.ROOT / 'corpus' / PROP).glob('csv-*.json')):
            inits.insert(0, json.load(open(f))['csv_case'])
    outs = drive(inits, _csv_worker)
    terms, idx, skipped = [], [], {}
    for i, (term, info) in enumerate(outs):
        if term is None:
            k = str(info).split(':')[0]; skipped[k] = skipped.get(k, 0) + 1
        else:
            terms.append(term); idx.append(i)
    bad, errors = common.run_shards(xl.HEADER, terms, 'chk_csv', 'c17csv', shard=max(1, len(terms) // 16 + 1)) if terms else ({}, [])
    failures, seen = [], set()
    for k in sorted(bad):
        i = idx[k]; code = bad[k]
        key = 'csv/%s' % ('raised' if code == 10 else 'values/' + outs[i][1].get('cls', 'other'))
        if key in seen: continue
        seen.add(key)
        failures.append((key, dict(layer='property: exporting to CSV and importing back %s' % ('raised' if code == 10 else 'changed a value or the number of rows'),
                                   key=key, csv_case=inits[i], csv_text=outs[i][1].get('text'), implementation_raised=outs[i][1].get('raised'))))
    distinct = len({common.digest(outs[i][1]['pre']) for i in idx})
    # the dialect model of Csv.v against the csv module (a disagreement is a broken trusted stand-in: proof-level)
    mcases = csv_model_cases(tier, rng, [outs[i][1]['text'] for i in idx if outs[i][1].get('text') is not None]) if only is None else []
    mbad, merr = common.run_shards(CSVM_HEADER, mcases, 'chk_csvmodel', 'c17csvm', shard=max(1, len(mcases) // 16 + 1)) if mcases else ({}, [])
    errors = errors + merr + ['csv dialect model differs from the csv module on case %d (code %d): %s' % (k, c, mcases[k][:300]) for k, c in sorted(mbad.items())[:3]]
    return dict(failures=failures, errors=errors,
                coverage=dict(csv_round_trips=len(terms), csv_distinct_tables=distinct, csv_out_of_domain=skipped,
                              csv_model_validation_cases=len(mcases), csv_model_disagreements=len(mbad),
                              csv_rule='tables of 0-5 row elements (repeats 1-3), 0-5 cell elements (repeats 1-3, styled or not) with values among None, integers, booleans, '
                                       'short ASCII words, the empty string, strings holding a comma, quotes, a line feed, U+2028, U+0085, a semicolon, a non-ASCII letter; to_csv() then import_from_csv(StringIO); cases where csv.Sniffer (called independently) does not find the comma dialect are out of the domain'))


if __name__ == '__main__':
    common.main(run)
