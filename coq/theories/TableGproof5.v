(* TableGproof5.v — C08 on every well-formed table for the getters built on ONE expanding loop: Row.traverse / Row.cells /
   Row.get_cells (on the row object returned by get_row), Row.get_cell, traverse_columns / columns / get_columns. *)
From Coq Require Import List ZArith Lia Bool Arith.
Import ListNotations.
Require Import Vault Vaultproof Vaultproof3 Vaultproof4 Row Table Grid Tableabs Tableproof Tableproof2 Tableproof5 Tableproof6 Tableproof7
               TableB TableBproof TableG TableGspec TableGproof TableGproof2 TableGproof3 TableGproof4.
Open Scope Z_scope.

Lemma forall2b_map_combine {X P O T} (mk : X * P -> O) (sp : X -> T) (f : O -> T -> bool) (dx : X) (dp : P) :
  forall (xs : list X) (ps : list P), length ps = length xs ->
  (forall i, (i < length xs)%nat -> f (mk (nth i xs dx, nth i ps dp)) (sp (nth i xs dx)) = true) ->
  forall2b f (map mk (combine xs ps)) (map sp xs) = true.
Proof.
  induction xs as [|x xs IH]; intros [|p ps] Hl H; try discriminate; [reflexivity|].
  unfold forall2b in *. cbn [map combine length forallb fst snd Nat.eqb]. 
  specialize (IH ps ltac:(cbn [length] in Hl; lia) (fun i Hi => H (S i) ltac:(cbn [length]; lia))).
  apply andb_true_iff in IH. destruct IH as [IH1 IH2]. rewrite IH1. cbn [andb].
  pose proof (H 0%nat ltac:(cbn [length]; lia)) as H0. cbn [nth] in H0. rewrite H0. exact IH2.
Qed.

Lemma lo_vt s : lo s = vt_lo s. Proof. reflexivity. Qed.
Lemma hi_vt {A} e (v : runs A) : hi e (Z.of_nat (width v)) = Z.min (vt_hi e v) (Z.of_nat (width v) - 1).
Proof. unfold hi, vt_hi. destruct e; lia. Qed.

(* ---- Row.traverse(start, end) on a row object whose cells expand to [row] ---- *)
Lemma row_traverse_meets copy exp s e y cs :
  wf cs ->
  forall2b (cobj_meets copy exp) (m_row_traverse s e (Some y) cs)
    (map (fun xx => (xx, y, nth (Z.to_nat xx) (expand cs) empty_cell)) (zint (lo s) (hi e (Z.of_nat (length (expand cs)))))) = true.
Proof.
  intros Hwf. unfold m_row_traverse. rewrite (vault_traverse_spec cs s e Hwf), map_map.
  change (length (expand cs)) with (width cs). unfold zint. rewrite hi_vt. change (lo s) with (vt_lo s). rewrite <- (vt_slice_length s e cs).
  set (n := length (vt_slice s e cs)). change (map (fun d : nat => vt_lo s + Z.of_nat d) (seq 0 n)) with (zrange (vt_lo s) n).
  apply (forall2b_map_combine _ _ _ 0 empty_cell).
  - now rewrite zrange_length.
  - rewrite zrange_length. intros i Hi. rewrite (nth_zrange n _ _ Hi), (vt_slice_nth s e cs i empty_cell Hi).
    unfold cobj_meets. cbn [fst snd c_x c_y c_val c_rep c_h oz_eqb h_detached]. rewrite !Z.eqb_refl.
    replace (Z.to_nat (vt_lo s + Z.of_nat i)) with (Z.to_nat (vt_lo s) + i)%nat by (unfold vt_lo; lia).
    rewrite (proj2 (cell_eqb_iff _ _) eq_refl). cbn [andb Nat.eqb]. now rewrite !orb_true_r.
Qed.

(* the row object get_row(y, rclone) hands to the Row-level getters *)
Lemma get_row_object y rcl t : WF t ->
  let r := m_get_row y rcl t in
  r_y r = Some (ny y t) /\ wf (snd (r_val r)) /\ expand (snd (r_val r)) = g_row (ny y t) (abs_t t) /\ (rcl = true -> r_h r = Detached).
Proof.
  intros Hwf. pose proof Hwf as [[Hwr Hwc] Hcw]. cbv zeta.
  assert (Hny : 0 <= ny y t) by (apply norm_coord_nonneg, theight_nonneg).
  assert (Hm : m_get_row y rcl t = m_get_row (ny y t) rcl t).
  { assert (Hnn : ny (ny y t) t = ny y t) by (unfold ny at 1; apply norm_coord_id; exact Hny). unfold m_get_row. rewrite !Hnn. reflexivity. }
  rewrite Hm. destruct (m_get_row_content (ny y t) rcl t Hwf Hny) as [He Hy].
  split; [exact Hy|]. split; [apply m_get_row_wf; exact Hcw|]. split; [exact He|]. intros ->. apply m_get_row_clone.
Qed.

Theorem row_getters_hold t q : WF t ->
  match q with GRowTraverse _ _ _ _ | GRowCells _ _ | GRowGetCell _ _ _ _ => True | _ => False end -> C08_holds t q.
Proof.
  intros Hwf Hq. unfold C08_holds. destruct q; try contradiction; cbn [m_get spec_get meets promises_copy expands]; rewrite ?gheight_abs.
  - (* Row.get_cell *)
    destruct (get_row_object y rclone t Hwf) as (Hy & Hw & He & Hh). cbv zeta in *. fold (ny y t).
    set (r := m_get_row y rclone t) in *. rewrite <- He.
    unfold forall2b. cbn [length combine forallb fst snd Nat.eqb andb]. rewrite !andb_true_r.
    unfold m_row_get_cell, rwidth. set (cs := snd (r_val r)) in *.
    change (length (expand cs)) with (width cs). set (x' := norm_coord x (Z.of_nat (width cs))).
    assert (Hx' : 0 <= x') by (unfold x'; apply norm_coord_nonneg; apply Nat2Z.is_nonneg).
    unfold cobj_meets. rewrite Hy.
    destruct (Z.leb_spec (Z.of_nat (width cs)) x') as [Hout|Hin].
    + assert (Hov : (length (expand cs) <= Z.to_nat x')%nat) by (unfold width in Hout; clear - Hout; clearbody x' cs; lia).
      cbn [c_x c_y c_val c_rep c_h oz_eqb h_detached]. rewrite !Z.eqb_refl, (nth_overflow _ _ Hov).
      rewrite (proj2 (cell_eqb_iff _ _) eq_refl). cbn [andb negb orb Nat.eqb]. now rewrite !orb_true_r.
    + assert (Hinr : 0 <= x' < Z.of_nat (width cs)) by (clear - Hin Hx'; clearbody x' cs; lia).
      destruct (locate _ cs x' Hw Hinr) as (ci & n & c & Hf & Hn & _).
      assert (Hcp : cell_pos_at x' cs = Some (ci, (n, c))) by (unfold cell_pos_at; now rewrite Hf, Hn). rewrite Hcp.
      cbn [c_x c_y c_val c_rep c_h oz_eqb]. rewrite !Z.eqb_refl. cbn [andb negb orb].
      assert (Hc : nth (Z.to_nat x') (expand cs) empty_cell = c).
      { pose proof (cell_at_spec cs x' Hw Hx') as Hs. unfold cell_at in Hs. rewrite Hf, Hn in Hs. cbn [option_map snd] in Hs.
        symmetry in Hs. now apply nth_error_nth. }
      rewrite Hc, (proj2 (cell_eqb_iff _ _) eq_refl). cbn [andb].
      destruct clone; cbn [orb negb h_detached]; [reflexivity|].
      destruct rclone; cbn [orb]; [|reflexivity]. rewrite (Hh eq_refl). reflexivity.
  - (* Row.traverse *)
    destruct (get_row_object y rclone t Hwf) as (Hy & Hw & He & _). cbv zeta in *. fold (ny y t). rewrite Hy, <- He.
    unfold forall2b at 1. cbn [length combine forallb fst snd Nat.eqb andb]. rewrite andb_true_r.
    apply row_traverse_meets. exact Hw.
  - (* Row.cells *)
    destruct (get_row_object y rclone t Hwf) as (Hy & Hw & He & _). cbv zeta in *. fold (ny y t). rewrite Hy, <- He.
    unfold forall2b at 1. cbn [length combine forallb fst snd Nat.eqb andb]. rewrite andb_true_r.
    exact (row_traverse_meets true true None None (ny y t) _ Hw).
Qed.

(* ---- traverse_columns(start, end) / columns / get_columns(range) ---- *)
Lemma traverse_columns_meets copy exp s e (cs : list (nat * Z)) : wf cs ->
  forall2b (kobj_meets copy exp)
    (map (fun p : Z * nat * Z => let '(x, rep, st) := p in {| k_x := Some x; k_rep := rep; k_h := Detached; k_st := st |}) (vault_traverse false s e cs))
    (zint (lo s) (hi e (Z.of_nat (width cs)))) = true.
Proof.
  intros Hwf. rewrite (vault_traverse_spec cs s e Hwf), map_map.
  unfold zint. rewrite hi_vt. change (lo s) with (vt_lo s). rewrite <- (vt_slice_length s e cs).
  set (n := length (vt_slice s e cs)). change (map (fun d : nat => vt_lo s + Z.of_nat d) (seq 0 n)) with (zrange (vt_lo s) n).
  rewrite <- (map_id (zrange (vt_lo s) n)) at 2.
  apply (forall2b_map_combine _ _ _ 0 0).
  - now rewrite zrange_length.
  - rewrite zrange_length. intros i Hi. unfold kobj_meets. cbn [fst snd k_x k_rep k_h oz_eqb h_detached]. rewrite Z.eqb_refl.
    cbn [andb Nat.eqb]. now rewrite !orb_true_r.
Qed.

Theorem column_getters_hold t q : WF t ->
  match q with GTraverseColumns _ _ | GGetColumns _ => True | _ => False end -> C08_holds t q.
Proof.
  intros Hwf Hq. pose proof Hwf as [[Hwr Hwc] Hcw]. unfold C08_holds.
  assert (Hnx : forall x, 0 <= nx x t) by (intros; apply norm_coord_nonneg, twidth_nonneg).
  destruct q; try contradiction; cbn [m_get spec_get meets promises_copy expands]; rewrite ?ncols_abs.
  - (* get_columns *)
    destruct range as [[x z]|]; unfold m_get_columns, m_traverse_columns; cbn [andb].
    + fold (nx x t). fold (nx z t).
      pose proof (traverse_columns_meets true true (Some (nx x t)) (Some (nx z t)) (cols t) Hwc) as H.
      unfold lo, hi in H. rewrite Z.max_r in H by apply Hnx. exact H.
    + exact (traverse_columns_meets true true None None (cols t) Hwc).
  - unfold m_traverse_columns. cbn [andb]. exact (traverse_columns_meets true true s e (cols t) Hwc).
Qed.
