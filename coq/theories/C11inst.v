(* The generated TEXT_CONTENT table meets the hypothesis of the pretty_indent theorems; witnesses for the pinned code. *)
From Coq Require Import List ZArith Bool Arith.
Import ListNotations.
Require Import WS PrettyTree PrettyTreeproof Gen_TextContent.
Require Import Package Pkgproof Pkgproof5 PkgStepWF4 PkgHistproof.

Definition crefill (a b : nat) (s : str) : str := s.

(* paragraphs, headings and the inline containers are in TEXT_CONTENT: a finite obligation on the generated table *)
Lemma gen_textual_ok : forall t, is_ph t || inline t = true -> textual t = true.
Proof.
  assert (H : forallb textual [T_P; T_H; T_SPAN; T_A; T_META; T_METAFIELD] = true) by (vm_compute; reflexivity).
  intros t Ht. rewrite forallb_forall in H. apply H.
  unfold is_ph, inline in Ht. repeat (apply orb_true_iff in Ht as [Ht|Ht]); apply Z.eqb_eq in Ht; subst; cbn; tauto.
Qed.

Lemma gen_pretty_text : forall root, readable_ws (pretty textual crefill true root) = readable_ws root.
Proof. exact (pretty_text_fixed textual crefill gen_textual_ok). Qed.

Lemma gen_pretty_skeleton : forall fx root, skeleton (pretty textual crefill fx root) = skeleton root.
Proof. exact (pretty_skeleton textual crefill). Qed.

(* F15: <text:p>a<text:s/><text:span>b</text:span></text:p> under an office:text root (tag 10000) *)
Definition f15_witness : node :=
  Node 10000%Z 0 0 [] [Node T_P 0 0 [Ch 1] [Node T_S 1 0 [] [] []; Node T_SPAN 0 0 [Ch 2] [] []] []] [].
Lemma gen_pretty_text_pinned_refuted : exists root, readable_ws (pretty textual crefill false root) <> readable_ws root.
Proof. exists f15_witness. vm_compute. discriminate. Qed.
Lemma f15_witness_reads : readable_ws f15_witness = [[Ch 1; Sp; Ch 2]]
                          /\ readable_ws (pretty textual crefill false f15_witness) = [[Ch 1; Sp; Sp; Ch 2]]
                          /\ readable_ws (pretty textual crefill true f15_witness) = [[Ch 1; Sp; Ch 2]].
Proof. vm_compute. repeat split. Qed.

(* the package state machine with XML parts = PrettyTree trees and pretty = the repaired pretty_indent of this run's table:
   a pretty save (zip or folder) followed by re-opening gives back, for every part, the element structure and every attribute —
   the hypothesis [mask (pretty x) = mask x] of C03_roundtrip is discharged by C11_pretty_attrs_skeleton, for [mask = skeleton] *)
Lemma pretty_roundtrip_skeleton : forall (bytes kid : Type) (ser : node -> bytes) (par : bytes -> node) (stamp : node -> node)
    (entries : node -> mentries) (with_entries : mentries -> node -> node) (kids : node -> list kid) (mime : bytes -> mtype)
    (mime_bytes : mtype -> bytes) (rdf0 : bytes),
  (forall x, par (ser x) = x) ->
  forall (s0 : fsys bytes kid * document node bytes) os, SInv node bytes kid s0 ->
  let s := run node bytes kid ser par (pretty textual crefill true) stamp entries with_entries kids mime mime_bytes rdf0 FIXED s0 os in
  forall t pk pty fs' d' c, pk <> PXml ->
  d_save node bytes kid ser par (pretty textual crefill true) stamp entries kids mime rdf0 FIXED (fst s) (snd s) t pk pty = (fs', d', true) ->
  c_open bytes kid fs' (tgt_id t) false = Some c ->
  forall n, view node bytes kid par node skeleton fs' (mkD c []) n = view node bytes kid par node skeleton (fst s) d' n.
Proof.
  intros bytes kid ser par stamp entries with_entries kids mime mime_bytes rdf0 Hps s0 os I s t pk pty fs' d' c Hpk Hs Ho n.
  apply (roundtrip_reachable node bytes kid ser par (pretty textual crefill true) stamp entries with_entries kids mime mime_bytes rdf0 node skeleton Hps s0 os I t pk pty fs' d' c Hpk); [|exact Hs|exact Ho].
  intros _ x. apply gen_pretty_skeleton.
Qed.

(* ... and for the whole projection of C11: structure, attributes and the ODF reading of every paragraph and heading *)
Definition reading (t : node) : node * list str := (skeleton t, readable_ws t).
Lemma reading_pretty : forall t, reading (pretty textual crefill true t) = reading t.
Proof. intros t. unfold reading. rewrite gen_pretty_skeleton, gen_pretty_text. reflexivity. Qed.

Lemma pretty_roundtrip_reading : forall (bytes kid : Type) (ser : node -> bytes) (par : bytes -> node) (stamp : node -> node)
    (entries : node -> mentries) (with_entries : mentries -> node -> node) (kids : node -> list kid) (mime : bytes -> mtype)
    (mime_bytes : mtype -> bytes) (rdf0 : bytes),
  (forall x, par (ser x) = x) ->
  forall (s0 : fsys bytes kid * document node bytes) os, SInv node bytes kid s0 ->
  let s := run node bytes kid ser par (pretty textual crefill true) stamp entries with_entries kids mime mime_bytes rdf0 FIXED s0 os in
  forall t pk pty fs' d' c, pk <> PXml ->
  d_save node bytes kid ser par (pretty textual crefill true) stamp entries kids mime rdf0 FIXED (fst s) (snd s) t pk pty = (fs', d', true) ->
  c_open bytes kid fs' (tgt_id t) false = Some c ->
  forall n, view node bytes kid par (node * list str) reading fs' (mkD c []) n = view node bytes kid par (node * list str) reading (fst s) d' n.
Proof.
  intros bytes kid ser par stamp entries with_entries kids mime mime_bytes rdf0 Hps s0 os I s t pk pty fs' d' c Hpk Hs Ho n.
  apply (roundtrip_reachable node bytes kid ser par (pretty textual crefill true) stamp entries with_entries kids mime mime_bytes rdf0 (node * list str)%type reading Hps s0 os I t pk pty fs' d' c Hpk); [|exact Hs|exact Ho].
  intros _ x. apply reading_pretty.
Qed.
