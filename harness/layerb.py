"""Layer-B machinery shared by C02, C08 and the table half of C10 (builds on tablelib.py).

* private state by name: _tmap, _cmap, every cached Row wrapper of Table._indexes['_tmap'] with the position of its
  lxml element among the table's rows (found by an independent lxml walk, by identity), its own _rmap and its cell
  cache (key, position of the cached cell's element in that row); Table._indexes['_cmap'] likewise;
* the read alphabet `bread` of coq/theories/TableB.v: the reads of C01 plus object-returning reads (get_row, get_cell with
  the repeat kept, traverse, get_column, columns), executed on the live table or on any twin;
* Runner: one history on the real implementation, the table living inside a Document; per step it records the raw XML,
  the private state, the same call on a fresh parse of the pre-state, the observation reads on the live object and on a
  fresh parse of the post-state, optionally Document.save -> reopen;
* Coq term printers for TableBchk.v.
A case is JSON: {"kind", "init_xml", "steps": [{"op": [...]} | {"read": [...]}, + "obs": [...], "reload": bool]}."""
import io, json, random, sys
from pathlib import Path
from lxml import etree

sys.path.insert(0, str(Path(__file__).resolve().parent))
import common
import tablelib as tl
import tablegrp as tg

T = tl.T
CELL_TAGS = (T + 'table-cell', T + 'covered-table-cell')


# ------------------------------------------------------------------ private state (by name; positions by identity)

def _el(w):
    return getattr(w, '_Element__element', None) if w is not None else None


def _pos(el, siblings):
    if el is None:
        return -1
    for i, s in enumerate(siblings):
        if s is el:
            return i
    return -1


def dump(table):
    """(tmap, cmap, [(key, pos, rmap, [(cell key, cell pos)])], [(column key, pos)])"""
    te = _el(table)
    # the rows / columns odfdo sees: direct children and children of the four wrapper elements, in document order
    vis = []
    for ch in te:
        vis += list(ch) if ch.tag in tg.WRAP else [ch]
    rows_el = [ch for ch in vis if ch.tag == T + 'table-row']
    cols_el = [ch for ch in vis if ch.tag == T + 'table-column']
    tm = list(getattr(table, '_tmap')); cm = list(getattr(table, '_cmap'))
    ind = getattr(table, '_indexes')
    tc = []
    for key, w in sorted(ind.get('_tmap', {}).items()):
        we = _el(w)
        rmap = list(getattr(w, '_rmap', [])) if w is not None else []
        cells_el = [c for c in we if c.tag in CELL_TAGS] if we is not None else []
        ck = []
        if w is not None:
            for k, cw in sorted(getattr(w, '_indexes', {}).get('_rmap', {}).items()):
                ck.append((k, _pos(_el(cw), cells_el)))
        tc.append((key, _pos(we, rows_el), rmap, ck))
    cc = [(k, _pos(_el(cw), cols_el)) for k, cw in sorted(ind.get('_cmap', {}).items())]
    return tm, cm, tc, cc


def c_kz(l):
    return '[' + ';'.join('(%d%%nat,(%d))' % (k, p) for k, p in l) + ']'


def c_dump(d):
    tm, cm, tc, cc = d
    return 'CD %s %s [%s] %s' % (tl.c_zlist(tm), tl.c_zlist(cm), ';'.join(
        '(%d%%nat,{| w_pos := (%d); w_rmap := %s; w_cells := %s |})' % (k, p, tl.c_zlist(rm), c_kz(ck)) for k, p, rm, ck in tc), c_kz(cc))


# ------------------------------------------------------------------ the read alphabet

TQ = ('size', 'get_value', 'row_values', 'values', 'column_values', 'row_width', 'get_cell', 'area')


def c_tq(q):
    k = q[0]
    if k == 'size': return 'QSize'
    if k == 'get_value': return 'QGetValue (%d) (%d)' % (q[1], q[2])
    if k == 'row_values': return 'QRowValues (%d)' % q[1]
    if k == 'values': return 'QValues'
    if k == 'column_values': return 'QColumnValues (%d)' % q[1]
    if k == 'row_width': return 'QRowWidth (%d)' % q[1]
    if k == 'get_cell': return 'QGetCell (%d) (%d)' % (q[1], q[2])
    if k == 'area': return 'QArea (%d) (%d) (%d) (%d)' % (q[1], q[2], q[3], q[4])
    raise ValueError(k)


def c_tans(q, a):
    k = q[0]
    if k == 'size': return 'ASize (%d) (%d)' % tuple(a)
    if k == 'get_value': return 'AValue (%d)' % a
    if k in ('row_values', 'column_values'): return 'AList %s' % tl.c_zlist(a)
    if k in ('values', 'area'): return 'AMatrix [%s]' % ';'.join(tl.c_zlist(r) for r in a)
    if k == 'row_width': return 'ASize (%d) 0' % a
    if k == 'get_cell': return 'ACell (%d,%d)' % (a[0], a[1])
    raise ValueError(k)


def c_b(b):
    return 'true' if b else 'false'


def c_bread(q):
    k = q[0]
    if k in TQ: return 'RQ (%s)' % c_tq(q)
    if k == 'get_row': return 'RGetRow (%d) %s' % (q[1], c_b(q[2]))
    if k == 'get_cellk': return 'RGetCellK (%d) (%d) %s' % (q[1], q[2], c_b(q[3]))
    if k == 'traverse': return 'RTraverse'
    if k == 'get_column': return 'RGetColumn (%d)' % q[1]
    if k == 'columns': return 'RColumns'
    raise ValueError(k)


def c_bans(q, a):
    if a is None:
        return 'BFail'
    k = q[0]
    if k in TQ: return 'BAns (%s)' % c_tans(q, a)
    if k == 'get_row': return 'BARow (%d%%nat,%s)' % (a[0], tl.c_rowx(a[1]))
    if k == 'get_cellk': return 'BACell %s' % tl.c_cellrun(a)
    if k == 'traverse': return 'BARows [%s]' % ';'.join(tl.c_rowx(r) for r in a)
    if k == 'get_column': return 'BACol (%d%%nat,%d)' % (a[0], a[1])
    if k == 'columns': return 'BACols %s' % tl.c_zlist(a)
    raise ValueError(k)


def c_lop(l):
    rep = l[-1] or 0
    if l[0] == 'row_rep': return 'LRowRep (%d) %d%%nat' % (l[1], rep)
    return 'LCellRep (%d) (%d) %d%%nat' % (l[1], l[2], rep)


def g_live(rng, nodes):
    cols, rows = tl.shape_of(nodes)
    y = tl.pick_pos(rng, [r for r, _ in rows]); x = tl.pick_pos(rng, [r for r, _ in cols])
    rep = rng.choice([None, 1, 2, 2, 3, 3, 4])
    k = rng.choice(['row_rep', 'row_rep', 'cell_rep', 'cell_rep', 'row_append', 'row_set', 'row_insert', 'row_delete'])
    if k == 'row_rep': return [k, y, rep]
    if k == 'cell_rep': return [k, x, y, rep]
    if k == 'row_append': return [k, y, tl.g_cellspec(rng)]
    if k in ('row_set', 'row_insert'): return [k, y, x, tl.g_cellspec(rng)]
    return [k, y, x]


def g_opaque(rng, nodes):
    cols, rows = tl.shape_of(nodes)
    y = tl.pick_pos(rng, [r for r, _ in rows], allow_neg=False); x = tl.pick_pos(rng, [r for r, _ in cols], allow_neg=False)
    k = rng.choice(['rstrip', 'optimize_width', 'transpose', 'row_rstrip', 'row_rstrip', 'set_span', 'set_span', 'del_span', 'live_col'])
    if k == 'rstrip': return [k, rng.random() < 0.5]
    if k in ('optimize_width', 'transpose'): return [k]
    if k == 'row_rstrip': return [k, y, rng.random() < 0.3]
    if k == 'set_span':
        x2 = tl.pick_pos(rng, [r for r, _ in cols], allow_neg=False); y2 = tl.pick_pos(rng, [r for r, _ in rows], allow_neg=False)
        return [k, [min(x, x2), min(y, y2), min(max(x, x2), x + 3), min(max(y, y2), y + 3)], rng.random() < 0.3]
    if k == 'del_span': return [k, x, y]
    if k == 'live_col': return [k, rng.choice([1, 1, 2]), rng.choice([None, 'cs']), rng.choice([None, 1, 2, 3])]
    if k == 'row_append': return [k, y, tl.g_cellspec(rng)]
    if k in ('row_set', 'row_insert'): return [k, y, x, tl.g_cellspec(rng)]
    return [k, y, x]


def c_reads(l):
    return '[' + ';'.join('(%s, %s)' % (c_bread(q), c_bans(q, a)) for q, a in l) + ']'


READ_KINDS = ['get_row', 'get_row', 'get_cellk', 'get_cellk', 'traverse', 'get_column', 'columns', 'get_value', 'row_values', 'get_cell']


def g_fill_read(rng, nodes):
    """a cache-filling read drawn around the run boundaries of the current state"""
    cols, rows = tl.shape_of(nodes)
    y = tl.pick_pos(rng, [r for r, _ in rows]); x = tl.pick_pos(rng, [r for r, _ in cols])
    k = rng.choice(READ_KINDS)
    if k == 'get_row': return [k, y, rng.random() < 0.5]
    if k == 'get_cellk': return [k, x, y, rng.random() < 0.5]
    if k == 'traverse': return [k]
    if k == 'get_column': return [k, x]
    if k == 'columns': return [k]
    if k == 'get_value': return [k, x, y]
    if k == 'row_values': return [k, y]
    return ['get_cell', x, y]


def g_obs(rng, nodes):
    """observation reads after a step: size, values, rows, columns, and addressed reads around the run boundaries"""
    cols, rows = tl.shape_of(nodes)
    py = lambda: tl.pick_pos(rng, [r for r, _ in rows]); px = lambda: tl.pick_pos(rng, [r for r, _ in cols])
    qs = [['size'], ['values'], ['traverse'], ['columns']]
    qs.append(['get_value', px(), py()])
    qs.append(['get_cell', px(), py()])
    qs.append(['row_values', py()])
    qs.append(['get_row', py(), rng.random() < 0.5])
    qs.append(['get_cellk', px(), py(), rng.random() < 0.5])
    if rng.random() < 0.5: qs.append(['column_values', px()])
    if rng.random() < 0.5: qs.append(['row_width', py()])
    if rng.random() < 0.5: qs.append(['get_column', px()])
    if rng.random() < 0.6: qs.append(['area', px(), py(), px(), py()])
    rng.shuffle(qs)
    return qs


# ------------------------------------------------------------------ the runner

class Runner(tl.Driver):
    """one history on the real implementation; the table lives inside a spreadsheet Document"""

    def __init__(self, odfdo, init_xml, in_document=True, wrapped=False):
        self.wrapped = wrapped          # the table holds header-rows / rows / columns wrappers or groups: judged on the VISIBLE table
        self.groups = {}
        super().__init__(odfdo, init_xml)
        self.doc = None
        if in_document:
            self.doc = odfdo.Document('spreadsheet')
            self.doc.body.clear()
            self.doc.body.append(self.table)
        self.records, self.terms = [], []
        self.pre_dump = dump(self.table)
        self.obs_gen = None          # generation: draws the observation reads on the shape AFTER the step

    def abs_of(self, xml):
        if self.wrapped:
            return tg.flat(tg.abs_xml2(xml, self.intern, self.groups))
        return tl.abs_xml(xml, self.intern)

    def abs(self):
        return self.abs_of(tl.timed(self.table.serialize))

    def on(self, table):
        """temporarily direct the inherited apply/read to another table object"""
        runner = self

        class _Ctx:
            def __enter__(self):
                self.saved = runner.table; runner.table = table

            def __exit__(self, *a):
                runner.table = self.saved
        return _Ctx()

    def fresh_of(self, table):
        return tl.timed(self.odfdo.Element.from_tag, tl.timed(table.serialize))

    def read_b(self, q, table):
        """perform one read of the alphabet on `table`; JSON-able answer"""
        k = q[0]
        if k in TQ:
            with self.on(table):
                return self.read(q)
        if k == 'get_row':
            return list(self.a_row(tl.timed(table.get_row, q[1], clone=q[2])))
        if k == 'get_cellk':
            return list(self.a_cell(tl.timed(table.get_cell, (q[1], q[2]), clone=q[3])))
        if k == 'traverse':
            return [self.a_row(r)[1] for r in tl.timed(lambda: list(table.traverse()))]
        if k == 'get_column':
            return list(self.a_col(tl.timed(table.get_column, q[1])))
        if k == 'columns':
            return [self.a_col(c)[1] for c in tl.timed(lambda: list(table.columns))]
        raise KeyError(k)

    def apply_live(self, l, table):
        """the `repeated` setter of a LIVE row / cell obtained with clone=False; returns None or repr of the exception"""
        try:
            if l[0] in ('row_append', 'row_set', 'row_insert', 'row_delete'):
                # the Row API through a live row handle
                row = tl.timed(table.get_row, l[1], clone=False)
                if l[0] == 'row_append': tl.timed(row.append_cell, tl.mk_cell(self.odfdo, l[2]))
                elif l[0] == 'row_set': tl.timed(row.set_cell, l[2], tl.mk_cell(self.odfdo, l[3]))
                elif l[0] == 'row_insert': tl.timed(row.insert_cell, l[2], tl.mk_cell(self.odfdo, l[3]))
                else: tl.timed(row.delete_cell, l[2])
                return None
            if l[0] == 'row_rep':
                obj = tl.timed(table.get_row, l[1], clone=False)
            else:
                obj = tl.timed(table.get_cell, (l[1], l[2]), clone=False)

            def setit():
                obj.repeated = l[-1]
            tl.timed(setit)
            return None
        except Exception as e:
            return repr(e)

    def apply_opaque(self, o, table):
        """operations outside the modelled alphabet: judged by coherence, fresh-parse equality and the twin only"""
        od = self.odfdo
        try:
            k = o[0]
            if k == 'rstrip': tl.timed(table.rstrip, aggressive=o[1])
            elif k == 'optimize_width': tl.timed(table.optimize_width)
            elif k == 'transpose': tl.timed(table.transpose)
            elif k == 'row_rstrip': tl.timed(tl.timed(table.get_row, o[1], clone=False).rstrip, aggressive=o[2])
            elif k == 'set_span': self.last_ret = tl.timed(table.set_span, tuple(o[1]), merge=o[2])
            elif k == 'del_span': self.last_ret = tl.timed(table.del_span, (o[1], o[2]))
            elif k == 'live_col':
                c = tl.timed(table.append_column, tl.mk_column(od, o[1], o[2]))

                def setrep():
                    c.repeated = o[3]
                tl.timed(setrep)
            elif k == 'row_append': tl.timed(tl.timed(table.get_row, o[1], clone=False).append_cell, tl.mk_cell(od, o[2]))
            elif k == 'row_set': tl.timed(tl.timed(table.get_row, o[1], clone=False).set_cell, o[2], tl.mk_cell(od, o[3]))
            elif k == 'row_insert': tl.timed(tl.timed(table.get_row, o[1], clone=False).insert_cell, o[2], tl.mk_cell(od, o[3]))
            elif k == 'row_delete': tl.timed(tl.timed(table.get_row, o[1], clone=False).delete_cell, o[2])
            else: raise KeyError(k)
            return None
        except KeyError:
            raise
        except Exception as e:
            return repr(e)

    def c_lop(self, l):
        k = l[0]
        cell = lambda spec: tl.c_cellrun(self.a_cell(tl.mk_cell(self.odfdo, spec)))
        if k == 'row_append': return 'LRowOp (%d) (RApp %s)' % (l[1], cell(l[2]))
        if k == 'row_set': return 'LRowOp (%d) (RSet (%d) %s)' % (l[1], l[2], cell(l[3]))
        if k == 'row_insert': return 'LRowOp (%d) (RIns (%d) %s)' % (l[1], l[2], cell(l[3]))
        if k == 'row_delete': return 'LRowOp (%d) (RDel (%d))' % (l[1], l[2])
        return c_lop(l)

    def try_read(self, q, table):
        try:
            return self.read_b(q, table), None
        except Exception as e:
            return None, repr(e)

    def reload(self):
        buf = io.BytesIO()
        tl.timed(self.doc.save, buf, pretty=False)
        doc2 = tl.timed(self.odfdo.Document, io.BytesIO(buf.getvalue()))
        tabs = doc2.body.get_elements('descendant::table:table')
        if len(tabs) != 1:
            raise ValueError('reloaded document holds %d tables' % len(tabs))
        return tabs[0]

    def step(self, st):
        """st = {"op": [...]} | {"read": [...]}, "obs": [...], "reload": bool.  Performs and records the step."""
        t = self.table
        pre_nodes = self.nodes_now if hasattr(self, 'nodes_now') else self.init_nodes
        twin = self.fresh_of(t)
        out = tout = None
        if 'op' in st:
            a, raised = self.apply(st['op'])
            with self.on(twin):
                a2, traised = self.apply(st['op'])
            coq_op = 'CModel (BMut (%s))' % tl.c_op(a)
        elif 'opaque' in st:
            k_ = st['opaque'][0]
            span = None
            if k_ == 'del_span':
                # the span carried by the addressed cell of the pre-state (read on a fresh parse: no cache of the live table is touched)
                try:
                    c0 = self.fresh_of(t).get_cell((st['opaque'][1], st['opaque'][2]))
                    span = (c0.get_attribute_integer('table:number-columns-spanned'), c0.get_attribute_integer('table:number-rows-spanned'))
                except Exception:
                    span = None
            self.last_ret = None
            raised = self.apply_opaque(st['opaque'], t)
            ret = self.last_ret
            traised = self.apply_opaque(st['opaque'], twin)
            tret = self.last_ret
            coq_op = 'COpaque'
            if not raised and k_ in ('set_span', 'del_span'):
                st['returned'] = ret
                if ret != tret:
                    raised = 'returned %r, the same call on a fresh parse of the table returned %r' % (ret, tret); traised = None
            if not raised:
                if k_ == 'set_span' and isinstance(ret, bool):
                    coq_op = 'CSetSpan (%d) (%d) (%d) (%d) %s' % (tuple(st['opaque'][1]) + (c_b(ret),))
                elif k_ == 'del_span' and isinstance(ret, bool) and span is not None:
                    coq_op = 'CDelSpan (%d) (%d) (%d) (%d) %s' % (st['opaque'][1], st['opaque'][2], span[0] or 0, span[1] or 0, c_b(ret))
                if k_ in ('rstrip', 'optimize_width', 'transpose'): coq_op = 'CXform'
                elif k_ == 'row_rstrip' and not st['opaque'][2]: coq_op = 'CRowRstrip (%d)' % st['opaque'][1]
                elif k_ == 'live_col': coq_op = 'CLiveCol %d%%nat' % (st['opaque'][3] or 0)
            a = None
        elif 'live' in st:
            raised = self.apply_live(st['live'], t)
            traised = self.apply_live(st['live'], twin)
            coq_op = 'CModel (BLive (%s))' % self.c_lop(st['live'])
            a = None
        else:
            out, raised = self.try_read(st['read'], t)
            tout, traised = self.try_read(st['read'], twin)
            coq_op = 'CModel (BRead (%s))' % c_bread(st['read'])
            a = None
        if self.wrapped:
            coq_op = 'COpaque'      # no model step on tables with wrappers / groups: coherence, twin, fresh parse, expansion, reload
        post = self.abs()
        postd = dump(t)
        twin_nodes = self.abs_of(tl.timed(twin.serialize))
        live, fresh = [], []
        obs_error = None
        if 'obs' not in st:
            st['obs'] = self.obs_gen(post) if self.obs_gen else []
        if not raised:
            f2 = self.fresh_of(t)
            for q in st.get('obs', []):
                al, el = self.try_read(q, t)
                af, ef = self.try_read(q, f2)
                live.append((q, al)); fresh.append((q, af))
                if el or ef:
                    obs_error = obs_error or 'read %r: live %s / fresh %s' % (q, el, ef)
        afterd = dump(t)
        after_nodes = self.abs()
        rel = None
        if st.get('reload') and not raised and self.doc is not None:
            t2 = self.reload()
            rel_nodes = self.abs_of(tl.timed(t2.serialize))
            rl = [(q, self.try_read(q, t2)[0]) for q in st.get('obs', [])]
            rel = (rel_nodes, rl)
        rec = dict(step=st, abstract_op=a, raised=raised, twin_raised=traised, pre=pre_nodes, post=post, post_after_reads=after_nodes,
                   twin=twin_nodes, postd=postd, afterd=afterd, out=out, twin_out=tout, live=live, fresh=fresh, obs_error=obs_error,
                   reload=rel)
        self.records.append(rec)
        q0 = st.get('read')
        self.terms.append('S2 (%s)\n  %s\n  (%s) %s (%s)\n  %s %s (%s)\n  %s\n  %s\n  (%s)\n  (%s)' % (
            coq_op, tl.c_xtable(post), c_dump(postd), c_b(bool(raised)), c_bans(q0, out) if q0 else 'BFail',
            tl.c_xtable(twin_nodes), c_b(bool(traised)), c_bans(q0, tout) if q0 else 'BFail',
            c_reads(live), c_reads(fresh), c_dump(afterd),
            'None' if rel is None else 'Some (%s, %s)' % (tl.c_xtable(rel[0]), c_reads(rel[1]))))
        self.nodes_now = after_nodes
        return rec

    def term(self):
        return '(mkc2 [%s] %s (%s)\n [%s])' % (';'.join('(%d,%d)' % p for p in self.vtab()), tl.c_xtable(self.init_nodes),
                                                c_dump(self.pre_dump), ';\n '.join(self.terms))


HEADER = ('Require Import Vault Row Table Grid Tableabs Tablexml Tablechk TableB TableBabs TableBchk.\n'
          'From Coq Require Import List ZArith NArith Bool Arith. Import ListNotations. Open Scope Z_scope.\n'
          'Inductive stepobs2 := S2 (o : cop) (post : xtable) (postd : cdump) (raised : bool) (out : bans)\n'
          '   (twin : xtable) (traised : bool) (tout : bans) (live fresh : list (bread * bans)) (afterd : cdump)\n'
          '   (reload : option (xtable * list (bread * bans))).\n'
          '(* first hard code of a history as 100*(step+1)+code; 8 / 9 if only a note-level code occurred; 0 otherwise *)\n'
          'Fixpoint chk_hist2 (vcl : Z -> Z) (pre : xtable) (pred : cdump) (i note : nat) (l : list stepobs2) : nat :=\n'
          '  match l with [] => note | S2 o post postd ra out tw tra tout live fresh afterd rel :: r =>\n'
          '    match chk_c02 vcl (Obs2 pre pred o post postd ra out tw tra tout live fresh afterd rel) with\n'
          '    | O => chk_hist2 vcl post afterd (S i) note r\n'
          '    | 9%nat => chk_hist2 vcl post afterd (S i) (Nat.max note 9) r\n'
          '    | 8%nat => chk_hist2 vcl post afterd (S i) (Nat.max note 8) r\n'
          '    | k => (100 * (S i) + k)%nat end end.\n'
          'Definition mkc2 (tab : list (Z * Z)) (init : xtable) (d : cdump) (l : list stepobs2) := (tab, init, d, l).\n'
          'Definition chk02 (c : list (Z * Z) * xtable * cdump * list stepobs2) : nat :=\n'
          '  let \'(tab, init, d, l) := c in chk_hist2 (vcl_of tab) init d 0 0 l.\n')


def run_shards_retry(header, terms, checker, tag, shard):
    """common.run_shards, and once more (smaller shards) for the shards whose coqc was killed or timed out (rc 137 / 124: a loaded
    machine must not produce an alarm; a genuine Coq error still does)"""
    import re
    bad, errors = common.run_shards(header, terms, checker, tag, shard=shard)
    lost = [int(m.group(1)) for e in errors for m in [re.match(r'Cases_(\d+): rc=(137|124|-9)\b', e)] if m]
    if not lost:
        return bad, errors
    errors = [e for e in errors if not re.match(r'Cases_(\d+): rc=(137|124|-9)\b', e)]
    for k in lost:
        sub = terms[k * shard:(k + 1) * shard]
        b2, e2 = common.run_shards(header, sub, checker, tag + 'r', shard=max(1, shard // 6))
        for i, c in b2.items():
            bad[k * shard + i] = c
        errors += e2
    return bad, errors


def run_case_once(odfdo, case):
    try:
        r = Runner(odfdo, case['init_xml'], wrapped=(case.get('kind') == 'wrapped'))
    except Exception as e:
        return dict(term=None, error='initial table: %r' % (e,), records=[])
    try:
        for st in case['steps']:
            rec = r.step(st)
            if rec['raised']:
                break
    except Exception as e:
        return dict(term=None, error='abstraction: %r' % (e,), records=r.records)
    return dict(term=r.term(), error=None, records=r.records, init=r.init_nodes)


def _timed_out(res):
    return any('CallTimeout' in str(x.get('raised')) or 'CallTimeout' in str(x.get('twin_raised')) or 'CallTimeout' in str(x.get('obs_error'))
               for x in res.get('records', [])) or 'CallTimeout' in str(res.get('error'))


def run_case(odfdo, case):
    """a call that hits the alarm is retried once, whole case, with a ten times longer alarm"""
    res = run_case_once(odfdo, case)
    if _timed_out(res):
        saved = tl.CALL_TIMEOUT
        tl.CALL_TIMEOUT = saved * 10
        try:
            res = run_case_once(odfdo, case)
        finally:
            tl.CALL_TIMEOUT = saved
    return res


def init_xml_of(odfdo, rng, kind, maxw, maxh):
    if kind == 'empty':
        return '<table:table table:name="t"/>'
    if kind == 'prefilled':
        return odfdo.Table('t', width=rng.randint(1, 4), height=rng.randint(1, 4)).serialize()
    if kind == 'rle':
        return tl.g_rle_table(rng, maxw, maxh)
    if kind == 'wrapped':
        return tg.g_wrapped_table(rng, maxw, maxh)
    if kind == 'xf':
        import tablexf      # tables that end with empty / repeated empty row elements and trailing empty cells: something for rstrip / optimize_width to lose (or just not)
        return tablexf.g_xf_table(rng, maxw, maxh)
    s = tl.sample_tables()
    return s[rng.randrange(len(s))][1] if s else '<table:table table:name="t"/>'


def gen_case(odfdo, seed, kind, nsteps, kinds=tl.OPS_CORE, maxw=8, maxh=8, reload_every=3, p_read=0.5, p_live=0.14, p_opaque=0.1):
    """state-dependent generation and execution in one pass: before each mutation, with probability p_read, one or two
    cache-filling reads (get_row / get_cell with clone true or false, traverse, get_column, columns, get_value, ...);
    positions around the run boundaries of the CURRENT state.  Returns (case JSON, result)."""
    rng = random.Random(seed)
    init = init_xml_of(odfdo, rng, kind, maxw, maxh)
    case = dict(kind=kind, init_xml=init, steps=[])
    try:
        r = Runner(odfdo, init, wrapped=(kind == 'wrapped'))
    except Exception as e:
        return case, dict(term=None, error='initial table: %r' % (e,), records=[])
    nodes = r.init_nodes
    r.obs_gen = lambda post: g_obs(rng, post)
    n = 0
    spans = []
    try:
        for _ in range(nsteps):
            todo = []
            if rng.random() < p_read:
                todo += [dict(read=g_fill_read(rng, nodes)) for _ in range(rng.choice([1, 1, 2]))]
            x_ = rng.random()
            if kind == 'xf' and rng.random() < (0.7 if _ == 0 else 0.25):
                # a whole-table transformation early in the history of a table built for them
                k_ = rng.choice(['optimize_width', 'optimize_width', 'rstrip', 'transpose'])
                todo.append(dict(opaque=[k_, rng.random() < 0.5] if k_ == 'rstrip' else [k_]))
            elif x_ < p_opaque:
                o_ = g_opaque(rng, nodes)
                if o_[0] == 'del_span' and spans and rng.random() < 0.7:
                    o_ = ['del_span'] + list(rng.choice(spans))       # a span an earlier set_span of this history has made
                todo.append(dict(opaque=o_))
            elif x_ < p_opaque + p_live:
                todo.append(dict(live=g_live(rng, nodes)))
            else:
                todo.append(dict(op=tl.g_op(rng, nodes, kinds, maxw, maxh)))
            stop = False
            for st in todo:
                n += 1
                st['reload'] = (n % reload_every == 0)
                case['steps'].append(st)
                rec = r.step(st)
                nodes = rec['post_after_reads']
                if st.get('opaque', [None])[0] == 'set_span' and st.get('returned') is True:
                    spans.append(tuple(st['opaque'][1][:2]))
                if rec['raised']:
                    stop = True; break
            if stop:
                break
    except Exception as e:
        return case, dict(term=None, error='abstraction: %r' % (e,), records=r.records)
    res = dict(term=r.term(), error=None, records=r.records, init=r.init_nodes)
    if _timed_out(res):
        res = run_case(odfdo, case)
    return case, res
