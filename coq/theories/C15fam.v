(* C15fam.v -- the read families of C15, built on the libraries of the other properties (imported, not re-modelled):

   paragraph   WS.v / Readers.v      inner_text, ODF consumer, length
   table       TableB.v (layer B)    every read of the C02/C08 alphabet [bread] THROUGH THE WRAPPER CACHES: size, get_value,
                                     get_row_values, get_values, get_column_values, row width, get_values(area), get_cell,
                                     get_row / get_cell (clone or live), traverse / rows, get_column, columns
               -- reads change the state (caches are filled); view = the XML runs [ax]; invariant [Coh]; law = TableBproof.b_read_spec
   export      any post-processing of a table read (to_csv = csv_write of get_values, str(), plain formatted text)
   tree        Tree.v                search, search_first, search_all (re abstract), count-only replace, inner_text, text_recursive
   package     Package.v             Document.get_part of an XML part (FIXED code): loads and caches, view = bytes and trees per
                                     part name, pointwise; invariant [WFd]; law = Pkgproof.d_tree_sem (C03_reads_neutral)
   styles      Styles.v              Document.get_style: a function of the style store
   headings    Toc.v                 the heading listing (odfdo-headers) and the entries a TOC would list: functions of the headings

   Each is [lawful] (ReadFam.v); so is their product [all_reads]. *)
From Coq Require Import List ZArith Bool. Import ListNotations.
Require Import ReadFam WS Readers Readersproof Vault Row Table TableB TableBabs TableBproof Tree TreeNF Package Pkgproof Styles Toc.

(* ---- paragraph ---- *)
Definition para_fam : family :=
  mkFam (list item) pop pout pstep (fun _ => True) (fun o => is_read o = true) (fun s t => s = t).
Lemma para_lawful : lawful para_fam.
Proof.
  constructor; cbn.
  - reflexivity.
  - congruence.
  - intros s r _ H. split; [exact I|]. symmetry. apply read_pure. exact H.
  - intros; subst; reflexivity.
Qed.

(* ---- table, through the caches ---- *)
Definition table_fam : family :=
  mkFam bstate bread bans b_read Coh (fun _ => True) (fun b b' => ax b = ax b').
Lemma table_lawful : lawful table_fam.
Proof.
  constructor; cbn.
  - reflexivity.
  - congruence.
  - intros b q Hc _. destruct (b_read_spec b q Hc) as (C & A & _). split; [exact C|symmetry; exact A].
  - intros b b' q Hc Hc' _ E. destruct (b_read_spec b q Hc) as (_ & _ & A). destruct (b_read_spec b' q Hc') as (_ & _ & A').
    rewrite A, A', E. reflexivity.
Qed.

(* ---- tree searches and the count-only replace ---- *)
Section TreeReads.
  Variable find : str -> option (nat * nat).         (* re.search on a string: span of the first match *)
  Variable findall : str -> list (nat * nat).        (* re.finditer *)
  Variable nfind : str -> nat.                        (* len(re.findall) *)
  Inductive tree_read := TSearch | TSearchFirst | TSearchAll | TCountOnly | TInnerText | TTextRecursive.
  Inductive tree_ans := TANat (o : option nat) | TASpan (o : option (nat * nat)) | TASpans (l : list (nat * nat)) | TACount (n : nat) | TAStr (s : str).
  Definition tree_read_ (n : node) (r : tree_read) : tree_ans :=
    match r with
    | TSearch => TANat (search_ find n)
    | TSearchFirst => TASpan (search_first_ find n)
    | TSearchAll => TASpans (search_all_ findall n)
    | TCountOnly => TACount (count_only nfind (Tree.content n))
    | TInnerText => TAStr (Tree.inner_text n)
    | TTextRecursive => TAStr (text_recursive n)
    end.
  Definition tree_fam : family := ffun node tree_read tree_ans tree_read_.
End TreeReads.

(* ---- package: get_part of an XML part ---- *)
Section PkgReads.
  Variables xml bytes kid : Type.
  Variable par : bytes -> xml.
  Variable fs : fsys bytes kid.
  Definition pkg_fam : family :=
    mkFam (document xml bytes) name (option xml) (fun d n => d_tree xml bytes kid par FIXED fs n d)
      (WFd xml bytes kid fs) (fun n => is_xml n = true)
      (fun d d' => (forall m, dB xml bytes kid fs d m = dB xml bytes kid fs d' m) /\
                   (forall m, dX xml bytes kid par fs d m = dX xml bytes kid par fs d' m)).
  Lemma pkg_lawful : lawful pkg_fam.
  Proof.
    constructor; cbn.
    - intros; split; reflexivity.
    - intros a b c [H1 H2] [H3 H4]. split; intro m; [rewrite H1; apply H3|rewrite H2; apply H4].
    - intros d n W Hx. destruct (d_tree_sem xml bytes kid par fs n d W Hx) as (_ & HB & HX & W' & _).
      split; [exact W'|]. split; intro m; symmetry; [apply HB|apply HX].
    - intros d d' n W W' Hx [_ HX]. destruct (d_tree_sem xml bytes kid par fs n d W Hx) as (A & _).
      destruct (d_tree_sem xml bytes kid par fs n d' W' Hx) as (A' & _). cbn in A, A'. rewrite A, A'. symmetry. apply HX.
  Qed.
End PkgReads.

(* ---- style lookups, heading listings: functions of the store / of the headings ---- *)
Definition styles_fam (tb : tables) : family :=    (* tb = CONTEXT_MAPPING / FAMILY_MAPPING as generated for C13 *)
  ffun store (Z * option sname) (res (option (nat * nat))) (fun st q => doc_get_style tb st (fst q) (snd q)).
Inductive head_read := HTool (depth : Z) | HEntries (outline_level : Z).
Definition head_read_ (hs : list heading) (r : head_read) : str + list entry :=
  match r with HTool d => inl (headers_tool d hs) | HEntries ol => inr (fill_loop false [] ol hs) end.
Definition head_fam : family := ffun (list heading) head_read (str + list entry) head_read_.

(* ---- all modelled reads, side by side ---- *)
Section All.
  Variable find : str -> option (nat * nat).
  Variable findall : str -> list (nat * nat).
  Variable nfind : str -> nat.
  Variables xml bytes kid X : Type.
  Variable par : bytes -> xml.
  Variable fs : fsys bytes kid.
  Variable post : bans -> X.           (* an exporter built on a table read: to_csv, str(), formatted text *)
  Variable tb : tables.

  Definition all_reads : family :=
    fprod para_fam (fprod table_fam (fprod (fpost table_fam X post) (fprod (tree_fam find findall nfind)
      (fprod (pkg_fam xml bytes kid par fs) (fprod (styles_fam tb) head_fam))))).

  Lemma all_lawful : lawful all_reads.
  Proof.
    repeat apply lawful_prod.
    - exact para_lawful. - exact table_lawful. - apply lawful_post; exact table_lawful.
    - apply lawful_fun. - apply pkg_lawful. - apply lawful_fun. - apply lawful_fun.
  Qed.
End All.

(* ---------------------------------------------------------------- the per-family statements, spelled out *)

Lemma table_reads_pure : forall (b : bstate) (q : bread), Coh b ->
  Coh (fst (b_read b q)) /\ ax (fst (b_read b q)) = ax b /\ snd (b_read (fst (b_read b q)) q) = snd (b_read b q).
Proof.
  intros b q Hc. destruct (b_read_spec b q Hc) as (C & A & _). split; [exact C|split; [exact A|]].
  destruct (family_read_pure table_fam table_lawful b q Hc I) as [_ D]. exact D.
Qed.

Lemma table_reads_any_order : forall (qs : list bread) (b : bstate), Coh b ->
  Coh (fst (frun table_fam b qs)) /\ ax (fst (frun table_fam b qs)) = ax b /\
  snd (frun table_fam b qs) = map (fun q => snd (b_read b q)) qs.
Proof.
  intros qs b Hc. destruct (family_run table_fam table_lawful qs b Hc) as (C & S & A).
  - apply Forall_forall. intros; exact I.
  - split; [exact C|split; [symmetry; exact S|exact A]].
Qed.

Lemma table_export_pure : forall (X : Type) (post : bans -> X) (b : bstate) (q : bread), Coh b ->
  let export := fun b => (fst (b_read b q), post (snd (b_read b q))) in
  ax (fst (export b)) = ax b /\ Coh (fst (export b)) /\ snd (export (fst (export b))) = snd (export b).
Proof.
  intros X post b q Hc export. unfold export. cbn [fst snd].
  destruct (table_reads_pure b q Hc) as (C & A & D). split; [exact A|split; [exact C|]]. rewrite D. reflexivity.
Qed.

Lemma tree_reads_pure : forall find findall nfind (n : node) (r : tree_read),
  let step := fstep (tree_fam find findall nfind) in
  fst (step n r) = n /\ snd (step (fst (step n r)) r) = snd (step n r).
Proof. intros. split; reflexivity. Qed.

(* ... while replace WITH a replacement is a write: some tree changes *)
Lemma tree_replace_writes : exists subn n, fst (repl subn false n) <> n.
Proof.
  exists (fun s => ([Ch 1], 1%nat)), (Node KP 0 false (Some [Ch 0]) [] None). vm_compute. discriminate.
Qed.

Lemma package_reads_pure : forall (xml bytes kid : Type) (par : bytes -> xml) (fs : fsys bytes kid) (n : name) (d : document xml bytes),
  WFd xml bytes kid fs d -> is_xml n = true ->
  let get_part := fun d => d_tree xml bytes kid par FIXED fs n d in
  (forall m, dB xml bytes kid fs (fst (get_part d)) m = dB xml bytes kid fs d m) /\
  (forall m, dX xml bytes kid par fs (fst (get_part d)) m = dX xml bytes kid par fs d m) /\
  WFd xml bytes kid fs (fst (get_part d)) /\
  snd (get_part (fst (get_part d))) = snd (get_part d).
Proof.
  intros xml bytes kid par fs n d W Hx get_part. unfold get_part.
  destruct (d_tree_sem xml bytes kid par fs n d W Hx) as (_ & HB & HX & W' & _).
  split; [exact HB|split; [exact HX|split; [exact W'|]]].
  destruct (family_read_pure (pkg_fam xml bytes kid par fs) (pkg_lawful xml bytes kid par fs) d n W Hx) as [_ D]. exact D.
Qed.

Lemma style_lookup_pure : forall tb (st : store) (f : Z) (n : option sname),
  let step := fstep (styles_fam tb) in
  fst (step st (f, n)) = st /\ snd (step st (f, n)) = doc_get_style tb st f n /\ snd (step (fst (step st (f, n))) (f, n)) = snd (step st (f, n)).
Proof. intros. repeat split; reflexivity. Qed.

Lemma heading_listing_pure : forall (hs : list heading) (r : head_read),
  let step := fstep head_fam in fst (step hs r) = hs /\ snd (step (fst (step hs r)) r) = snd (step hs r).
Proof. intros. split; reflexivity. Qed.

Lemma modelled_reads_pure : forall find findall nfind (xml bytes kid X : Type) (par : bytes -> xml) (fs : fsys bytes kid) (post : bans -> X) tb,
  let F := all_reads find findall nfind xml bytes kid X par fs post tb in
  forall (rs : list (fR F)) (s : fS F), fInv F s -> Forall (fok F) rs ->
  fInv F (fst (frun F s rs)) /\ fsame F s (fst (frun F s rs)) /\ snd (frun F s rs) = map (fun r => snd (fstep F s r)) rs.
Proof. intros. apply family_run; [apply all_lawful|assumption|assumption]. Qed.
