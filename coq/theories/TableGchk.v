(* TableGchk.v — the checker of property C08 evaluated by vm_compute on every correspondence case.  No proofs.
   One observation = one getter call on the implementation in some reached state: the raw XML before and after the read,
   every returned object with the coordinates stamped on it, the repeat attribute it carries, its content, and — after
   MUTATING it (attribute, value, `repeated`, appended cell) — whether the table's XML changed and whether any other
   returned object changed. *)
From Coq Require Import List ZArith NArith Bool Arith.
Import ListNotations.
Require Import Vault Row Table Grid Tableabs Tablexml Tablechk TableB TableG TableGspec.
Local Open Scope Z_scope.

(* an observed object: coordinates, repeat (1 = no attribute, 0 = an attribute that is not an integer >= 2), content,
   was it mutated, did the table change then, did another returned object change then *)
Inductive iobj :=
| IC (x y : option Z) (rep : nat) (v : cell) (mutated tch och : bool)
| IR (y : option Z) (rep : nat) (r : rowx) (mutated tch och : bool)
| IK (x : option Z) (rep : nat) (st : Z) (mutated tch och : bool).
Inductive ires := ICells (l : list (list iobj)) | IFlat (l : list iobj).
Inductive obs8 := Obs8 (pre : xtable) (q : getter) (raised : bool) (post : xtable) (res : ires).

Definition flags (o : iobj) : bool * bool * bool :=
  match o with IC _ _ _ _ m t c => (m, t, c) | IR _ _ _ m t c => (m, t, c) | IK _ _ _ m t c => (m, t, c) end.
Definition irep (o : iobj) : nat := match o with IC _ _ r _ _ _ _ => r | IR _ r _ _ _ _ => r | IK _ r _ _ _ _ => r end.

(* per object: 0 ok | 2 coordinates | 3 content | 4 a repeat though the read expands | 5 copy promised, the table changed
   when it was mutated | 6 copy promised, another returned object changed *)
Definition obj_code (copy exp : bool) (coord_ok content_ok : bool) (o : iobj) : nat :=
  let '(m, t, c) := flags o in
  if negb coord_ok then 2 else if negb content_ok then 3
  else if exp && negb (irep o =? 1)%nat then 4
  else if copy && m && t then 5 else if copy && m && c then 6 else 0.
Definition cell_code (copy exp : bool) (o : iobj) (s : Z * Z * cell) : nat :=
  let '(x, y, c) := s in
  match o with
  | IC ox oy _ v _ _ _ => obj_code copy exp (oz_eqb ox x && oz_eqb oy y) (cell_eqb v c) o
  | _ => 1 end.
Definition row_code (copy exp : bool) (o : iobj) (s : Z * list cell) : nat :=
  match o with
  | IR oy _ r _ _ _ => obj_code copy exp (oz_eqb oy (fst s)) (cells_eqb (expand (snd r)) (snd s)) o
  | _ => 1 end.
Definition col_code (copy exp : bool) (o : iobj) (s : Z) : nat :=
  match o with
  | IK ox _ _ _ _ _ => obj_code copy exp (oz_eqb ox s) true o
  | _ => 1 end.
Fixpoint first_code {A B} (f : A -> B -> nat) (a : list A) (b : list B) : nat :=
  match a, b with
  | [], [] => 0
  | x :: a', y :: b' => match f x y with O => first_code f a' b' | k => k end
  | _, _ => 1 end.
Definition spec_code (copy exp : bool) (r : ires) (s : sres) : nat :=
  match r, s with
  | ICells l, SCells l' => first_code (first_code (cell_code copy exp)) l l'
  | IFlat l, SRows l' => first_code (row_code copy exp) l l'
  | IFlat l, SCols l' => first_code (col_code copy exp) l l'
  | _, _ => 1 end.

(* exact agreement with the model (fidelity): repeat kept by non-expanding reads, live exactly where the model says *)
Definition live_agrees (h : handle) (o : iobj) : bool :=
  let '(m, t, _) := flags o in negb m || Bool.eqb t (negb (h_detached h)).
Definition cell_fid (o : iobj) (c : cobj) : bool :=
  match o with
  | IC ox oy rep v _ _ _ => match c_x c, c_y c with
                            | Some x, Some y => oz_eqb ox x && oz_eqb oy y | _, _ => false end
                            && (rep =? c_rep c)%nat && cell_eqb v (c_val c) && live_agrees (c_h c) o
  | _ => false end.
Definition row_fid (o : iobj) (r : robj) : bool :=
  match o with
  | IR oy rep rx _ _ _ => match r_y r with Some y => oz_eqb oy y | None => false end
                          && (rep =? r_rep r)%nat && rowx_eqb rx (r_val r) && live_agrees (r_h r) o
  | _ => false end.
Definition col_fid (o : iobj) (k : kobj) : bool :=
  match o with
  | IK ox rep st _ _ _ => match k_x k with Some x => oz_eqb ox x | None => false end
                          && (rep =? k_rep k)%nat && (st =? k_st k) && live_agrees (k_h k) o
  | _ => false end.
Definition fid (r : ires) (m : gres) : bool :=
  match r, m with
  | ICells l, GCells l' => forall2b (forall2b cell_fid) l l'
  | IFlat l, GRowsR l' => forall2b row_fid l l'
  | IFlat l, GColsR l' => forall2b col_fid l l'
  | _, _ => false end.

(* C08.  0 agree | 10 the read raised | 7 the read itself changed the table | 1 wrong number / nesting of returned objects
   | 2 an object does not carry the coordinates it was read from | 3 an object does not hold the content of its position
   | 4 an object keeps a repeat although the read expands | 5 a documented copy is live (the table changed when it was mutated)
   | 6 mutating a documented copy changed another returned object | 11 outside the fragment
   | 12 get_cells(area): only the padding cells of rows stored narrower than the area are missing (F30, known finding)
   | 8 the MODEL does not meet the as-stored specification here (a theorem instance) | 9 only the exact result differs from the model *)
Definition chk_c08 (ob : obs8) : nat :=
  let '(Obs8 pre q raised post res) := ob in
  if negb (in_fragment pre && in_fragment post) then 11%nat
  else if raised then 10%nat
  else if negb (tstate_eqb (to_tstate pre) (to_tstate post)) then 7%nat
  else
    let t := to_tstate pre in
    let m := m_get false false t q in
    match spec_code (promises_copy q) (expands q) res (spec_get true (abs_t t) q) with
    | S k =>
        (* F30, known finding: get_cells(area) — the answer is exactly the model's, meets the as-stored reading in every respect,
           and differs from the documented reading only by the padding cells of rows stored narrower than the area *)
        if is_area_get_cells q && fid res m
           && (spec_code (promises_copy q) (expands q) res (spec_get false (abs_t t) q) =? 0)%nat then 12%nat
        else S k
    | O => if negb (meets (promises_copy q) (expands q) m (spec_get false (abs_t t) q)) then 8%nat
           else if fid res m then 0%nat else 9%nat
    end.
(* the same against the model of the PINNED getters (validation of the refuted statements) *)
Definition chk_c08_pinned (ob : obs8) : nat :=
  let '(Obs8 pre q raised post res) := ob in
  if raised then 10%nat else if fid res (m_get true false (to_tstate pre) q) then 0%nat else 9%nat.
