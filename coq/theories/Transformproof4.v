(* Transformproof4.v — Table.transpose(): the model refines the grid transposition; transposing twice gives the
   rectangular closure of the original matrix; the cell at (y,x) afterwards is the cell at (x,y) before. *)
From Coq Require Import List ZArith Lia Bool Arith.
Import ListNotations.
Require Import Vault Vaultproof Row Table Grid Tableabs Tableproof Tableproof4 Transform Transformspec.
Open Scope Z_scope.

(* ---- lists ---- *)
Local Notation fm := (fun (acc : nat) (r : list cell) => Nat.max acc (length r)).
Lemma fmaxn_ge (l : list (list cell)) : forall a0, (a0 <= fold_left fm l a0)%nat.
Proof. induction l as [|x l IH]; intros a0; cbn [fold_left]; [lia|]. specialize (IH (Nat.max a0 (length x))). lia. Qed.
Lemma fmaxn_in (l : list (list cell)) r : In r l -> forall a0, (length r <= fold_left fm l a0)%nat.
Proof.
  induction l as [|x l IH]; intros Hin a0; [destruct Hin|]. cbn [fold_left]. destruct Hin as [->|Hin].
  - pose proof (fmaxn_ge l (Nat.max a0 (length r))). lia.
  - apply IH. exact Hin.
Qed.
Lemma fmaxn_const (l : list (list cell)) n : (forall r, In r l -> length r = n) -> forall a0, (a0 <= n)%nat -> l <> [] -> fold_left fm l a0 = n.
Proof.
  induction l as [|x l IH]; intros H a0 Ha Hne; [congruence|]. cbn [fold_left].
  assert (Hx : length x = n) by (apply H; left; reflexivity). rewrite Hx, Nat.max_r by exact Ha.
  destruct l as [|y l]; [reflexivity|]. apply IH; [intros; apply H; right; assumption|lia|discriminate].
Qed.
Lemma max_length_in ll r : In r ll -> (length r <= max_length ll)%nat.
Proof. intros H. apply (fmaxn_in ll r H 0%nat). Qed.

Lemma nth_map_rows (ll : list (list cell)) x y d : nth y (map (fun r => nth x r d) ll) d = nth x (nth y ll []) d.
Proof.
  revert y. induction ll as [|r ll IH]; intros y; cbn [map].
  - destruct y, x; reflexivity.
  - destruct y; [reflexivity|]. cbn [nth]. apply IH.
Qed.
Lemma map_nth_seq {A} (l : list A) d : map (fun i => nth i l d) (seq 0 (length l)) = l.
Proof.
  apply (nth_ext _ _ d d); [rewrite map_length, seq_length; reflexivity|].
  intros n Hn. rewrite map_length, seq_length in Hn.
  rewrite (nth_indep _ d (nth (length l) l d)) by (rewrite map_length, seq_length; exact Hn).
  rewrite (map_nth (fun i => nth i l d) (seq 0 (length l)) (length l) n), seq_nth by exact Hn. reflexivity.
Qed.
Lemma map_nth_seq_pad (r : list cell) L : (length r <= L)%nat -> map (fun j => nth j r empty_cell) (seq 0 L) = pad_row L r.
Proof.
  intros Hl. unfold pad_row.
  apply (nth_ext _ _ empty_cell empty_cell); [rewrite map_length, seq_length, app_length, repeat_length; lia|].
  intros n Hn. rewrite map_length, seq_length in Hn.
  rewrite (nth_indep _ empty_cell (nth L r empty_cell)) by (rewrite map_length, seq_length; exact Hn).
  rewrite (map_nth (fun j => nth j r empty_cell) (seq 0 L) L n), seq_nth by exact Hn. cbn [Nat.add].
  destruct (Nat.ltb_spec n (length r)).
  - rewrite app_nth1 by assumption. reflexivity.
  - rewrite app_nth2 by assumption. rewrite nth_overflow by assumption.
    symmetry. apply nth_repeat.
Qed.

Lemma zip_length d ll : length (zip_longest d ll) = max_length ll.
Proof. unfold zip_longest. rewrite map_length, seq_length. reflexivity. Qed.
Lemma zip_row_length d ll r : In r (zip_longest d ll) -> length r = length ll.
Proof. unfold zip_longest. intros H. apply in_map_iff in H. destruct H as (j & <- & _). apply map_length. Qed.
Lemma zip_nth d ll x : (x < max_length ll)%nat -> nth x (zip_longest d ll) [] = map (fun r => nth x r d) ll.
Proof.
  intros Hx. unfold zip_longest.
  rewrite (nth_indep _ [] ((fun j => map (fun r => nth j r d) ll) (max_length ll))) by (rewrite map_length, seq_length; exact Hx).
  rewrite (map_nth (fun j => map (fun r => nth j r d) ll) (seq 0 (max_length ll)) (max_length ll) x), seq_nth by exact Hx. reflexivity.
Qed.
Lemma max_length_zip d ll : (1 <= max_length ll)%nat -> max_length (zip_longest d ll) = length ll.
Proof.
  intros HL. unfold max_length at 1. apply fmaxn_const; [intros r Hr; eapply zip_row_length; exact Hr|lia|].
  intros E. pose proof (zip_length d ll) as Hlen. rewrite E in Hlen. cbn in Hlen. lia.
Qed.

(* the cell at (y,x) of the transposed grid is the cell at (x,y), for x below the longest row *)
Theorem g_transpose_swaps g x y : 0 <= x < Z.of_nat (max_length (grows g)) -> 0 <= y ->
  gcell y x (g_transpose g) = gcell x y g.
Proof.
  intros Hx Hy. unfold gcell, g_row, g_transpose.
  destruct (max_length (grows g)) as [|L] eqn:EL; [lia|]. cbn [grows].
  rewrite zip_nth by (rewrite EL; lia). apply nth_map_rows.
Qed.
Theorem g_transpose_shape g : (1 <= max_length (grows g))%nat ->
  ncols (g_transpose g) = gheight g /\ length (grows (g_transpose g)) = max_length (grows g) /\
  Forall (fun r => length r = length (grows g)) (grows (g_transpose g)).
Proof.
  intros HL. unfold g_transpose. destruct (max_length (grows g)) as [|L] eqn:EL; [lia|]. cbn [ncols grows].
  split; [reflexivity|]. split; [rewrite zip_length; exact EL|].
  apply Forall_forall. intros r Hr. eapply zip_row_length. exact Hr.
Qed.

Theorem g_transpose_twice g : g_transpose (g_transpose g) = rect_closure g.
Proof.
  unfold rect_closure. destruct (max_length (grows g)) as [|L] eqn:EL.
  - unfold g_transpose at 2. rewrite EL. reflexivity.
  - assert (HL : (1 <= max_length (grows g))%nat) by lia.
    assert (HH : (1 <= length (grows g))%nat).
    { destruct (grows g); [cbn in EL; discriminate|cbn; lia]. }
    assert (E1 : g_transpose g = {| ncols := gheight g; grows := zip_longest empty_cell (grows g) |})
      by (unfold g_transpose; rewrite EL; reflexivity).
    rewrite E1. unfold g_transpose. cbn [grows].
    pose proof (max_length_zip empty_cell (grows g) HL) as EM.
    destruct (max_length (zip_longest empty_cell (grows g))) as [|M] eqn:EM'; [lia|].
    f_equal.
    + unfold gheight. cbn [grows]. rewrite zip_length, EL. reflexivity.
    + unfold zip_longest at 1. rewrite EM', EM.
      replace (map (pad_row (S L)) (grows g))
        with (map (pad_row (S L)) (map (fun i => nth i (grows g) []) (seq 0 (length (grows g)))))
        by (rewrite map_nth_seq; reflexivity).
      rewrite map_map. apply map_ext_in. intros i Hi.
      unfold zip_longest. rewrite map_map, EL.
      rewrite (map_ext _ (fun j => nth j (nth i (grows g) []) empty_cell)) by (intros j; apply nth_map_rows).
      apply map_nth_seq_pad. apply in_seq in Hi. rewrite <- EL. apply max_length_in. apply nth_In. lia.
Qed.

(* ---- the model: rows appended one by one to the emptied table ---- *)
Lemma expand_unit_runs (r : list cell) : expand (unit_runs r) = r.
Proof. induction r as [|c r IH]; [reflexivity|]. cbn [unit_runs map expand repeat app]. f_equal. exact IH. Qed.
Lemma wf_unit_runs (r : list cell) : wf (unit_runs r).
Proof. unfold wf, unit_runs. rewrite Forall_map. apply Forall_forall. intros; cbn; lia. Qed.

Lemma build_rows_spec rs : forall t0 H, WF t0 -> (1 <= H) -> twidth t0 = H -> (forall r, In r rs -> Z.of_nat (length r) = H) ->
  abs_t (build_rows rs t0) = {| ncols := H; grows := grows (abs_t t0) ++ rs |} /\ WF (build_rows rs t0).
Proof.
  induction rs as [|r rs IH]; intros t0 H Hwf HH Hw Hall.
  - cbn [build_rows fold_left]. rewrite app_nil_r. split; [|exact Hwf]. unfold abs_t at 1. cbn [ncols grows]. rewrite Hw. reflexivity.
  - unfold build_rows. cbn [fold_left]. fold (build_rows rs (append_row 1 (0, unit_runs r) t0)).
    destruct Hwf as [Htw Hcw].
    destruct (append_row_refines 1 (0, unit_runs r) t0 Htw (le_n 1)) as [Habs Htw'].
    assert (Hcw' : cwf (append_row 1 (0, unit_runs r) t0)) by (apply append_row_cwf; [assumption|assumption|apply wf_unit_runs|lia]).
    assert (Hlen : Z.of_nat (length r) = H) by (apply Hall; left; reflexivity).
    unfold grow_of in Habs. cbn [snd] in Habs. rewrite expand_unit_runs in Habs.
    assert (Hn : ncols (abs_t (append_row 1 (0, unit_runs r) t0)) = H).
    { rewrite Habs. unfold g_append_row, g_declare. cbn [ncols]. change (ncols (abs_t t0)) with (twidth t0). rewrite Hw, Hlen.
      destruct (Z.eqb_spec H 0); lia. }
    destruct (IH (append_row 1 (0, unit_runs r) t0) H (conj Htw' Hcw') HH Hn) as [IH1 IH2]; [intros; apply Hall; right; assumption|].
    split; [|exact IH2]. rewrite IH1, Habs. unfold g_append_row, g_declare. cbn [grows repeat]. rewrite <- app_assoc. reflexivity.
Qed.

Theorem transpose_refines t : WF t -> abs_t (t_transpose t) = g_transpose (abs_t t) /\ WF (t_transpose t).
Proof.
  intros Hwf. unfold t_transpose, g_transpose.
  assert (Hd : table_data t = grows (abs_t t)) by reflexivity. rewrite Hd.
  set (ll := grows (abs_t t)).
  destruct (max_length ll) as [|L] eqn:EL.
  - unfold zip_longest. rewrite EL. cbn [seq map build_rows fold_left]. split; [reflexivity|repeat split; constructor].
  - assert (HH : (1 <= length ll)%nat) by (destruct ll; [cbn in EL; discriminate|cbn; lia]).
    destruct (zip_longest empty_cell ll) as [|r rs] eqn:EZ.
    { pose proof (zip_length empty_cell ll) as Hz. rewrite EZ, EL in Hz. cbn in Hz. lia. }
    assert (Hall : forall r', In r' (r :: rs) -> Z.of_nat (length r') = gheight (abs_t t)).
    { intros r' Hr. rewrite <- EZ in Hr. rewrite (zip_row_length _ _ _ Hr). reflexivity. }
    unfold build_rows. cbn [fold_left]. fold (build_rows rs (append_row 1 (0, unit_runs r) empty_table)).
    assert (Hwe : WF empty_table) by (repeat split; constructor).
    destruct (append_row_refines 1 (0, unit_runs r) empty_table (proj1 Hwe) (le_n 1)) as [Habs Htw'].
    assert (Hcw' : cwf (append_row 1 (0, unit_runs r) empty_table)) by (apply append_row_cwf; [apply Hwe|apply Hwe|apply wf_unit_runs|lia]).
    unfold grow_of in Habs. cbn [snd] in Habs. rewrite expand_unit_runs in Habs.
    assert (Hlen : Z.of_nat (length r) = gheight (abs_t t)) by (apply Hall; left; reflexivity).
    assert (Hgh : 1 <= gheight (abs_t t)) by (unfold gheight; fold ll; lia).
    assert (Hn : twidth (append_row 1 (0, unit_runs r) empty_table) = gheight (abs_t t)).
    { change (twidth (append_row 1 (0, unit_runs r) empty_table)) with (ncols (abs_t (append_row 1 (0, unit_runs r) empty_table))).
      rewrite Habs. unfold g_append_row, g_declare. cbn [ncols abs_t empty_table twidth cols width expand length Z.of_nat Z.eqb]. rewrite Hlen. lia. }
    destruct (build_rows_spec rs _ (gheight (abs_t t)) (conj Htw' Hcw') Hgh Hn) as [B1 B2]; [intros; apply Hall; right; assumption|].
    split; [|exact B2]. rewrite B1, Habs. unfold g_append_row, g_declare. cbn [grows abs_t empty_table rows expand map app repeat]. reflexivity.
Qed.
