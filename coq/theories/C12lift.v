(* C12lift.v -- the finite sweeps of C12tab.v lifted to quantified statements (forallb_forall), in the form used by C12.v.
   Care is taken never to make Coq reduce a filter over the big tables with a VARIABLE class name (the conversion of
   two such stuck terms is exponential): the per-class statements go through the closed, pre-grouped tables. *)
From Coq Require Import String List Bool. Import ListNotations. Open Scope string_scope.
Require Import Registry Registryproof Attr Attrproof RegistrySpec Gen_Registry Gen_Ctors C12defs C12tab.

Lemma model_registry_nodup : NoDup (map fst model_registry).
Proof. unfold model_registry. destruct lxml_registrations; [apply build_nodup|constructor]. Qed.

Lemma model_live :
  (forall t c, In (t, c) live_registry -> dispatch t = c) /\
  (forall t c, In (t, c) model_registry -> assoc t live_registry = Some c).
Proof.
  pose proof sweep_model_sub_live as H1. pose proof sweep_live_sub_model as H2.
  split; intros t c HI.
  - unfold dispatch, from_tag. rewrite (submap_spec _ _ H2 t c HI). reflexivity.
  - exact (submap_spec _ _ H1 t c HI).
Qed.

Lemma own_tag_ok_spec : forall c t, own_tag_ok (c, t) = true ->
  t = "" \/ exists lt, lxml_tag namespaces t = Some lt /\ (dispatch lt = c \/ is_documented c t (dispatch lt) = true).
Proof.
  intros c t H. unfold own_tag_ok in H. destruct (String.eqb_spec t ""); [left; assumption|right].
  destruct (lxml_tag namespaces t) as [lt|]; [|discriminate]. exists lt. split; [reflexivity|].
  apply orb_true_iff in H. destruct H as [H|H]; [left; apply String.eqb_eq; exact H|right; exact H].
Qed.

Lemma own_tags : forall c t, In (c, t) class_tags ->
  t = "" \/ exists lt, lxml_tag namespaces t = Some lt /\ (dispatch lt = c \/ is_documented c t (dispatch lt) = true).
Proof. intros c t HI. apply own_tag_ok_spec. exact (proj1 (forallb_forall own_tag_ok class_tags) sweep_own_tags (c, t) HI). Qed.

Lemma call_ok_spec : forall t c, call_ok (t, c) = true ->
  exists lt, lxml_tag namespaces t = Some lt /\ (dispatch lt = c \/ is_documented c t (dispatch lt) = true).
Proof.
  intros t c H. unfold call_ok in H. destruct (lxml_tag namespaces t) as [lt|]; [|discriminate]. exists lt. split; [reflexivity|].
  apply orb_true_iff in H. destruct H as [H|H]; [left; apply String.eqb_eq; exact H|right; exact H].
Qed.

Lemma calls_effective : forall t c, In (t, c) registrations ->
  exists lt, lxml_tag namespaces t = Some lt /\ (dispatch lt = c \/ is_documented c t (dispatch lt) = true).
Proof. intros t c HI. apply call_ok_spec. exact (proj1 (forallb_forall call_ok registrations) sweep_calls (t, c) HI). Qed.

Lemma unknown_gives_element : forall tag, ~ In tag (map fst model_registry) -> dispatch tag = "Element".
Proof. intros. unfold dispatch. apply from_tag_unknown. assumption. Qed.

Lemma all_reachable : forall ct, In ct class_tags -> reachable ct = true.
Proof. exact (proj1 (forallb_forall reachable class_tags) sweep_reachable). Qed.

Lemma none_dropped : forall e, In e ctors -> is_dropped e = false \/ is_known_dropped e = true.
Proof.
  intros e HI. pose proof (proj1 (forallb_forall not_dropped ctors) sweep_not_dropped e HI) as H.
  unfold not_dropped in H. apply orb_true_iff in H. destruct H as [H|H]; [left; apply negb_true_iff; exact H|right; exact H].
Qed.

Lemma stores_inj : forall g, In g grouped -> stores_injective g = true.
Proof. exact (proj1 (forallb_forall stores_injective grouped) sweep_stores_injective). Qed.

Lemma same_name : forall e, In e ctors -> same_name_ok e = true.
Proof. exact (proj1 (forallb_forall same_name_ok ctors) sweep_same_name). Qed.

Lemma tables_consistent :
  (forall e, In e ctors -> generic_consistent e = true /\ entry_class_known e = true) /\
  (forall x, In x declared_propdefs -> declared_unambiguous x = true /\ declared_installed x = true) /\
  grouped = map (fun c => (c, entries_of c)) classes.
Proof.
  split; [|split].
  - intros e HI. split.
    + exact (proj1 (forallb_forall generic_consistent ctors) sweep_generic_consistent e HI).
    + exact (proj1 (forallb_forall entry_class_known ctors) sweep_entry_class_known e HI).
  - intros x HI. split.
    + exact (proj1 (forallb_forall declared_unambiguous declared_propdefs) sweep_declared_unambiguous x HI).
    + exact (proj1 (forallb_forall declared_installed declared_propdefs) sweep_declared_installed x HI).
  - exact grouped_is_ctors_by_class.
Qed.

Lemma grouped_attrs_nodup : forall c es, In (c, es) grouped -> nodupb (store_attrs_of es) = true.
Proof.
  intros c es HI. pose proof (stores_inj (c, es) HI) as H. unfold stores_injective in H.
  apply andb_true_iff in H. exact (proj1 H).
Qed.

Lemma ctor_args_exposed : forall c es, In (c, es) grouped ->
  forall pyconv raw sf a e p g cv n fam,
  In e es -> c_kind e = Stored p g cv (Some (n, fam)) ->
  holds g (raw (c_arg e)) = true -> blocked fam sf = false ->
  getter n fam sf (ctor_model pyconv raw sf es a) = decode (encode (apply_conv pyconv cv (raw (c_arg e)))).
Proof.
  intros c es HG pyconv raw sf a e p g cv n fam HI HK HH HB.
  apply (ctor_list_exposes es (grouped_attrs_nodup c es HG) pyconv raw sf a e n fam _ HI); [|exact HB].
  rewrite (store_of_stored pyconv raw e p g cv n fam HK), HH. reflexivity.
Qed.

Lemma ctor_flags_exposed : forall c es, In (c, es) grouped ->
  forall pyconv raw sf a e p b n fam,
  In e es -> c_kind e = StoredConst p b (Some (n, fam)) ->
  truthy (raw (c_arg e)) = true -> blocked fam sf = false ->
  getter n fam sf (ctor_model pyconv raw sf es a) = VBool b.
Proof.
  intros c es HG pyconv raw sf a e p b n fam HI HK HT HB.
  rewrite <- (decode_encode_bool b).
  apply (ctor_list_exposes es (grouped_attrs_nodup c es HG) pyconv raw sf a e n fam _ HI); [|exact HB].
  rewrite (store_of_const pyconv raw e p b n fam HK), HT. reflexivity.
Qed.

Lemma header_in_grouped : In ("Header", entries_of "Header") grouped.
Proof.
  rewrite grouped_is_ctors_by_class. apply (in_map (fun c => (c, entries_of c)) classes "Header").
  pose proof sweep_header_known as H. apply existsb_exists in H. destruct H as [x [HI HE]].
  apply String.eqb_eq in HE. subst x. exact HI.
Qed.

Lemma example_header_value :
  getter "text:outline-level" "" None
    (ctor_model (fun _ v => v) (fun arg => if String.eqb arg "level" then VOther "3" true else VNone) None (entries_of "Header") [])
  = VStr "3".
Proof. vm_compute. reflexivity. Qed.

Lemma propdefs_match_reference : forall x, In x propdefs -> matches_reference x = true.
Proof. exact (proj1 (forallb_forall matches_reference propdefs) sweep_matches_reference). Qed.

Lemma wrap_sites_modelled : forall x, In x wrap_sites -> site_ok x = true.
Proof. exact (proj1 (forallb_forall site_ok wrap_sites) sweep_wrap_sites). Qed.

(* on the generated registry: after any access history from a wrapper made by Element.from_tag, the class is dispatch of the node's tag *)
Lemma access_paths_dispatch : forall doc l w w', consistent model_registry doc w -> access_run model_registry doc w l = Some w' ->
  exists n, node_at doc (w_pos w') = Some n /\ w_cls w' = dispatch (xtag n).
Proof. intros doc l w w' C H. exact (access_run_consistent model_registry doc l w w' C H). Qed.

Lemma guards_match_reference : forall e, In e ctors -> guard_matches_reference e = true.
Proof. exact (proj1 (forallb_forall guard_matches_reference ctors) sweep_guards_match_reference). Qed.

Lemma registry_matches_reference : forall x, In x registry_reference -> reference_ok x = true.
Proof. exact (proj1 (forallb_forall reference_ok registry_reference) sweep_registry_reference). Qed.
Lemma every_tagged_class_dispatched : forall x, In x tagged_classes -> tagged_ok x = true.
Proof. exact (proj1 (forallb_forall tagged_ok tagged_classes) sweep_tagged_classes). Qed.
