(* PkgChk.v — the per-step checkers the correspondence evaluates (definitions only).
   FX = the variant of the model that mirrors the tree under test: FIXED, or FIXED without the repair of F35 / F42 when the
   harness's probe finds the tree without it (those two are then reported by their own detectors).
   A case is (fs, d, op, fs', d', result): the implementation's abstract state before the operation, the operation,
   its state and result afterwards.  The model (with every repair, FIXED) is stepped from the same pre-state. *)
From Coq Require Import List ZArith Bool Arith.
Import ListNotations.
Require Import Package.
Open Scope Z_scope.

Definition case := (cfs * cdoc * cop * cfs * cdoc * out cbytes)%type.
Definition is_save (o : cop) : option (target * packaging * bool) :=
  match o with OSave t pk p => Some (t, pk, p) | _ => None end.
Definition written (fs : cfs) (o : cop) := match is_save o with Some (t, _, _) => lookup (tgt_id t) fs | None => None end.
Definition entries_of (fs : cfs) (d : cdoc) : mentries :=
  match tree_of cxml cbytes Z cpar fs d MANIFEST with Some x => centries x | None => [] end.
Definition ents_eqb := list_eqb ent_eqb.
(* the hypothesis of the theorems (Pkgproof.WFd, as the boolean Package.WFdb) holds of the model's state but not of the implementation's *)
Definition wf_lost (fsm : cfs) (dm : cdoc) (fs' : cfs) (d' : cdoc) : bool := cWFdb fsm dm && negb (cWFdb fs' d').
Definition is_nil_parts (d : cdoc) : bool := match parts _ (cont _ _ d) with [] => true | _ => false end.
Definition case10 := (cfs * cdoc * cdoc * cop * cfs * cdoc * cdoc * out cbytes)%type.
Definition has_twin (d : cdoc) : bool := negb (is_nil_parts d).

(* C04.  1: PkgOK lost (the model keeps it)   2: saved zip has not the required shape   3: manifest entry list differs
   from the model's   4: result differs   5: duplicate dict keys (abstraction broken)   7: save deleted a listed manifest.rdf and kept its entry (F42)
   8: bookkeeping invariant lost   9: exact state differs (fidelity) *)
(* F42: save deleted a manifest.rdf that the manifest lists (with an empty media type) and kept the entry *)
Definition rdf_entry_dangling (fs : cfs) (d : cdoc) (o : cop) (fs' : cfs) (d' : cdoc) : bool :=
  match is_save o, cview fs d RDF, cview fs' d' RDF with
  | Some _, Some _, None => memz RDF (declared (entries_of fs' d'))
  | _, _, _ => false
  end.
Definition chk04 (FX : fixes) (c : case) : nat :=
  let '(fs, d, o, fs', d', r) := c in
  let '((fsm, dm), rm) := cstep FX (fs, d) o in
  if negb (cwfb fs' d') then 5
  else if cPkgOKb fsm dm && negb (cPkgOKb fs' d') then 1
  else if match written fs' o, written fsm o with
          | Some (FZip es), Some (FZip esm) => czip_shapeb esm && negb (czip_shapeb es)
          | None, Some (FZip esm) => czip_shapeb esm
          | _, _ => false end then 2
  else if negb (ents_eqb (entries_of fs' d') (entries_of fsm dm)) then 3
  else if negb (out_eqb r rm) then 4
  else if wf_lost fsm dm fs' d' then 8
  else if rdf_entry_dangling fs d o fs' d' then 7
  else if doc_eqb d' dm && file_eqb (written fs' o) (written fsm o) then 0 else 9.

(* C03.  1: the part map after the operation is not the model's   2: the bytes returned by get_part differ
   3: the saved file read back independently is not the part map of the document at the time of saving
   4: the saved file differs from the model's   5: abstraction broken
   6: a part held in memory would be replaced by the file's content at the next read (time-stamp bookkeeping)
   7: save replaced a manifest.rdf that is held in memory and listed in the manifest (F35: reconciliation looks at the file)   9: fidelity *)
Definition saved_matches (fs' : cfs) (d' : cdoc) (o : cop) : bool :=
  match is_save o, written fs' o with
  | Some (_, PXml, _), _ => true
  | Some (_, _, pty), Some f =>
      forallb (fun n => opt_eqb (if pty then ccont_eqb_loose else ccont_eqb) (cfile_view (Some f) n) (cview fs' d' n))
              (cnames fs' d' ++ map fst (file_entries cbytes Z (Some f)))
  | Some _, None => false
  | None, _ => true
  end.
(* the manifest effect of del_part / add_file / import is C04's subject: not compared here *)
Definition view_eqb_on (f : name -> bool) (fs1 : cfs) (d1 : cdoc) (fs2 : cfs) (d2 : cdoc) : bool :=
  forallb (fun n => opt_eqb ccont_eqb (cview fs1 d1 n) (cview fs2 d2 n)) (filter f (cnames fs1 d1 ++ cnames fs2 d2)).
Definition rdf_replaced (fs : cfs) (d : cdoc) (o : cop) (fs' : cfs) (d' : cdoc) : bool :=
  match is_save o, cview fs d RDF with
  | Some _, Some _ =>
      match m_get RDF (entries_of fs d) with
      | Some m => negb (m =? EMPTYMT) && negb (opt_eqb ccont_eqb (cview fs' d' RDF) (cview fs d RDF))
      | None => false end
  | _, _ => false
  end.
Definition chk03 (FX : fixes) (c : case) : nat :=
  let '(fs, d, o, fs', d', r) := c in
  let '((fsm, dm), rm) := cstep FX (fs, d) o in
  if negb (cwfb fs' d') then 5
  else if negb (view_eqb_on (match o with ODelPart _ | OAddFile _ _ _ | OImport _ _ _ => fun n => negb (n =? MANIFEST) | _ => fun _ => true end)
                            fs' d' fsm dm) then 1
  else if negb (out_eqb r rm) then 2
  else if match r with Done => negb (saved_matches fs' d' o) | _ => false end then 3
  else if negb (file_content_eqb (written fs' o) (written fsm o)) then 4
  else if wf_lost fsm dm fs' d' then 6
  else if rdf_replaced fs d o fs' d' then 7
  else if doc_eqb d' dm && file_eqb (written fs' o) (written fsm o) then 0 else 9.
(* C11 (save half).  1: the save changed the document in memory (strict comparison, generator masked)
   2: result differs   3: the file read back is not the document (layout-insensitive projection when pretty)
   4: flat XML export differs from the model's   5: abstraction   6: (other operations) part map differs from the model's   9: fidelity *)
Definition view_eqb_strict (fs1 : cfs) (d1 : cdoc) (fs2 : cfs) (d2 : cdoc) : bool :=
  forallb (fun n => opt_eqb ccont_eqb (cview fs1 d1 n) (cview fs2 d2 n)) (cnames fs1 d1 ++ cnames fs2 d2).
Definition chk11 (FX : fixes) (c : case) : nat :=
  let '(fs, d, o, fs', d', r) := c in
  let '((fsm, dm), rm) := cstep FX (fs, d) o in
  if negb (cwfb fs' d') then 5
  else match is_save o with
       | Some (t, pk, pty) =>
           if negb (out_eqb r rm) then 2
           else match r with
                | Done =>
                    if negb (view_eqb_strict fs' d' fs d) then 1
                    else if negb (saved_matches fs' d' o) then 3
                    else if negb (file_content_eqb (written fs' o) (written fsm o)) then 4
                    else if wf_lost fsm dm fs' d' then 8
                    else if doc_eqb d' dm then 0 else 9
                | _ => 0
                end
       | None => (* other operations are C03's subject: agreement with the model is recorded as fidelity only *)
                 if wf_lost fsm dm fs' d' then 8 else if view_eqb fs' d' fsm dm && doc_eqb d' dm then 0 else 9
       end.

(* C10 (document half).  A case carries the twin (the other one of original / clone; empty document when there is none).
   1: the clone is not equal to the original at birth   2: cloning changed the original   3: the clone is not the model's clone
   4: an operation on one document changed the other (part map or bookkeeping)   5: abstraction   6: part map differs from the
   model's step   7: result differs   9: fidelity *)
Definition chk10 (FX : fixes) (c : case10) : nat :=
  let '(fs, d, tw, o, fs', d', tw', r) := c in
  let '((fsm, dm), rm) := cstep FX (fs, d) o in
  if negb (cwfb fs' d') then 5
  else match o with
       | OClone =>
           let '(origm, clonem) := cd_clone FX fs d in
           if negb (view_eqb_strict fs' d' fs d) then 1
           else if has_twin tw' && negb (view_eqb_strict fs' tw' fs d) then 2
           else if negb (view_eqb fs' d' fs clonem) then 3
           else if doc_eqb d' clonem && (negb (has_twin tw') || doc_eqb tw' origm) then 0 else 9
       | _ =>
           if has_twin tw && negb (doc_eqb tw' tw && view_eqb_strict fs' tw' fs tw) then 4
           else if wf_lost fsm dm fs' d' then 8
           else if view_eqb fs' d' fsm dm && out_eqb r rm && doc_eqb d' dm then 0 else 9   (* the step itself is C03's subject *)
       end.

(* C04 with a twin (the other one of original / clone): as chk04 on the operated document, and
   6: the operation on one document broke PkgOK of the other (state shared between clone and original) *)
Definition chk04t (FX : fixes) (c : case10) : nat :=
  let '(fs, d, tw, o, fs', d', tw', r) := c in
  let k := chk04 FX (fs, d, o, fs', d', r) in
  match k with
  | O | 9%nat =>
      if has_twin tw && negb (match o with OClone => true | _ => false end) && cPkgOKb fs tw && negb (cPkgOKb fs' tw') then 6%nat else k
  | _ => k
  end.

(* which variant of the code does the implementation follow on this step? (diagnosis only) *)
Definition agrees (fx : fixes) (c : case) : bool :=
  let '(fs, d, o, fs', d', r) := c in
  let '((fsm, dm), rm) := cstep fx (fs, d) o in
  view_eqb fs' d' fsm dm && out_eqb r rm && ents_eqb (entries_of fs' d') (entries_of fsm dm)
  && file_content_eqb (written fs' o) (written fsm o).
