(* PkgPairproof.v — C10 (document half): equal at birth, original untouched, independence on the pair state *)
From Coq Require Import List ZArith Bool Arith Lia.
Import ListNotations.
Require Import Package PkgManproof PkgZipproof Pkgproof Pkgproof2 Pkgproof3 Pkgproof4 Pkgproof5
               PkgStepWF PkgStepWF2 PkgStepWF3 PkgStepWF4 PkgCloneproof.
Open Scope Z_scope.

Section P.
Variable xml bytes kid : Type.
Variable ser : xml -> bytes.
Variable par : bytes -> xml.
Variable pretty stamp : xml -> xml.
Variable entries : xml -> mentries.
Variable with_entries : mentries -> xml -> xml.
Variable kids : xml -> list kid.
Variable mime : bytes -> mtype.
Variable mime_bytes : mtype -> bytes.
Variable rdf0 : bytes.
Variable proj : Type.
Variable mask : xml -> proj.
Hypothesis par_ser : forall x, par (ser x) = x.
Notation document := (document xml bytes).
Notation fsys := (fsys bytes kid).
Notation dB := (dB xml bytes kid).
Notation dX := (dX xml bytes kid par).
Notation WFd := (WFd xml bytes kid).
Notation FsOK := (FsOK bytes kid).
Notation SInv := (SInv xml bytes kid).
Notation view := (view xml bytes kid par proj mask).
Notation d_clone := (d_clone xml bytes kid ser par FIXED).
Notation step := (step xml bytes kid ser par pretty stamp entries with_entries kids mime mime_bytes rdf0 FIXED).

Lemma view_of_obs2 : forall fs fs' (d d' : document),
  (forall n, is_xml n = false -> dB fs' d' n = dB fs d n) -> (forall n, is_xml n = true -> dX fs' d' n = dX fs d n) ->
  forall n, view fs' d' n = view fs d n.
Proof.
  intros fs fs' d d' HB HX n. unfold Package.view. destruct (is_dir n); [reflexivity|].
  change (tree_of xml bytes kid par fs' d' n) with (dX fs' d' n). change (tree_of xml bytes kid par fs d n) with (dX fs d n).
  change (bytes_of xml bytes kid fs' d' n) with (dB fs' d' n). change (bytes_of xml bytes kid fs d n) with (dB fs d n).
  destruct (is_xml n) eqn:E; [rewrite (HX n E)|rewrite (HB n E)]; reflexivity.
Qed.

(* C10_doc_equal_at_birth: the clone shows the original's part map; cloning leaves the original's part map as it was *)
Theorem clone_equal_at_birth : forall fs (d : document), FsOK fs -> WFd fs d ->
  (forall n, view fs (snd (d_clone fs d)) n = view fs d n) /\ (forall n, view fs (fst (d_clone fs d)) n = view fs d n).
Proof.
  intros fs d F W.
  destruct (d_clone_sem xml bytes kid ser par par_ser fs d F W) as [_ [A2 [A3 [_ [_ [_ [_ [B1 [B2 _]]]]]]]]].
  split; apply view_of_obs2; auto.
Qed.

(* the file system after an operation: unchanged, or one target written by a save *)
Lemma step_fs : forall fs (d : document) o, fst (fst (step (fs, d) o)) = fs \/
  exists t pk pty f, o = OSave t pk pty /\ fst (fst (step (fs, d) o)) = upsert (tgt_id t) f fs.
Proof.
  intros fs d o. unfold Package.step.
  destruct o as [p b|p m'|n|n|n x'|n b|n|n b m|n b m|t pk pty| |sc sx imgs].
  - left. destruct (c_open _ _ _ _ _); reflexivity.
  - left. destruct (c_new _ _ _ _ _ _ _ _ _ _ _ _); reflexivity.
  - left. destruct (is_xml n); [reflexivity|]. destruct (c_get_part _ _ _ _ _ _); reflexivity.
  - left. destruct (is_xml n); cbn [negb]; [|reflexivity]. destruct (d_tree _ _ _ _ _ _ _ _); reflexivity.
  - left. destruct (is_xml n); cbn [negb]; [|reflexivity]. destruct (d_tree _ _ _ _ _ _ _ _) as [d' [x|]]; reflexivity.
  - left. reflexivity.
  - left. destruct (d_del_part _ _ _ _ _ _ _ _ _ _); reflexivity.
  - left. destruct (d_add_file _ _ _ _ _ _ _ _ _ _ _ _); reflexivity.
  - left. destruct (d_import _ _ _ _ _ _ _ _ _ _ _ _); reflexivity.
  - unfold Package.d_save.
    destruct (d_tree _ _ _ _ _ _ _ _) as [d1 [x|]]; [|left; reflexivity].
    destruct (check_rdf _ _ _ _ _ _ _ _ _) as [d3 ok3]. destruct ok3; cbn [negb]; [|left; reflexivity].
    match goal with |- context [if pty && negb (pk_eqb pk PXml) then ?a else ?b] => destruct (if pty && negb (pk_eqb pk PXml) then a else b) as [d4 ok4] end.
    destruct ok4; cbn [negb]; [|left; reflexivity].
    destruct (c_save _ _ _ _ _ _ _ _ _ _ _) as [c5 [fs5|]] eqn:CS; [|left; reflexivity].
    right. unfold Package.c_save in CS.
    destruct pk; [destruct (save_zip _ _)|destruct t|destruct (lookup MIMETYPE _)]; inversion CS; subst; cbn [fst snd]; eauto 8.
  - left. reflexivity.
  - left. destruct (d_merge _ _ _ _ _ _ _ _ _ _ _ _); reflexivity.
Qed.

(* the part map of a document depends on the file system only through the file it was opened from *)
Lemma view_fs_frame : forall fs q f (d : document), cpath _ (cont _ _ d) <> Some q -> forall n, view (upsert q f fs) d n = view fs d n.
Proof.
  intros fs q f d Hq n. apply view_of_obs2; intros m _.
  - unfold Pkgproof.dB, Pkgproof.cB. destruct (lookup m (parts _ (cont _ _ d))) as [[b|]|]; try reflexivity.
    unfold Package.disk_lookup, Package.disk_entries. destruct (cpath _ (cont _ _ d)) as [p|]; [|reflexivity].
    rewrite lookup_upsert_neq by congruence. reflexivity.
  - unfold Pkgproof.dX, Pkgproof.dB, Pkgproof.cB. destruct (lookup m (xps _ _ d)) as [[x|]|]; try reflexivity;
      (destruct (lookup m (parts _ (cont _ _ d))) as [[b|]|]; try reflexivity;
       unfold Package.disk_lookup, Package.disk_entries; destruct (cpath _ (cont _ _ d)) as [p|]; [|reflexivity];
       rewrite lookup_upsert_neq by congruence; reflexivity).
Qed.

(* C10 independence, one step: an operation on one document leaves the other's state literally unchanged (the pair state
   is a product: [step] does not take it) and its part map as it was, unless the operation is a save onto the very file
   the other document still reads from *)
Theorem other_untouched : forall fs (d other : document) o,
  (forall t pk pty, o = OSave t pk pty -> cpath _ (cont _ _ other) <> Some (tgt_id t)) ->
  forall n, view (fst (fst (step (fs, d) o))) other n = view fs other n.
Proof.
  intros fs d other o Hs n.
  destruct (step_fs fs d o) as [->|[t [pk [pty [f [-> ->]]]]]]; [reflexivity|].
  apply view_fs_frame. apply (Hs t pk pty eq_refl).
Qed.

(* a clone (no path) is never affected, whatever the other side does *)
Corollary clone_untouched : forall fs (d other : document) o, cpath _ (cont _ _ other) = None ->
  forall n, view (fst (fst (step (fs, d) o))) other n = view fs other n.
Proof. intros fs d other o Hc n. apply other_untouched. intros t pk pty _. rewrite Hc. discriminate. Qed.

(* ---------- interleavings on the pair state ---------- *)
Inductive side := OnOriginal | OnClone.
Definition pstate := (fsys * document * document)%type.
Definition pstep (s : pstate) (a : side * op xml bytes) : pstate :=
  let '(fs, d1, d2) := s in
  match fst a with
  | OnOriginal => let r := fst (step (fs, d1) (snd a)) in (fst r, snd r, d2)
  | OnClone => let r := fst (step (fs, d2) (snd a)) in (fst r, d1, snd r)
  end.
Definition prun (s : pstate) (h : list (side * op xml bytes)) : pstate := fold_left pstep h s.

(* saves of the clone never go onto the file the original was opened from *)
Definition respects (p0 : option Z) (a : side * op xml bytes) : Prop :=
  match a with (OnClone, OSave t _ _) => p0 <> Some (tgt_id t) | _ => True end.

Lemma step_cpath_original : forall fs (d : document) o, SInv (fs, d) ->
  match o with OOpen _ _ | ONew _ _ | OClone | OMerge _ _ _ => True | _ => cpath _ (cont _ _ (snd (fst (step (fs, d) o)))) = cpath _ (cont _ _ d) end.
Proof.
  intros fs d o [F W]. cbn [fst snd] in *. unfold Package.step.
  destruct o as [p b|p m'|n|n|n x'|n b|n|n b m|n b m|t pk pty| |sc sx imgs]; try exact I.
  - destruct (is_xml n); [reflexivity|].
    pose proof (c_get_part_sem bytes kid fs n (cont _ _ d) (wfd_c _ _ _ _ _ W)) as [_ [_ [_ [G4 _]]]].
    destruct (Package.c_get_part bytes kid FIXED fs n (cont _ _ d)) as [c' ob]. exact G4.
  - destruct (is_xml n) eqn:Xn; cbn [negb]; [|reflexivity].
    pose proof (d_tree_sem xml bytes kid par fs n d W Xn) as [_ [_ [_ [_ [T5 _]]]]].
    destruct (d_tree xml bytes kid par FIXED fs n d) as [d' ox]. exact T5.
  - destruct (is_xml n) eqn:Xn; cbn [negb]; [|reflexivity].
    pose proof (d_tree_sem xml bytes kid par fs n d W Xn) as [_ [_ [_ [_ [T5 _]]]]].
    destruct (d_tree xml bytes kid par FIXED fs n d) as [d' [x|]]; exact T5.
  - reflexivity.
  - unfold d_del_part. destruct ((n =? MANIFEST) || is_xml n) eqn:E; [reflexivity|]. cbn [fx11 FIXED]. unfold d_manifest.
    apply orb_false_iff in E as [_ E].
    pose proof (d_tree_sem xml bytes kid par fs MANIFEST _ (with_cont_del_wf xml bytes kid fs n d W E) is_xml_MANIFEST) as [_ [_ [_ [_ [T5 _]]]]].
    destruct (d_tree xml bytes kid par FIXED fs MANIFEST _) as [d' [x|]]; exact T5.
  - unfold d_add_file.
    pose proof (d_tree_sem xml bytes kid par fs MANIFEST d W is_xml_MANIFEST) as [_ [_ [_ [_ [T5 _]]]]].
    destruct (d_tree xml bytes kid par FIXED fs MANIFEST d) as [d' [x|]]; exact T5.
  - unfold d_import.
    pose proof (d_tree_sem xml bytes kid par fs MANIFEST _ (d_set_part_wf xml bytes kid fs n b d W) is_xml_MANIFEST) as [_ [_ [_ [_ [T5 _]]]]].
    destruct (d_tree xml bytes kid par FIXED fs MANIFEST _) as [d' [x|]]; exact T5.
  - (* save keeps the container's path *)
    unfold Package.d_save.
    pose proof (d_tree_sem xml bytes kid par fs META d W is_xml_META) as [_ [_ [_ [W1 [T5 [_ T7]]]]]].
    destruct (d_tree xml bytes kid par FIXED fs META d) as [d1 [x|]]; cbn [fst snd] in *; [|exact T5].
    destruct (T7 ltac:(discriminate)) as [x0 [Lx0 _]].
    destruct (set_tree_sem xml bytes kid par fs META (stamp x) d1 W1 is_xml_META (wfd_live _ _ _ _ _ W1 META x0 Lx0)) as [W2 [_ [_ S4]]].
    assert (P2 : cpath _ (cont _ _ (set_tree xml bytes META (stamp x) d1)) = cpath _ (cont _ _ d)) by (rewrite S4; exact T5).
    pose proof (check_rdf_wf xml bytes kid par entries rdf0 fs _ W2) as W3.
    assert (P3 : cpath _ (cont _ _ (fst (check_rdf xml bytes kid par entries rdf0 FIXED fs (set_tree xml bytes META (stamp x) d1)))) = cpath _ (cont _ _ d)).
    { unfold Package.check_rdf.
      pose proof (d_tree_sem xml bytes kid par fs MANIFEST _ W2 is_xml_MANIFEST) as [_ [_ [_ [_ [U5 _]]]]].
      destruct (d_tree xml bytes kid par FIXED fs MANIFEST _) as [dm [xm|]]; cbn [fst] in *; [|congruence].
      destruct (rdf_listed FIXED (entries xm));
        destruct (memz RDF (c_listing bytes kid FIXED fs (cont _ _ dm))); cbn [fst cont d_with_cont c_set_part c_del_part c_with_parts cpath]; congruence. }
    destruct (check_rdf xml bytes kid par entries rdf0 FIXED fs _) as [d3 ok3]. cbn [fst] in *.
    destruct ok3; cbn [negb]; [|cbn [fst snd]; exact P3].
    assert (P4 : forall pty0, cpath _ (cont _ _ (fst (if pty0 && negb (pk_eqb pk PXml)
        then let '(da, oka) := ser_loop xml bytes kid ser par pretty FIXED fs true (map fst (xps _ _ d3)) d3 in
             let '(db, okb) := ser_loop xml bytes kid ser par pretty FIXED fs true (filter (fun n => match lookup n (xps _ _ da) with Some _ => false | None => true end) [CONTENT; META; SETTINGS; STYLES]) da in
             (db, oka && okb)
        else ser_loop xml bytes kid ser par pretty FIXED fs false (map fst (xps _ _ d3)) d3))) = cpath _ (cont _ _ d3)).
    { intros pty0.
      assert (Hk : forall n, In n (map fst (xps _ _ d3)) -> is_xml n = true) by (apply (wfd_x _ _ _ _ _ W3)).
      destruct (pty0 && negb (pk_eqb pk PXml)).
      - rewrite !ser_loop_is_fold.
        destruct (fold_body_inv xml bytes kid ser par pretty true fs _ _ _ _ (map fst (xps _ _ d3)) (d3, true) Hk (LInv_start xml bytes kid ser par pretty true fs d3 W3)) as [I1 _].
        destruct (fold_left (body xml bytes kid ser par pretty true fs) (map fst (xps _ _ d3)) (d3, true)) as [da oka]. cbn [fst snd] in *.
        rewrite ser_loop_is_fold.
        match goal with |- context [fold_left _ ?l (da, true)] => set (ns2 := l) end.
        assert (Hk2 : forall n, In n ns2 -> is_xml n = true).
        { intros n Hn. unfold ns2 in Hn. apply filter_In in Hn as [Hn _]. cbn in Hn. repeat (destruct Hn as [<-|Hn]; [reflexivity|]). destruct Hn. }
        destruct (fold_body_inv xml bytes kid ser par pretty true fs _ _ _ _ ns2 (da, true) Hk2 I1) as [I2 _].
        destruct (fold_left (body xml bytes kid ser par pretty true fs) ns2 (da, true)) as [db okb]. cbn [fst snd] in *.
        exact (li_p _ _ _ _ _ _ _ _ _ _ _ _ _ I2).
      - rewrite ser_loop_is_fold.
        destruct (fold_body_inv xml bytes kid ser par pretty false fs _ _ _ _ (map fst (xps _ _ d3)) (d3, true) Hk (LInv_start xml bytes kid ser par pretty false fs d3 W3)) as [I1 _].
        exact (li_p _ _ _ _ _ _ _ _ _ _ _ _ _ I1). }
    specialize (P4 pty).
    pose proof (loops_wf xml bytes kid ser par pretty pty pk fs d3 W3) as W4.
    match goal with |- context [if pty && negb (pk_eqb pk PXml) then ?a else ?b] => destruct (if pty && negb (pk_eqb pk PXml) then a else b) as [d4 ok4] end. cbn [fst] in *.
    destruct ok4; cbn [negb]; [|cbn [fst snd]; congruence].
    pose proof (c_save_inv xml bytes kid par kids mime fs (cont _ _ d4) t pk F (wfd_c _ _ _ _ _ W4)) as [_ [_ [C3 _]]].
    destruct (c_save xml bytes kid par kids mime FIXED fs (cont _ _ d4) t pk) as [c5 ofs]. cbn [fst] in C3.
    destruct ofs; cbn [fst snd cont d_with_cont]; congruence.
Qed.

(* one step of any interleaving: the document not operated on is literally the same, and shows the same part map *)
Theorem pstep_independent : forall fs (d1 d2 : document) a,
  let '(fs', d1', d2') := pstep (fs, d1, d2) a in
  match fst a with
  | OnOriginal => d2' = d2 /\ (cpath _ (cont _ _ d2) = None -> forall n, view fs' d2 n = view fs d2 n)
  | OnClone => d1' = d1 /\ (respects (cpath _ (cont _ _ d1)) a -> forall n, view fs' d1 n = view fs d1 n)
  end.
Proof.
  intros fs d1 d2 [sd o]. unfold pstep. cbn [fst snd]. destruct sd.
  - split; [reflexivity|]. intros Hc n. apply clone_untouched. exact Hc.
  - split; [reflexivity|]. intros Hr n. apply other_untouched. intros t pk pty ->. exact Hr.
Qed.

(* whole histories on one side *)
Theorem clone_ops_leave_original : forall h fs (d1 d2 : document),
  Forall (fun a => fst a = OnClone /\ respects (cpath _ (cont _ _ d1)) a) h ->
  let '(fs', d1', d2') := prun (fs, d1, d2) h in d1' = d1 /\ forall n, view fs' d1 n = view fs d1 n.
Proof.
  induction h as [|[sd o] h IH]; intros fs d1 d2 Hf; [cbn; auto|].
  inversion Hf as [|a l [Hs Hr] Hl]; subst. cbn [fst] in Hs. subst sd.
  unfold prun. cbn [fold_left]. unfold pstep at 2. cbn [fst snd].
  specialize (IH (fst (fst (step (fs, d2) o))) d1 (snd (fst (step (fs, d2) o))) Hl).
  unfold prun in IH. destruct (fold_left pstep h _) as [[fs' d1'] d2']. destruct IH as [E V]. split; [exact E|].
  intros n. rewrite V. apply other_untouched. intros t pk pty ->. exact Hr.
Qed.

Theorem original_ops_leave_clone : forall h fs (d1 d2 : document), cpath _ (cont _ _ d2) = None ->
  Forall (fun a => fst a = OnOriginal) h ->
  let '(fs', d1', d2') := prun (fs, d1, d2) h in d2' = d2 /\ forall n, view fs' d2 n = view fs d2 n.
Proof.
  induction h as [|[sd o] h IH]; intros fs d1 d2 Hc Hf; [cbn; auto|].
  inversion Hf as [|a l Hs Hl]; subst. cbn [fst] in Hs. subst sd.
  unfold prun. cbn [fold_left]. unfold pstep at 2. cbn [fst snd].
  specialize (IH (fst (fst (step (fs, d1) o))) (snd (fst (step (fs, d1) o))) d2 Hc Hl).
  unfold prun in IH. destruct (fold_left pstep h _) as [[fs' d1'] d2']. destruct IH as [E V]. split; [exact E|].
  intros n. rewrite V. apply clone_untouched. exact Hc.
Qed.
End P.
