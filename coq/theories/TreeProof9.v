(* TreeProof9.v — Link(text=match) by regular expression keeps the raw text nodes as well. *)
From Coq Require Import List Arith Bool ZArith Lia.
Import ListNotations.
Require Import WS Tree TreeProof TreeProof2 TreeProof3.

Lemma cut_link_raw a : forall sp pos s, spans_ok pos (pos + length s) sp = true -> raw (cut KLink a pos sp s) = s.
Proof.
  induction sp as [|[x y] q IH]; intros pos s H; [unfold raw; cbn; apply app_nil_r|].
  cbn [spans_ok] in H. apply andb_true_iff in H as [H H4]. apply andb_true_iff in H as [H H3].
  apply andb_true_iff in H as [H1 H2]. apply Nat.leb_le in H1. apply Nat.ltb_lt in H2. apply Nat.leb_le in H3.
  assert (L : y + length (skipn (y - pos) s) = pos + length s) by (rewrite skipn_length; lia).
  rewrite <- L in H4. specialize (IH y (skipn (y - pos) s) H4).
  cbn [cut wrap_content app]. rewrite raw_cons_txt, raw_cons_open, raw_cons_txt, raw_cons_close, IH.
  replace (y - pos) with ((x - pos) + (y - x)) by lia. apply split3.
Qed.
Fixpoint all_raw_id (fs : list (str -> list ev)) (ts : list str) : Prop :=
  match fs, ts with f :: fr, s :: tr => raw (f s) = s /\ all_raw_id fr tr | _, _ => True end.
Lemma subst_each_raw evs : forall fs, all_raw_id fs (texts evs) -> raw (subst_each fs evs) = raw evs.
Proof.
  induction evs as [|e evs IH]; intros fs H; [reflexivity|].
  destruct e as [k a| |s]; cbn [subst_each texts] in *.
  - rewrite !raw_cons_open. now apply IH.
  - rewrite !raw_cons_close. now apply IH.
  - destruct fs as [|f fr].
    + rewrite !raw_cons_txt. f_equal. apply IH. now destruct (texts evs).
    + destruct H as [Hf Hr]. rewrite raw_app, Hf, raw_cons_txt. f_equal. now apply IH.
Qed.
Theorem wrap_re_link_raw a spans evs : all_spans_ok (texts evs) spans = true -> raw (wrap_re KLink a spans evs) = raw evs.
Proof.
  intros H. unfold wrap_re. apply subst_each_raw. revert spans H.
  induction (texts evs) as [|s ts IH]; intros spans H; destruct spans as [|sp q]; try discriminate; cbn [map all_raw_id]; auto.
  cbn [all_spans_ok] in H. apply andb_true_iff in H as [H1 H2]. split; [|now apply IH].
  destruct sp as [|xy sp']; [unfold raw; cbn; apply app_nil_r|]. now apply cut_link_raw.
Qed.
