(* TreeProof10.v — round 2: _insert_range (content=regex, one search), position in the main text, search on the own text. *)
From Coq Require Import List Arith Bool ZArith Lia.
Import ListNotations.
Require Import WS WSnfproof Tree TreeNF TreeProof TreeProof2 TreeProof3 TreeProof5 TreeProof6.

(* ---------------------------------------------------------------- which match is selected *)
Lemma sel_re_pos_in p : forall spans c i0 j m, sel_re_pos p c i0 spans = Some (j, m) ->
  exists i sp, j = i0 + i /\ nth_error spans i = Some sp /\ In m sp.
Proof.
  induction spans as [|sp q IH]; intros c i0 j m H; [discriminate|]. cbn [sel_re_pos] in H.
  destruct (p + 1 <=? length sp + c).
  - destruct (nth_error sp (p - c)) as [m'|] eqn:E; [|discriminate]. injection H as <- <-.
    exists 0, sp. repeat split; [lia|]. eapply nth_error_In; exact E.
  - destruct (IH _ _ _ _ H) as [i [sp' [E1 [E2 E3]]]]. exists (S i), sp'. repeat split; [lia|exact E2|exact E3].
Qed.
Lemma sel_re_neg_in : forall spans i0 acc j m, sel_re_neg i0 spans acc = Some (j, m) ->
  acc = Some (j, m) \/ exists i sp, j = i0 + i /\ nth_error spans i = Some sp /\ In m sp.
Proof.
  induction spans as [|sp q IH]; intros i0 acc j m H; [left; exact H|]. cbn [sel_re_neg] in H.
  destruct (IH _ _ _ _ H) as [E|[i [sp' [E1 [E2 E3]]]]].
  - destruct (rev sp) as [|m' r] eqn:R; [left; exact E|]. injection E as <- <-. right. exists 0, sp.
    repeat split; [lia|]. apply in_rev. rewrite R. now left.
  - right. exists (S i), sp'. repeat split; [lia|exact E2|exact E3].
Qed.
Lemma selected_in p spans i m :
  (if (p <? 0)%Z then sel_re_neg 0 spans None else sel_re_pos (Z.to_nat p) 0 0 spans) = Some (i, m) ->
  exists sp, nth_error spans i = Some sp /\ In m sp.
Proof.
  destruct (p <? 0)%Z; intros H.
  - destruct (sel_re_neg_in _ _ _ _ _ H) as [E|[i' [sp [E1 [E2 E3]]]]]; [discriminate|]. cbn in E1. subst. eauto.
  - destruct (sel_re_pos_in _ _ _ _ _ _ H) as [i' [sp [E1 [E2 E3]]]]. cbn in E1. subst. eauto.
Qed.
Lemma spans_wf_in spans i sp x y : spans_wf spans = true -> nth_error spans i = Some sp -> In (x, y) sp -> x <= y.
Proof.
  intros W E I. unfold spans_wf in W. rewrite forallb_forall in W. specialize (W sp (nth_error_In _ _ E)).
  rewrite forallb_forall in W. specialize (W _ I). now apply Nat.leb_le in W.
Qed.

(* ---------------------------------------------------------------- _insert_range keeps the readable text *)
Lemma range_piece_neutral e1 e2 x y s : silent e1 -> silent e2 -> x <= y -> neutral_on (range_piece e1 e2 x y) s.
Proof.
  intros H1 H2 L sk r. unfold range_piece. rewrite <- !app_assoc. rewrite readable_otxt.
  destruct sk; rewrite readable_txt_cons, readable_seg by apply H1; rewrite (silent_any _ H1); cbn [app];
    rewrite readable_txt_cons, readable_seg by apply H2; rewrite (silent_any _ H2); cbn [app];
    rewrite !readable_txt_cons; [|reflexivity].
  rewrite !app_assoc. f_equal. rewrite <- !app_assoc.
  replace y with (x + (y - x)) at 2 by lia. apply split3.
Qed.
Theorem insert_range_readable e1 e2 p spans evs evs' : silent e1 -> silent e2 -> spans_wf spans = true ->
  insert_range e1 e2 p spans evs = Some evs' -> readable_ev evs' = readable_ev evs.
Proof.
  intros H1 H2 W H. unfold insert_range in H.
  destruct (if (p <? 0)%Z then sel_re_neg 0 spans None else sel_re_pos (Z.to_nat p) 0 0 spans) as [[i [x y]]|] eqn:E; [|discriminate].
  injection H as <-. destruct (selected_in _ _ _ _ E) as [sp [E1 E2]].
  apply subst_main_readable. intros; apply range_piece_neutral; auto. eapply spans_wf_in; eassumption.
Qed.
Lemma range_piece_raw e1 e2 x y s : raw e1 = [] -> raw e2 = [] -> x <= y -> raw (range_piece e1 e2 x y s) = s.
Proof.
  intros H1 H2 L. unfold range_piece. rewrite !raw_app, H1, H2. cbn [app].
  assert (E : raw (otxt (netxt (firstn x s))) = firstn x s) by (destruct (firstn x s); [reflexivity|unfold raw; cbn [netxt otxt texts concat]; apply app_nil_r]).
  rewrite E. unfold raw. cbn [texts concat]. rewrite !app_nil_r.
  replace y with (x + (y - x)) at 2 by lia. apply split3.
Qed.
Theorem insert_range_raw e1 e2 p spans evs evs' : raw e1 = [] -> raw e2 = [] -> spans_wf spans = true ->
  insert_range e1 e2 p spans evs = Some evs' -> raw evs' = raw evs.
Proof.
  intros H1 H2 W H. unfold insert_range in H.
  destruct (if (p <? 0)%Z then sel_re_neg 0 spans None else sel_re_pos (Z.to_nat p) 0 0 spans) as [[i [x y]]|] eqn:E; [|discriminate].
  injection H as <-. destruct (selected_in _ _ _ _ E) as [sp [E1 E2]].
  apply subst_main_raw. intros; apply range_piece_raw; auto. eapply spans_wf_in; eassumption.
Qed.
Theorem insert_range_nomatch e1 e2 p spans evs : Forall (fun sp => sp = []) spans -> insert_range e1 e2 p spans evs = None.
Proof. intros H. unfold insert_range. destruct (p <? 0)%Z; [rewrite sel_re_neg_none|rewrite sel_re_pos_none]; auto. Qed.

(* ---------------------------------------------------------------- k successive insertions of mixed kinds *)
Inductive ins_step : list ev -> list ev -> Prop :=
| IS_off k a off len evs : plain_kind k = true -> (0 <= off)%Z -> ins_step evs (wrap_off k a off len evs)
| IS_re k a spans evs : plain_kind k = true -> all_spans_ok (texts evs) spans = true -> ins_step evs (wrap_re k a spans evs)
| IS_ins elem w evs evs' : silent elem -> insert_ elem w evs = Some evs' -> ins_step evs evs'
| IS_range e1 e2 p spans evs evs' : silent e1 -> silent e2 -> spans_wf spans = true ->
    insert_range e1 e2 p spans evs = Some evs' -> ins_step evs evs'.
Inductive ins_steps : nat -> list ev -> list ev -> Prop :=
| ISS_0 evs : ins_steps 0 evs evs
| ISS_S n x y z : ins_step x y -> ins_steps n y z -> ins_steps (S n) x z.
Lemma ins_step_readable x y : ins_step x y -> readable_ev y = readable_ev x.
Proof.
  destruct 1 as [| | |e1 e2 p spans evs evs' H1 H2 W H].
  - now apply wrap_off_readable.
  - now apply wrap_re_readable.
  - eapply insert_readable; eassumption.
  - exact (insert_range_readable _ _ _ _ _ _ H1 H2 W H).
Qed.
Theorem ins_steps_readable n x y : ins_steps n x y -> readable_ev y = readable_ev x.
Proof. induction 1 as [|n x y z H _ IH]; [reflexivity|]. rewrite IH. now apply ins_step_readable. Qed.

(* ---------------------------------------------------------------- where the rewritten main text node sits *)
Lemma subst_main_split f : forall evs ad i s, nth_error (texts_main_ ad evs) i = Some s ->
  exists pre post, evs = pre ++ Txt s :: post /\ texts_main_ ad pre = firstn i (texts_main_ ad evs)
    /\ subst_main_ ad i f evs = pre ++ f s ++ post.
Proof.
  induction evs as [|e evs IH]; intros ad i s H; [destruct i; discriminate|].
  destruct e as [k a| |t]; cbn [texts_main_ subst_main_] in *.
  - destruct (IH _ i s H) as [pre [post [E1 [E2 E3]]]]. exists (Open k a :: pre), post. cbn [app texts_main_]. rewrite <- E1, E2, E3. auto.
  - destruct (IH _ i s H) as [pre [post [E1 [E2 E3]]]]. exists (Close :: pre), post. cbn [app texts_main_]. rewrite <- E1, E2, E3. auto.
  - destruct ad.
    + destruct i; cbn [nth_error] in H.
      * injection H as <-. exists [], evs. auto.
      * destruct (IH 0 i s H) as [pre [post [E1 [E2 E3]]]]. exists (Txt t :: pre), post. cbn [app texts_main_ firstn]. rewrite <- E1, E2, E3. auto.
    + destruct (IH (S ad) i s H) as [pre [post [E1 [E2 E3]]]]. exists (Txt t :: pre), post. cbn [app texts_main_]. rewrite <- E1, E2, E3. auto.
Qed.
(* an empty mark inserted by position sits q characters into a main text node preceded by p - q characters of main text *)
Lemma firstn_app_exact {A} (a s r : list A) q : q <= length s -> firstn (length a + q) (a ++ s ++ r) = a ++ firstn q s.
Proof.
  intros H. induction a as [|x a IH]; cbn [length plus app firstn]; [|now rewrite IH].
  rewrite firstn_app. replace (q - length s) with 0 by lia. cbn [firstn]. apply app_nil_r.
Qed.
Theorem insert_pos_spec elem p evs evs' : (0 <= p)%Z -> insert_ elem (WPos p) evs = Some evs' ->
  exists pre post s q, evs = pre ++ Txt s :: post /\ evs' = pre ++ split_ins elem q s ++ post
    /\ Z.to_nat p = length (concat (texts_main pre)) + q /\ q <= length s
    /\ concat (texts_main pre) ++ firstn q s = firstn (Z.to_nat p) (concat (texts_main evs)).
Proof.
  intros Hp H. cbn [insert_] in H. destruct (Z.ltb_spec p 0); [lia|].
  destruct (sel_pos (Z.to_nat p) 0 0 (texts_main evs)) as [[j q]|] eqn:E; [|discriminate]. injection H as <-.
  destruct (sel_pos_spec _ _ 0 0 j q (Nat.le_0_l _) E) as [i [s [E1 [E2 [E3 E4]]]]]. cbn in E1. subst i.
  destruct (subst_main_split (split_ins elem q) evs 0 j s E2) as [pre [post [F1 [F2 F3]]]].
  exists pre, post, s, q. unfold texts_main in *. rewrite F2. cbn [plus] in E3. repeat split; try assumption.
  rewrite (nth_error_split _ _ _ E2), E3.
  now rewrite firstn_app_exact.
Qed.
(* content=regex: the start and end elements enclose exactly the selected match of a main text node *)
Lemma all_spans_ok_nth : forall ts spans i sp, all_spans_ok ts spans = true -> nth_error spans i = Some sp ->
  exists s, nth_error ts i = Some s /\ spans_ok 0 (length s) sp = true.
Proof.
  induction ts as [|s ts IH]; intros spans i sp H E; destruct spans as [|sp0 q]; try discriminate; [destruct i; discriminate|].
  cbn [all_spans_ok] in H. apply andb_true_iff in H as [H1 H2]. destruct i; cbn [nth_error] in *.
  - injection E as <-. eauto.
  - eapply IH; eassumption.
Qed.
Theorem insert_range_encloses e1 e2 p spans evs evs' : all_spans_ok (texts_main evs) spans = true ->
  insert_range e1 e2 p spans evs = Some evs' ->
  exists pre post s x y, evs = pre ++ Txt s :: post /\ x < y <= length s
    /\ evs' = pre ++ otxt (netxt (firstn x s)) ++ e1 ++ Txt (firstn (y - x) (skipn x s)) :: e2 ++ Txt (skipn y s) :: post.
Proof.
  intros W H. unfold insert_range in H.
  destruct (if (p <? 0)%Z then sel_re_neg 0 spans None else sel_re_pos (Z.to_nat p) 0 0 spans) as [[i [x y]]|] eqn:E; [|discriminate].
  injection H as <-. destruct (selected_in _ _ _ _ E) as [sp [E1 E2]].
  destruct (all_spans_ok_nth _ _ _ _ W E1) as [s [E3 E4]].
  destruct (subst_main_split (range_piece e1 e2 x y) evs 0 i s E3) as [pre [post [F1 [F2 F3]]]].
  destruct (spans_ok_in _ _ _ _ _ E4 E2) as [G1 [G2 G3]].
  exists pre, post, s, x, y. split; [exact F1|]. split; [lia|]. unfold subst_main. rewrite F3. unfold range_piece.
  f_equal. repeat rewrite <- app_assoc. cbn [app]. reflexivity.
Qed.

(* ---------------------------------------------------------------- search: the own text is the readable text of the content *)
Lemma own_flat : forall n, wsnt n = true -> forall R,
  readable_ 0 (flat n ++ R) = (if hidden (kind_of n) then [] else own_text n) ++ oget (tail_of n) ++ readable_ 0 R.
Proof.
  induction n as [k a sel tx ks tl IH] using node_ind'. intros W R.
  cbn [wsnt] in W. apply andb_true_iff in W as [W0 WK].
  assert (KD : forall R', readable_ 0 (flat_map flat ks ++ R') =
            flat_map (fun c => (if hidden (kind_of c) then [] else own_text c) ++ oget (tail_of c)) ks ++ readable_ 0 R').
  { clear W0. induction IH as [|c ks Hc _ IHks]; intros R'; [reflexivity|]. cbn [forallb] in WK. apply andb_true_iff in WK as [W1 W2].
    cbn [flat_map]. rewrite <- !app_assoc, (Hc W1), (IHks W2). rewrite <- ?app_assoc. reflexivity. }
  cbn [flat kind_of tail_of app].
  assert (T : forall sk, readable_ sk (Close :: otxt tl ++ R) = match pred sk with O => oget tl ++ readable_ 0 R | S m => readable_ (S m) R end).
  { intros sk. cbn [readable_]. destruct tl; cbn [otxt app oget]; [rewrite readable_txt_cons|]; destruct (pred sk); reflexivity. }
  destruct (hidden k) eqn:HK.
  - cbn [readable_]. rewrite HK.
    replace (otxt tx ++ flat_map flat ks ++ Close :: otxt tl) with ((otxt tx ++ flat_map flat ks) ++ Close :: otxt tl) by now rewrite <- app_assoc.
    rewrite <- app_assoc. rewrite readable_app.
    assert (B : Bal (otxt tx ++ flat_map flat ks)) by (apply Bal_app; [apply Bal_otxt|apply Bal_flat_map]).
    destruct (Bal_skipped _ B 0) as [-> ->]. cbn [app]. rewrite (T 1). reflexivity.
  - assert (G : readable_ 0 (otxt tx ++ flat_map flat ks ++ Close :: otxt tl ++ R)
              = oget tx ++ flat_map (fun c => (if hidden (kind_of c) then [] else own_text c) ++ oget (tail_of c)) ks ++ oget tl ++ readable_ 0 R).
    { rewrite readable_otxt0. f_equal. rewrite KD. f_equal. apply (T 0). }
    rewrite <- !app_assoc. cbn [app].
    destruct k; try discriminate; cbn [readable_ hidden own_text];
      try (rewrite G, <- app_assoc; reflexivity);
      (destruct tx; [cbn in W0; discriminate|]; cbn [otxt oget app] in G |- *; rewrite G, <- ?app_assoc; cbn [app]; reflexivity).
Qed.
Theorem own_text_readable n : wsnt n = true -> ws_kind (kind_of n) = false -> own_text n = readable_ev (content n).
Proof.
  intros W K. pose proof (own_flat n W []) as F. destruct n as [k a sel tx ks tl].
  cbn [kind_of] in K. unfold readable_ev. cbn [content].
  cbn [wsnt] in W. apply andb_true_iff in W as [_ WK].
  assert (KD : readable_ 0 (flat_map flat ks) = flat_map (fun c => (if hidden (kind_of c) then [] else own_text c) ++ oget (tail_of c)) ks).
  { clear F. induction ks as [|c ks IHks]; [reflexivity|]. cbn [forallb] in WK. apply andb_true_iff in WK as [W1 W2].
    cbn [flat_map]. rewrite (own_flat c W1), (IHks W2). now rewrite <- app_assoc. }
  rewrite readable_otxt0, KD. destruct k; try discriminate; reflexivity.
Qed.
