(* ReadFam.v -- what "a family of reads is pure and repeatable" means, once, for every modelled read family of C15.

   A family is a state machine restricted to its reads: step, an invariant of the state (coherence of caches, well-formed
   bookkeeping ...), a validity condition on the read's arguments, and [same]: two states show the same observable
   document (XML view / part view).  Reads may change the state (they fill caches, load parts) -- that is why [same] is
   not equality.  Lawful: a valid read on an invariant state keeps the invariant and the observable view, and its answer
   is determined by the view.  Consequence (family_run): any history of valid reads, in any order, any number of times,
   leaves the view unchanged and answers each read as the ORIGINAL state would.  Products of families are families. *)
From Coq Require Import List. Import ListNotations.

Record family := mkFam {
  fS : Type; fR : Type; fA : Type;
  fstep : fS -> fR -> fS * fA;
  fInv : fS -> Prop;
  fok : fR -> Prop;
  fsame : fS -> fS -> Prop }.

Record lawful (F : family) : Prop := mkLaw {
  same_refl : forall s, fsame F s s;
  same_trans : forall a b c, fsame F a b -> fsame F b c -> fsame F a c;
  read_keeps : forall s r, fInv F s -> fok F r -> fInv F (fst (fstep F s r)) /\ fsame F s (fst (fstep F s r));
  read_answer : forall s s' r, fInv F s -> fInv F s' -> fok F r -> fsame F s s' -> snd (fstep F s' r) = snd (fstep F s r) }.

Fixpoint frun (F : family) (s : fS F) (rs : list (fR F)) : fS F * list (fA F) :=
  match rs with
  | [] => (s, [])
  | r :: rest => let (s1, a) := fstep F s r in let (s2, l) := frun F s1 rest in (s2, a :: l)
  end.

Lemma family_run_gen : forall F, lawful F -> forall rs s0 s, fInv F s0 -> fInv F s -> fsame F s0 s -> Forall (fok F) rs ->
  fInv F (fst (frun F s rs)) /\ fsame F s0 (fst (frun F s rs)) /\ snd (frun F s rs) = map (fun r => snd (fstep F s0 r)) rs.
Proof.
  intros F L. induction rs as [|r rs IH]; intros s0 s I0 I S Hok; [cbn; auto|].
  inversion Hok as [|? ? Hr Hrs]; subst. cbn [frun map].
  destruct (read_keeps F L s r I Hr) as [I1 S1]. pose proof (read_answer F L s0 s r I0 I Hr S) as HA.
  destruct (fstep F s r) as [s1 a] eqn:E. cbn [fst snd] in *.
  destruct (IH s0 s1 I0 I1 (same_trans F L _ _ _ S S1) Hrs) as (I2 & S2 & A2).
  destruct (frun F s1 rs) as [s2 l]. cbn [fst snd] in *. repeat split; [exact I2|exact S2|]. rewrite HA, A2. reflexivity.
Qed.

(* any history of valid reads: invariant kept, view unchanged, every answer = the answer on the original state *)
Theorem family_run : forall F, lawful F -> forall rs s, fInv F s -> Forall (fok F) rs ->
  fInv F (fst (frun F s rs)) /\ fsame F s (fst (frun F s rs)) /\ snd (frun F s rs) = map (fun r => snd (fstep F s r)) rs.
Proof. intros F L rs s I H. apply family_run_gen; auto. apply (same_refl F L). Qed.

(* one read: view unchanged and the answer repeats *)
Theorem family_read_pure : forall F, lawful F -> forall s r, fInv F s -> fok F r ->
  fsame F s (fst (fstep F s r)) /\ snd (fstep F (fst (fstep F s r)) r) = snd (fstep F s r).
Proof.
  intros F L s r I H. destruct (read_keeps F L s r I H) as [I1 S1]. split; [exact S1|].
  apply (read_answer F L); assumption.
Qed.

(* ---- product: two documents' worth of state side by side, a read of either ---- *)
Definition fprod (F G : family) : family :=
  mkFam (fS F * fS G) (fR F + fR G) (fA F + fA G)
    (fun s r => match r with
                | inl r1 => let (s1, a) := fstep F (fst s) r1 in ((s1, snd s), inl a)
                | inr r2 => let (s2, a) := fstep G (snd s) r2 in ((fst s, s2), inr a)
                end)
    (fun s => fInv F (fst s) /\ fInv G (snd s))
    (fun r => match r with inl r1 => fok F r1 | inr r2 => fok G r2 end)
    (fun s t => fsame F (fst s) (fst t) /\ fsame G (snd s) (snd t)).

Lemma lawful_prod : forall F G, lawful F -> lawful G -> lawful (fprod F G).
Proof.
  intros F G LF LG. constructor; cbn.
  - intros [s1 s2]. split; [apply (same_refl F LF)|apply (same_refl G LG)].
  - intros [a1 a2] [b1 b2] [c1 c2] [H1 H2] [H3 H4]. cbn in *. split; [eapply (same_trans F LF); eauto|eapply (same_trans G LG); eauto].
  - intros [s1 s2] [r|r] [I1 I2] Hr; cbn in *.
    + destruct (read_keeps F LF s1 r I1 Hr) as [A B]. destruct (fstep F s1 r) as [s1' a]. cbn in *.
      repeat split; auto. apply (same_refl G LG).
    + destruct (read_keeps G LG s2 r I2 Hr) as [A B]. destruct (fstep G s2 r) as [s2' a]. cbn in *.
      repeat split; auto. apply (same_refl F LF).
  - intros [s1 s2] [t1 t2] [r|r] [I1 I2] [J1 J2] Hr [S1 S2]; cbn in *.
    + pose proof (read_answer F LF s1 t1 r I1 J1 Hr S1) as H.
      destruct (fstep F s1 r) as [? a], (fstep F t1 r) as [? b]. cbn in *. subst. reflexivity.
    + pose proof (read_answer G LG s2 t2 r I2 J2 Hr S2) as H.
      destruct (fstep G s2 r) as [? a], (fstep G t2 r) as [? b]. cbn in *. subst. reflexivity.
Qed.

(* a family whose reads are functions of the state (no cache, no load): lawful by construction *)
Definition ffun (S R A : Type) (f : S -> R -> A) : family :=
  mkFam S R A (fun s r => (s, f s r)) (fun _ => True) (fun _ => True) (fun s t => s = t).
Lemma lawful_fun : forall S R A f, lawful (ffun S R A f).
Proof. intros. constructor; cbn; try congruence; auto; intros; subst; reflexivity. Qed.

(* post-processing an answer (an exporter built on a read) keeps lawfulness *)
Definition fpost (F : family) (X : Type) (post : fA F -> X) : family :=
  mkFam (fS F) (fR F) X (fun s r => let (s', a) := fstep F s r in (s', post a)) (fInv F) (fok F) (fsame F).
Lemma lawful_post : forall F X post, lawful F -> lawful (fpost F X post).
Proof.
  intros F X post L. constructor; cbn.
  - apply (same_refl F L). - apply (same_trans F L).
  - intros s r I H. pose proof (read_keeps F L s r I H) as K. destruct (fstep F s r); exact K.
  - intros s s' r I I' H S. pose proof (read_answer F L s s' r I I' H S) as K.
    destruct (fstep F s r), (fstep F s' r). cbn in *. subst. reflexivity.
Qed.
