(* TableGproof.v — C08 on the getter model: wherever the documentation promises a copy the model's handle is Detached
   (so no mutation of the returned object reaches the table); out-of-area reads give the empty cell / row / column; the
   single-object getters carry the addressed coordinates and the content of that position. *)
From Coq Require Import List ZArith Lia Bool Arith.
Import ListNotations.
Require Import Vault Vaultproof Vaultproof3 Vaultproof4 Row Table Grid Tableabs Tableproof Tableproof2 Tableproof5 Tableproof6 Tableproof7
               Tablexmlproof TableB TableG TableGspec.
Open Scope Z_scope.

Lemma Forall_concat {A} (P : A -> Prop) (l : list (list A)) : Forall (Forall P) l -> Forall P (concat l).
Proof. induction 1; cbn [concat]; [constructor|apply Forall_app; split; assumption]. Qed.
Lemma Forall_map' {A B} (P : B -> Prop) (f : A -> B) l : Forall (fun a => P (f a)) l -> Forall P (map f l).
Proof. induction 1; cbn [map]; constructor; assumption. Qed.
Lemma Forall_all {A} (P : A -> Prop) l : (forall a, P a) -> Forall P l.
Proof. intros H. induction l; constructor; auto. Qed.
Lemma Forall_filter {A} (P : A -> Prop) f l : Forall P l -> Forall P (filter f l).
Proof. induction 1; cbn [filter]; [constructor|]. destruct (f x); [constructor|]; assumption. Qed.

(* ---- where a copy is promised, the handle is Detached ---- *)
Lemma yield_rows_detached rs : forall i y, Forall (fun r => r_h r = Detached) (yield_rows false i y rs).
Proof.
  induction rs as [|[n r] rs IH]; intros i y; cbn [yield_rows]; [constructor|].
  apply Forall_app. split; [|apply IH]. apply Forall_map', Forall_all. reflexivity.
Qed.
Lemma m_traverse_detached s e t : Forall (fun r => r_h r = Detached) (m_traverse false s e t).
Proof.
  unfold m_traverse. destruct e as [e|]; [destruct (e <? _); [constructor|]|]; apply Forall_filter, yield_rows_detached.
Qed.
Lemma m_row_traverse_detached s e ry cs : Forall (fun c => c_h c = Detached) (m_row_traverse s e ry cs).
Proof. unfold m_row_traverse. apply Forall_map', Forall_all. intros [[x rep] c]. reflexivity. Qed.
Lemma pad_cells_detached fuel : forall pos w ry, Forall (fun c => c_h c = Detached) (pad_cells pos w ry fuel).
Proof. induction fuel as [|f IH]; intros; cbn [pad_cells]; [constructor|]. destruct (pos <? w); constructor; [reflexivity|apply IH]. Qed.
Lemma m_row_get_cell_detached x cl ry rh cs : cl = true \/ rh = Detached -> c_h (m_row_get_cell x cl ry rh cs) = Detached.
Proof.
  intros H. unfold m_row_get_cell. destruct (rwidth cs <=? _); [reflexivity|].
  destruct (cell_pos_at _ cs) as [[j [n c]]|]; [|reflexivity]. cbn [c_h].
  destruct H as [->| ->]; [reflexivity|destruct cl; reflexivity].
Qed.
Lemma m_get_row_clone y t : r_h (m_get_row y true t) = Detached.
Proof.
  unfold m_get_row. destruct (theight t <=? _); [reflexivity|].
  destruct (find_idx _ _) as [i|]; [|reflexivity]. destruct (nth_error _ _) as [[n r]|]; reflexivity.
Qed.

Theorem copies_detached pad t q : promises_copy q = true -> Forall (fun h => h = Detached) (res_handles (m_get false pad t q)).
Proof.
  intros Hp. destruct q; cbn [m_get res_handles promises_copy] in *.
  - (* get_cell *) subst clone. cbn [concat app map]. constructor; [|constructor].
    unfold m_get_cell. destruct (theight t <=? _); [reflexivity|]. cbn [c_h]. apply m_row_get_cell_detached. now left.
  - subst clone. constructor; [apply m_get_row_clone|constructor].
  - (* get_cells *) apply Forall_map', Forall_concat. unfold m_get_cells.
    destruct pad, area as [[[[x y] z] e]|]; apply Forall_map', Forall_all; intros r; cbn [negb orb];
      try apply Forall_app; try split; try apply m_row_traverse_detached; try apply pad_cells_detached.
  - apply Forall_map', Forall_concat. unfold m_cells. apply Forall_map', Forall_all. intros r. apply m_row_traverse_detached.
  - apply Forall_map'. unfold m_get_rows. destruct range as [[y e]|]; apply m_traverse_detached.
  - apply Forall_map'. apply m_traverse_detached.
  - constructor; [|constructor]. unfold m_get_column. destruct (twidth t <=? _); [reflexivity|].
    destruct (find_idx _ _) as [i|]; [|reflexivity]. destruct (nth_error _ _) as [[n st]|]; reflexivity.
  - apply Forall_map'. unfold m_get_columns, m_traverse_columns. destruct range as [[x z]|]; apply Forall_map', Forall_all; intros [[x' rep] st]; reflexivity.
  - apply Forall_map'. unfold m_traverse_columns. apply Forall_map', Forall_all; intros [[x' rep] st]; reflexivity.
  - cbn [concat]. rewrite app_nil_r. apply Forall_map'. unfold m_get_column_cells. apply Forall_map'.
    pose proof (m_traverse_detached None None t) as Hd. induction Hd as [|r l Hr Hl IH]; constructor; [|exact IH].
    cbn [c_h]. apply m_row_get_cell_detached. now left.
  - cbn [concat app map]. constructor; [|constructor]. apply m_row_get_cell_detached.
    apply orb_true_iff in Hp. destruct Hp as [->| ->]; [now left|right; apply m_get_row_clone].
  - cbn [concat]. rewrite app_nil_r. apply Forall_map', m_row_traverse_detached.
  - cbn [concat]. rewrite app_nil_r. apply Forall_map', m_row_traverse_detached.
Qed.

(* Detached means: whatever is done to the returned object, the table stays what it is *)
Theorem detached_mutation_invisible pad t q f : promises_copy q = true ->
  Forall (fun h => mutate h f t = t) (res_handles (m_get false pad t q)).
Proof. intros Hp. eapply Forall_impl; [|apply copies_detached; exact Hp]. intros h ->. reflexivity. Qed.

(* ---- the pinned traverse hands out LIVE rows for unrepeated rows (F13) and mutating one changes the table ---- *)
Theorem traverse_pinned_refuted_w : exists t f, WF t /\
  exists h, In h (res_handles (m_get true false t (GTraverse None None))) /\ abs_t (mutate h f t) <> abs_t t.
Proof.
  exists {| cols := [(1%nat, 0)]; rows := [(1%nat, (0, [(1%nat, (5, 0))]))] |}, (MAppendCell (1%nat, (7, 0))).
  split; [apply WFb_WF; reflexivity|]. exists (LiveRow 0). split; [now left|]. vm_compute. discriminate.
Qed.
(* get_cells(area) AS IT IS returns fewer cells than the area on a row stored narrower than the area (F30, known finding): the
   documented reading fails, the as-stored reading and the candidate repair hold on the same input *)
Theorem get_cells_pinned_refuted_w : exists t q, WF t /\ Tablexmlproof.fits t = true /\
  meets (promises_copy q) (expands q) (m_get false false t q) (spec_get true (abs_t t) q) = false /\
  meets (promises_copy q) (expands q) (m_get false false t q) (spec_get false (abs_t t) q) = true /\
  meets (promises_copy q) (expands q) (m_get false true t q) (spec_get true (abs_t t) q) = true.
Proof.
  exists {| cols := [(2%nat, 0)]; rows := [(1%nat, (0, [])); (1%nat, (0, [(1%nat, (5, 0))]))] |}, (GGetCells (Some (0, 0, 1, 1))).
  split; [apply WFb_WF; reflexivity|]. repeat split; reflexivity.
Qed.
(* the pinned get_column_cells keeps the column repetition of the cells (F32) *)
Theorem get_column_cells_pinned_refuted_w : exists t q, WF t /\ expands q = true /\ exists n, In n (res_reps (m_get true false t q)) /\ n <> 1%nat.
Proof.
  exists {| cols := [(3%nat, 0)]; rows := [(1%nat, (0, [(3%nat, (7, 0))]))] |}, (GColumnCells 1).
  split; [apply WFb_WF; reflexivity|]. split; [reflexivity|]. exists 3%nat. split; [now left|lia].
Qed.
(* the pinned traverse_columns(start, end) keeps the repeat of a column when start is the last position of its run (F110) *)
Theorem traverse_columns_pinned_refuted_w : exists t q, WF t /\ expands q = true /\ exists n, In n (res_reps (m_get true false t q)) /\ n <> 1%nat.
Proof.
  exists {| cols := [(3%nat, 0)]; rows := [] |}, (GTraverseColumns (Some 2) (Some 2)).
  split; [apply WFb_WF; reflexivity|]. split; [reflexivity|]. exists 3%nat. split; [now left|lia].
Qed.

(* ---- out-of-area reads: the empty cell / row / column, stamped with the coordinates asked for ---- *)
Theorem out_of_area t : WF t ->
  (forall x y cl kp, theight t <= ny y t -> m_get_cell x y cl kp t =
      {| c_x := Some (nx x t); c_y := Some (ny y t); c_rep := 1; c_h := Detached; c_val := empty_cell |}) /\
  (forall y cl, theight t <= ny y t -> m_get_row y cl t = {| r_y := Some (ny y t); r_rep := 1; r_h := Detached; r_val := empty_row |}) /\
  (forall x, twidth t <= nx x t -> m_get_column x t = {| k_x := Some (nx x t); k_rep := 1; k_h := Detached; k_st := 0 |}).
Proof.
  intros _. repeat split; intros.
  - unfold m_get_cell. destruct (Z.leb_spec (theight t) (ny y t)); [reflexivity|lia].
  - unfold m_get_row. destruct (Z.leb_spec (theight t) (ny y t)); [reflexivity|lia].
  - unfold m_get_column. destruct (Z.leb_spec (twidth t) (nx x t)); [reflexivity|lia].
Qed.
