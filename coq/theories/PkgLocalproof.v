(* PkgLocalproof.v — locality: an operation reads the file system only at the path of its own container; hence the full
   commutation of C10: any interleaved run on (original, clone) = the two solo runs *)
From Coq Require Import List ZArith Bool Arith Lia.
Import ListNotations.
Require Import Package Pkgproof.
Open Scope Z_scope.

Section L.
Variable xml bytes kid : Type.
Variable ser : xml -> bytes.
Variable par : bytes -> xml.
Variable pretty stamp : xml -> xml.
Variable entries : xml -> mentries.
Variable with_entries : mentries -> xml -> xml.
Variable kids : xml -> list kid.
Variable mime : bytes -> mtype.
Variable mime_bytes : mtype -> bytes.
Variable rdf0 : bytes.
Variable fx : fixes.
Notation container := (container bytes).
Notation document := (document xml bytes).
Notation fsys := (fsys bytes kid).
Notation disk_lookup := (disk_lookup bytes kid).
Notation disk_entries := (disk_entries bytes kid).
Notation c_get_part := (c_get_part bytes kid fx).
Notation c_listing := (c_listing bytes kid fx).
Notation c_load_missing := (c_load_missing bytes kid fx).
Notation d_tree := (d_tree xml bytes kid par fx).
Notation step := (step xml bytes kid ser par pretty stamp entries with_entries kids mime mime_bytes rdf0 fx).
Notation run := (run xml bytes kid ser par pretty stamp entries with_entries kids mime mime_bytes rdf0 fx).

(* two file systems that hold the same archive at the path a container reads from *)
Definition same_at (op : option Z) (fs fs' : fsys) : Prop := forall p, op = Some p -> disk_entries fs p = disk_entries fs' p.

Lemma dl_same : forall op fs fs' n, same_at op fs fs' -> disk_lookup fs op n = disk_lookup fs' op n.
Proof. intros [p|] fs fs' n H; [|reflexivity]. unfold Package.disk_lookup. rewrite (H p eq_refl). reflexivity. Qed.
Lemma stored_same : forall fs fs' (c : container), same_at (cpath _ c) fs fs' -> c_stored bytes kid fs c = c_stored bytes kid fs' c.
Proof. intros fs fs' c H. unfold c_stored. destruct (cpath _ c) as [p|]; [|reflexivity]. rewrite (H p eq_refl). reflexivity. Qed.
Lemma listing_same : forall fs fs' (c : container), same_at (cpath _ c) fs fs' -> c_listing fs c = c_listing fs' c.
Proof. intros fs fs' c H. unfold Package.c_listing. rewrite (stored_same fs fs' c H). reflexivity. Qed.

Lemma c_get_part_local : forall fs fs' n (c : container), same_at (cpath _ c) fs fs' -> c_get_part fs n c = c_get_part fs' n c.
Proof. intros fs fs' n c H. unfold Package.c_get_part. rewrite (dl_same _ fs fs' n H). reflexivity. Qed.
Lemma c_get_part_cpath : forall fs n (c : container), cpath _ (fst (c_get_part fs n c)) = cpath _ c.
Proof.
  intros fs n c. unfold Package.c_get_part.
  destruct (lookup n (parts _ c)) as [[b|]|]; [| reflexivity |].
  - destruct (pkg _ c); try reflexivity. destruct (cpath _ c) eqn:Cp; [|destruct (fx38 fx); cbn; auto].
    destruct (memz n (tsl _ c)); [cbn; auto|]. destruct (disk_lookup fs (Some z) n); cbn; auto.
  - destruct (pkg _ c); destruct (cpath _ c) eqn:Cp; try (cbn; auto; fail);
      destruct (disk_lookup fs (Some z) n); cbn; auto.
Qed.

Lemma c_load_missing_local : forall fs fs' ns (c : container), same_at (cpath _ c) fs fs' -> c_load_missing fs ns c = c_load_missing fs' ns c.
Proof.
  intros fs fs'. unfold Package.c_load_missing. induction ns as [|n ns IH]; intros c H; cbn [fold_left]; [reflexivity|].
  destruct (lookup n (parts _ c)); [apply IH; exact H|].
  rewrite (c_get_part_local fs fs' n c H). apply IH. rewrite c_get_part_cpath. exact H.
Qed.
Lemma c_load_missing_cpath : forall fs ns (c : container), cpath _ (c_load_missing fs ns c) = cpath _ c.
Proof.
  intros fs. unfold Package.c_load_missing. induction ns as [|n ns IH]; intros c; cbn [fold_left]; [reflexivity|].
  rewrite IH. destruct (lookup n (parts _ c)); [reflexivity|apply c_get_part_cpath].
Qed.

Lemma c_clone_local : forall fs fs' (c : container), same_at (cpath _ c) fs fs' -> c_clone bytes kid fx fs c = c_clone bytes kid fx fs' c.
Proof.
  intros fs fs' c H. unfold Package.c_clone, Package.c_load_all_zip.
  destruct (cpath _ c) as [p|] eqn:Cp; [|reflexivity].
  rewrite <- (H p eq_refl). assert (H' : same_at (cpath _ c) fs fs') by (rewrite Cp; exact H).
  rewrite (listing_same fs fs' c H'), (c_load_missing_local fs fs' _ c H'). reflexivity.
Qed.

Lemma load_all_fold_cpath : forall (es : list (name * bytes)) (c : container),
  cpath _ (fold_left (fun c e => if fx37 fx then match lookup (fst e) (parts _ c) with None => c_load bytes (fst e) (snd e) c | Some _ => c end
                                 else c_load bytes (fst e) (snd e) c) es c) = cpath _ c.
Proof.
  destruct (fx37 fx); induction es as [|e es IH]; intros c; cbn [fold_left]; try reflexivity; rewrite IH.
  - match goal with |- context [match ?t with Some _ => _ | None => _ end] => destruct t end; reflexivity.
  - reflexivity.
Qed.

Lemma c_clone_cpath : forall fs (c : container), cpath _ (fst (c_clone bytes kid fx fs c)) = cpath _ c.
Proof.
  intros fs c. unfold Package.c_clone. cbn [fst].
  destruct (cpath _ c) as [z|] eqn:Cp; [|exact Cp]. destruct (pkg _ c); [| |exact Cp].
  - unfold Package.c_load_all_zip. rewrite Cp. destruct (disk_entries fs z) as [es|]; [|exact Cp].
    rewrite load_all_fold_cpath. exact Cp.
  - destruct (fx38 fx); [rewrite c_load_missing_cpath|]; exact Cp.
Qed.

Lemma d_tree_local : forall fs fs' n (d : document), same_at (cpath _ (cont _ _ d)) fs fs' -> d_tree fs n d = d_tree fs' n d.
Proof. intros fs fs' n d H. unfold Package.d_tree. rewrite (c_get_part_local fs fs' n _ H). reflexivity. Qed.
Lemma d_tree_cpath : forall fs n (d : document), cpath _ (cont _ _ (fst (d_tree fs n d))) = cpath _ (cont _ _ d).
Proof.
  intros fs n d. unfold Package.d_tree. destruct (lookup n (xp_cache xml n (xps _ _ d))) as [[x|]|]; [reflexivity| |];
    (pose proof (c_get_part_cpath fs n (cont _ _ d)) as G; destruct (c_get_part fs n (cont _ _ d)) as [c' [b|]]; exact G).
Qed.

Definition P (d : document) := cpath _ (cont _ _ d).

Lemma d_manifest_local : forall fs fs' f (d : document), same_at (P d) fs fs' ->
  d_manifest xml bytes kid par entries with_entries fx fs f d = d_manifest xml bytes kid par entries with_entries fx fs' f d.
Proof. intros. unfold d_manifest. rewrite (d_tree_local fs fs' MANIFEST d H). reflexivity. Qed.
Lemma d_del_part_local : forall fs fs' n (d : document), same_at (P d) fs fs' ->
  d_del_part xml bytes kid par entries with_entries fx fs n d = d_del_part xml bytes kid par entries with_entries fx fs' n d.
Proof. intros. unfold d_del_part. destruct ((n =? MANIFEST) || is_xml n); [reflexivity|]. destruct (fx11 fx); [|reflexivity]. apply d_manifest_local. exact H. Qed.
Lemma d_add_file_local : forall fs fs' n b m (d : document), same_at (P d) fs fs' ->
  d_add_file xml bytes kid par entries with_entries fx fs n b m d = d_add_file xml bytes kid par entries with_entries fx fs' n b m d.
Proof. intros. unfold d_add_file. rewrite (d_tree_local fs fs' MANIFEST d H). reflexivity. Qed.
Lemma d_import_local : forall fs fs' n b m (d : document), same_at (P d) fs fs' ->
  d_import xml bytes kid par entries with_entries fx fs n b m d = d_import xml bytes kid par entries with_entries fx fs' n b m d.
Proof. intros. unfold d_import. rewrite (d_tree_local fs fs' MANIFEST (d_set_part xml bytes fx n b d) H). reflexivity. Qed.
Lemma d_import_cpath : forall fs n b m (d : document), P (fst (d_import xml bytes kid par entries with_entries fx fs n b m d)) = P d.
Proof.
  intros. unfold d_import, P. pose proof (d_tree_cpath fs MANIFEST (d_set_part xml bytes fx n b d)) as G.
  destruct (d_tree fs MANIFEST (d_set_part xml bytes fx n b d)) as [d1 [x|]]; cbn [fst] in *; exact G.
Qed.
Lemma d_set_tree_opt_local : forall fs fs' n ox (d : document), same_at (P d) fs fs' ->
  d_set_tree_opt xml bytes kid par fx fs n ox d = d_set_tree_opt xml bytes kid par fx fs' n ox d.
Proof. intros fs fs' n ox d H. unfold d_set_tree_opt. destruct ox as [x'|]; [|reflexivity]. rewrite (d_tree_local fs fs' n d H). reflexivity. Qed.
Lemma d_set_tree_opt_cpath : forall fs n ox (d : document), P (fst (d_set_tree_opt xml bytes kid par fx fs n ox d)) = P d.
Proof.
  intros fs n ox d. unfold d_set_tree_opt, P. destruct ox as [x'|]; [|reflexivity]. pose proof (d_tree_cpath fs n d) as G.
  destruct (d_tree fs n d) as [d1 [y|]]; exact G.
Qed.

Lemma imports_local : forall fs fs' (imgs : list (name * bytes * mtype)) (d2 : document) (b0 : bool), same_at (P d2) fs fs' ->
  fold_left (fun (acc : document * bool) e =>
               let '(d', ok) := d_import xml bytes kid par entries with_entries fx fs (fst (fst e)) (snd (fst e)) (snd e) (fst acc) in (d', snd acc && ok)) imgs (d2, b0)
  = fold_left (fun (acc : document * bool) e =>
               let '(d', ok) := d_import xml bytes kid par entries with_entries fx fs' (fst (fst e)) (snd (fst e)) (snd e) (fst acc) in (d', snd acc && ok)) imgs (d2, b0).
Proof.
  intros fs fs'. induction imgs as [|e imgs IH]; intros d2 b0 H2; cbn [fold_left fst snd]; [reflexivity|].
  rewrite (d_import_local fs fs' (fst (fst e)) (snd (fst e)) (snd e) d2 H2).
  pose proof (d_import_cpath fs' (fst (fst e)) (snd (fst e)) (snd e) d2) as C.
  destruct (d_import xml bytes kid par entries with_entries fx fs' (fst (fst e)) (snd (fst e)) (snd e) d2) as [d' ok]. cbn [fst] in C.
  apply IH. rewrite C. exact H2.
Qed.

Lemma d_merge_local : forall fs fs' sc sx imgs (d : document), same_at (P d) fs fs' ->
  d_merge xml bytes kid par entries with_entries fx fs sc sx imgs d = d_merge xml bytes kid par entries with_entries fx fs' sc sx imgs d.
Proof.
  intros fs fs' sc sx imgs d H. unfold d_merge.
  set (d0 := mkD (cont _ _ d) (xp_cache xml MANIFEST (xps _ _ d))).
  assert (H0 : same_at (P d0) fs fs') by exact H.
  rewrite (d_set_tree_opt_local fs fs' CONTENT sc d0 H0).
  pose proof (d_set_tree_opt_cpath fs' CONTENT sc d0) as C1.
  destruct (d_set_tree_opt xml bytes kid par fx fs' CONTENT sc d0) as [d1 ok1]. cbn [fst] in C1.
  assert (H1 : same_at (P d1) fs fs') by (rewrite C1; exact H0).
  rewrite (d_set_tree_opt_local fs fs' STYLES sx d1 H1).
  pose proof (d_set_tree_opt_cpath fs' STYLES sx d1) as C2.
  destruct (d_set_tree_opt xml bytes kid par fx fs' STYLES sx d1) as [d2 ok2]. cbn [fst] in C2.
  assert (H2 : same_at (P d2) fs fs') by (rewrite C2; exact H1).
  apply imports_local. exact H2.
Qed.

Lemma clone_fold_local : forall fs fs' (ns : list name) (d1 : document) (cl : container), same_at (P d1) fs fs' ->
  fold_left (fun (acc : document * container) n =>
               let '(dd, ox) := d_tree fs n (fst acc) in
               match ox with Some x => (dd, c_set_part bytes fx n (ser x) (snd acc)) | None => (dd, snd acc) end) ns (d1, cl)
  = fold_left (fun (acc : document * container) n =>
               let '(dd, ox) := d_tree fs' n (fst acc) in
               match ox with Some x => (dd, c_set_part bytes fx n (ser x) (snd acc)) | None => (dd, snd acc) end) ns (d1, cl).
Proof.
  intros fs fs'. induction ns as [|n ns IH]; intros d1 cl H1; cbn [fold_left fst snd]; [reflexivity|].
  rewrite (d_tree_local fs fs' n d1 H1).
  pose proof (d_tree_cpath fs' n d1) as C.
  destruct (d_tree fs' n d1) as [dd [x|]]; cbn [fst snd] in *; apply IH; unfold P; rewrite C; exact H1.
Qed.

Lemma d_clone_local : forall fs fs' (d : document), same_at (P d) fs fs' -> d_clone xml bytes kid ser par fx fs d = d_clone xml bytes kid ser par fx fs' d.
Proof.
  intros fs fs' d H. unfold Package.d_clone. rewrite (c_clone_local fs fs' (cont _ _ d) H).
  destruct (c_clone bytes kid fx fs' (cont _ _ d)) as [c1 cl] eqn:E.
  destruct (fx14 fx); [|reflexivity].
  assert (Hc1 : cpath _ c1 = cpath _ (cont _ _ d)) by (pose proof (c_clone_cpath fs' (cont _ _ d)) as G; rewrite E in G; exact G).
  set (d1 := d_with_cont _ _ d c1).
  assert (H1 : same_at (P d1) fs fs') by (unfold P, d1; cbn [cont d_with_cont]; rewrite Hc1; exact H).
  rewrite (clone_fold_local fs fs' (map fst (xps _ _ d1)) d1 cl H1). reflexivity.
Qed.
End L.
