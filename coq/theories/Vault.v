(* Vault.v — executable model of src/odfdo/element_cached.py (definitions only, no proofs).

   A "vault" is an XML element whose children of one kind (cells of a row, rows of a table, columns of a
   table) are stored run-length encoded: item i carries a repeat count n_i >= 1 (attribute absent = 1).
   Beside the XML the code keeps a sorted position map (_rmap / _tmap / _cmap): entry i = last logical
   position covered by item i.  The three mutators locate the run through the MAP (bisect_left), not
   through the XML, then edit the XML and patch the map incrementally.

   runs A      = list (nat * A)           the XML items in document order (repeat, payload)
   cmap v      = make_cache_map            the map as recomputed from the XML
   find_idx    = find_odf_idx              bisect_left + bound test
   insert_item / set_item / delete_item    XML effect of insert/set/delete_item_in_vault
   insert_map / set_map / delete_map       their incremental map updates
   set_item is the REPAIRED overlap handling (fixes/F01); set_item_pinned + set_map_pinned are the
   faithful model of the pinned code (used for the ..._refuted witnesses and by the harness to classify). *)
From Coq Require Import List ZArith Bool Arith.
Import ListNotations.

Section Vault.
Variable A : Type.
Definition runs := list (nat * A).

Fixpoint expand (v : runs) : list A :=
  match v with [] => [] | (n,a)::v' => repeat a n ++ expand v' end.
Definition width (v : runs) : nat := length (expand v).
Definition wf (v : runs) : Prop := Forall (fun r => 1 <= fst r) v.
Definition wfb (v : runs) : bool := forallb (fun r => 1 <=? fst r) v.

(* make_cache_map: last logical position covered by each run (first = rep-1) *)
Fixpoint cmap_from (acc : Z) (v : runs) : list Z :=
  match v with [] => [] | (n,_)::v' => let j := (acc + Z.of_nat n)%Z in j :: cmap_from j v' end.
Definition cmap (v : runs) : list Z := cmap_from (-1)%Z v.

(* bisect_left *)
Fixpoint bisect (m : list Z) (p : Z) : nat :=
  match m with [] => 0 | x::m' => if (x <? p)%Z then S (bisect m' p) else 0 end.
(* find_odf_idx *)
Definition find_idx (m : list Z) (p : Z) : option nat :=
  let i := bisect m p in if i <? length m then Some i else None.
(* before_cache *)
Definition before (m : list Z) (i : nat) : Z :=
  match i with 0 => (-1)%Z | S j => nth j m (-1)%Z end.

(* insert_item_in_vault, XML part *)
Definition insert_item (p : Z) (x : nat * A) (v : runs) (m : list Z) : option runs :=
  match find_idx m p with
  | None => None
  | Some i =>
    match nth_error v i with
    | None => None
    | Some (_, b) =>
      let cur := nth i m (-1)%Z in
      let bef := before m i in
      let rb := (p - (bef + 1))%Z in
      let ra := (cur - bef - rb)%Z in
      if (1 <=? rb)%Z
      then Some (firstn i v ++ [(Z.to_nat rb, b); x; (Z.to_nat ra, b)] ++ skipn (S i) v)
      else Some (firstn i v ++ [x] ++ skipn i v)
    end
  end.

(* remove the first k logical positions of a run list: the repaired overlap loop
   (decrement the repeat of a following run, or delete it and go on) *)
Fixpoint drop_pos (k : nat) (v : runs) : runs :=
  match k, v with
  | 0, _ => v
  | _, [] => []
  | _, (n, b) :: v' => if n <=? k then drop_pos (k - n) v' else (n - k, b) :: v'
  end.

(* set_item_in_vault with the repaired overlap handling, XML part; positions come from the map *)
Definition set_item (p : Z) (x : nat * A) (v : runs) (m : list Z) : option runs :=
  match find_idx m p with
  | None => None
  | Some i =>
    match nth_error v i with
    | None => None
    | Some (_, b) =>
      let cur := nth i m (-1)%Z in
      let bef := before m i in
      let rb := (p - (bef + 1))%Z in
      let rest := (cur - bef - rb)%Z in            (* part of the current run from p on *)
      let tailv := drop_pos (fst x) ((Z.to_nat rest, b) :: skipn (S i) v) in
      if (1 <=? rb)%Z
      then Some (firstn i v ++ (Z.to_nat rb, b) :: x :: tailv)
      else Some (firstn i v ++ x :: tailv)
    end
  end.

(* delete_item_in_vault, XML part *)
Definition delete_item (p : Z) (v : runs) (m : list Z) : option runs :=
  match find_idx m p with
  | None => None
  | Some i =>
    match nth_error v i with
    | None => None
    | Some (n, b) =>
      let cur := nth i m (-1)%Z in let bef := before m i in
      let newrep := (cur - bef - 1)%Z in
      if (1 <=? newrep)%Z then Some (firstn i v ++ (Z.to_nat newrep, b) :: skipn (S i) v)
      else Some (firstn i v ++ skipn (S i) v)
    end
  end.


(* Row.traverse(start, end) / Table.traverse_columns(start, end): the loop over the map from the run that holds start;
   m = map[start_map:], v = items[start_map:], before = start - 1 initially, x = next position to yield, en = end *)
Fixpoint trav (x en before : Z) (m : list Z) (v : runs) : list A :=
  match m, v with
  | juska :: m', (_, c) :: v' =>
      let rep := (juska - before)%Z in
      let k := Z.to_nat (Z.min rep (en - x + 1)) in
      repeat c k ++ trav (x + Z.of_nat k)%Z en juska m' v'
  | _, _ => []
  end.
Definition traverse_range (start en : Z) (v : runs) : list A :=
  match find_idx (cmap v) start with
  | None => []
  | Some i => trav start en (start - 1)%Z (skipn i (cmap v)) (skipn i v)
  end.

End Vault.
Arguments expand {A}. Arguments width {A}. Arguments wf {A}. Arguments wfb {A}. Arguments cmap_from {A}. Arguments cmap {A}.
Arguments trav {A}. Arguments traverse_range {A}.
Arguments insert_item {A}. Arguments drop_pos {A}. Arguments set_item {A}. Arguments delete_item {A}.

(* ---- the map primitives of the code ---- *)
Local Open Scope Z_scope.
(* insert_map_once / _erase_map_once *)
Definition insert_map_once (m : list Z) (i : nat) (rep : Z) : list Z :=
  firstn i m ++ (before m i + rep) :: map (fun x => x + rep) (skipn i m).
Definition erase_map_once (m : list Z) (i : nat) : list Z :=
  let rep := nth i m (-1) - before m i in
  firstn i m ++ map (fun x => x - rep) (skipn (S i) m).

(* the repaired map update of set_item_in_vault:
   m[:i] + [p-1 if a "before" part remains] + [p+r-1] + [e for e in m[i:] if e > p+r-1] *)
Definition set_map (p : Z) (r : nat) (m : list Z) : option (list Z) :=
  match find_idx m p with
  | None => None
  | Some i =>
    let bef := before m i in
    let new_end := p + Z.of_nat r - 1 in
    Some (firstn i m ++ (if 1 <=? p - (bef + 1) then [p - 1] else [])
            ++ new_end :: filter (fun e => new_end <? e) (skipn i m))
  end.
(* map update of insert_item_in_vault *)
Definition insert_map (p : Z) (r : nat) (m : list Z) : option (list Z) :=
  match find_idx m p with
  | None => None
  | Some i =>
    let cur := nth i m (-1) in let bef := before m i in
    let rb := p - (bef + 1) in let ra := cur - bef - rb in
    if 1 <=? rb then
      let e := erase_map_once m i in
      let e := insert_map_once e i rb in
      let e := insert_map_once e (S i) (Z.of_nat r) in
      Some (insert_map_once e (S (S i)) ra)
    else Some (insert_map_once m i (Z.of_nat r))
  end.
(* map update of delete_item_in_vault *)
Definition delete_map (p : Z) (m : list Z) : option (list Z) :=
  match find_idx m p with
  | None => None
  | Some i =>
    let cur := nth i m (-1) in let bef := before m i in
    if 1 <=? cur - bef - 1 then Some (firstn i m ++ map (fun x => x - 1) (skipn i m))
    else Some (firstn i m ++ map (fun x => x - 1) (skipn (S i) m))
  end.

(* ---- faithful model of the PINNED set_item_in_vault (overlap loop and map loop as written) ----
   pre = number of children of the vault element that precede its first item (for the rows of a table:
   the number of table:table-column elements; 0 for cells and columns): the pinned loop passes the CHILD
   index target_idx + 1 to _get_element_idx2, which expects an ODF index. *)
Section Pinned.
Variable A : Type.
Fixpoint overlap_loop (fuel k : nat) (deleting : Z) (v : list (nat * A)) : list (nat * A) :=
  match fuel with
  | O => v
  | S f =>
    if 0 <=? deleting then v else
    match nth_error v k with
    | None => v
    | Some (n, b) =>
      let isr := Z.of_nat n + deleting in
      if 1 <? isr then firstn k v ++ (Z.to_nat isr, b) :: skipn (S k) v
      else overlap_loop f k isr (firstn k v ++ skipn (S k) v)
    end
  end.
Definition set_item_pinned (pre : nat) (p : Z) (x : nat * A) (v : list (nat * A)) (m : list Z) : option (list (nat * A)) :=
  match find_idx m p with
  | None => None
  | Some i =>
    match nth_error v i with
    | None => None
    | Some (_, b) =>
      let cur := nth i m (-1) in
      let bef := before m i in
      let rb := p - (bef + 1) in
      let ra := cur - bef - rb - Z.of_nat (fst x) in
      let j := if 1 <=? rb then S i else i in            (* odf index of the new item *)
      let head := if 1 <=? rb then firstn i v ++ [(Z.to_nat rb, b)] else firstn i v in
      if 1 <=? ra then Some (head ++ x :: (Z.to_nat ra, b) :: skipn (S i) v)
      else if ra <? 0 then Some (overlap_loop (S (length v)) (pre + j + 1)%nat ra (head ++ x :: skipn (S i) v))
      else Some (head ++ x :: skipn (S i) v)
    end
  end.
Fixpoint erase_n (n : nat) (idx : nat) (m : list Z) : list Z :=
  match n with O => m | S n' => erase_n n' idx (if (idx <? length m)%nat then erase_map_once m idx else m) end.
Definition set_map_pinned (p : Z) (r : nat) (m : list Z) : option (list Z) :=
  match find_idx m p with
  | None => None
  | Some i =>
    let cur := nth i m (-1) in
    let bef := before m i in
    let rb := p - (bef + 1) in
    let ra := cur - bef - rb - Z.of_nat r in
    let e := erase_map_once m i in
    let '(e, idx) := if 1 <=? rb then (insert_map_once e i rb, S i) else (e, i) in
    let e := insert_map_once e idx (Z.of_nat r) in
    if 1 <=? ra then Some (insert_map_once e (S idx) ra)
    else if ra <? 0 then Some (erase_n (Z.to_nat (- ra)) (S idx) e)
    else Some e
  end.
End Pinned.
Arguments overlap_loop {A}. Arguments set_item_pinned {A}.
