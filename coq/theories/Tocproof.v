(* Lemmas about Toc.v : fill is idempotent, keeps the title, touches nothing else *)
From Coq Require Import List ZArith Bool Arith Lia.
Require Import WS Toc.
Import ListNotations.
Open Scope Z_scope.

Lemma upd_upd {A} (l : list A) k f g : upd (upd l k f) k g = upd l k (fun x => g (f x)).
Proof. revert k; induction l as [|x r IH]; intros [|k]; cbn; try reflexivity. now rewrite IH. Qed.
Lemma upd_ext {A} (l : list A) k f g : (forall x, f x = g x) -> upd l k f = upd l k g.
Proof. intros E; revert k; induction l as [|x r IH]; intros [|k]; cbn; try reflexivity; [now rewrite E | now rewrite IH]. Qed.
Lemma upd_length {A} (l : list A) k f : length (upd l k f) = length l.
Proof. revert k; induction l as [|x r IH]; intros [|k]; cbn; auto. Qed.
Lemma upd_nth_same {A} (l : list A) k f : nth_error (upd l k f) k = option_map f (nth_error l k).
Proof. revert k; induction l as [|x r IH]; intros [|k]; cbn; auto. Qed.
Lemma upd_nth_other {A} (l : list A) k j f : j <> k -> nth_error (upd l k f) j = nth_error l j.
Proof. revert k j; induction l as [|x r IH]; intros [|k] [|j] H; cbn; auto; try congruence. Qed.

Lemma keep_title_idem t : keep_title (keep_title t) = keep_title t.
Proof. destruct t as [[id [|]]|]; reflexivity. Qed.

Lemma fill_gen_idem p t hs : fill_gen p (fill_gen p t hs) hs = fill_gen p t hs.
Proof. unfold fill_gen; cbn. now rewrite keep_title_idem. Qed.

Lemma fill_doc_idem p d k : fill_doc p (fill_doc p d k) k = fill_doc p d k.
Proof.
  unfold fill_doc; cbn. f_equal. rewrite upd_upd. apply upd_ext. intros t. apply fill_gen_idem.
Qed.

Lemma fill_doc_heads p d k : dheads (fill_doc p d k) = dheads d.
Proof. reflexivity. Qed.
Lemma fill_doc_other p d k j : j <> k -> nth_error (dtocs (fill_doc p d k)) j = nth_error (dtocs d) j.
Proof. intros H. unfold fill_doc; cbn. now apply upd_nth_other. Qed.
Lemma fill_title_kept p t hs id : ttitle t = Some (id, true) -> ttitle (fill_gen p t hs) = Some (id, true).
Proof. intros H. unfold fill_gen; cbn. now rewrite H. Qed.
Lemma fill_outline_kept p t hs : toutline (fill_gen p t hs) = toutline t.
Proof. reflexivity. Qed.
