(* TreeProof5.v — "the inserted element wraps / marks exactly what was designated". *)
From Coq Require Import List Arith Bool ZArith Lia.
Import ListNotations.
Require Import WS Tree TreeProof TreeProof2.

Lemma readable_elem0 k a c r : plain_kind k = true -> Bal c ->
  readable_ 0 (Open k a :: c ++ Close :: r) = readable_ 0 c ++ readable_ 0 r.
Proof.
  intros Hk Hc.
  assert (E : readable_ 0 (Open k a :: c ++ Close :: r) = readable_ 0 (c ++ Close :: r)) by (destruct k; try discriminate; reflexivity).
  rewrite E, readable_seg by exact Hc. reflexivity.
Qed.
Lemma firstn_firstn_skipn {A} (s : list A) a b : firstn a s ++ firstn b (skipn a s) = firstn (a + b) s.
Proof.
  revert s; induction a as [|a IH]; intros s; [reflexivity|]. destruct s as [|t s]; [now rewrite !firstn_nil|].
  cbn [firstn skipn plus app]. f_equal. apply IH.
Qed.
Lemma spans_ok_in p n q x y : spans_ok p n q = true -> In (x, y) q -> p <= x /\ x < y /\ y <= n.
Proof.
  revert p; induction q as [|[x0 y0] q IH]; intros p H HI; [destruct HI|].
  cbn [spans_ok] in H. apply andb_true_iff in H as [H H4]. apply andb_true_iff in H as [H H3].
  apply andb_true_iff in H as [H1 H2]. apply Nat.leb_le in H1. apply Nat.ltb_lt in H2. apply Nat.leb_le in H3.
  destruct HI as [E|HI]; [injection E as <- <-; lia|]. specialize (IH y0 H4 HI). lia.
Qed.

Theorem cut_wraps k a : plain_kind k = true -> forall sp pos s x y,
  spans_ok pos (pos + length s) sp = true -> In (x, y) sp ->
  exists pre post, cut k a pos sp s = pre ++ Open k a :: wrap_content k (firstn (y - x) (skipn (x - pos) s)) ++ Close :: post
    /\ Bal pre /\ readable_ 0 pre = firstn (x - pos) s
    /\ readable_ 0 (wrap_content k (firstn (y - x) (skipn (x - pos) s))) = firstn (y - x) (skipn (x - pos) s).
Proof.
  intros Hk. induction sp as [|[x0 y0] q IH]; intros pos s x y H HI; [destruct HI|].
  pose proof H as H0. cbn [spans_ok] in H. apply andb_true_iff in H as [H H4]. apply andb_true_iff in H as [H H3].
  apply andb_true_iff in H as [H1 H2]. apply Nat.leb_le in H1. apply Nat.ltb_lt in H2. apply Nat.leb_le in H3.
  cbn [cut]. destruct HI as [E|HI].
  - injection E as <- <-. exists [Txt (firstn (x0 - pos) s)], (cut k a y0 q (skipn (y0 - pos) s)). cbn [app].
    repeat split; [repeat constructor|cbn; apply app_nil_r|apply readable_wrap_content].
  - assert (L : y0 + length (skipn (y0 - pos) s) = pos + length s) by (rewrite skipn_length; lia).
    pose proof H4 as H4'. rewrite <- L in H4'.
    destruct (IH y0 (skipn (y0 - pos) s) x y H4' HI) as [pre [post [E [B [R W]]]]].
    destruct (spans_ok_in _ _ _ _ _ H4 HI) as [G1 [G2 G3]].
    assert (SK : skipn (x - y0) (skipn (y0 - pos) s) = skipn (x - pos) s)
      by (rewrite skipn_skipn'; f_equal; lia).
    rewrite SK in *.
    exists (Txt (firstn (x0 - pos) s) :: Open k a :: wrap_content k (firstn (y0 - x0) (skipn (x0 - pos) s)) ++ Close :: pre), post.
    repeat split.
    + rewrite E. cbn [app]. f_equal. f_equal. rewrite <- app_assoc. reflexivity.
    + constructor. constructor; [apply Bal_wrap_content|exact B].
    + rewrite readable_txt_cons, readable_elem0 by (auto using Bal_wrap_content). rewrite readable_wrap_content, R.
      rewrite app_assoc, firstn_firstn_skipn.
      replace (x0 - pos + (y0 - x0)) with (y0 - pos) by lia. rewrite firstn_firstn_skipn. f_equal. lia.
    + exact W.
Qed.

(* ---------------------------------------------------------------- offsets index the raw text *)
Lemma nth_error_split {A} (l : list (list A)) i s : nth_error l i = Some s ->
  concat l = concat (firstn i l) ++ s ++ concat (skipn (S i) l).
Proof.
  revert i; induction l as [|x l IH]; intros i H; [destruct i; discriminate|].
  destruct i; cbn [nth_error] in H.
  - injection H as <-. reflexivity.
  - cbn [concat firstn skipn]. rewrite (IH i H) at 1. now rewrite app_assoc.
Qed.
Lemma sel_off_spec off len : forall ts counted i0 j st en,
  (0 <= counted <= off)%Z -> sel_off off len counted i0 ts = Some (j, st, en) ->
  exists i s, j = i0 + i /\ nth_error ts i = Some s
    /\ (st = off - counted - Z.of_nat (length (concat (firstn i ts))))%Z
    /\ (0 <= st < Z.of_nat (length s))%Z
    /\ (en - st = if (0 <? len)%Z then Z.min len (Z.of_nat (length s)) else Z.of_nat (length s))%Z.
Proof.
  induction ts as [|s ts IH]; intros counted i0 j st en Hc H; [discriminate|].
  cbn [sel_off] in H. destruct (Z.leb_spec (Z.of_nat (length s) + counted) off).
  - assert (Hc' : (0 <= counted + Z.of_nat (length s) <= off)%Z) by lia.
    destruct (IH (counted + Z.of_nat (length s))%Z (S i0) j st en Hc' H) as [i [s' [E1 [E2 [E3 [E4 E5]]]]]].
    exists (S i), s'. cbn [nth_error firstn concat]. rewrite app_length. repeat split; try assumption; try lia.
  - injection H as <- <- <-. exists 0, s. cbn [nth_error firstn concat length]. repeat split; lia.
Qed.
Theorem wrap_off_wraps k a off len evs i st en : (0 <= off)%Z ->
  sel_off off len 0 0 (texts evs) = Some (i, st, en) ->
  exists s, nth_error (texts evs) i = Some s
    /\ wrap_off k a off len evs = subst_nth i (fun s => Txt (sl_to s st) :: wrapped k a (sl s st en) (sl_from s en)) evs
    /\ readable_ 0 (wrap_content k (sl s st en)) = sl s st en
    /\ sl s st en = firstn (Z.to_nat (Z.min en (Z.of_nat (length s)) - st)) (skipn (Z.to_nat off) (raw evs))
    /\ (en - st = if (0 <? len)%Z then Z.min len (Z.of_nat (length s)) else Z.of_nat (length s))%Z.
Proof.
  intros Ho H. assert (Hc : (0 <= 0 <= off)%Z) by lia.
  destruct (sel_off_spec off len _ 0%Z 0 i st en Hc H) as [i' [s [E1 [E2 [E3 [E4 E5]]]]]].
  assert (E6 : (st <= en)%Z) by (destruct (Z.ltb_spec 0 len); lia).
  cbn in E1. subst i'. exists s. split; [exact E2|]. split; [unfold wrap_off; now rewrite H|].
  split; [apply readable_wrap_content|]. split; [|exact E5].
  assert (Eo : Z.to_nat off = length (concat (firstn i (texts evs))) + Z.to_nat st) by lia.
  unfold raw. rewrite (nth_error_split _ _ _ E2).
  set (A := concat (firstn i (texts evs))) in *. set (R := concat (skipn (S i) (texts evs))).
  rewrite Eo, <- skipn_skipn', skipn_app, skipn_all, Nat.sub_diag. cbn [app skipn].
  rewrite skipn_app. 
  assert (Z.to_nat st - length s = 0) by lia. rewrite H0. cbn [skipn].
  rewrite firstn_app. 
  assert (L : Z.to_nat (Z.min en (Z.of_nat (length s)) - st) - length (skipn (Z.to_nat st) s) = 0) by (rewrite skipn_length; lia).
  rewrite L. cbn [firstn]. rewrite app_nil_r.
  unfold sl, idx. destruct (Z.ltb_spec st 0); [lia|]. destruct (Z.ltb_spec en 0); [lia|].
  replace (Nat.min (Z.to_nat st) (length s)) with (Z.to_nat st) by lia. f_equal. lia.
Qed.

(* ---------------------------------------------------------------- an empty mark sits at the designated raw offset *)
Lemma subst_nth_split f : forall evs i s, nth_error (texts evs) i = Some s ->
  exists pre post, evs = pre ++ Txt s :: post /\ texts pre = firstn i (texts evs) /\ subst_nth i f evs = pre ++ f s ++ post.
Proof.
  induction evs as [|e evs IH]; intros i s H; [destruct i; discriminate|].
  destruct e as [k a| |t]; cbn [texts subst_nth] in *.
  - destruct (IH i s H) as [pre [post [E1 [E2 E3]]]]. exists (Open k a :: pre), post. cbn [app texts]. rewrite <- E1, E3. auto.
  - destruct (IH i s H) as [pre [post [E1 [E2 E3]]]]. exists (Close :: pre), post. cbn [app texts]. rewrite <- E1, E3. auto.
  - destruct i; cbn [nth_error] in H.
    + injection H as <-. exists [], evs. auto.
    + destruct (IH i s H) as [pre [post [E1 [E2 E3]]]]. exists (Txt t :: pre), post. cbn [app texts firstn]. rewrite <- E1, E2, E3. auto.
Qed.
Lemma sel_pos_spec p : forall ts c i0 j q, c <= p -> sel_pos p c i0 ts = Some (j, q) ->
  exists i s, j = i0 + i /\ nth_error ts i = Some s /\ p = c + length (concat (firstn i ts)) + q /\ q <= length s.
Proof.
  induction ts as [|s ts IH]; intros c i0 j q Hc H; [discriminate|].
  cbn [sel_pos] in H. destruct (Nat.leb_spec p (length s + c)).
  - injection H as <- <-. exists 0, s. cbn [nth_error firstn concat length]. repeat split; lia.
  - assert (Hc' : c + length s <= p) by lia.
    destruct (IH (c + length s) (S i0) j q Hc' H) as [i [s' [E1 [E2 [E3 E4]]]]].
    exists (S i), s'. cbn [nth_error firstn concat]. rewrite app_length. repeat split; try assumption; lia.
Qed.
