(* Tablexml2chk.v — checker for histories on tables with header rows / wrappers / groups (no proofs):
   every call either refuses (raises) and leaves the raw table untouched, or behaves on the visible (flattened) table
   exactly as on a table without wrappers; groups stay untouched; the result is structurally valid. *)
From Coq Require Import List ZArith NArith Bool Arith.
Import ListNotations.
Require Import Vault Row Table Grid Tableabs Tablexml Tablechk Tablexml2.
Local Open Scope Z_scope.

Inductive obs2 := Obs2 (pre : xtable2) (o : top) (post : xtable2) (raised : bool)
                       (tmap cmap_ : list Z) (rmaps : list (nat * list Z)) (reads : list (tread * tans)).

(* 15 the call raised but the table changed | 16 a group element changed | else the code of chk_c01 on the visible table *)
Definition chk_grp01 (vcl : Z -> Z) (ob : obs2) : nat :=
  let '(Obs2 pre o post raised tm cm rmaps reads) := ob in
  if raised then (if xtable2_eqb pre post then 0%nat else 15%nat)
  else if negb (list_eqb Z.eqb (groups pre) (groups post)) then 16%nat
  else chk_c01 vcl (Obs (flatten pre) o (flatten post) false tm cm rmaps reads).
(* C07 side: 1 XmlOK2 false after the call | 15 raised but changed | 6, 7 as chk_c07 *)
Definition chk_grp07 (ob : obs2) : nat :=
  let '(Obs2 pre o post raised tm cm rmaps reads) := ob in
  if raised then (if xtable2_eqb pre post then 0%nat else 15%nat)
  else if negb (XmlOK2 post) then 1%nat
  else chk_c07 (Obs (flatten pre) o (flatten post) false tm cm rmaps reads).
