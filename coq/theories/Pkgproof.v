(* Pkgproof.v — semantics of the package model (Package.v, repaired code FIXED) in terms of two observation
   functions: the bytes a container holds under a name (memory first, then the file) and the tree of an XML part. *)
From Coq Require Import List ZArith Bool Arith Lia.
Import ListNotations.
Require Import Package PkgManproof PkgZipproof.
Open Scope Z_scope.

(* ---------- association lists ---------- *)
Lemma lookup_upsert_eq {V} : forall k (v : V) l, lookup k (upsert k v l) = Some v.
Proof. induction l as [|[k' v'] l IH]; cbn; [rewrite Z.eqb_refl; reflexivity|]. destruct (k =? k') eqn:E; cbn; rewrite ?Z.eqb_refl, ?E; auto. Qed.
Lemma lookup_upsert_neq {V} : forall k m (v : V) l, m <> k -> lookup m (upsert k v l) = lookup m l.
Proof.
  induction l as [|[k' v'] l IH]; intros H; cbn.
  - destruct (m =? k) eqn:E; [apply Z.eqb_eq in E; congruence|reflexivity].
  - destruct (k =? k') eqn:E; cbn.
    + apply Z.eqb_eq in E. subst k'. destruct (m =? k) eqn:E2; [apply Z.eqb_eq in E2; congruence|reflexivity].
    + destruct (m =? k'); auto.
Qed.
Lemma lookup_upsert {V} : forall k m (v : V) l, lookup m (upsert k v l) = if m =? k then Some v else lookup m l.
Proof. intros. destruct (m =? k) eqn:E; [apply Z.eqb_eq in E; subst; apply lookup_upsert_eq|apply Z.eqb_neq in E; apply lookup_upsert_neq; exact E]. Qed.
Lemma keys_upsert {V} : forall k (v : V) l, map fst (upsert k v l) = if memz k (map fst l) then map fst l else map fst l ++ [k].
Proof.
  induction l as [|[k' v'] l IH]; [reflexivity|].
  cbn [upsert]. unfold memz. cbn [map fst existsb]. destruct (k =? k') eqn:E; cbn [map fst orb].
  - apply Z.eqb_eq in E. subst. reflexivity.
  - rewrite IH. unfold memz. destruct (existsb (Z.eqb k) (map fst l)); reflexivity.
Qed.
Lemma NoDup_keys_upsert {V} : forall k (v : V) l, NoDup (map fst l) -> NoDup (map fst (upsert k v l)).
Proof.
  intros. rewrite keys_upsert. destruct (memz k (map fst l)) eqn:E; [assumption|].
  apply NoDup_snoc; [assumption|]. intros X. apply memz_In in X. congruence.
Qed.
Lemma not_in_keys_lookup {V} : forall k (l : list (Z * V)), ~ In k (map fst l) -> lookup k l = None.
Proof. intros k l H. destruct (lookup k l) eqn:L; [|reflexivity]. exfalso. apply H. eapply lookup_in_keys; eauto. Qed.
Lemma lookup_some_memz {V} : forall k (l : list (Z * V)) v, lookup k l = Some v -> memz k (map fst l) = true.
Proof. intros. apply memz_In. eapply lookup_in_keys; eauto. Qed.
Lemma memz_add_once : forall k m l, memz m (add_once k l) = (m =? k) || memz m l.
Proof.
  intros. unfold add_once. destruct (memz k l) eqn:E.
  - destruct (m =? k) eqn:E2; [apply Z.eqb_eq in E2; subst; rewrite E; reflexivity|reflexivity].
  - unfold memz. rewrite existsb_app. cbn. rewrite orb_false_r, orb_comm. reflexivity.
Qed.

Section Sem.
Variable xml bytes kid : Type.
Variable par : bytes -> xml.
Notation container := (container bytes).
Notation document := (document xml bytes).
Notation fsys := (fsys bytes kid).
Notation disk_lookup := (disk_lookup bytes kid).
Notation c_get_part := (c_get_part bytes kid FIXED).
Notation c_set_part := (c_set_part bytes FIXED).
Notation c_del_part := (c_del_part bytes).
Notation d_tree := (d_tree xml bytes kid par FIXED).

(* bytes a container holds under a name *)
Definition cB (fs : fsys) (c : container) (n : name) : option bytes :=
  match lookup n (parts _ c) with Some (Some b) => Some b | Some None => None | None => disk_lookup fs (cpath _ c) n end.

Record WFc (fs : fsys) (c : container) : Prop := {
  wf_keys : NoDup (map fst (parts _ c));
  wf_ts : pkg _ c = PFolder -> cpath _ c <> None -> forall n b, lookup n (parts _ c) = Some (Some b) -> memz n (tsl _ c) = true;
  wf_pk : cpath _ c <> None -> pkg _ c <> PXml }.

Lemma c_load_sem : forall fs c n b, WFc fs c -> lookup n (parts _ c) = None -> disk_lookup fs (cpath _ c) n = Some b ->
  let c' := c_load bytes n b c in
  (forall m, cB fs c' m = cB fs c m) /\ WFc fs c' /\ cpath _ c' = cpath _ c /\ pkg _ c' = pkg _ c.
Proof.
  intros fs c n b W Hn Hd c'. subst c'. unfold c_load. cbn [cpath pkg parts].
  split; [|split; [|split; reflexivity]].
  - intros m. unfold cB. cbn [parts cpath]. rewrite lookup_upsert.
    destruct (m =? n) eqn:E; [apply Z.eqb_eq in E; subst; rewrite Hn; symmetry; exact Hd|reflexivity].
  - destruct W as [K T P]. constructor; cbn [parts cpath pkg tsl].
    + apply NoDup_keys_upsert. exact K.
    + intros Hp Hc m b0 Hm. rewrite Hp. rewrite lookup_upsert in Hm. rewrite memz_add_once.
      destruct (m =? n) eqn:E; [reflexivity|]. cbn [orb]. apply (T Hp Hc m b0 Hm).
    + exact P.
Qed.

Ltac fin W := split; [try reflexivity|split; [intros; reflexivity|split; [exact W|split; first [reflexivity|assumption|symmetry; assumption]]]].
Lemma c_get_part_sem : forall fs n c, WFc fs c ->
  let r := c_get_part fs n c in
  snd r = cB fs c n /\ (forall m, cB fs (fst r) m = cB fs c m) /\ WFc fs (fst r)
  /\ cpath _ (fst r) = cpath _ c /\ pkg _ (fst r) = pkg _ c.
Proof.
  intros fs n c W. unfold Package.c_get_part, cB at 1.
  destruct (lookup n (parts _ c)) as [[b|]|] eqn:L.
  - (* held in memory *)
    destruct (pkg _ c) eqn:Pk; cbn [fst snd]; [fin W| |fin W].
    destruct (cpath _ c) as [p|] eqn:Cp; cbn [fst snd fx38 FIXED]; [|fin W].
    destruct (memz n (tsl _ c)) eqn:M; cbn [fst snd]; [fin W|].
    pose proof (wf_ts _ _ W Pk ltac:(rewrite Cp; discriminate) n b L) as X. congruence.
  - cbn [fst snd]. fin W.
  - (* not loaded yet *)
    destruct (cpath _ c) as [p|] eqn:Cp.
    + assert (Hpk : pkg _ c <> PXml) by (apply (wf_pk _ _ W); rewrite Cp; discriminate).
      destruct (pkg _ c) eqn:Pk; try congruence.
      * destruct (disk_lookup fs (Some p) n) as [b|] eqn:D; cbn [fst snd]; [|fin W].
        destruct (c_load_sem fs c n b W L ltac:(rewrite Cp; exact D)) as [A [B [C D2]]]. rewrite Pk in D2. repeat (split; auto).
      * destruct (disk_lookup fs (Some p) n) as [b|] eqn:D; cbn [fst snd]; [|fin W].
        destruct (c_load_sem fs c n b W L ltac:(rewrite Cp; exact D)) as [A [B [C D2]]]. rewrite Pk in D2. repeat (split; auto).
    + assert (D : disk_lookup fs None n = None) by reflexivity.
      destruct (pkg _ c) eqn:Pk2; cbn [fst snd]; rewrite ?D; fin W.
Qed.

Lemma c_set_part_sem : forall fs n b c, WFc fs c ->
  let c' := c_set_part n b c in
  (forall m, cB fs c' m = if m =? n then Some b else cB fs c m) /\ WFc fs c' /\ cpath _ c' = cpath _ c /\ pkg _ c' = pkg _ c.
Proof.
  intros fs n b c W c'. subst c'. unfold Package.c_set_part. cbn [cpath pkg parts fx34 FIXED].
  split; [|split; [|split; reflexivity]].
  - intros m. unfold cB. cbn [parts cpath]. rewrite lookup_upsert. destruct (m =? n); reflexivity.
  - destruct W as [K T P]. constructor; cbn [parts cpath pkg tsl].
    + apply NoDup_keys_upsert. exact K.
    + intros Hp Hc m b0 Hm. rewrite Hp. rewrite lookup_upsert in Hm.
      destruct (cpath _ c) as [p|] eqn:Cp; [|congruence].
      rewrite memz_add_once. destruct (m =? n) eqn:E; [reflexivity|]. cbn [orb].
      exact (T Hp Hc m b0 Hm).
    + exact P.
Qed.

Lemma c_del_part_sem : forall fs n c, WFc fs c ->
  let c' := c_del_part n c in
  (forall m, cB fs c' m = if m =? n then None else cB fs c m) /\ WFc fs c' /\ cpath _ c' = cpath _ c /\ pkg _ c' = pkg _ c.
Proof.
  intros fs n c W c'. subst c'. unfold Package.c_del_part, c_with_parts. cbn [cpath pkg parts].
  split; [|split; [|split; reflexivity]].
  - intros m. unfold cB. cbn [parts cpath]. rewrite lookup_upsert. destruct (m =? n); reflexivity.
  - destruct W as [K T P]. constructor; cbn [parts cpath pkg tsl].
    + apply NoDup_keys_upsert. exact K.
    + intros Hp Hc m b0 Hm. rewrite lookup_upsert in Hm. destruct (m =? n); [discriminate|]. apply (T Hp Hc m b0 Hm).
    + exact P.
Qed.

(* ---------- documents ---------- *)
Definition dB (fs : fsys) (d : document) (n : name) := cB fs (cont _ _ d) n.
Definition dX (fs : fsys) (d : document) (n : name) : option xml :=
  match lookup n (xps _ _ d) with Some (Some x) => Some x | _ => match dB fs d n with Some b => Some (par b) | None => None end end.

Lemma dB_bytes_of : forall fs d n, bytes_of xml bytes kid fs d n = dB fs d n.
Proof. reflexivity. Qed.
Lemma dX_tree_of : forall fs d n, tree_of xml bytes kid par fs d n = dX fs d n.
Proof. reflexivity. Qed.

Record WFd (fs : fsys) (d : document) : Prop := {
  wfd_c : WFc fs (cont _ _ d);
  wfd_x : forall n, In n (map fst (xps _ _ d)) -> is_xml n = true;
  wfd_live : forall n x, lookup n (xps _ _ d) = Some (Some x) -> dB fs d n <> None }.

Lemma lookup_In {V} : forall k (v : V) l, lookup k l = Some v -> In (k, v) l.
Proof.
  induction l as [|[k' v'] l IH]; cbn; intros H; [discriminate|].
  destruct (k =? k') eqn:E; [apply Z.eqb_eq in E; inversion H; subst; left; reflexivity|right; auto].
Qed.

Lemma WFdb_WFd : forall fs d, WFdb xml bytes kid fs d = true -> WFd fs d.
Proof.
  intros fs d H. unfold WFdb in H. repeat (apply andb_true_iff in H as [H ?]).
  rename H into Hk, H0 into Hl, H1 into Hx, H2 into Hp, H3 into Ht.
  constructor; [constructor| |].
  - apply nodupb_NoDup. exact Hk.
  - intros Pk Cp n b L. unfold ts_invb in Ht. rewrite Pk in Ht. destruct (cpath _ (cont _ _ d)) as [p|] eqn:Cpe; [|congruence].
    rewrite forallb_forall in Ht. specialize (Ht _ (lookup_In _ _ _ L)). exact Ht.
  - intros Cp Pk. destruct (cpath _ (cont _ _ d)); [|congruence]. rewrite Pk in Hp. discriminate.
  - intros n Hn. rewrite forallb_forall in Hx. apply Hx. exact Hn.
  - intros n x L. rewrite forallb_forall in Hl. specialize (Hl _ (lookup_In _ _ _ L)). cbn [fst snd] in Hl.
    unfold dB. change (cB fs (cont _ _ d) n) with (bytes_of xml bytes kid fs d n). destruct (bytes_of xml bytes kid fs d n); [discriminate|discriminate].
Qed.

Lemma lookup_xp_cache : forall n m (l : list (name * option xml)),
  lookup m (xp_cache xml n l) = match lookup m l with Some v => Some v | None => if m =? n then Some None else None end.
Proof.
  intros. unfold xp_cache. destruct (lookup n l) eqn:L.
  - destruct (lookup m l) eqn:L2; [reflexivity|]. destruct (m =? n) eqn:E; [apply Z.eqb_eq in E; subst; congruence|reflexivity].
  - rewrite lookup_app. destruct (lookup m l); [reflexivity|]. cbn. destruct (m =? n); reflexivity.
Qed.
Lemma keys_xp_cache : forall n (l : list (name * option xml)) m, In m (map fst (xp_cache xml n l)) -> In m (map fst l) \/ m = n.
Proof.
  intros n l m. unfold xp_cache. destruct (lookup n l); [auto|]. rewrite map_app, in_app_iff. cbn. intros [H|[H|[]]]; auto.
Qed.

(* XML part access: nothing observable changes; the tree returned is the tree of the part *)
Lemma d_tree_sem : forall fs n d, WFd fs d -> is_xml n = true ->
  let r := d_tree fs n d in
  snd r = dX fs d n /\ (forall m, dB fs (fst r) m = dB fs d m) /\ (forall m, dX fs (fst r) m = dX fs d m) /\ WFd fs (fst r)
  /\ cpath _ (cont _ _ (fst r)) = cpath _ (cont _ _ d) /\ pkg _ (cont _ _ (fst r)) = pkg _ (cont _ _ d)
  /\ (snd r <> None -> exists x, lookup n (xps _ _ (fst r)) = Some (Some x) /\ snd r = Some x).
Proof.
  intros fs n d W Hx. unfold Package.d_tree.
  set (l := xp_cache xml n (xps _ _ d)).
  assert (Hl : forall m, lookup m l = match lookup m (xps _ _ d) with Some v => Some v | None => if m =? n then Some None else None end)
    by (intros; apply lookup_xp_cache).
  assert (Hk : forall m, In m (map fst l) -> is_xml m = true).
  { intros m Hm. apply keys_xp_cache in Hm as [Hm| ->]; [apply (wfd_x _ _ W); exact Hm|exact Hx]. }
  assert (Hll : forall m y, lookup m l = Some (Some y) -> dB fs d m <> None).
  { intros m y Lm. rewrite Hl in Lm. destruct (lookup m (xps _ _ d)) as [v|] eqn:L1.
    - inversion Lm; subst. apply (wfd_live _ _ W m y L1).
    - destruct (m =? n); discriminate. }
  destruct (lookup n l) as [[x|]|] eqn:Ln.
  - (* already parsed *)
    cbn [fst snd]. rewrite Hl in Ln. 
    assert (L0 : lookup n (xps _ _ d) = Some (Some x)).
    { destruct (lookup n (xps _ _ d)) as [v|]; [inversion Ln; reflexivity|rewrite Z.eqb_refl in Ln; discriminate]. }
    split; [unfold dX; rewrite L0; reflexivity|].
    split; [reflexivity|]. split.
    + intros m. unfold dX. cbn [xps]. rewrite Hl. destruct (lookup m (xps _ _ d)) as [v|] eqn:Lm; [reflexivity|].
      destruct (m =? n) eqn:E; [apply Z.eqb_eq in E; subst; congruence|reflexivity].
    + split; [constructor; [exact (wfd_c _ _ W)|exact Hk|exact Hll]|]. split; [reflexivity|]. split; [reflexivity|].
      intros _. exists x. cbn [xps fst]. rewrite Hl, L0. auto.
  - (* wrapper without a tree: parse now *)
    pose proof (c_get_part_sem fs n (cont _ _ d) (wfd_c _ _ W)) as [G1 [G2 [G3 [G4 G5]]]].
    destruct (c_get_part fs n (cont _ _ d)) as [c' ob] eqn:G. cbn [fst snd] in *.
    assert (L0 : match lookup n (xps _ _ d) with Some (Some _) => False | _ => True end).
    { rewrite Hl in Ln. destruct (lookup n (xps _ _ d)) as [[v|]|]; auto. discriminate. }
    assert (DX : dX fs d n = match dB fs d n with Some b => Some (par b) | None => None end).
    { unfold dX. destruct (lookup n (xps _ _ d)) as [[v|]|]; tauto. }
    destruct ob as [b|]; cbn [fst snd].
    + split; [rewrite DX; unfold dB; rewrite <- G1; reflexivity|].
      split; [intros m; unfold dB; cbn [cont]; apply G2|]. split.
      * intros m. unfold dX, dB. cbn [xps cont]. rewrite lookup_upsert, G2.
        destruct (m =? n) eqn:E; [|rewrite Hl; destruct (lookup m (xps _ _ d)) as [v|]; [reflexivity|rewrite E; reflexivity]].
        apply Z.eqb_eq in E. subst m. fold (dB fs d n). fold (dX fs d n). rewrite DX. unfold dB. rewrite <- G1. reflexivity.
      * split; [constructor; cbn [cont xps]; [exact G3| |]|].
        { intros m Hm. rewrite keys_upsert in Hm. match type of Hm with In _ (if ?cnd then _ else _) => destruct cnd eqn:Mn end; [apply Hk; exact Hm|].
          apply in_app_or in Hm as [Hm|[<-|[]]]; [apply Hk; exact Hm|exact Hx]. }
        { intros m y Lm. unfold dB. cbn [cont]. rewrite G2. rewrite lookup_upsert in Lm. destruct (m =? n) eqn:E.
          - apply Z.eqb_eq in E. subst m. rewrite <- G1. discriminate.
          - apply (Hll m y Lm). }
        split; [exact G4|]. split; [exact G5|]. intros _. exists (par b). cbn [xps]. rewrite lookup_upsert_eq. auto.
    + split; [rewrite DX; unfold dB; rewrite <- G1; reflexivity|].
      split; [intros m; unfold dB; cbn [cont]; apply G2|]. split.
      * intros m. unfold dX, dB. cbn [xps cont]. rewrite G2, Hl.
        destruct (lookup m (xps _ _ d)) as [v|]; [reflexivity|]. destruct (m =? n); reflexivity.
      * split; [constructor; cbn [cont xps]; [exact G3|exact Hk|]|].
        { intros m y Lm. unfold dB. cbn [cont]. rewrite G2. apply (Hll m y Lm). }
        split; [exact G4|]. split; [exact G5|]. congruence.
  - exfalso. rewrite Hl in Ln. destruct (lookup n (xps _ _ d)); [discriminate|]. rewrite Z.eqb_refl in Ln. discriminate.
Qed.
End Sem.
