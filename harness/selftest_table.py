"""Self-test of the table checks (not a registered check): applies seeded mutations, one at a time, to the scratch
implementation selected by $ODFDO_REPO (which must already carry the fixes), runs ./check Cxx --quick, expects
VIOLATION with a replay and that --replay reproduces it; behaviour-preserving rewrites must stay silent.
Usage: ODFDO_REPO=/root/scratch/table python harness/selftest_table.py [name ...]   (results: .work/selftest_table.json)"""
import json, os, re, subprocess, sys, time
from pathlib import Path
ROOT = Path(__file__).resolve().parent.parent
REPO = Path(os.environ['ODFDO_REPO'])
assert str(REPO) != '/repo'
EC, TB, RW, CE = 'src/odfdo/element_cached.py', 'src/odfdo/table.py', 'src/odfdo/row.py', 'src/odfdo/cell.py'
CO = 'src/odfdo/utils/coordinates.py'

MUT = [
    # (name, property, expect violation?, [(file, old, new)])
    ('bisect_right', 'C01', True, [(EC, 'odf_idx = bisect_left(cache_map, position)', 'odf_idx = bisect_right(cache_map, position)'),
                                   (EC, 'from bisect import bisect_left, insort', 'from bisect import bisect_left, bisect_right, insort')]),
    ('insert_after_plus_one', 'C01', True, [(EC, '    repeated_after = current_repeated - repeated_before\n    new_item = item.clone',
                                             '    repeated_after = current_repeated - repeated_before + 1\n    new_item = item.clone')]),
    ('set_cell_no_unrepeat', 'C01', True, [(TB, '                row = row.clone\n                row.repeated = None\n                cell_back = row.set_cell(x, cell, clone=clone)',
                                            '                row = row.clone\n                cell_back = row.set_cell(x, cell, clone=clone)')]),
    ('insert_column_ge', 'C01', True, [(TB, '            if row.width > x:\n                row.insert_cell(x, Cell(repeated=repeated))',
                                        '            if row.width >= x:\n                row.insert_cell(x, Cell(repeated=repeated))')]),
    ('delete_keeps_item_cache', 'C01', True, [(EC, '        current_item = vault._get_element_idx2(vault_scheme, odf_idx)\n    vault._indexes[vault_map_name] = {}\n    if odf_idx > 0:\n        before_cache = vault_map[odf_idx - 1]\n    else:\n        before_cache = -1\n    # current_pos',
                                               '        current_item = vault._get_element_idx2(vault_scheme, odf_idx)\n    if odf_idx > 0:\n        before_cache = vault_map[odf_idx - 1]\n    else:\n        before_cache = -1\n    # current_pos')]),
    ('delete_run_of_two', 'C01', True, [(EC, '    if new_repeated >= 1:\n        current_item._set_repeated(new_repeated)', '    if new_repeated >= 2:\n        current_item._set_repeated(new_repeated)')]),
    ('set_map_keeps_equal_end', 'C01', True, [(EC, 'emap.extend(x for x in vault_map[odf_idx:] if x > new_end)', 'emap.extend(x for x in vault_map[odf_idx:] if x >= new_end)')]),
    ('overlap_off_by_one_two_sites', 'C01', True, [(EC, '            if is_repeated > deleting:\n', '            if is_repeated >= deleting:\n')]),
    ('negative_y_from_width', 'C01', True, [(TB, '        if y and y < 0:\n            y = increment(y, self.height)\n        return (x, y)', '        if y and y < 0:\n            y = increment(y, self.width)\n        return (x, y)')]),
    ('insert_row_no_update_width', 'C07', True, [(TB, '        row_back.y = y  # type: ignore\n        # Update width if necessary\n        self._update_width(row_back)  # type: ignore\n', '        row_back.y = y  # type: ignore\n')]),
    ('row_insert_pad_short', 'C01', True, [(RW, '            self.append_cell(Cell(repeated=diff), _repeated=diff, clone=False)\n            cell_back = self.append_cell(cell, clone=clone)\n        return cell_back\n\n    def extend_cells', '            self.append_cell(Cell(repeated=diff - 1), _repeated=diff - 1, clone=False)\n            cell_back = self.append_cell(cell, clone=clone)\n        return cell_back\n\n    def extend_cells')]),
    ('delete_map_erase_slice', 'C01', True, [(EC, '            vault_map[:odf_idx] + [(x - 1) for x in vault_map[odf_idx + 1 :]],', '            vault_map[:odf_idx] + [(x - 1) for x in vault_map[odf_idx:]],')]),
    ('overlap_next_idx_one_site', 'C01', True, [(EC, '        if repeated_before >= 1:\n            next_idx += 1\n        while deleting > 0:', '        while deleting > 0:')]),
    ('traverse_end_exclusive', 'C01', True, [(RW, '                for _i in range(repeated or 1):\n                    if x <= end:\n                        if cell is None:', '                for _i in range(repeated or 1):\n                    if x < end:\n                        if cell is None:')]),
    ('row_values_pad_short', 'C01', True, [(TB, '                values.extend([None] * (self.width - len(values)))\n        return values\n\n    def get_row_sub_elements', '                values.extend([None] * (self.width - len(values) - 1))\n        return values\n\n    def get_row_sub_elements')]),
    ('cell_set_repeated_lt1', 'C07', True, [(CE, '        if repeated is None or repeated < 2:\n            with contextlib.suppress(KeyError):\n                self.del_attribute("table:number-columns-repeated")',
                                            '        if repeated is None or repeated < 1:\n            with contextlib.suppress(KeyError):\n                self.del_attribute("table:number-columns-repeated")')]),
    ('update_width_noop', 'C07', True, [(TB, '        diff = row.width - self.width\n        if diff > 0:\n            self.append_column(Column(repeated=diff))',
                                         '        diff = row.width - self.width\n        if diff > 0:\n            pass')]),
    ('table_name_star', 'C07', True, [(TB, r'''_RE_TABLE_NAME = re.compile(r"^\'|[\n\\/\*\?:\][]|\'$")''', r'''_RE_TABLE_NAME = re.compile(r"^\'|[\n\\/\?:\][]|\'$")''')]),
    ('first_row_no_column_when_empty', 'C07', True, [(TB, '        if not self._get_columns():\n            repeated = row.width\n', '        if not self._get_columns() and row.width:\n            repeated = row.width\n')]),
    ('append_column_after_rows', 'C07', True, [(TB, '            position = self.index(last_column) + 1\n        column.x = self.width', '            position = len(self.children)\n        column.x = self.width')]),
    ('named_range_digit_first', 'C07', True, [(TB, '        if name[0] in string.digits:\n            raise ValueError("Name must not start with a digit.")\n', '')]),
    ('table_name_no_strip', 'C07', True, [(TB, '    name = name.strip()\n    if not name:\n        raise ValueError("Empty name not allowed.")', '    if not name:\n        raise ValueError("Empty name not allowed.")')]),
    ('row_repeated_attr_one', 'C07', True, [(RW, '        if repeated is None or repeated < 2:\n            with contextlib.suppress(KeyError):\n                self.del_attribute("table:number-rows-repeated")',
                                             '        if repeated is None or repeated < 1:\n            with contextlib.suppress(KeyError):\n                self.del_attribute("table:number-rows-repeated")')]),
    # round 2: coordinate forms, live handles, wrappers, area reads
    ('string_row_off_by_one', 'C01', True, [(CO, '            line = int(coord[len(alpha) :]) - 1', '            line = int(coord[len(alpha) :])')]),
    ('live_row_is_a_copy', 'C01', True, [(TB, '        if clone:\n            return row.clone\n        return row\n\n    def _get_row2_base', '        return row.clone\n\n    def _get_row2_base')]),
    ('append_column_by_child_index', 'C07', True, [(TB, '            last_element = last_column._Element__element\n            parent = last_element.getparent()\n            parent.insert(parent.index(last_element) + 1, column._Element__element)', '            self.insert(column, position=self.index(last_column) + 1)')]),
    ('set_column_cells_row_relative_x', 'C01', True, [(TB, '        x = self._translate_x_from_any(x)\n        height = self.height\n        if len(cells) != height:', '        height = self.height\n        if len(cells) != height:')]),
    ('get_cells_area_end_exclusive', 'C01', True, [(TB, '            for row in self.traverse(start=y, end=t):\n                row_cells = row.get_cells(\n                    coord=(x, z),\n                    cell_type=cell_type,\n                    style=style,\n                    content=content,\n                )\n                lcells.append(row_cells)', '            for row in self.traverse(start=y, end=t):\n                row_cells = row.get_cells(\n                    coord=(x, z - 1 if z else z),\n                    cell_type=cell_type,\n                    style=style,\n                    content=content,\n                )\n                lcells.append(row_cells)')]),
    ('set_item_clone_after_touching_current', 'C01', True, [(EC, '    if clone:\n        new_item = item.clone\n    else:\n        new_item = item\n    if repeated_before >= 1:\n        # Update repetition\n        current_item._set_repeated(repeated_before)\n        target_idx += 1\n    else:\n        # Replacing the first occurence\n        vault.delete(current_item)\n    # Insert new element\n    vault.insert(new_item, position=target_idx)',
        '    if repeated_before >= 1:\n        # Update repetition\n        current_item._set_repeated(repeated_before)\n        target_idx += 1\n    else:\n        # Replacing the first occurence\n        vault.delete(current_item)\n    # Insert new element\n    if clone:\n        new_item = item.clone\n    else:\n        new_item = item\n    vault.insert(new_item, position=target_idx)')]),
    # round 3: the named-range rule re-derived from the setter source
    ('nr_a1_regex_unicode_digits', 'C07', True, [(TB, '        step = ""\n        for x in name:\n            if x in string.ascii_letters and step in ("", "A"):\n                step = "A"\n                continue\n            elif step in ("A", "A1") and x in string.digits:\n                step = "A1"\n                continue\n            else:\n                step = ""\n                break\n        if step == "A1":\n', '        if re.fullmatch(r"[A-Za-z]+\\d+", name):\n')]),
    ('nr_first_char_isdigit', 'C07', True, [(TB, '        if name[0] in string.digits:\n            raise ValueError("Name must not start with a digit.")', '        if name[0].isdigit():\n            raise ValueError("Name must not start with a digit.")')]),
    ('rw_nr_a1_regex_ascii', 'C07', False, [(TB, '        step = ""\n        for x in name:\n            if x in string.ascii_letters and step in ("", "A"):\n                step = "A"\n                continue\n            elif step in ("A", "A1") and x in string.digits:\n                step = "A1"\n                continue\n            else:\n                step = ""\n                break\n        if step == "A1":\n', '        if re.fullmatch(r"[A-Za-z]+[0-9]+", name):\n')]),
    ('rw_nr_scanner_renamed', 'C07', False, [(TB, '        step = ""\n        for x in name:\n            if x in string.ascii_letters and step in ("", "A"):\n                step = "A"\n                continue\n            elif step in ("A", "A1") and x in string.digits:\n                step = "A1"\n                continue\n            else:\n                step = ""\n                break\n        if step == "A1":\n', '        state = ""\n        for ch in name:\n            if ch in string.ascii_letters and state in ("", "L"):\n                state = "L"\n                continue\n            elif state in ("L", "LD") and ch in "0123456789":\n                state = "LD"\n                continue\n            else:\n                state = ""\n                break\n        if state == "LD":\n')]),
    ('table_name_strip_ascii_only', 'C07', True, [(TB, '    name = name.strip()\n    if not name:\n        raise ValueError("Empty name not allowed.")', '    name = name.strip(" \\t\\r\\n")\n    if not name:\n        raise ValueError("Empty name not allowed.")')]),
    # round 4: whole-table transformations as history steps
    ('optimize_width_cache_only_when_trimmed', 'C07', True, [(TB, '                    if diff == 0:\n                        break\n        # raz cache of columns\n        self._indexes["_cmap"] = {}\n        self._compute_table_cache()\n\n    def transpose', '                    if diff == 0:\n                        break\n            # raz cache of columns\n            self._indexes["_cmap"] = {}\n            self._compute_table_cache()\n\n    def transpose')]),
    ('rstrip_cache_only_when_trimmed', 'C01', True, [(TB, '                    if diff == 0:\n                        break\n        # raz cache of columns\n        self._indexes["_cmap"] = {}\n        self._compute_table_cache()\n\n    def optimize_width', '                    if diff == 0:\n                        break\n            # raz cache of columns\n            self._indexes["_cmap"] = {}\n            self._compute_table_cache()\n\n    def optimize_width')]),
    ('row_rstrip_stale_rmap', 'C01', True, [(RW, '            self.delete(cell)\n        self._compute_row_cache()\n        self._indexes["_rmap"] = {}\n\n    def _current_length', '            self.delete(cell)\n        self._indexes["_rmap"] = {}\n\n    def _current_length')]),
    # behaviour-preserving rewrites
    ('rw_insert_map_once_insert', 'C01', False, [(EC, '    new_map = orig_map[:odf_idx]\n    new_map.append(juska)\n    new_map.extend([(x + repeated) for x in orig_map[odf_idx:]])\n    return new_map',
                                                  '    new_map = [(x + repeated) for x in orig_map]\n    new_map[:odf_idx] = orig_map[:odf_idx]\n    new_map.insert(odf_idx, juska)\n    return new_map')]),
    ('rw_hoist_and_rename', 'C01', False, [(TB, '        for row in self._get_rows():\n            if row.width > x:\n                row.insert_cell(x, Cell(repeated=repeated))',
                                            '        all_rows = self._get_rows()\n        for one_row in all_rows:\n            row_width = one_row.width\n            if not (row_width <= x):\n                one_row.insert_cell(x, Cell(repeated=repeated))')]),
    ('rw_repeated_explicit_conditional', 'C07', False, [(EC, '    repeated = item.repeated or 1  # type: ignore\n    current_cache = vault_map[odf_idx]\n    cache = vault._indexes[vault_map_name]\n    if odf_idx in cache:\n        current_item = cache[odf_idx]\n    else:\n        current_item = vault._get_element_idx2(vault_scheme, odf_idx)\n    vault._indexes[vault_map_name] = {}\n    target_idx = vault.index(current_item)\n    if odf_idx > 0:\n        before_cache = vault_map[odf_idx - 1]\n    else:\n        before_cache = -1\n    current_pos = before_cache + 1\n    current_repeated = current_cache - before_cache\n    repeated_before = position - current_pos\n    repeated_after = current_repeated - repeated_before - repeated',
                                                         '    repeated = item.repeated  # type: ignore\n    if repeated is None or repeated == 0:\n        repeated = 1\n    current_cache = vault_map[odf_idx]\n    cache = vault._indexes[vault_map_name]\n    if odf_idx in cache:\n        current_item = cache[odf_idx]\n    else:\n        current_item = vault._get_element_idx2(vault_scheme, odf_idx)\n    vault._indexes[vault_map_name] = {}\n    target_idx = vault.index(current_item)\n    before_cache = vault_map[odf_idx - 1] if odf_idx > 0 else -1\n    current_pos = before_cache + 1\n    current_repeated = current_cache - before_cache\n    repeated_before = position - current_pos\n    repeated_after = current_repeated - repeated_before - repeated')]),
    ('rw_table_name_regex_reordered', 'C07', False, [(TB, r'''_RE_TABLE_NAME = re.compile(r"^\'|[\n\\/\*\?:\][]|\'$")''', r'''_RE_TABLE_NAME = re.compile(r"[:\*\?/\\\n\[\]]|\'$|^\'")''')]),
]


def check(prop, *args):
    e = dict(os.environ)
    p = subprocess.run([str(ROOT / 'check'), prop] + list(args), capture_output=True, text=True, env=e, timeout=1500)
    return p.returncode, p.stdout + p.stderr


def main():
    only = sys.argv[1:]
    out_path = ROOT / '.work' / 'selftest_table.json'
    results = json.loads(out_path.read_text()) if out_path.exists() else {}
    for name, prop, expect, edits in MUT:
        if only and name not in only:
            continue
        saved = {}
        try:
            for f, old, new in edits:
                p = REPO / f
                s = p.read_text()
                saved.setdefault(f, s)
                if old not in s:
                    raise SystemExit('mutation %s: pattern not found in %s' % (name, f))
                p.write_text(s.replace(old, new, 1))
            t0 = time.time()
            rc, out = check(prop, '--quick')
            lines = [l for l in out.splitlines() if l.startswith(('VIOLATION', 'KNOWN-FINDING', 'NOTE'))]
            viol = [l for l in lines if l.startswith('VIOLATION')]
            rec = dict(property=prop, expect_violation=expect, exit=rc, lines=lines[:8], wall=round(time.time() - t0, 1))
            if viol:
                concrete = [l for l in viol if 'no-failing-input-found' not in l]
                rec['concrete_replay'] = bool(concrete)
                if concrete:
                    rp = concrete[0].split('replay=')[1].split()[0]
                    d = json.load(open(rp))
                    rec['replay'] = dict(key=d.get('key'), layer=str(d.get('layer'))[:120], name=d.get('name'),
                                         steps=[s['op'] for s in d['case']['steps']] if d.get('case') else d.get('operation'))
                    rc2, out2 = check(prop, '--replay', rp)
                    rec['replay_reproduces'] = (rc2 == 1 and 'VIOLATION' in out2)
            rec['ok'] = (bool(viol) and rec.get('concrete_replay', False) and rec.get('replay_reproduces', False)) if expect else (rc == 0 and not viol)
            results[name] = rec
            print(name, prop, 'OK' if rec['ok'] else 'FAILED', json.dumps(rec)[:400], flush=True)
        finally:
            for f, s in saved.items():
                (REPO / f).write_text(s)
        out_path.write_text(json.dumps(results, indent=1))


if __name__ == '__main__':
    main()
