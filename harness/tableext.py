"""Second alphabet of the table checks: coordinates in every accepted form (str "C4" / "A1:B3" / "C" / "3", tuples,
lists, ints of either sign), default-argument variants (row/cell/column None), set_column_cells/values with negative
x, the second read alphabet (coordinate forms, get_values(coord) with partial areas, get_cells(coord), cells) and
Row-level calls on a live row handle (get_row(y, clone=False)).  Checker: coq/theories/TableExtchk.v.
A case is JSON like in tablelib: {"kind", "init_xml", "steps": [{"op": [...], "reads": [...], "reads2": [...]}]}.
String forms are produced here by an independent base-26 printer (never by odfdo's)."""
import random, sys
from pathlib import Path
sys.path.insert(0, str(Path(__file__).resolve().parent))
import common
import tablelib as tl
from tablelib import timed, c_cellrun, c_cells, c_rowx, c_zlist, c_xtable, c_read, c_op


def col_name(x):
    s = ''
    x += 1
    while x > 0:
        x, r = divmod(x - 1, 26)
        s = chr(65 + r) + s
    return s


# ---- coordinate forms (JSON): ["t", x, y] tuple | ["l", x, y] list | ["s", "C4"] str | ["a", "A1:B3"] area str (first cell used)
#      | ["q", x, y, z, t] 4-tuple; for single indices: int or str
def py_coord(c):
    k = c[0]
    if k == 't': return (c[1], c[2])
    if k == 'l': return [c[1], c[2]]
    if k == 'q': return (c[1], c[2], c[3], c[4])
    if k == 'r': return (c[1], c[2])          # row range (y, t) in a table context
    return c[1]


def c_str(s):
    return '[' + ';'.join(str(ord(ch)) for ch in s) + ']'


def c_oz(v):
    return 'None' if v is None else 'Some (%d)' % v


def c_coord(c):
    k = c[0]
    if k in ('t', 'l', 'r'): return 'CTup [%s; %s]' % (c_oz(c[1]), c_oz(c[2]))
    if k == 'q': return 'CTup [%s]' % '; '.join(c_oz(v) for v in c[1:])
    return 'CStr %s' % c_str(c[1])


def c_any(a):
    return 'AStr %s' % c_str(a) if isinstance(a, str) else 'AInt (%d)' % a


def c_ocoord(c):
    return 'None' if c is None else 'Some (%s)' % c_coord(c)


def c_op2(a):
    k = a[0]
    if k == 'x_set_cell': return 'XSetCell (%s) %s' % (c_coord(a[1]), c_cellrun(a[2]))
    if k == 'x_insert_cell': return 'XInsertCell (%s) %s' % (c_coord(a[1]), c_cellrun(a[2]))
    if k == 'x_delete_cell': return 'XDeleteCell (%s)' % c_coord(a[1])
    if k == 'x_append_cell': return 'XAppendCell (%s) %s' % (c_any(a[1]), c_cellrun(a[2]))
    if k == 'x_set_row': return 'XSetRow (%s) %d%%nat %s' % (c_any(a[1]), a[2], c_rowx(a[3]))
    if k == 'x_insert_row': return 'XInsertRow (%s) %d%%nat %s' % (c_any(a[1]), a[2], c_rowx(a[3]))
    if k == 'x_delete_row': return 'XDeleteRow (%s)' % c_any(a[1])
    if k == 'x_insert_column': return 'XInsertColumn (%s) %d%%nat %d' % (c_any(a[1]), a[2], a[3])
    if k == 'x_delete_column': return 'XDeleteColumn (%s)' % c_any(a[1])
    if k == 'x_set_column': return 'XSetColumn (%s) %d%%nat %d' % (c_any(a[1]), a[2], a[3])
    if k == 'x_set_lines': return 'XSetLines %s (%s) [%s]' % ('true' if a[1] else 'false', c_ocoord(a[2]), ';'.join(c_cells(l) for l in a[3]))
    if k == 'x_set_column_cells': return 'XSetColumnCells (%s) %s' % (c_any(a[1]), c_cells(a[2]))
    raise ValueError(k)


def c_rop(r):
    k = r[0]
    if k == 'set': return 'RSet (%d) %s' % (r[1], c_cellrun(r[2]))
    if k == 'ins': return 'RIns (%d) %s' % (r[1], c_cellrun(r[2]))
    if k == 'del': return 'RDel (%d)' % r[1]
    if k == 'app': return 'RApp %s' % c_cellrun(r[1])
    raise ValueError(k)


def c_eop(a):
    if a[0] in ('live_row', 'live_row_back'):
        return 'EL (%s (%s) [%s])' % ('LRow' if a[0] == 'live_row' else 'LRowBack', c_any(a[1]), ';'.join(c_rop(r) for r in a[2]))
    if a[0].startswith('x_'):
        return 'E2 (%s)' % c_op2(a)
    return 'E1 (%s)' % c_op(a)


def c_read2(q, ans):
    k = q[0]
    head = {'value2': 'Q2Value (%s)' % c_coord(q[1]) if k == 'value2' else '',
            'cell2': 'Q2Cell (%s)' % c_coord(q[1]) if k == 'cell2' else '',
            'row_values2': 'Q2RowValues (%s)' % c_any(q[1]) if k == 'row_values2' else '',
            'column_values2': 'Q2ColumnValues (%s)' % c_any(q[1]) if k == 'column_values2' else '',
            'values2': 'Q2Values (%s)' % c_ocoord(q[1]) if k == 'values2' else '',
            'cells2': 'Q2Cells (%s)' % c_ocoord(q[1]) if k == 'cells2' else ''}[k]
    if ans == 'RAISE': a = 'A2Raise'
    elif k == 'value2': a = 'T1 (AValue (%d))' % ans
    elif k == 'cell2': a = 'T1 (ACell (%d,%d))' % tuple(ans)
    elif k in ('row_values2', 'column_values2'): a = 'T1 (AList %s)' % c_zlist(ans)
    elif k == 'values2': a = 'T1 (AMatrix [%s])' % ';'.join(c_zlist(r) for r in ans)
    else: a = 'A2Cells [%s]' % ';'.join('[' + ';'.join('(%d,%d)' % tuple(c) for c in r) + ']' for r in ans)
    return '(%s, %s)' % (head, a)


HEADER2 = ('Require Import Vault Row Table Grid Tableabs Tablexml Tablechk Coord TableExt TableLive TableExtchk.\n'
           'From Coq Require Import List ZArith NArith Bool Arith. Import ListNotations. Open Scope Z_scope.\n'
           'Inductive stepobs2 := St2 (o : eop) (post : xtable) (raised : bool) (tm cm : list Z) (rmaps : list (nat * list Z))\n'
           '  (reads : list (tread * tans)) (reads2 : list (tread2 * tans2)).\n'
           'Fixpoint chk_hist2 (f : xobs -> nat) (pre : xtable) (i fid : nat) (l : list stepobs2) : nat :=\n'
           '  match l with [] => fid | St2 o post ra tm cm rm rd rd2 :: r =>\n'
           '    match f (XObs pre o post ra tm cm rm rd rd2) with O => chk_hist2 f post (S i) fid r | 9%nat => chk_hist2 f post (S i) 9%nat r\n'
           '    | k => (100 * (S i) + k)%nat end end.\n'
           'Definition mkc2 (tab : list (Z * Z)) (init : xtable) (l : list stepobs2) := (tab, init, l).\n'
           'Definition chk01x (c : list (Z * Z) * xtable * list stepobs2) : nat := let \'(tab, init, l) := c in chk_hist2 (chk_ext (vcl_of tab)) init 0 0 l.\n'
           '(* C07 on the extended histories: XmlOK / first-row rule / size after every step that is not a live-handle edit *)\n'
           'Definition chk07x1 (ob : xobs) : nat := let \'(XObs pre o post ra tm cm rm rd rd2) := ob in\n'
           '  match o with EL _ => 0%nat | _ => chk_c07 (Obs pre OClear post ra tm cm rm rd) end.\n'
           'Definition chk07x (c : list (Z * Z) * xtable * list stepobs2) : nat := let \'(tab, init, l) := c in\n'
           '  if in_fragment init && negb (XmlOK init) then 12%nat else chk_hist2 chk07x1 init 0 0 l.\n')


class Driver2(tl.Driver):
    def cells_of(self, cells):
        return [self.a_cell(c)[1:] for c in cells]

    def apply2(self, op):
        """extended operations; falls back to Driver.apply for the first alphabet"""
        o, t, k = self.odfdo, self.table, op[0]
        raised = None
        a = None
        try:
            if k in ('x_set_cell', 'x_insert_cell'):
                c = tl.mk_cell(o, op[2]); a = (k, op[1], self.a_cell(c))
                timed(getattr(t, k[2:]), py_coord(op[1]), c)
            elif k == 'x_delete_cell':
                a = (k, op[1]); timed(t.delete_cell, py_coord(op[1]))
            elif k == 'x_append_cell':
                c = tl.mk_cell(o, op[2]); a = (k, op[1], self.a_cell(c)); timed(t.append_cell, op[1], c)
            elif k in ('x_set_row', 'x_insert_row'):
                row = tl.mk_row(o, op[2]); rep, ar = self.a_row(row); a = (k, op[1], rep, ar)
                timed(getattr(t, k[2:]), op[1], row)
            elif k == 'x_delete_row':
                a = (k, op[1]); timed(t.delete_row, op[1])
            elif k in ('x_insert_column', 'x_set_column'):
                col = tl.mk_column(o, op[2], op[3]); rep, cid = self.a_col(col); a = (k, op[1], rep, cid)
                timed(getattr(t, k[2:]), op[1], col)
            elif k == 'x_delete_column':
                a = (k, op[1]); timed(t.delete_column, op[1])
            elif k == 'x_set_values':        # set_values(values, coord in any form or None, style)
                lines = [[self.a_cell(tl.mk_cell(o, [1, v, op[3]])) for v in line] for line in op[2]]
                a = ('x_set_lines', False, op[1], lines)
                timed(t.set_values, op[2], None if op[1] is None else py_coord(op[1]), style=op[3])
            elif k == 'x_set_cells':
                objs = [[tl.mk_cell(o, c) for c in line] for line in op[2]]
                a = ('x_set_lines', True, op[1], [[self.a_cell(c) for c in line] for line in objs])
                timed(t.set_cells, objs, None if op[1] is None else py_coord(op[1]))
            elif k == 'x_set_column_cells':
                objs = [tl.mk_cell(o, c) for c in op[2]]; a = (k, op[1], [self.a_cell(c) for c in objs])
                timed(t.set_column_cells, op[1], objs)
            elif k == 'x_set_column_values':
                a = ('x_set_column_cells', op[1], [self.a_cell(tl.mk_cell(o, [1, v, op[3]])) for v in op[2]])
                timed(t.set_column_values, op[1], op[2], style=op[3])
            # default-argument variants of the first alphabet
            elif k == 'append_row_none': a = ('append_row', 1, (0, [])); timed(t.append_row)
            elif k == 'set_row_none': a = ('set_row', op[1], 1, (0, [])); timed(t.set_row, op[1])
            elif k == 'insert_row_none': a = ('insert_row', op[1], 1, (0, [])); timed(t.insert_row, op[1])
            elif k == 'set_cell_none': a = ('set_cell', op[1], op[2], (1, 0, 0)); timed(t.set_cell, (op[1], op[2]))
            elif k == 'insert_cell_none': a = ('insert_cell', op[1], op[2], (1, 0, 0)); timed(t.insert_cell, (op[1], op[2]))
            elif k == 'append_cell_none': a = ('append_cell', op[1], (1, 0, 0)); timed(t.append_cell, op[1])
            elif k == 'insert_column_none': a = ('insert_column', op[1], 1, 0); timed(t.insert_column, op[1])
            elif k == 'append_column_none': a = ('append_column', 1, 0); timed(t.append_column)
            elif k == 'set_column_none': a = ('set_column', op[1], 1, 0); timed(t.set_column, op[1])
            elif k in ('live_row', 'live_row_back'):   # row = get_row(y, clone=False); Row-level calls on the handle; written back with set_row or not
                rops = []
                for r in op[2]:
                    if r[0] in ('set', 'ins'):
                        c = tl.mk_cell(o, r[2]); rops.append((r[0], r[1], self.a_cell(c), c))
                    elif r[0] == 'del': rops.append(('del', r[1]))
                    else:
                        c = tl.mk_cell(o, r[1]); rops.append(('app', self.a_cell(c), c))
                a = (k, op[1], [r[:3] if r[0] in ('set', 'ins') else r[:2] for r in rops])
                row = timed(t.get_row, op[1], clone=False)
                for r in rops:
                    if r[0] == 'set': timed(row.set_cell, r[1], r[3])
                    elif r[0] == 'ins': timed(row.insert_cell, r[1], r[3])
                    elif r[0] == 'del': timed(row.delete_cell, r[1])
                    else: timed(row.append_cell, r[2])
                if k == 'live_row_back':
                    timed(t.set_row, op[1], row)
            else:
                return self.apply(op)
        except tl.CallTimeout as e:
            raised = repr(e)
        except Exception as e:
            raised = repr(e)
        return a, raised

    def read2(self, q):
        t, k = self.table, q[0]
        try:
            if k == 'value2': return self.cls(timed(t.get_value, py_coord(q[1])))
            if k == 'cell2': return self.a_cell(timed(t.get_cell, py_coord(q[1])))[1:]
            if k == 'row_values2': return [self.cls(v) for v in timed(t.get_row_values, q[1])]
            if k == 'column_values2': return [self.cls(v) for v in timed(t.get_column_values, q[1])]
            if k == 'values2':
                return [[self.cls(v) for v in r] for r in timed(t.get_values, None if q[1] is None else py_coord(q[1]))]
            if k == 'cells2':
                if q[1] is None and len(q) > 2 and q[2] == 'prop':
                    rows = timed(lambda: t.cells)
                else:
                    rows = timed(t.get_cells, None if q[1] is None else py_coord(q[1]))
                return [[self.a_cell(c)[1:] for c in r] for r in rows]
        except (ValueError, TypeError, IndexError):
            return 'RAISE'
        raise KeyError(k)


def run_case2(odfdo, case):
    res = _run_case2_once(odfdo, case)
    if any(r['raised'] and 'CallTimeout' in r['raised'] for r in res.get('records', [])) or 'CallTimeout' in str(res.get('error')):
        saved = tl.CALL_TIMEOUT
        tl.CALL_TIMEOUT = saved * 10
        try:
            res = _run_case2_once(odfdo, case)
        finally:
            tl.CALL_TIMEOUT = saved
    return res


def _run_case2_once(odfdo, case):
    try:
        d = Driver2(odfdo, case['init_xml'])
    except Exception as e:
        return dict(term=None, error='initial table: %r' % (e,), records=[])
    recs, terms = [], []
    for st in case['steps']:
        a, raised = d.apply2(st['op'])
        try:
            post = d.abs()
            tm, cm, rm = tl.abs_maps(d.table)
        except Exception as e:
            return dict(term=None, error='abstraction: %r' % (e,), records=recs)
        reads, reads2 = [], []
        if not raised:
            for q in st.get('reads', []):
                try: reads.append((q, d.read(q)))
                except Exception as e: raised = 'read %r: %r' % (q, e)
            for q in st.get('reads2', []):
                try: reads2.append((q, d.read2(q)))
                except Exception as e: raised = 'read %r: %r' % (q, e)
        recs.append(dict(op=st['op'], abstract_op=a, raised=raised, post=post, tmap=tm, cmap=cm, rmaps=rm, reads=reads, reads2=reads2))
        if a is None:
            return dict(term=None, error='operation not understood: %r' % (st['op'],), records=recs)
        terms.append('St2 (%s)\n  %s %s %s %s [%s]\n  [%s]\n  [%s]' % (
            c_eop(a), c_xtable(post), 'true' if raised else 'false', c_zlist(tm), c_zlist(cm),
            ';'.join('(%d%%nat,%s)' % (i, c_zlist(m)) for i, m in rm),
            ';'.join(c_read(q, r) for q, r in reads), ';'.join(c_read2(q, r) for q, r in reads2)))
    term = '(mkc2 [%s] %s\n [%s])' % (';'.join('(%d,%d)' % p for p in d.vtab()), c_xtable(d.init_nodes), ';\n '.join(terms))
    return dict(term=term, error=None, records=recs, init=d.init_nodes)


# ------------------------------------------------------------------ generation

def g_cellcoord(rng, x, y):
    """a cell coordinate in one of the accepted forms; strings only for non-negative positions"""
    forms = ['t', 'l']
    if x >= 0 and y >= 0:
        forms += ['s', 's', 'a']
    f = rng.choice(forms)
    if f in ('t', 'l'): return [f, x, y]
    if f == 's': return ['s', col_name(x) + str(y + 1)]
    return ['a', '%s%d:%s%d' % (col_name(x), y + 1, col_name(x + rng.randint(0, 2)), y + 1 + rng.randint(0, 2))]


def g_y(rng, y):
    return str(y + 1) if y >= 0 and rng.random() < 0.5 else y


def g_x(rng, x):
    return col_name(x) if x >= 0 and rng.random() < 0.5 else x


def g_area(rng, cols, rows):
    x = tl.pick_pos(rng, [r for r, _ in cols], False); z = tl.pick_pos(rng, [r for r, _ in cols], False)
    y = tl.pick_pos(rng, [r for r, _ in rows], False); t = tl.pick_pos(rng, [r for r, _ in rows], False)
    f = rng.choice(['q', 'q', 'area', 'cols', 'rows', 'rowrange', 'cell', None])
    if f == 'q':
        if rng.random() < 0.3:
            x, y, z, t = [v if rng.random() < 0.7 else -rng.randint(1, 4) for v in (x, y, z, t)]
        return ['q', x, y, z, t]
    if f == 'area': return ['a', '%s%d:%s%d' % (col_name(x), y + 1, col_name(z), t + 1)]
    if f == 'cols': return ['a', '%s:%s' % (col_name(x), col_name(z))]
    if f == 'rows': return ['a', '%d:%d' % (y + 1, t + 1)]
    if f == 'rowrange': return ['r', y, t]
    if f == 'cell': return ['s', col_name(x) + str(y + 1)]
    return None


OPS_EXT = ['x_set_cell', 'x_set_cell', 'x_insert_cell', 'x_delete_cell', 'x_append_cell', 'x_set_row', 'x_insert_row', 'x_delete_row',
           'x_insert_column', 'x_delete_column', 'x_set_column', 'x_set_values', 'x_set_cells', 'x_set_column_cells', 'x_set_column_values',
           'append_row_none', 'set_row_none', 'insert_row_none', 'set_cell_none', 'insert_cell_none', 'append_cell_none',
           'insert_column_none', 'append_column_none', 'set_column_none', 'live_row', 'live_row', 'live_row_back',
           'set_cell', 'set_row', 'delete_row', 'insert_column', 'append_row']


def g_op2(rng, nodes, maxw, maxh, live=True):
    cols, rows = tl.shape_of(nodes)
    H = sum(r for r, _ in rows); W = sum(r for r, _ in cols)
    y = min(tl.pick_pos(rng, [r for r, _ in rows]), maxh); x = min(tl.pick_pos(rng, [r for r, _ in cols]), maxw)
    k = rng.choice(OPS_EXT)
    if k in ('live_row', 'live_row_back') and not live:
        k = 'x_set_cell'
    if (H >= maxh or W >= maxw) and k in ('x_insert_row', 'x_insert_column', 'append_row_none', 'insert_row_none', 'insert_column_none',
                                          'append_column_none', 'append_row') and rng.random() < 0.8:
        k = rng.choice(['x_delete_row', 'x_delete_column', 'x_set_cell', 'x_delete_cell'])
    if k in ('x_set_cell', 'x_insert_cell'): return [k, g_cellcoord(rng, x, y), tl.g_cellspec(rng)]
    if k == 'x_delete_cell': return [k, g_cellcoord(rng, x, y)]
    if k == 'x_append_cell': return [k, g_y(rng, y), tl.g_cellspec(rng)]
    if k in ('x_set_row', 'x_insert_row'): return [k, g_y(rng, y), tl.g_rowspec(rng)]
    if k == 'x_delete_row': return [k, g_y(rng, y)]
    if k in ('x_insert_column', 'x_set_column'): return [k, g_x(rng, x), rng.choice([1, 1, 2, 3]), rng.choice([None, 'cs'])]
    if k == 'x_delete_column': return [k, g_x(rng, x)]
    if k == 'x_set_values':
        c = rng.choice([None, g_cellcoord(rng, x, y), g_cellcoord(rng, x, y), ['a', col_name(max(x, 0))], ['a', str(max(y, 0) + 1)]])
        return [k, c, [[rng.choice(tl.VALUES) for _ in range(rng.randint(0, 3))] for _ in range(rng.randint(1, 3))], rng.choice([None, 's1'])]
    if k == 'x_set_cells':
        c = rng.choice([None, g_cellcoord(rng, x, y), g_cellcoord(rng, x, y)])
        return [k, c, [[tl.g_cellspec(rng) for _ in range(rng.randint(0, 3))] for _ in range(rng.randint(1, 3))]]
    if k == 'x_set_column_cells':
        n = H if rng.random() < 0.9 else H + 1          # a wrong length must be refused
        return [k, g_x(rng, x), [tl.g_cellspec(rng) for _ in range(n)]]
    if k == 'x_set_column_values': return [k, g_x(rng, x), [rng.choice(tl.VALUES) for _ in range(H)], rng.choice([None, 's1'])]
    if k == 'append_row_none': return [k]
    if k in ('set_row_none', 'insert_row_none', 'append_cell_none'): return [k, y]
    if k in ('set_cell_none', 'insert_cell_none'): return [k, x, y]
    if k in ('insert_column_none', 'set_column_none'): return [k, x]
    if k == 'append_column_none': return [k]
    if k in ('live_row', 'live_row_back'):
        yy = y
        cellreps = []
        acc = 0
        for r, cs in rows:
            if acc <= (yy if yy >= 0 else (yy % H if H else 0)) < acc + r:
                cellreps = cs; break
            acc += r
        rops = []
        for _ in range(rng.randint(1, 3)):
            xx = tl.pick_pos(rng, cellreps)
            kk = rng.choice(['set', 'ins', 'del', 'app'])
            rops.append([kk, xx, tl.g_cellspec(rng)] if kk in ('set', 'ins') else ([kk, xx] if kk == 'del' else [kk, tl.g_cellspec(rng)]))
        return [k, g_y(rng, yy), rops]
    return tl.g_op(rng, nodes, [k], maxw, maxh)


def g_reads2(rng, nodes):
    cols, rows = tl.shape_of(nodes)
    x = tl.pick_pos(rng, [r for r, _ in cols]); y = tl.pick_pos(rng, [r for r, _ in rows])
    qs = [['value2', g_cellcoord(rng, x, y)], ['cell2', g_cellcoord(rng, x, y)]]
    qs.append(['row_values2', g_y(rng, y)])
    qs.append(['column_values2', g_x(rng, x)])
    qs.append(['values2', g_area(rng, cols, rows)])
    qs.append(['cells2', g_area(rng, cols, rows)])
    if rng.random() < 0.3:
        qs.append(['cells2', None, 'prop'])
    return qs


def gen_and_run2(odfdo, seed, kind, nsteps, maxw=8, maxh=8, live=True):
    rng = random.Random(seed)
    if kind == 'empty': init = '<table:table table:name="t"/>'
    elif kind == 'prefilled': init = odfdo.Table('t', width=rng.randint(1, 4), height=rng.randint(1, 4)).serialize()
    elif kind == 'rle': init = tl.g_rle_table(rng, maxw, maxh)
    else:
        s = tl.sample_tables()
        init = s[rng.randrange(len(s))][1] if s else '<table:table table:name="t"/>'
    case = dict(kind=kind, family='ext', init_xml=init, steps=[])
    try:
        d = Driver2(odfdo, init)
    except Exception as e:
        return case
    nodes = d.init_nodes
    for _ in range(nsteps):
        op = g_op2(rng, nodes, maxw, maxh, live)
        a, raised = d.apply2(op)
        try:
            nodes = d.abs()
        except Exception:
            case['steps'].append(dict(op=op, reads=[], reads2=[])); break
        st = dict(op=op, reads=tl.g_reads(rng, nodes, full=False), reads2=g_reads2(rng, nodes))
        case['steps'].append(st)
        if raised and op[0] != 'x_set_column_cells':
            break
        for q in st['reads']:
            try: d.read(q)
            except Exception: pass
        for q in st['reads2']:
            try: d.read2(q)
            except Exception: pass
    return case
