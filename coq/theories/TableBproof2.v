(* TableBproof2.v — layer B, part 2: the answer computed from the XML alone (a_read) projects onto the answer of the
   grid specification (gb_read of the expansion abs_t). *)
From Coq Require Import List ZArith Lia Bool Arith.
Import ListNotations.
Require Import Vault Vaultproof Vaultproof2 Vaultproof3 Vaultproof4 Row Table Grid Tableabs Tableproof Tableproof2 Tableproof5 Tableproof6 Tableproof7
               TableB TableBabs TableBproof.
Open Scope Z_scope.

Theorem a_read_grid t q : WF t -> proj (a_read t q) = gb_read (abs_t t) q.
Proof.
  intros Hwf. pose proof Hwf as [[Hwr Hwc] Hcw].
  assert (Hny : forall y, 0 <= ny y t) by (intros; apply norm_coord_nonneg, theight_nonneg).
  assert (Hnx : forall x, 0 <= nx x t) by (intros; apply norm_coord_nonneg, twidth_nonneg).
  destruct q as [q|y cl|x y cl| |x|]; cbn [a_read gb_read]; rewrite ?gheight_abs, ?ncols_abs.
  - cbn [proj]. now rewrite (read_refines t q Hwf).
  - cbv zeta. fold (ny y t).
    destruct (base_row_spec (ny y t) t (conj Hwr Hwc) Hcw (Hny y)) as (st & cs & Hb & He & Hw). unfold base_row in Hb.
    destruct (theight t <=? ny y t).
    + inversion Hb; subst. cbn [proj empty_row]. now rewrite <- He.
    + destruct (row_at (ny y t) t) as [[rep [st' cs']]|]; [|discriminate]. inversion Hb; subst. cbn [proj]. now rewrite He.
  - cbv zeta. fold (ny y t). fold (nx x t).
    destruct (base_row_spec (ny y t) t (conj Hwr Hwc) Hcw (Hny y)) as (st & cs & Hb & He & Hw). unfold base_row in Hb.
    rewrite <- He.
    destruct (theight t <=? ny y t).
    + inversion Hb; subst. cbn [proj expand]. now destruct (Z.to_nat (nx x t)).
    + destruct (row_at (ny y t) t) as [[rep [st' cs']]|]; [|discriminate]. inversion Hb; subst.
      rewrite <- (cell_nth cs (nx x t) Hw (Hnx x)). unfold rwidth.
      destruct (Z.leb_spec (Z.of_nat (width cs)) (nx x t)) as [Hout|Hin].
      * cbn [proj]. rewrite (cell_at_spec cs (nx x t) Hw (Hnx x)).
        destruct (nth_error (expand cs) (Z.to_nat (nx x t))) eqn:E; [|reflexivity].
        assert (Z.to_nat (nx x t) < length (expand cs))%nat by (apply nth_error_Some; congruence). unfold width in Hout. lia.
      * destruct (locate _ cs (nx x t) Hw ltac:(split; [apply Hnx|lia])) as (ci & n & c & Hf & Hn & _).
        unfold cell_at. rewrite Hf, Hn. reflexivity.
  - reflexivity.
  - cbv zeta. fold (nx x t).
    destruct (Z.leb_spec (twidth t) (nx x t)) as [Hout|Hin]; [reflexivity|].
    unfold twidth in Hin. destruct (locate _ (cols t) (nx x t) Hwc ltac:(split; [apply Hnx|lia])) as (ci & n & c & Hf & Hn & _).
    rewrite Hf, Hn. reflexivity.
  - cbn [proj]. reflexivity.
Qed.
