(* Transformproof10.v — the span laws transported to the run-length model. *)
From Coq Require Import List ZArith Lia Bool Arith.
Import ListNotations.
Require Import Vault Vaultproof Row Table Grid Tableabs Tableproof Transform Transformspec Transformproof6 Transformproof7
               Transformproof8 Transformproof9.
Open Scope Z_scope.

Section SpanModel.
Variable a : calg.

Lemma set_span_model_grid x y z t m mid st st' r : WF st -> 0 <= x -> 0 <= y ->
  t_set_span a x y z t m mid st = Some (st', r) -> WF st' /\ g_set_span a x y z t m mid (abs_t st) = (abs_t st', r).
Proof.
  intros Hwf Hx Hy H. destruct (set_span_refines a x y z t m mid st Hwf Hx Hy) as (st1 & r1 & H1 & Hwf1 & Hg).
  rewrite H1 in H. injection H as <- <-. split; [exact Hwf1|]. symmetry. exact Hg.
Qed.

Theorem set_span_explicit_model x y z t mid st st' : WF st -> 0 <= x <= z -> 0 <= y <= t ->
  t_set_span a x y z t false mid st = Some (st', true) ->
  forall i j, 0 <= i -> 0 <= j ->
  gcell i j (abs_t st') =
    let c := gcell i j (abs_t st) in
    if in_area x y z t i j then
      (if (i =? x) && (j =? y) then (ca_add_span a (fst c) (z - x + 1) (t - y + 1), snd c) else cov a c)
    else c.
Proof.
  intros Hwf Hx Hy H. destruct (set_span_model_grid x y z t false mid st st' true Hwf ltac:(lia) ltac:(lia) H) as [_ Hg].
  apply (g_set_span_explicit a x y z t mid (abs_t st) (abs_t st') Hx Hy Hg).
Qed.

Theorem set_span_refuses_model x y z t m mid st : WF st -> 0 <= x -> 0 <= y ->
  ((x =? z) && (y =? t)) || any_spanned a (g_area_cells x y z t (abs_t st)) = true ->
  t_set_span a x y z t m mid st = Some (st, false).
Proof.
  intros Hwf Hx Hy H. unfold t_set_span. rewrite (area_cells_grid x y z t st Hwf Hx Hy).
  destruct ((x =? z) && (y =? t)); [reflexivity|]. cbn [orb] in H. unfold any_spanned in H. rewrite H. reflexivity.
Qed.
Theorem set_span_accepts_model x y z t m mid st : WF st -> 0 <= x -> 0 <= y ->
  ((x =? z) && (y =? t)) || any_spanned a (g_area_cells x y z t (abs_t st)) = false ->
  exists st', t_set_span a x y z t m mid st = Some (st', true) /\ WF st'.
Proof.
  intros Hwf Hx Hy H. destruct (set_span_refines a x y z t m mid st Hwf Hx Hy) as (st1 & r1 & H1 & Hwf1 & Hg).
  pose proof (g_set_span_accepts a x y z t m mid (abs_t st) H) as Hacc. rewrite <- Hg in Hacc. cbn [snd] in Hacc. subst r1.
  exists st1. split; assumption.
Qed.

(* no value changes: with an algebra whose tag and attribute edits keep the base content, the base content and the
   style of every cell of the table are what they were *)
Theorem set_span_keeps_values_model x y z t mid st st' : WF st -> 0 <= x <= z -> 0 <= y <= t ->
  (forall v, ca_base a (ca_to_cov a v) = ca_base a v) -> (forall v c r, ca_base a (ca_add_span a v c r) = ca_base a v) ->
  t_set_span a x y z t false mid st = Some (st', true) ->
  forall i j, 0 <= i -> 0 <= j ->
  ca_base a (fst (gcell i j (abs_t st'))) = ca_base a (fst (gcell i j (abs_t st))) /\
  snd (gcell i j (abs_t st')) = snd (gcell i j (abs_t st)).
Proof.
  intros Hwf Hx Hy Hb1 Hb2 H i j Hi Hj. rewrite (set_span_explicit_model x y z t mid st st' Hwf Hx Hy H i j Hi Hj). cbv zeta.
  destruct (in_area x y z t i j); [|split; reflexivity].
  destruct ((i =? x) && (j =? y)); unfold cov; cbn [fst snd]; rewrite ?Hb1, ?Hb2; split; reflexivity.
Qed.

Theorem span_roundtrip_model x y z t mid st st' : WF st -> 0 <= x <= z -> 0 <= y <= t ->
  t_set_span a x y z t false mid st = Some (st', true) -> area_alg_ok a x y z t (abs_t st) ->
  exists st'', t_del_span a x y st' = Some (st'', true) /\ WF st'' /\
               forall i j, 0 <= i -> 0 <= j -> gcell i j (abs_t st'') = gcell i j (abs_t st).
Proof.
  intros Hwf Hx Hy H Halg.
  destruct (set_span_model_grid x y z t false mid st st' true Hwf ltac:(lia) ltac:(lia) H) as [Hwf' Hg].
  destruct (g_span_roundtrip a x y z t mid (abs_t st) (abs_t st') Hx Hy Hg Halg) as (g'' & Hd & Hcells).
  pose proof (del_span_refines a x y st' Hwf' ltac:(lia) ltac:(lia)) as Hr. rewrite Hd in Hr.
  destruct Hr as (st'' & Hs & Hwf'' & Habs). exists st''. split; [exact Hs|]. split; [exact Hwf''|]. rewrite Habs. exact Hcells.
Qed.
End SpanModel.

(* the hypotheses are inhabited: a table algebra in the form the harness emits (content 5 = "a", 6 = "a" covered,
   7 = "a" with both span attributes 2 x 2, 8 = bare covered cell, 9 = bare cell with the attributes), a table
   with a repeated row and a repeated cell run, the area B1:C2 *)
Definition ex_alg : calg := alg_of
  [ (0, (false, false, None, None, false, false, false, 0, 8, 0, 0));
    (5, (false, false, None, None, true, true, true, 5, 6, 5, 5));
    (6, (true, false, None, None, true, true, true, 5, 6, 5, 6));
    (7, (false, true, Some 2, Some 2, true, true, true, 5, 10, 7, 5));
    (8, (true, false, None, None, false, false, false, 0, 8, 0, 8));
    (9, (false, true, Some 2, Some 2, false, false, false, 0, 11, 9, 0));
    (10, (true, true, Some 2, Some 2, true, true, true, 5, 10, 7, 6));
    (11, (true, true, Some 2, Some 2, false, false, false, 0, 11, 9, 8)) ]
  [ (0, 2, 2, 9); (5, 2, 2, 7) ] [].
Definition ex_table : tstate :=
  {| cols := [(3%nat, 0)]; rows := [(2%nat, (1, [(1%nat, (0, 3)); (2%nat, (5, 0))]))] |}.
Lemma ex_inhabited : WF ex_table /\ area_alg_ok ex_alg 1 0 2 1 (abs_t ex_table) /\
  exists st' st'', t_set_span ex_alg 1 0 2 1 false 0 ex_table = Some (st', true) /\
                   t_del_span ex_alg 1 0 st' = Some (st'', true) /\ abs_t st'' = abs_t ex_table.
Proof.
  split; [repeat split; repeat constructor; cbn; lia|]. split.
  - intros i j Hi Hj. assert (i = 1 \/ i = 2) as [-> | ->] by lia; assert (j = 0 \/ j = 1) as [-> | ->] by lia; vm_compute; repeat split; reflexivity.
  - eexists. eexists. split; [vm_compute; reflexivity|]. split; vm_compute; reflexivity.
Qed.
