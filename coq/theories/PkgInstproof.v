(* PkgInstproof.v — the concrete instance meets the hypotheses; example states; refutations on the pinned model *)
From Coq Require Import List ZArith Bool Arith Lia.
Import ListNotations.
Require Import Package PkgManproof Pkgproof.
Open Scope Z_scope.

Lemma cpar_cser : forall x, cpar (cser x) = x. Proof. reflexivity. Qed.
Lemma cmask_cstamp : forall x, cmask (cstamp x) = cmask x. Proof. reflexivity. Qed.

(* a small document: a zip on disk (id 1) opened by path, content parsed and edited, a picture added, one part deleted *)
Definition ex_man : cxml := CX 0 0 [(ROOT, 9); (CONTENT, 8); (META, 8); (STYLES, 8); (SETTINGS, 8); (1000, 7)] [].
Definition ex_zip : list (name * bool * cbytes) :=
  [(MIMETYPE, true, CB 9); (CONTENT, false, CS (CX 20 21 [] [30])); (META, false, CS (CX 22 23 [] [31]));
   (SETTINGS, false, CS (CX 24 25 [] [32])); (STYLES, false, CS (CX 26 27 [] [33])); (1000, false, CB 40); (MANIFEST, false, CS ex_man)].
Definition ex_fs : cfs := [(1, FZip ex_zip)].
Definition ex_doc : cdoc :=
  mkD (mkC [(MIMETYPE, Some (CB 9)); (CONTENT, Some (CS (CX 20 21 [] [30]))); (1001, Some (CB 41)); (1000, None)] [] (Some 1) PZip)
      [(CONTENT, Some (CX 50 51 [] [30; 34])); (MANIFEST, None)].
Lemma ex_doc_wf : WFd cxml cbytes Z ex_fs ex_doc.
Proof. apply WFdb_WFd. reflexivity. Qed.

(* F9 (pinned Document.set_part): bytes given for an XML part whose tree is parsed are not what a reader sees *)
Lemma f9_refuted : exists fs d n b,
  cview fs (snd (fst (cstep PINNED (fs, d) (OSetPart n b)))) n <> Some (CXml (cmask (cpar b)))
  /\ cview fs (snd (fst (cstep FIXED (fs, d) (OSetPart n b)))) n = Some (CXml (cmask (cpar b))).
Proof. exists ex_fs, ex_doc, CONTENT, (CS (CX 60 61 [] [30])). split; [vm_compute; discriminate|reflexivity]. Qed.

(* F14 (pinned Document.clone): after an unsaved edit the clone is not equal to the original *)
Lemma f14_refuted : exists fs d n, cview fs (snd (cd_clone PINNED fs d)) n <> cview fs d n
                                   /\ cview fs (snd (cd_clone FIXED fs d)) n = cview fs d n.
Proof. exists ex_fs, ex_doc, CONTENT. split; [vm_compute; discriminate|reflexivity]. Qed.

(* F37 (pinned Container.clone on a path-opened zip): cloning changes the original (a deleted part comes back) *)
Lemma f37_refuted : exists fs d n, cview fs (fst (cd_clone PINNED fs d)) n <> cview fs d n
                                   /\ cview fs (fst (cd_clone FIXED fs d)) n = cview fs d n.
Proof. exists ex_fs, ex_doc, 1000. split; [vm_compute; discriminate|reflexivity]. Qed.

(* F15, memory half (pinned custom_pretty_tree indents the live tree): a pretty save changes the document *)
Lemma f15_memory_refuted : exists fs d t n,
  let '(fs', d', ok) := d_save cxml cbytes Z cser cpar cpretty cstamp centries ckids cmime crdf0 PINNED fs d t PZip true in
  ok = true /\ cview fs d' n <> cview fs d n.
Proof. exists ex_fs, ex_doc, (TBuf 2), CONTENT. vm_compute. split; [reflexivity|discriminate]. Qed.

(* F34 (pinned): folder-opened container, set_part of a part never read, next read gives the file's content *)
Definition ex_fs_dir : cfs := [(1, FDir (zip_plain _ ex_zip))].
Definition ex_doc_dir : cdoc := mkD (mkC [] [] (Some 1) PFolder) [].
Lemma f34_refuted : exists fs d n b,
  let s1 := fst (cstep PINNED (fs, d) (OSetPart n b)) in
  cview (fst s1) (snd (fst (cstep PINNED s1 (OTouch n)))) n <> cview (fst s1) (snd s1) n
  /\ let s2 := fst (cstep FIXED (fs, d) (OSetPart n b)) in
     cview (fst s2) (snd (fst (cstep FIXED s2 (OTouch n)))) n = cview (fst s2) (snd s2) n.
Proof. exists ex_fs_dir, ex_doc_dir, CONTENT, (CS (CX 60 61 [] [30])). split; [vm_compute; discriminate|reflexivity]. Qed.
