"""Self-test of the C12 / C15 checks: seeded mutations of the scratch implementation ($ODFDO_REPO, never /repo) must each
give `VIOLATION property=Cxx replay=...` reproducible with --replay; behaviour-preserving rewrites must stay silent.

    ODFDO_REPO=/root/scratch/misc python harness/selftest_c12_c15.py [C12|C15] [name ...]

Each mutation is a textual replacement (file, old, new) applied to the scratch tree and reverted afterwards.
Results are appended to .work/selftest_<prop>.log (and summarised in notes/Cxx.md by hand)."""
import os, re, subprocess, sys, time
from pathlib import Path
ROOT = Path(__file__).resolve().parent.parent
REPO = Path(os.environ["ODFDO_REPO"])
assert str(REPO) != "/repo" and REPO.exists()

M12 = [
    ("M1-registered-under-another-tag", "mutation", [("src/odfdo/bookmark.py", "register_element_class(Bookmark)\n",
        "register_element_class_list(Bookmark, (\"text:bookmark\", \"text:bookmark-start\"))\n"),
        ("src/odfdo/bookmark.py", "from .element import Element, PropDef, register_element_class\n", "from .element import Element, PropDef, register_element_class, register_element_class_list\n")]),
    ("M2-propdef-wrong-attribute", "mutation", [("src/odfdo/section.py", 'PropDef("name", "text:name")', 'PropDef("name", "text:display-name")')]),
    ("M3-ctor-ignores-argument", "mutation", [("src/odfdo/section.py", "            if name:\n                self.name = name\n", "")]),
    ("M4-ctor-ignores-falsy-value", "mutation", [("src/odfdo/header.py", "            if start_value is not None:\n", "            if start_value:\n")]),
    ("M5-clone-loses-class", "mutation", [("src/odfdo/element.py", "        klass = _class_registry.get(tag, cls)\n        element = klass(tag_or_elem=tree_element)\n",
        "        klass = cls\n        element = klass(tag_or_elem=tree_element)\n")]),
    ("M6-setter-bool-as-str", "mutation", [("src/odfdo/element.py", "            if isinstance(value, bool):\n                value = Boolean.encode(value)\n            self.__element.set(name, str(value))",
        "            self.__element.set(name, str(value))")]),
    ("M7-getter-false-not-decoded", "mutation", [("src/odfdo/element.py", '            elif value in ("true", "false"):\n                return Boolean.decode(value)\n            return str(value)',
        '            elif value == "true":\n                return Boolean.decode(value)\n            return str(value)')]),
    ("M8-ctor-wrong-property-two-sites", "mutation", [("src/odfdo/link.py", "                self.title = title\n", "                self.name = title\n")]),
    ("M9-from-tag-ignores-registry-for-one-tag", "mutation", [("src/odfdo/element.py", "        klass = _class_registry.get(elem.tag, cls)\n        return klass(tag_or_elem=elem)",
        "        klass = _class_registry.get(elem.tag, cls)\n        if elem.tag.endswith('}line-break') and elem.getparent() is not None and elem.getparent().getparent() is not None:\n            klass = cls\n        return klass(tag_or_elem=elem)")]),
    ("M10-parent-ctor-ignores-forwarded-arg", "mutation", [("src/odfdo/shapes.py", "            if layer:\n                self.layer = layer\n", "")]),
    ("R1-rewrite-guard-and-order", "rewrite", [("src/odfdo/section.py", "            if style:\n                self.style = style\n            if name:\n                self.name = name\n",
        "            if name:\n                self.name = name\n            if style:\n                self.style = style\n")]),
    ("R2-rewrite-register-through-list", "rewrite", [("src/odfdo/section.py", "register_element_class(Section)", "register_element_class_list(Section, (Section._tag,))"),
        ("src/odfdo/section.py", "from .element import Element, PropDef, register_element_class", "from .element import Element, PropDef, register_element_class, register_element_class_list")]),
    ("R3-rewrite-getter-if-chain", "rewrite", [("src/odfdo/element.py", '            elif value in ("true", "false"):\n                return Boolean.decode(value)\n            return str(value)',
        '            if value == "true" or value == "false":\n                return Boolean.decode(value)\n            text = str(value)\n            return text')]),
]

M15 = [
    ("M1-rst-strips-self", "mutation", [("src/odfdo/table.py", "        table = self.clone\n        table.rstrip(aggressive=True)  # type: ignore", "        table = self\n        table.rstrip(aggressive=True)  # type: ignore")]),
    ("M2-replace-none-writes-back", "mutation", [("src/odfdo/element.py", "            if new is None:\n                count += len(cpattern.findall(str(text)))\n",
        "            if new is None:\n                count += len(cpattern.findall(str(text)))\n                container = text.parent\n                if container and text.is_text():\n                    container.text = str(text).strip()\n")]),
    ("M3-getter-caches-in-attribute", "mutation", [("src/odfdo/table.py", "        try:\n            height = self._tmap[-1] + 1\n        except Exception:\n            height = 0\n", "        try:\n            height = self._tmap[-1] + 1\n        except Exception:\n            height = 0\n        self.set_attribute(\"table:cached-height\", str(height))\n")]),
    ("M4-to-csv-rstrips-live-table", "mutation", [("src/odfdo/table.py", "        out = StringIO(newline=\"\")\n", "        self.rstrip(aggressive=True)\n        out = StringIO(newline=\"\")\n")]),
    ("M5-meta-export-fills-missing-title", "mutation", [("src/odfdo/meta.py", "        data = self._as_json_dict(full=False)\n        result: list[str] = []\n",
        "        if self.get_title() is None:\n            self.set_title(\"\")\n        data = self._as_json_dict(full=False)\n        result: list[str] = []\n")]),
    ("M6-second-call-differs", "mutation", [("src/odfdo/document.py", "    def get_formated_meta(self) -> str:\n", "    _calls = 0\n\n    def get_formated_meta(self) -> str:\n        Document._calls += 1\n        if Document._calls % 2 == 0:\n            return self.meta.as_text().upper()\n")]),
    ("R1-rewrite-rst-clone-renamed", "rewrite", [("src/odfdo/table.py", "        table = self.clone\n        table.rstrip(aggressive=True)  # type: ignore", "        copy_of_table = self.clone\n        table = copy_of_table\n        table.rstrip(aggressive=True)  # type: ignore")]),
    ("R2-rewrite-replace-count-with-finditer", "rewrite", [("src/odfdo/element.py", "                count += len(cpattern.findall(str(text)))\n", "                count += sum(1 for _m in cpattern.finditer(str(text)))\n")]),
]


def sh(cmd, timeout=3000):
    p = subprocess.run(cmd, shell=True, capture_output=True, text=True, timeout=timeout, cwd=ROOT)
    return p.returncode, p.stdout + p.stderr


def main():
    prop = sys.argv[1]
    only = set(sys.argv[2:])
    muts = M12 if prop == "C12" else M15
    log = open(ROOT / ".work" / ("selftest_%s.log" % prop), "a")
    for name, kind, edits in muts:
        if only and name not in only:
            continue
        saved = {}
        ok = True
        for f, old, new in edits:
            p = REPO / f
            s = saved.setdefault(f, p.read_text())
            cur = p.read_text()
            if old not in cur:
                ok = False
                break
            p.write_text(cur.replace(old, new, 1))
        if not ok:
            for f, s in saved.items():
                (REPO / f).write_text(s)
            print("%s %s: pattern not found, skipped" % (prop, name)); log.write("%s %s SKIPPED (pattern not found)\n" % (prop, name)); log.flush()
            continue
        t = time.time()
        try:
            rc0, out0 = sh("%s -c 'import sys; sys.path.insert(0, \"%s/src\"); import odfdo'" % ("/venv/bin/python", REPO), 120)
            rc, out = sh("./check %s --quick" % prop)
            lines = [l for l in out.splitlines() if l.startswith("VIOLATION") or l.startswith("KNOWN-FINDING")]
            viol = [l for l in lines if l.startswith("VIOLATION")]
            rep = ""
            if viol:
                m = re.search(r"replay=(\S+)", viol[0])
                rrc, rout = sh("./check %s --replay %s" % (prop, m.group(1)))
                rep = "replay rc=%d %s" % (rrc, "reproduced" if "VIOLATION" in rout else "NOT reproduced")
        finally:
            for f, s in saved.items():
                (REPO / f).write_text(s)
        verdict = ("DETECTED" if viol else "ESCAPED") if kind == "mutation" else ("SILENT" if not viol and rc == 0 else "FALSE-ALARM")
        msg = "%s %s [%s] import_rc=%d check_rc=%d %s %.0fs %s\n    %s" % (prop, name, kind, rc0, rc, verdict, time.time() - t, rep, "\n    ".join(viol[:4]))
        print(msg); log.write(msg + "\n"); log.flush()


if __name__ == "__main__":
    main()
