(* TableExtproof.v — the second alphabet refines the grid (through the first one), histories over both alphabets,
   string / tuple / integer forms of a coordinate step alike, the reads with coordinates in any form and the area
   reads with optional bounds are the reads of the grid. *)
From Coq Require Import List ZArith Lia Bool Arith.
Import ListNotations.
Require Import Vault Vaultproof Vaultproof5 Row Table Grid Tableabs Coord Coordproof1 Coordproof2 Coordproof3 Coordproof4 Coordproof5
               Tableproof Tableproof2 Tableproof3 Tableproof4 Tableproof5 Tableproof6 Tableproof7 TableExt.
Open Scope Z_scope.

(* ---- refinement ---- *)
Theorem step2_refines t o : WF t -> op_ok2 (twidth t) (theight t) o ->
  exists t', t_step2 t o = Some t' /\ WF t' /\ g_step2 (abs_t t) o = Some (abs_t t').
Proof.
  intros Hwf (o' & Hl & Hok). unfold t_step2, g_step2. rewrite gheight_abs, ncols_abs, Hl.
  destruct (step_refines t o' Hwf Hok) as (t' & Hs & Hw & Ha). exists t'. rewrite Hs, Ha. auto.
Qed.

Theorem x_step_refines t o : WF t -> xop_ok t o ->
  exists t', x_step t o = Some t' /\ WF t' /\ gx_step (abs_t t) o = Some (abs_t t').
Proof.
  intros Hwf Hok. destruct o as [a|b]; cbn [x_step gx_step xop_ok] in *.
  - destruct (step_refines t a Hwf Hok) as (t' & Hs & Hw & Ha). exists t'. rewrite Ha. auto.
  - apply step2_refines; assumption.
Qed.

Theorem x_history_refines : forall os t, WF t -> xops_ok (abs_t t) os ->
  exists t', x_run t os = Some t' /\ WF t' /\ gx_run (abs_t t) os = Some (abs_t t').
Proof.
  induction os as [|o os IH]; intros t Hwf Hok.
  - exists t. auto.
  - cbn [xops_ok] in Hok. destruct Hok as [Ho Hrest].
    assert (Hxo : xop_ok t o).
    { destruct o; cbn [xop_ok]; [exact Ho|]. rewrite gheight_abs, ncols_abs in Ho. exact Ho. }
    destruct (x_step_refines t o Hwf Hxo) as (t1 & Hs & Hw1 & Hg).
    rewrite Hg in Hrest. destruct (IH t1 Hw1 Hrest) as (t' & Hr & Hw' & Hg').
    exists t'. cbn [x_run gx_run]. rewrite Hs, Hg. auto.
Qed.

(* ---- forms of a coordinate ---- *)
Lemma inc_opt_norm_coord v len : 0 <= len -> inc_opt (Some v) len = Some (Some (norm_coord v len)).
Proof.
  intros H. unfold inc_opt, norm_coord. destruct (Z.ltb_spec v 0) as [Hn|Hp].
  - replace (negb (v =? 0)) with true by (destruct (Z.eqb_spec v 0); [lia|reflexivity]). cbn [andb].
    rewrite (increment_spec_lemma v len H). replace (v <? 0) with true by (symmetry; apply Z.ltb_lt; lia). reflexivity.
  - rewrite andb_false_r. reflexivity.
Qed.
Lemma norm_coord_idem v len : 0 <= len -> norm_coord (norm_coord v len) len = norm_coord v len.
Proof.
  intros H. pose proof (norm_coord_nonneg v len H) as Hn. unfold norm_coord at 1.
  destruct (Z.ltb_spec (norm_coord v len) 0); [lia|reflexivity].
Qed.
Lemma res_cell_ints w h x y : 0 <= w -> 0 <= h ->
  res_cell w h (CTup [Some x; Some y]) = Some (norm_coord x w, norm_coord y h).
Proof.
  intros Hw Hh. unfold res_cell, translate_cell. cbn [convert_any bind].
  rewrite (inc_opt_norm_coord x w Hw). cbn [bind]. rewrite (inc_opt_norm_coord y h Hh). reflexivity.
Qed.
Lemma res_any_int len v idx : 0 <= len -> translate_from_any (AInt v) len idx = Some (norm_coord v len).
Proof.
  intros H. unfold translate_from_any. cbn [bind]. unfold norm_coord. destruct (Z.ltb_spec v 0); [|reflexivity].
  rewrite (increment_spec_lemma v len H). replace (v <? 0) with true by (symmetry; apply Z.ltb_lt; lia). reflexivity.
Qed.
(* a str is first parsed by convert_coordinates; what follows is the tuple path *)
Lemma res_cell_str w h s l : convert_coordinates s = Some l -> res_cell w h (CStr s) = res_cell w h (CTup l).
Proof. intros H. unfold res_cell, translate_cell. cbn [convert_any]. now rewrite H. Qed.
Lemma res_any_str len s l idx v : convert_coordinates s = Some l -> nth idx l None = Some v ->
  translate_from_any (AStr s) len idx = translate_from_any (AInt v) len idx.
Proof. intros H Hn. unfold translate_from_any. rewrite H. cbn [bind]. rewrite Hn. reflexivity. Qed.

Lemma t_step_norm_cell t x y (f : Z -> Z -> top) :
  (forall a b, t_step t (f a b) = t_step t (f (nx a t) (ny b t))) ->
  t_step t (f (norm_coord x (twidth t)) (norm_coord y (theight t))) = t_step t (f x y).
Proof. intros H. symmetry. apply H. Qed.

(* the step with the tuple of integers (any sign) is the step of the first alphabet *)
Theorem tuple_form_is_first_alphabet t x y cl :
  t_step2 t (XSetCell (CTup [Some x; Some y]) cl) = t_step t (OSetCell x y cl) /\
  t_step2 t (XInsertCell (CTup [Some x; Some y]) cl) = t_step t (OInsertCell x y cl) /\
  t_step2 t (XDeleteCell (CTup [Some x; Some y])) = t_step t (ODeleteCell x y).
Proof.
  pose proof (twidth_nonneg t) as Hw. pose proof (theight_nonneg t) as Hh.
  unfold t_step2. cbn [lower]. rewrite (res_cell_ints _ _ x y Hw Hh). cbn [bind fst snd t_step].
  unfold nx, ny. rewrite !norm_coord_idem by assumption. auto.
Qed.
Theorem int_form_is_first_alphabet t v rep r st cl :
  t_step2 t (XSetRow (AInt v) rep r) = t_step t (OSetRow v rep r) /\
  t_step2 t (XInsertRow (AInt v) rep r) = t_step t (OInsertRow v rep r) /\
  t_step2 t (XDeleteRow (AInt v)) = t_step t (ODeleteRow v) /\
  t_step2 t (XAppendCell (AInt v) cl) = t_step t (OAppendCell v cl) /\
  t_step2 t (XInsertColumn (AInt v) rep st) = t_step t (OInsertColumn v rep st) /\
  t_step2 t (XDeleteColumn (AInt v)) = t_step t (ODeleteColumn v) /\
  t_step2 t (XSetColumn (AInt v) rep st) = t_step t (OSetColumn v rep st).
Proof.
  pose proof (twidth_nonneg t) as Hw. pose proof (theight_nonneg t) as Hh.
  unfold t_step2. cbn [lower]. unfold res_y, res_x. rewrite !res_any_int by assumption. cbn [bind t_step].
  unfold nx, ny. rewrite !norm_coord_idem by assumption. repeat split; reflexivity.
Qed.

(* a str coordinate steps like the tuple it parses to — for every string that parses, every cell operation *)
Theorem string_form_steps_like_its_tuple t s l cl : convert_coordinates s = Some l ->
  t_step2 t (XSetCell (CStr s) cl) = t_step2 t (XSetCell (CTup l) cl) /\
  t_step2 t (XInsertCell (CStr s) cl) = t_step2 t (XInsertCell (CTup l) cl) /\
  t_step2 t (XDeleteCell (CStr s)) = t_step2 t (XDeleteCell (CTup l)).
Proof. intros H. unfold t_step2. cbn [lower]. rewrite (res_cell_str _ _ s l H). auto. Qed.

(* the written form of a cell address steps exactly like the pair of integers it denotes *)
Theorem printed_cell_steps_like_integers t x y cl : 0 <= x -> 0 <= y ->
  exists s, print_cell x y = Some s /\
    t_step2 t (XSetCell (CStr s) cl) = t_step t (OSetCell x y cl) /\
    t_step2 t (XInsertCell (CStr s) cl) = t_step t (OInsertCell x y cl) /\
    t_step2 t (XDeleteCell (CStr s)) = t_step t (ODeleteCell x y).
Proof.
  intros Hx Hy. destruct (print_parse_cell x y Hx Hy) as (s & Hp & Hc). exists s. split; [exact Hp|].
  destruct (string_form_steps_like_its_tuple t s _ cl Hc) as (H1 & H2 & H3).
  destruct (tuple_form_is_first_alphabet t x y cl) as (T1 & T2 & T3).
  rewrite H1, H2, H3, T1, T2, T3. auto.
Qed.
(* row numbers "3" and column letters "C" *)
Theorem printed_index_steps_like_integers t x y rep r st cl : 0 <= x -> 0 <= y ->
  exists c, print_col x = Some c /\
    t_step2 t (XSetRow (AStr (print_row y)) rep r) = t_step t (OSetRow y rep r) /\
    t_step2 t (XInsertRow (AStr (print_row y)) rep r) = t_step t (OInsertRow y rep r) /\
    t_step2 t (XDeleteRow (AStr (print_row y))) = t_step t (ODeleteRow y) /\
    t_step2 t (XAppendCell (AStr (print_row y)) cl) = t_step t (OAppendCell y cl) /\
    t_step2 t (XInsertColumn (AStr c) rep st) = t_step t (OInsertColumn x rep st) /\
    t_step2 t (XDeleteColumn (AStr c)) = t_step t (ODeleteColumn x) /\
    t_step2 t (XSetColumn (AStr c) rep st) = t_step t (OSetColumn x rep st).
Proof.
  intros Hx Hy.
  destruct (forms_any (theight t) x y Hx Hy) as (c & s & Hc & Hs & _ & _ & _ & Hy1 & Hy2 & _).
  destruct (forms_any (twidth t) x y Hx Hy) as (c' & s' & Hc' & Hs' & Hx1 & Hx2 & _).
  rewrite Hc in Hc'. inversion Hc'; subst c'.
  exists c. split; [exact Hc|].
  destruct (int_form_is_first_alphabet t y rep r st cl) as (A1 & A2 & A3 & A4 & _).
  destruct (int_form_is_first_alphabet t x rep r st cl) as (_ & _ & _ & _ & B5 & B6 & B7).
  rewrite <- A1, <- A2, <- A3, <- A4, <- B5, <- B6, <- B7.
  unfold t_step2. cbn [lower]. unfold res_y, res_x. rewrite Hy1, Hy2, Hx1, Hx2. repeat split; reflexivity.
Qed.

(* ---- reads ---- *)
Lemma firstn_z_nat {A} (l : list A) : forall n, firstn_z n l = firstn (Z.to_nat n) l.
Proof.
  induction l as [|a l IH]; intros n; cbn [firstn_z]; [now rewrite firstn_nil|].
  destruct (Z.ltb_spec 0 n).
  - rewrite IH. replace (Z.to_nat n) with (S (Z.to_nat (n - 1))) by lia. reflexivity.
  - replace (Z.to_nat n) with 0%nat by lia. reflexivity.
Qed.
Lemma skipn_z_nat {A} (l : list A) : forall n, skipn_z n l = skipn (Z.to_nat n) l.
Proof.
  induction l as [|a l IH]; intros n; cbn [skipn_z]; [now rewrite skipn_nil|].
  destruct (Z.ltb_spec 0 n).
  - rewrite IH. replace (Z.to_nat n) with (S (Z.to_nat (n - 1))) by lia. reflexivity.
  - replace (Z.to_nat n) with 0%nat by lia. reflexivity.
Qed.
Lemma row_trav_o_spec x z (v : rruns) : wf v -> row_trav_o x z v = g_row_slice x z (expand v).
Proof.
  intros Hw. unfold row_trav_o, g_row_slice.
  assert (H : traverse_range (Z.max 0 (odef 0 x)) (odef (rwidth v - 1) z) v = l_slice_o x z (Z.of_nat (length (expand v)) - 1) (expand v)).
  { assert (H0 : 0 <= Z.max 0 (odef 0 x)) by lia.
    rewrite (traverse_range_spec v (Z.max 0 (odef 0 x)) (odef (rwidth v - 1) z) Hw H0).
    unfold l_slice_o. rewrite firstn_z_nat, skipn_z_nat. reflexivity. }
  destruct x, z; try exact H. reflexivity.
Qed.
Lemma rows_trav_o_abs y t (rs : list (nat * rowx)) : map grow_of (rows_trav_o y t rs) = g_rows_slice y t (map grow_of (expand rs)).
Proof.
  unfold rows_trav_o, g_rows_slice, l_slice_o. destruct (odef (2 ^ 32) t <? Z.max 0 (odef 0 y)); [reflexivity|].
  now rewrite !firstn_z_nat, !skipn_z_nat, map_firstn, map_skipn.
Qed.
Lemma rows_trav_o_wf y t (st : tstate) : WF st -> Forall rwf (rows_trav_o y t (rows st)).
Proof.
  intros [Htw Hcw]. assert (Hall : Forall rwf (expand (rows st))) by (apply (cwf_iff st (proj1 Htw)); exact Hcw).
  unfold rows_trav_o. destruct (_ <? _); [constructor|]. rewrite firstn_z_nat, skipn_z_nat. apply Forall_firstn'', Forall_skipn''. exact Hall.
Qed.
Lemma cells_o_refines q st : WF st -> t_cells_o q st = g_cells_o q (abs_t st).
Proof.
  intros Hwf. destruct q as [[[x y] z] t]. unfold t_cells_o, g_cells_o. cbn [abs_t grows].
  rewrite <- rows_trav_o_abs, map_map. apply map_ext_in. intros r Hr.
  pose proof (rows_trav_o_wf y t st Hwf) as Hall. rewrite Forall_forall in Hall.
  apply row_trav_o_spec, (Hall r Hr).
Qed.
Lemma values_o_refines q st : WF st -> t_values_o q st = g_values_o q (abs_t st).
Proof.
  intros Hwf. destruct q as [[[x y] z] t]. unfold t_values_o, g_values_o. cbn [abs_t grows ncols].
  rewrite <- rows_trav_o_abs, map_map. apply map_ext_in. intros r Hr.
  pose proof (rows_trav_o_wf y t st Hwf) as Hall. rewrite Forall_forall in Hall.
  unfold grow_of. rewrite (row_trav_o_spec x z (snd r) (Hall r Hr)). reflexivity.
Qed.

Theorem read2_refines t q : WF t -> t_read2 t q = g_read2 (abs_t t) q.
Proof.
  intros Hwf. unfold t_read2, g_read2. rewrite gheight_abs, ncols_abs.
  destruct q as [c|c|y|x|c|c].
  - destruct (res_cell _ _ c) as [[x y]|]; [|reflexivity]. now rewrite (read_refines t _ Hwf).
  - destruct (res_cell _ _ c) as [[x y]|]; [|reflexivity]. now rewrite (read_refines t _ Hwf).
  - destruct (res_y _ y); [|reflexivity]. now rewrite (read_refines t _ Hwf).
  - destruct (res_x _ x); [|reflexivity]. now rewrite (read_refines t _ Hwf).
  - destruct (res_quad _ _ c); [|reflexivity]. now rewrite (values_o_refines _ t Hwf).
  - destruct (res_quad _ _ c); [|reflexivity]. now rewrite (cells_o_refines _ t Hwf).
Qed.

(* reads after every history over both alphabets *)
Theorem reads2_after_history os t q : WF t -> xops_ok (abs_t t) os ->
  exists t' g', x_run t os = Some t' /\ gx_run (abs_t t) os = Some g' /\ t_read2 t' q = g_read2 g' q
                /\ forall q1, t_read t' q1 = g_read g' q1.
Proof.
  intros Hwf Hok. destruct (x_history_refines os t Hwf Hok) as (t' & Hr & Hw' & Hg).
  exists t', (abs_t t'). repeat split; auto. apply read2_refines, Hw'. intros q1. apply read_refines, Hw'.
Qed.

(* get_cells(area) as the code computes it: a row stored narrower than the area yields FEWER cells than the area is
   wide (F30, a known finding of C08): on the grid the answer is the unpadded slice *)
Example get_cells_short_row :
  g_cells_o (Some 0, Some 0, Some 1, Some 1) {| ncols := 2; grows := [[]; [(5, 0)]] |} = [[]; [(5, 0)]].
Proof. reflexivity. Qed.
