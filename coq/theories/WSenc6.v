From Coq Require Import List Arith Bool Lia.
Import ListNotations.
Require Import WS WSproof WSnfproof WSenc1 WSenc2 WSenc3 WSenc4 WSenc5.

(* string facts for the tab / line-break splitter *)
Lemma no_dsp_app_l a b : no_dsp (a ++ b) = true -> no_dsp a = true.
Proof.
  induction a as [|t a IH]; intros H; [reflexivity|].
  destruct a as [|u a'].
  - destruct t; reflexivity.
  - cbn [app] in *. destruct t; cbn [no_dsp] in *; auto. destruct u; try discriminate; auto.
Qed.
Lemma no_dsp_app_r a b : no_dsp (a ++ b) = true -> no_dsp b = true.
Proof.
  induction a as [|t a IH]; intros H; [exact H|].
  apply IH. cbn [app] in H. destruct t; cbn [no_dsp] in H; auto.
  destruct (a ++ b) as [|u r] eqn:E; [reflexivity|]. destruct u; try discriminate; auto.
Qed.
Lemma no_tl_app a b : no_tl (a ++ b) = no_tl a && no_tl b.
Proof. unfold no_tl. apply forallb_app. Qed.
Lemma lastsp_snoc a t : lastsp (a ++ [t]) = is_sp t.
Proof. induction a as [|x a IH]; [reflexivity|]. cbn [app]. destruct (a ++ [t]) eqn:E; [destruct a; discriminate|]. cbn [lastsp]. exact IH. Qed.

Lemma NFb_first_irrelevant R : hd_str R = false -> NFb true R = NFb false R.
Proof. destruct R as [|x R]; [reflexivity|]. destruct x; cbn; try reflexivity; discriminate. Qed.

Lemma NFb_cons_str first w r : NFb first (IStr w :: r) =
  negb (is_nil w) && no_tl w && no_dsp w && negb (first && starts_sp w) && implb (lastsp w) (hd_solid r) && negb (hd_str r) && NFb false r.
Proof. reflexivity. Qed.

Definition flush (cur : str) : list item := match cur with [] => [] | _ => [IStr (rev cur)] end.
Lemma split_tl_nil cur : split_tl cur [] = flush cur. Proof. destruct cur; reflexivity. Qed.

(* the text being scanned is  rev cur ++ s ;  cur holds no tab / line break *)
Lemma split_NF : forall s cur first R,
  no_tl (rev cur) = true ->
  no_dsp (rev cur ++ s) = true ->
  (first = true -> starts_sp (rev cur ++ s) = false) ->
  (lastsp (rev cur ++ s) = true -> hd_solid R = true) ->
  hd_str R = false -> NFb false R = true ->
  NFb first (split_tl cur s ++ R) = true.
Proof.
  induction s as [|t s IH]; intros cur first R Htl Hd Hf Hl Hh HR.
  - rewrite split_tl_nil, app_nil_r in *. destruct cur as [|c cur'].
    + cbn [flush app]. destruct first; [rewrite NFb_first_irrelevant by exact Hh|]; exact HR.
    + cbn [flush app NFb]. set (w := rev (c :: cur')) in *.
      assert (Hne : is_nil w = false) by (unfold w; cbn [rev]; destruct (rev cur'); reflexivity).
      rewrite Hne, Htl, Hd, Hh, HR. cbn [negb andb]. rewrite !andb_true_r.
      apply andb_true_iff; split.
      * destruct first; [rewrite Hf by reflexivity|]; reflexivity.
      * destruct (lastsp w); [rewrite Hl by reflexivity|]; reflexivity.
  - assert (Hsplit : forall (sep : tok) (isep : item), (t = Tb \/ t = Nl) -> solid isep = true -> is_strb isep = false ->
              (forall fl rest, NFb fl (isep :: rest) = NFb false rest) ->
              split_tl cur (t :: s) = flush cur ++ isep :: split_tl [] s ->
              NFb first (split_tl cur (t :: s) ++ R) = true).
    { intros _ isep Ht Hsol Hns Hnf Heq. rewrite Heq, <- app_assoc. cbn [app].
      assert (Hs' : no_dsp s = true).
      { apply no_dsp_app_r with (a := rev cur ++ [t]). now rewrite <- app_assoc. }
      assert (Hrest : NFb false (split_tl [] s ++ R) = true).
      { apply IH; auto; cbn [rev app]; auto; try discriminate.
        intros Hls. apply Hl. rewrite lastsp_app_ne; [|destruct Ht; subst; discriminate].
        destruct s as [|u s']; [discriminate|]. cbn [lastsp]. exact Hls. }
      destruct cur as [|c cur'].
      - cbn [flush app]. rewrite Hnf. exact Hrest.
      - cbn [flush app]. set (w := rev (c :: cur')) in *. rewrite NFb_cons_str.
        assert (Hne : is_nil w = false) by (unfold w; cbn [rev]; destruct (rev cur'); reflexivity).
        rewrite Hne, Htl, Hnf, Hrest. cbn [hd_solid]. rewrite Hsol.
        rewrite (no_dsp_app_l w (t :: s) Hd).
        assert (Hhs : hd_str (isep :: split_tl [] s ++ R) = false) by (destruct isep; try reflexivity; discriminate).
        rewrite Hhs. cbn [negb andb]. rewrite !andb_true_r.
        apply andb_true_iff; split.
        + destruct first; [|reflexivity].
          rewrite starts_app in Hf by (intro E; rewrite E in Hne; discriminate). rewrite Hf by reflexivity. reflexivity.
        + destruct (lastsp w); reflexivity. }
    destruct t.
    + (* Sp *) cbn [split_tl]. apply IH; cbn [rev]; rewrite <- ?app_assoc; cbn [app]; auto.
      rewrite no_tl_app, Htl. reflexivity.
    + (* Tb *) apply (Hsplit Tb ITab); [auto|reflexivity|reflexivity|intros; reflexivity|destruct cur; reflexivity].
    + (* Nl *) apply (Hsplit Nl ILb); [auto|reflexivity|reflexivity|intros; reflexivity|destruct cur; reflexivity].
    + (* Ch *) cbn [split_tl]. apply IH; cbn [rev]; rewrite <- ?app_assoc; cbn [app]; auto.
      rewrite no_tl_app, Htl. reflexivity.
Qed.
