(* Property C05 — statements only.  Each is closed by [exact] of a lemma proved elsewhere. *)
From Coq Require Import List. Import ListNotations.
Require Import WS WSproof WSnfproof WSenc7.

Theorem C05_text_roundtrip : forall pieces : list str,
  readable (fold_left append_plain_text pieces []) = concat pieces.
Proof. exact C05_text. Qed.
Print Assumptions C05_text_roundtrip.

Theorem C05_normal_form : forall (its : list item) (added : str),
  NFb true (append_plain_text its added) = true.
Proof. exact C05_nf. Qed.
Print Assumptions C05_normal_form.

Theorem C05_consumer_reads_back : forall (its : list item) (added : str),
  consume (append_plain_text its added) = readable its ++ added.
Proof. exact C05_consumer. Qed.
Print Assumptions C05_consumer_reads_back.

Theorem C05_nf_is_what_consumers_need : forall its : list item,
  NFb true its = true -> consume its = readable its.
Proof. exact NF_consume. Qed.
Print Assumptions C05_nf_is_what_consumers_need.

(* the hypotheses are inhabited by a non-trivial paragraph *)
Example C05_example :
  let p := append_plain_text [] [Ch 1; Sp; Sp; Sp; Ch 2; Sp; Tb; Sp; Ch 3; Sp] in
  p = [IStr [Ch 1; Sp]; IS 2; IStr [Ch 2; Sp]; ITab; IStr [Sp; Ch 3]; IS 1] /\ NFb true p = true.
Proof. split; reflexivity. Qed.
