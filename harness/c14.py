"""C14: anything is found again under the name it was given, whatever the name contains.

Theorems: coq/theories/C14.v (model XPathLit.v: the text pasted into XPath queries by the pinned and by the repaired
code; specification: reader of XPath 1.0 string expressions, predicate reader, whole-query lexer `skeleton`).

Correspondence: identifiers over an alphabet rich in XPath/XML-significant characters go through every lookup entry
point that takes a name or an id.  For each (site, identifier) three objects are stored (the identifier, a
near-identical decoy, "plain"), the lookup is executed, and
  (i)  every XPath query string the implementation built during the lookup (captured by wrapping, from this
       harness, odfdo's own Python-level query functions) is handed to Coq together with the identifier and the
       queries the same site builds for the benign identifier "plain": Coq lexes both (XPathLit.skeleton) and
       requires the same structure, with the identifier as the value of every string token that is "plain" in
       the benign query;
       and, absolutely, that the identifier predicate constrains every branch of every union (XPathLit.covered);
  (ii) the objects returned are identified by a marker attribute read from the underlying lxml node (never through
       odfdo getters): exactly the stored object, never the decoy, no exception.  Decoys of every element kind the
       site's query can return are placed before and after the target; the target is also tried as each kind; and an
       identifier that is not stored at all must find nothing.
"""
import sys, os, json, random, itertools, time, signal, re
from pathlib import Path
sys.path.insert(0, str(Path(__file__).resolve().parent))
import common
from lxml import etree

PROP = "C14"
MARK = "{urn:org:documentfoundation:names:experimental:office:xmlns:loext:1.0}verif-role"   # a namespace odfdo knows, so that attribute copying code is not disturbed
ROLE_CODE = {"stored": 1, "decoy": 2, "plain": 3, "new": 4}


def role_code(r):
    """stored 1, plain 3, new 4; every decoy has its own code (10 + its position in the layout)"""
    r = str(r)
    if r.startswith("decoy"):
        return 10 + (int(r[6:]) if len(r) > 5 else 0)
    return ROLE_CODE.get(r, 0)
SIGNIFICANT = set("\"'&<>[]()=, {}$@/|*:")
LETTERS = "abcxyzABZ019_-."
RICH = list("\"'&<>[]()=, é中{}$@/|*:") + ['"', "'", '"', "'"]   # quotes weighted
CALL_LIMIT_S = 5

LAYER = {1: "query: the XPath text built for the identifier does not lex (unterminated literal = XPathSyntaxError)",
         2: "query: a string token of the query is not the identifier",
         3: "query: the structure of the query depends on the identifier (injection)",
         4: "lookup: the stored object was not returned (nothing, something else, or an exception)",
         5: "lookup: an object stored under a different identifier was returned",
         6: "harness: the benign query of the site does not lex",
         7: "xml: the attribute value written is not read back as the identifier",
         8: "query: the identifier predicate does not constrain every branch of a union (an object can be selected whatever its identifier)",
         9: "fidelity: query text differs from the model's although it denotes the same string (not an alarm)"}


class CallTimeout(Exception):
    pass


def _alarm(signum, frame):
    raise CallTimeout("implementation call exceeded %ss" % CALL_LIMIT_S)


def limited(f, *a, **k):
    signal.signal(signal.SIGALRM, _alarm)
    signal.setitimer(signal.ITIMER_REAL, CALL_LIMIT_S)
    try:
        return f(*a, **k)
    finally:
        signal.setitimer(signal.ITIMER_REAL, 0)


# ------------------------------------------------------------------------------------------ entry points by introspection

ID_PARAMS = {"name", "table_name", "style_name", "display_name", "id", "note_id", "draw_id", "change_id", "idx", "text_id", "title",
             "name_or_element", "full_path", "keyname", "style", "draw_style", "draw_text_style", "table", "path"}
EP_PREFIXES = ("get_", "_get_", "delete_", "del_", "remove_", "set_", "add_", "insert_", "append_", "update", "strip_", "has_")
# entry points found by introspection that are deliberately not driven, and why (first matching pattern)
EP_EXCUSED = [
    (r"^Element\.(get|set|del)_attribute(_integer|_string)?\(|^Element\.set_style_attribute\(", "the argument is an attribute name, not the identifier of an object"),
    (r"^(Container|Document)\.(get|set|del)_part\(|^Container\._get_", "package part paths are keys of the part dictionary (properties C03/C04)"),
    (r"^Element\._get_element_idx2?\(idx\)", "integer position, not an identifier"),
    (r"^Element\.(get_frames?|get_draw_groups?)\(title\)", "title= of frames and draw groups is a regular expression by documented contract (svg:title child, matched in Python)"),
    (r"^Frame\.get_image\(name\)", "ignores its name argument by design (a frame holds one image)"),
    (r"^(Document|Content|Styles)\.get_style\(display_name\)", "delegates to Element.get_style(display_name=), which is driven"),
    (r"^Document\.insert_style\(name\)|^Table\.set_named_range\(table_name\)", "the name to store under; the replacement of an existing object of that name is driven through Document.insert_style(style) / Table.set_named_range(name)"),
    (r"^(Paragraph\.(set_|insert_)|Style\.set_|Meta\.set_(title|template)|NamedRange\.set_|Row\.set_|Table\.set_(value|values|row_values|column_values)\(|TOC\.set_|Column\.set_|Frame\.set_|TextChange\.set_id|TextChangedRegion\.set_id|Element\.append_named_range)",
     "stores under the identifier / applies a style name; nothing is looked up by it (Paragraph.insert_reference resolves its name through Element.get_reference_mark, which is driven)"),
]


def introspect_entry_points(o):
    """every method of an odfdo class whose name starts like a lookup / update and that takes an identifier-like argument"""
    import inspect, pkgutil, importlib
    classes = set()
    for m in pkgutil.iter_modules(o.__path__):
        if m.name.startswith("scripts"):
            continue
        try:
            mod = importlib.import_module("odfdo." + m.name)
        except Exception:
            continue
        for c in vars(mod).values():
            if inspect.isclass(c) and c.__module__.startswith("odfdo"):
                classes.add(c)
    eps = []
    for c in sorted(classes, key=lambda c: c.__name__):
        for n, f in list(vars(c).items()):
            if n.startswith("__") or not n.startswith(EP_PREFIXES) or isinstance(f, (staticmethod, classmethod, property)) or not callable(f):
                continue
            try:
                sig = inspect.signature(f)
            except (TypeError, ValueError):
                continue
            ps = [p for p in sig.parameters if p in ID_PARAMS]
            if ps:
                eps.append((c, n, f, sig, ps))
    return eps


EP_CALLS = {}
EP_ANNOT = {}        # entry point -> annotation of the identifier parameter


def multi_type(annotation):
    """the parameter accepts a str and something else (an index, an element, a list ...): an identifier can be mistaken for the other type"""
    parts = [x.strip() for x in str(annotation).replace("Optional[", "").replace("]", " ").split("|")]
    return "str" in parts and any(x not in ("str", "None", "") for x in parts)


def install_entry_point_counters(o):
    """count, per introspected entry point and identifier argument, the calls that passed a string (or a list of
    strings): 'driven' is measured on the run, not declared"""
    eps = introspect_entry_points(o)
    for c, n, f, sig, ps in eps:
        for pn in ps:
            EP_CALLS.setdefault("%s.%s(%s)" % (c.__name__, n, pn), 0)
            EP_ANNOT["%s.%s(%s)" % (c.__name__, n, pn)] = str(sig.parameters[pn].annotation)
        if c.__name__ == "Element" and "attribute" in n:
            continue                      # called on every property access; excused statically

        def make(f=f, sig=sig, ps=ps, cname=c.__name__, n=n):
            def w(*a, **k):
                try:
                    b = sig.bind_partial(*a, **k).arguments
                    for pn in ps:
                        v = b.get(pn)
                        if isinstance(v, str) or hasattr(v, "_Element__element") or (isinstance(v, (list, tuple)) and v and all(isinstance(x, str) for x in v)):
                            EP_CALLS["%s.%s(%s)" % (cname, n, pn)] += 1
                except TypeError:
                    pass
                return f(*a, **k)
            w.__name__ = getattr(f, "__name__", n); w.__doc__ = getattr(f, "__doc__", None); w.__wrapped__ = f
            return w
        setattr(c, n, make())
    return eps


def classify_entry_points():
    driven, excused, open_ = [], {}, []
    for ep, cnt in sorted(EP_CALLS.items()):
        if cnt:
            driven.append(ep); continue
        for pat, why in EP_EXCUSED:
            if re.search(pat, ep):
                excused[ep] = why
                break
        else:
            open_.append(ep)
    return driven, excused, open_


# ------------------------------------------------------------------------------------------ query capture

CAP = []


def install_capture():
    """Record every query string that reaches odfdo's Python-level XPath functions.  Done from the harness:
    nothing is added to odfdo and nothing depends on the ODFDO_VERIF guard."""
    import odfdo.element as E
    orig_compile, orig_XPath = E.xpath_compile, E.XPath

    def rec_compile(path):
        CAP.append(str(path))
        return orig_compile(path)

    def rec_XPath(path, *a, **k):
        CAP.append(str(path))
        return orig_XPath(path, *a, **k)

    for name, mod in list(sys.modules.items()):
        if name == "odfdo" or name.startswith("odfdo."):
            for attr, val in list(vars(mod).items()):
                if val is orig_compile:
                    setattr(mod, attr, rec_compile)
                elif val is orig_XPath:
                    setattr(mod, attr, rec_XPath)

    def wrap(cls, meth):
        orig = getattr(cls, meth)

        def w(self, q, *a, **k):
            if isinstance(q, str):
                CAP.append(q)
            return orig(self, q, *a, **k)
        w.__name__ = meth
        setattr(cls, meth, w)

    for meth in ("get_element", "_get_element_idx", "xpath", "get_elements"):
        wrap(E.Element, meth)
    import odfdo.element_cached as EC
    for cname in ("CachedElement", "ElementCached"):            # subclasses overriding get_elements (Table, Row)
        cls = getattr(EC, cname, None)
        if cls is not None and "get_elements" in vars(cls):
            wrap(cls, "get_elements")


def dedupe(qs):
    seen, out = set(), []
    for q in qs:
        if q not in seen:
            seen.add(q); out.append(q)
    return out


# ------------------------------------------------------------------------------------------ sites

def node(el):
    return el._Element__element          # the lxml node, by private name (independent of the getters)


def mark(el, role):
    for n in node(el).iter():
        if isinstance(n.tag, str):
            n.set(MARK, role)


def role_of(x):
    if x is None:
        return None
    if hasattr(x, "_Element__element"):
        return node(x).get(MARK) or "other"
    if isinstance(x, etree._Element):
        return x.get(MARK) or "other"
    s = str(x)
    if s.startswith("role/"):
        s = s[5:]
    if s in ROLE_CODE or s.startswith("decoy"):
        return s
    return "other"


def roles(res):
    if res is None:
        return []
    if isinstance(res, (list, tuple)):
        return [role_of(x) for x in res if x is not None]
    return [role_of(res)]


def _mentions(code, const):
    return any(c == const or (hasattr(c, "co_consts") and _mentions(c, const)) for c in code.co_consts)


class Site:
    def __init__(self, key, attr, make, look, host="p", expect=("stored",), heavy=False, main=False, extras_ok=True, absent_ok=()):
        self.key, self.attr, self.make, self.look, self.host = key, attr, make, look, host
        self.expect, self.heavy, self.main = list(expect), heavy, main
        self.extras_ok = extras_ok            # False: the answer cannot tell the decoys apart (a boolean)
        self.absent_ok = tuple(absent_ok)     # further "not found" exception types of this entry point
        self.multi = []                       # multi-type entry points (str | int ...) the lookup goes through, measured on the benign run
        self.benign = None
        self.benign_absent = None
        self.kinds = []          # other element kinds (prefixed tags) the site's identifier query can return
        self.needs_stored = _mentions(look.__code__, "stored")    # the lookup is a method of the stored object
        # syntaxes (beyond the XPath literal and the XML attribute, exercised everywhere) the identifier is embedded in
        self.syntaxes = ("cell-range-address",) if host == "doc-tables-ranges" else ()


def build_sites(o):
    """o = the odfdo module.  Every lookup entry point of the library that takes a name or an id.
    make(ident, role) -> element (built through the public constructor / setter);
    look(host, ident, objs) -> what the lookup returned."""
    from odfdo.element import ODF_NAMESPACES as NSM
    E = o.Element

    def ck(q):
        p, l = q.split(":")
        return "{%s}%s" % (NSM[p], l)

    S, sites = Site, []

    def add(*a, **k):
        sites.append(S(*a, **k))

    def anno(i, r):
        a = o.Annotation("t"); a.name = i; return a

    def chg(cls):
        def mk(i, r):
            e = cls(); e.set_id(i); return e
        return mk

    def frame_img(i, r):
        f = o.Frame(name=i); f.append(o.DrawImage("Pictures/%s.png" % r)); return f

    # --- text-level objects, each wrapped in its own paragraph of an office:text
    add("get_frame/name", ck("draw:name"), lambda i, r: o.Frame(name=i), lambda h, i, ob: h.get_frame(name=i), main=True)
    add("get_image/name", ck("draw:name"), frame_img, lambda h, i, ob: h.get_image(name=i))
    add("get_note/note_id", ck("text:id"), lambda i, r: o.Note(note_id=i), lambda h, i, ob: h.get_note(note_id=i))
    add("get_annotation/name", ck("office:name"), anno, lambda h, i, ob: h.get_annotation(name=i))
    add("get_annotation_end/name", ck("office:name"), lambda i, r: o.AnnotationEnd(name=i), lambda h, i, ob: h.get_annotation_end(name=i))
    add("get_variable_decl", ck("text:name"), lambda i, r: o.VarDecl(i, "string"), lambda h, i, ob: h.get_variable_decl(i))
    add("get_variable_set", ck("text:name"), lambda i, r: o.VarSet(i, value=r), lambda h, i, ob: h.get_variable_set(i))
    add("get_variable_sets", ck("text:name"), lambda i, r: o.VarSet(i, value=r), lambda h, i, ob: h.get_variable_sets(i))
    add("get_variable_set_value", ck("text:name"), lambda i, r: o.VarSet(i, value=r), lambda h, i, ob: h.get_variable_set_value(i))
    add("get_user_field_decl", ck("text:name"), lambda i, r: o.UserFieldDecl(i, value=r), lambda h, i, ob: h.get_user_field_decl(i))
    add("get_user_field_value", ck("text:name"), lambda i, r: o.UserFieldDecl(i, value=r), lambda h, i, ob: h.get_user_field_value(i))
    add("get_user_defined", ck("text:name"), lambda i, r: o.UserDefined(i, value=r), lambda h, i, ob: h.get_user_defined(i))
    add("get_user_defined_value", ck("text:name"), lambda i, r: o.UserDefined(i, value=r), lambda h, i, ob: h.get_user_defined_value(i))
    add("get_link/name", ck("office:name"), lambda i, r: o.Link("http://x/" + r, name=i), lambda h, i, ob: h.get_link(name=i))
    add("get_links/name", ck("office:name"), lambda i, r: o.Link("http://x/" + r, name=i), lambda h, i, ob: h.get_links(name=i))
    add("get_link/title", ck("office:title"), lambda i, r: o.Link("http://x/" + r, title=i), lambda h, i, ob: h.get_link(title=i))
    add("get_bookmark", ck("text:name"), lambda i, r: o.Bookmark(i), lambda h, i, ob: h.get_bookmark(name=i), main=True)
    add("get_bookmark_start", ck("text:name"), lambda i, r: o.BookmarkStart(i), lambda h, i, ob: h.get_bookmark_start(name=i))
    add("get_bookmark_end", ck("text:name"), lambda i, r: o.BookmarkEnd(i), lambda h, i, ob: h.get_bookmark_end(name=i))
    add("get_reference_mark_single", ck("text:name"), lambda i, r: o.ReferenceMark(i), lambda h, i, ob: h.get_reference_mark_single(name=i))
    add("get_reference_mark_start", ck("text:name"), lambda i, r: o.ReferenceMarkStart(i), lambda h, i, ob: h.get_reference_mark_start(name=i))
    add("get_reference_mark_end", ck("text:name"), lambda i, r: o.ReferenceMarkEnd(i), lambda h, i, ob: h.get_reference_mark_end(name=i))
    add("get_reference_mark/single", ck("text:name"), lambda i, r: o.ReferenceMark(i), lambda h, i, ob: h.get_reference_mark(name=i), main=True)
    add("get_reference_mark/start", ck("text:name"), lambda i, r: o.ReferenceMarkStart(i), lambda h, i, ob: h.get_reference_mark(name=i))
    add("get_references", ck("text:ref-name"), lambda i, r: o.Reference(i), lambda h, i, ob: h.get_references(name=i), main=True)
    add("get_draw_group/name", ck("draw:name"), lambda i, r: o.DrawGroup(name=i), lambda h, i, ob: h.get_draw_group(name=i))
    add("get_draw_line/id", ck("draw:id"), lambda i, r: o.LineShape(draw_id=i), lambda h, i, ob: h.get_draw_line(id=i))
    add("get_draw_rectangle/id", ck("draw:id"), lambda i, r: o.RectangleShape(draw_id=i), lambda h, i, ob: h.get_draw_rectangle(id=i))
    add("get_draw_ellipse/id", ck("draw:id"), lambda i, r: o.EllipseShape(draw_id=i), lambda h, i, ob: h.get_draw_ellipse(id=i))
    add("get_draw_connector/id", ck("draw:id"), lambda i, r: o.ConnectorShape(draw_id=i), lambda h, i, ob: h.get_draw_connector(id=i))
    add("get_text_change_deletion/idx", ck("text:change-id"), chg(o.TextChange), lambda h, i, ob: h.get_text_change_deletion(idx=i))
    add("get_text_change_start/idx", ck("text:change-id"), chg(o.TextChangeStart), lambda h, i, ob: h.get_text_change_start(idx=i))
    add("get_text_change_end/idx", ck("text:change-id"), chg(o.TextChangeEnd), lambda h, i, ob: h.get_text_change_end(idx=i))
    add("get_text_change/deletion", ck("text:change-id"), chg(o.TextChange), lambda h, i, ob: h.get_text_change(idx=i), main=True)
    add("get_text_change/start", ck("text:change-id"), chg(o.TextChangeStart), lambda h, i, ob: h.get_text_change(idx=i))
    # styles used by content
    add("get_paragraphs/style", ck("text:style-name"), lambda i, r: o.Paragraph(r, style=i), lambda h, i, ob: h.get_paragraphs(style=i), host="flat")
    add("get_spans/style", ck("text:style-name"), lambda i, r: o.Span(r, style=i), lambda h, i, ob: h.get_spans(style=i))
    add("get_headers/style", ck("text:style-name"), _header(o), lambda h, i, ob: h.get_headers(style=i), host="flat")
    add("get_lists/style", ck("text:style-name"), lambda i, r: o.List([r], style=i), lambda h, i, ob: h.get_lists(style=i), host="flat")
    add("get_sections/style", ck("text:style-name"), lambda i, r: o.Section(style=i, name=r), lambda h, i, ob: h.get_sections(style=i), host="flat")
    add("get_frames/style", ck("draw:style-name"), lambda i, r: o.Frame(name=r, style=i), lambda h, i, ob: h.get_frames(style=i))
    add("get_draw_pages/style", ck("draw:style-name"), lambda i, r: o.DrawPage("id" + r, name=r, style=i), lambda h, i, ob: h.get_draw_pages(style=i), host="flat")
    add("get_draw_lines/draw_style", ck("draw:style-name"), lambda i, r: o.LineShape(style=i, draw_id=r), lambda h, i, ob: h.get_draw_lines(draw_style=i))
    add("get_draw_rectangles/draw_text_style", ck("draw:text-style-name"), lambda i, r: o.RectangleShape(text_style=i, draw_id=r),
        lambda h, i, ob: h.get_draw_rectangles(draw_text_style=i))
    add("get_styled_elements", ck("text:style-name"), lambda i, r: o.Paragraph(r, style=i), lambda h, i, ob: h.get_styled_elements(i), host="flat", main=True)
    add("get_draw_page/name", ck("draw:name"), lambda i, r: o.DrawPage("id" + r, name=i), lambda h, i, ob: h.get_draw_page(name=i), host="flat")
    # tracked changes
    def region(i, r):
        e = o.TextChangedRegion(); e.set_id(i); return e
    add("get_changed_region/text_id", ck("text:id"), region, lambda h, i, ob: h.get_changed_region(text_id=i), host="tracked")
    add("TextChangeEnd.get_start", ck("text:change-id"), lambda i, r: _pair(o, o.TextChangeStart, o.TextChangeEnd, i, r),
        lambda h, i, ob: ob["stored"].get_elements("descendant::text:change-end")[0].get_start(), host="flat")
    add("TextChangeStart.get_end", ck("text:change-id"), lambda i, r: _pair(o, o.TextChangeStart, o.TextChangeEnd, i, r),
        lambda h, i, ob: ob["stored"].get_elements("descendant::text:change-start")[0].get_end(), host="flat")
    add("TextChangeStart.get_inserted", ck("text:change-id"), lambda i, r: _pair(o, o.TextChangeStart, o.TextChangeEnd, i, r),
        lambda h, i, ob: _words(ob["stored"].get_elements("descendant::text:change-start")[0].get_inserted(as_text=True)), host="flat")
    # styles: the container of styles, and the document-level API
    add("Element.get_style/name", ck("style:name"), lambda i, r: o.Style("paragraph", name=i), lambda h, i, ob: h.get_style("paragraph", i), host="styles", main=True)
    add("Element.get_style/display_name", ck("style:display-name"), lambda i, r: o.Style("paragraph", name="n" + r, display_name=i),
        lambda h, i, ob: h.get_style("paragraph", display_name=i), host="styles")
    add("Element.get_style/text-family", ck("style:name"), lambda i, r: o.Style("text", name=i), lambda h, i, ob: h.get_style("text", i), host="styles")
    add("Document.get_style", ck("style:name"), lambda i, r: o.Style("paragraph", name=i), lambda h, i, ob: h.get_style("paragraph", i), host="doc-styles", heavy=True)
    add("Document.get_style/automatic", ck("style:name"), lambda i, r: o.Style("paragraph", name=i), lambda h, i, ob: h.get_style("paragraph", i), host="doc-auto", heavy=True)
    add("Document.insert_style/replace", ck("style:name"), lambda i, r: o.Style("paragraph", name=i),
        lambda h, i, ob: _removed(h.styles.root, lambda: h.insert_style(o.Style("paragraph", name=i))), host="doc-styles", heavy=True)
    add("Document.get_styled_elements", ck("text:style-name"), lambda i, r: o.Paragraph(r, style=i), lambda h, i, ob: h.get_styled_elements(i), host="doc-body", heavy=True)
    add("Document.get_parent_style", ck("style:name"), lambda i, r: o.Style("paragraph", name=i),
        lambda h, i, ob: h.get_parent_style(o.Style("paragraph", name="child", parent_style=i)), host="doc-styles", heavy=True)
    # tables and named ranges
    add("get_table/name", ck("table:name"), lambda i, r: o.Table(i), lambda h, i, ob: h.get_table(name=i), host="sheet", main=True)
    add("get_tables/style", ck("table:style-name"), lambda i, r: o.Table("T" + r, style=i), lambda h, i, ob: h.get_tables(style=i), host="sheet")
    add("get_named_range", ck("table:name"), lambda i, r: o.NamedRange(i, "A1", "T"), lambda h, i, ob: h.get_named_range(i), host="ranges")
    add("append_named_range/replace", ck("table:name"), lambda i, r: o.NamedRange(i, "A1", "T"),
        lambda h, i, ob: _removed(h, lambda: h.append_named_range(o.NamedRange(i, "B2", "T"))), host="ranges")
    add("delete_named_range", ck("table:name"), lambda i, r: o.NamedRange(i, "A1", "T"),
        lambda h, i, ob: _removed(h, lambda: h.delete_named_range(i)), host="ranges")
    add("Table.get_named_range", ck("table:name"), lambda i, r: o.NamedRange(i, "A1", "T"),
        lambda h, i, ob: h.body.get_table(name="T").get_named_range(i), host="doc-ranges", heavy=True)
    add("Table.set_named_range/replace", ck("table:name"), lambda i, r: o.NamedRange(i, "A1", "T"),
        lambda h, i, ob: _removed(h.body, lambda: h.body.get_table(name="T").set_named_range(i, "B2")), host="doc-ranges", heavy=True)
    add("Table.delete_named_range", ck("table:name"), lambda i, r: o.NamedRange(i, "A1", "T"),
        lambda h, i, ob: _removed(h.body, lambda: h.body.get_table(name="T").delete_named_range(i)), host="doc-ranges", heavy=True)
    # reference marks: text between, by name
    def ref_range(i, r):
        return _pair(o, o.ReferenceMarkStart, o.ReferenceMarkEnd, i, r)
    def bm_range(i, r):
        return _pair(o, o.BookmarkStart, o.BookmarkEnd, i, r)
    first = lambda el, q: el.get_elements(q)[0]
    add("ReferenceMarkStart.referenced_text", ck("text:name"), ref_range,
        lambda h, i, ob: _words(first(ob["stored"], "descendant::text:reference-mark-start").referenced_text()), host="flat", main=True)
    add("ReferenceMarkEnd.referenced_text", ck("text:name"), ref_range,
        lambda h, i, ob: _words(first(ob["stored"], "descendant::text:reference-mark-end").referenced_text()), host="flat")
    add("ReferenceMarkStart.get_referenced", ck("text:name"), ref_range,
        lambda h, i, ob: _words(_text_of(first(ob["stored"], "descendant::text:reference-mark-start").get_referenced())), host="flat")
    add("Reference.update", ck("text:name"), ref_range, lambda h, i, ob: _ref_update(o, h, i), host="flat")
    add("remove_reference_mark", ck("text:name"), ref_range,
        lambda h, i, ob: _removed(h, lambda: o.reference.remove_reference_mark(h, name=i), dedupe_roles=True), host="flat")
    add("ReferenceMarkStart.delete", ck("text:name"), ref_range,
        lambda h, i, ob: _removed(h, lambda: first(ob["stored"], "descendant::text:reference-mark-start").delete(), only=ck("text:reference-mark-end")), host="flat")
    add("get_between/bookmarks", ck("text:name"), bm_range,
        lambda h, i, ob: _words(h.get_between(first(ob["stored"], "descendant::text:bookmark-start"), first(ob["stored"], "descendant::text:bookmark-end"), as_text=True)),
        host="flat", main=True)
    add("get_between/reference-marks", ck("text:name"), ref_range,
        lambda h, i, ob: _words(h.get_between(first(ob["stored"], "descendant::text:reference-mark-start"), first(ob["stored"], "descendant::text:reference-mark-end"), as_text=True)),
        host="flat")
    # manifest (entries are created through lxml, so that these sites are independent of make_file_entry)
    add("Manifest.get_media_type", "{urn:oasis:names:tc:opendocument:xmlns:manifest:1.0}full-path", None, lambda h, i, ob: h.get_media_type(i), host="manifest", main=True)
    add("Manifest.set_media_type", "{urn:oasis:names:tc:opendocument:xmlns:manifest:1.0}full-path", None,
        lambda h, i, ob: _changed(h, lambda: h.set_media_type(i, "x/changed")), host="manifest")
    add("Manifest.del_full_path", "{urn:oasis:names:tc:opendocument:xmlns:manifest:1.0}full-path", None,
        lambda h, i, ob: _removed(h.root, lambda: h.del_full_path(i)), host="manifest")
    add("Manifest.add_full_path/existing", "{urn:oasis:names:tc:opendocument:xmlns:manifest:1.0}full-path", None,
        lambda h, i, ob: _changed(h, lambda: h.add_full_path(i, "x/changed")), host="manifest")
    for shape, cls in (("line", o.LineShape), ("rectangle", o.RectangleShape), ("ellipse", o.EllipseShape), ("connector", o.ConnectorShape)):
        for arg, att, kw in (("draw_style", "draw:style-name", "style"), ("draw_text_style", "draw:text-style-name", "text_style")):
            key = "get_draw_%ss/%s" % (shape, arg)
            if key in [x.key for x in sites]:
                continue
            add(key, ck(att), (lambda cls, kw: lambda i, r: cls(draw_id=r, **{kw: i}))(cls, kw),
                (lambda shape, arg: lambda h, i, ob: getattr(h, "get_draw_%ss" % shape)(**{arg: i}))(shape, arg))
    def img_styled(i, r):
        im = o.DrawImage("Pictures/%s.png" % r); node(im).set(ck("text:style-name"), i); return im
    add("get_images/style", ck("text:style-name"), img_styled, lambda h, i, ob: h.get_images(style=i))
    add("get_links/title", ck("office:title"), lambda i, r: o.Link("http://x/" + r, title=i), lambda h, i, ob: h.get_links(title=i))
    # ---- round 3: lookups that filter in Python (no XPath query: the lookup layer alone decides)
    MN = "{urn:oasis:names:tc:opendocument:xmlns:meta:1.0}name"
    tname = lambda el: node(el).get(ck("table:name"))
    add("Table.get_named_ranges/table_name=str", ck("table:name"), lambda i, r: o.Table(i),
        lambda h, i, ob: ob["plain"].get_named_ranges(table_name=i), host="doc-tables-ranges", heavy=True, main=True)
    add("Table.get_named_ranges/table_name=[name]", ck("table:name"), lambda i, r: o.Table(i),
        lambda h, i, ob: ob["plain"].get_named_ranges(table_name=[i]), host="doc-tables-ranges", heavy=True)
    add("Table.get_named_ranges/table_name=[name,decoy]", ck("table:name"), lambda i, r: o.Table(i),
        lambda h, i, ob: ob["plain"].get_named_ranges(table_name=[i] + ([tname(ob["decoy"])] if "decoy" in ob else [])),
        host="doc-tables-ranges", heavy=True, expect=("stored", "decoy"))
    add("Table.get_named_ranges/table_name=(name,other)", ck("table:name"), lambda i, r: o.Table(i),
        lambda h, i, ob: ob["plain"].get_named_ranges(table_name=(i, "no such table")), host="doc-tables-ranges", heavy=True)
    add("Table.name setter/moves its named ranges", ck("table:name"), lambda i, r: o.Table(i),
        lambda h, i, ob: _changed_attr(h.body, ck("table:cell-range-address"), lambda: setattr(ob["stored"], "name", "Renamed")),
        host="doc-tables-ranges", heavy=True)
    add("Document.get_table_style/table", ck("table:name"), lambda i, r: o.Table(i, style="ts-" + r),
        lambda h, i, ob: h.get_table_style(i), host="doc-tables-styles", heavy=True)
    # the table-by-name-or-index siblings (round 5): Document._get_table(table: int | str)
    add("Document.get_table_displayed/table", ck("table:name"), lambda i, r: o.Table(i, style="ts-" + r),
        lambda h, i, ob: _hidden(h.get_table_displayed(i), ob), host="doc-tables-styles", heavy=True, extras_ok=False)
    add("Document.set_table_displayed/table", ck("table:name"), lambda i, r: o.Table(i, style="ts-" + r),
        lambda h, i, ob: _changed_attr(h.body, ck("table:style-name"), lambda: h.set_table_displayed(i, False)),
        host="doc-tables-styles", heavy=True, absent_ok=(AttributeError,))
    add("Document.get_cell_style_properties/table", ck("table:name"), lambda i, r: _table_with_cell(o, i, r),
        lambda h, i, ob: _role_of_color(h.get_cell_style_properties(i, "A1").get("fo:background-color"), ob), host="doc-tables-cells", heavy=True)
    add("Document.get_cell_background_color/table", ck("table:name"), lambda i, r: _table_with_cell(o, i, r),
        lambda h, i, ob: _role_of_color(_not_default(h.get_cell_background_color(i, (0, 0), default="none")), ob), host="doc-tables-cells", heavy=True)
    add("Document.get_list_style", ck("style:name"), lambda i, r: o.Style("list", name=i),
        lambda h, i, ob: _list_style(o, h, i),
        host="doc-styles", heavy=True)
    add("Document.get_style_properties", ck("style:name"), lambda i, r: _style_with_prop(o, i, r),
        lambda h, i, ob: (h.get_style_properties("paragraph", i, area="paragraph") or {}).get("fo:margin-left"), host="doc-styles", heavy=True)
    add("Row.get_cells/style", ck("table:style-name"), lambda i, r: o.Cell(r, style=i), lambda h, i, ob: h.get_cells(style=i), host="row")
    add("Table.get_cells/style", ck("table:style-name"), lambda i, r: o.Cell(r, style=i), lambda h, i, ob: h.get_cells(style=i, flat=True), host="table-cells")
    add("Table.get_column_cells/style", ck("table:style-name"), lambda i, r: o.Cell(r, style=i),
        lambda h, i, ob: [c for c in h.get_column_cells(0, style=i) if c is not None], host="table-column-cells")
    add("Table.get_rows/style", ck("table:style-name"), lambda i, r: _row(o, i, r), lambda h, i, ob: h.get_rows(style=i), host="table-rows")
    add("Table.get_columns/style", ck("table:style-name"), lambda i, r: o.Column(style=i), lambda h, i, ob: h.get_columns(style=i), host="table-columns")
    add("Meta.get_user_defined_metadata_of_name", MN, None,
        lambda h, i, ob: (h.get_user_defined_metadata_of_name(i) or {}).get("value"), host="meta")
    add("Meta.set_user_defined_metadata/existing", MN, None,
        lambda h, i, ob: _changed_text(h, lambda: h.set_user_defined_metadata(i, "changed")), host="meta")
    add("Meta.get_user_defined_metadata[name]", MN, None, lambda h, i, ob: h.get_user_defined_metadata().get(i), host="meta")
    return sites


def _header(o):
    def mk(i, r):
        h = o.Header(1, r); h.style = i; return h          # (the constructor drops style=, F17)
    return mk


def _pair(o, cls_start, cls_end, ident, role):
    """<text:p>before <start ident/>ROLE<end ident/> after</text:p>"""
    p = o.Paragraph()
    n = node(p)
    n.text = "before"
    s, e = cls_start(), cls_end()
    if hasattr(s, "set_id") and "change" in s.tag:
        s.set_id(ident); e.set_id(ident)
    else:
        s.name = ident; e.name = ident
    n.append(node(s)); node(s).tail = role
    n.append(node(e)); node(e).tail = "after"
    return p


def _words(text):
    if text is None:
        return []
    return [w for w in str(text).split() if w]


def _text_of(el):
    if el is None:
        return ""
    if isinstance(el, (list, tuple)):
        return " ".join(_text_of(x) for x in el)
    if isinstance(el, str):
        return el
    return " ".join(node(el).itertext())


def _marked(root, only=None):
    out = []
    for n in node(root).iter():
        if isinstance(n.tag, str) and n.get(MARK) and (only is None or n.tag == only):
            out.append(n.get(MARK))
    return out


def _removed(root, action, dedupe_roles=False, only=None):
    """roles of the marked nodes that disappeared from the tree while `action` ran (independent lxml walk)"""
    before = _marked(root, only)
    action()
    after = _marked(root, only)
    gone = list(before)
    for r in after:
        if r in gone:
            gone.remove(r)
    # a stored object may consist of several marked nodes: report each role once
    return sorted(set(gone), key=gone.index)


def _changed(manifest, action):
    MT = "{urn:oasis:names:tc:opendocument:xmlns:manifest:1.0}media-type"
    snap = lambda: {n.get(MARK): n.get(MT) for n in node(manifest.root).iter() if isinstance(n.tag, str) and n.get(MARK)}
    before = snap(); action(); after = snap()
    return [r for r in before if after.get(r) != before[r]]


def _changed_attr(root, attr, action):
    """roles of the marked nodes whose attribute `attr` changed while `action` ran (lxml walk)"""
    snap = lambda: [(n.get(MARK), n.get(attr)) for n in node(root).iter() if isinstance(n.tag, str) and n.get(MARK) and n.get(attr) is not None]
    before = snap(); action(); after = snap()
    out = []
    for (r, a), (_, b2) in zip(before, after):
        if a != b2 and r not in out:
            out.append(r)
    return out


def _changed_text(meta, action):
    snap = lambda: [(n.get(MARK), n.text) for n in node(meta.root).iter() if isinstance(n.tag, str) and n.get(MARK)]
    before = snap(); action(); after = snap()
    return [r for (r, a), (_, b2) in zip(before, after) if a != b2]


def _table_with_cell(o, ident, role):
    t = o.Table(ident)
    t.set_cell((0, 0), o.Cell(role, style="ce-" + role))
    return t


def _not_default(v):
    return None if v == "none" else v


def _hidden(displayed, ob):
    """with the target stored, only its style says display=false; without it every table's style does, and a table that
    is not found counts as displayed"""
    if ROLE_TARGET in ob:
        return ROLE_TARGET if displayed is False else "other"
    return "other" if displayed is False else None


ROLE_TARGET = "".join(["sto", "red"])      # (spelled so that the lambdas using these helpers are not taken for methods of the target)


def _color(role):
    return "#%06x" % (role_code(role) + 1)


def _role_of_color(v, ob):
    if v is None:
        return None
    for r in list(ob) + ["plain", ROLE_TARGET]:
        if _color(r) == str(v).lower():
            return r
    return "other"


def _list_style(o, doc, ident):
    st = o.Style("paragraph", name="child")
    st.set_attribute("style:list-style-name", ident)
    return doc.get_list_style(st)


def _style_with_prop(o, ident, role):
    st = o.Style("paragraph", name=ident)
    st.set_properties({"fo:margin-left": role}, area="paragraph")
    return st


def _row(o, ident, role):
    r = o.Row(style=ident)
    r.append_cell(o.Cell(role))
    return r


def _ref_update(o, host, ident):
    ref = o.Reference(ident, ref_format="text")
    p = o.Paragraph(); p.append(ref); host.append(p)
    ref.update()
    return _words(node(ref).text)


MANIFEST_NS = "urn:oasis:names:tc:opendocument:xmlns:manifest:1.0"


def make_host(o, site, objs):
    """objs: list of (role, element-or-name).  Returns the object on which the lookup is called."""
    kind = site.host
    E = o.Element
    if kind in ("p", "flat"):
        h = E.from_tag("office:text")
        for role, el in objs:
            mark(el, role)
            if kind == "p":
                p = o.Paragraph(); node(p).append(node(el)); node(h).append(node(p))
            else:
                node(h).append(node(el))
        return h
    if kind == "tracked":
        h = o.TrackedChanges()
        for role, el in objs:
            mark(el, role); node(h).append(node(el))
        return h
    if kind == "styles":
        h = E.from_tag("office:styles")
        for role, el in objs:
            mark(el, role); node(h).append(node(el))
        return h
    if kind == "sheet":
        h = E.from_tag("office:spreadsheet")
        for role, el in objs:
            mark(el, role); node(h).append(node(el))
        return h
    if kind == "ranges":
        h = E.from_tag("office:spreadsheet")
        h.append(o.Table("T"))
        ne = E.from_tag("table:named-expressions"); node(h).append(node(ne))
        for role, el in objs:
            mark(el, role); node(ne).append(node(el))
        return h
    if kind == "doc-ranges":
        d = o.Document("spreadsheet")
        b = d.body
        b.clear()
        b.append(o.Table("T"))
        ne = E.from_tag("table:named-expressions"); node(b).append(node(ne))
        for role, el in objs:
            mark(el, role); node(ne).append(node(el))
        return d
    if kind in ("doc-styles", "doc-auto", "doc-body"):
        d = o.Document("text")
        if kind == "doc-styles":
            tgt = node(d.styles.root).find("{urn:oasis:names:tc:opendocument:xmlns:office:1.0}styles")
        elif kind == "doc-auto":
            tgt = node(d.content.root).find("{urn:oasis:names:tc:opendocument:xmlns:office:1.0}automatic-styles")
        else:
            tgt = node(d.body)
        for role, el in objs:
            mark(el, role); tgt.append(node(el))
        return d
    if kind in ("doc-tables-ranges", "doc-tables-styles", "doc-tables-cells"):
        d = o.Document("spreadsheet")
        b = d.body
        b.clear()
        for role, el in objs:
            mark(el, role); b.append(el)
        if kind == "doc-tables-ranges":
            ne = E.from_tag("table:named-expressions"); node(b).append(node(ne))
            for k, (role, el) in enumerate(objs):
                nr = o.NamedRange("nr_%d" % k, "A1", node(el).get("{urn:oasis:names:tc:opendocument:xmlns:table:1.0}name"))
                mark(nr, role); node(ne).append(node(nr))
        elif kind == "doc-tables-styles":
            auto = node(d.content.root).find("{urn:oasis:names:tc:opendocument:xmlns:office:1.0}automatic-styles")
            for role, el in objs:
                st = o.Style("table", name="ts-" + role)
                hidden = role == "stored" or not any(r == "stored" for r, _ in objs)      # only the target is hidden; all of them when it is not stored
                st.set_properties({"table:display": "false" if hidden else "true"}, area="table")
                mark(st, role); auto.append(node(st))
        else:
            auto = node(d.content.root).find("{urn:oasis:names:tc:opendocument:xmlns:office:1.0}automatic-styles")
            for role, el in objs:
                st = o.Style("table-cell", name="ce-" + role)
                st.set_properties({"fo:background-color": _color(role)}, area="table-cell")
                mark(st, role); auto.append(node(st))
        return d
    if kind == "row":
        h = o.Row()
        for role, el in objs:
            mark(el, role); h.append_cell(el)
        return h
    if kind in ("table-cells", "table-column-cells", "table-rows", "table-columns"):
        h = o.Table("T")
        if kind == "table-cells":
            r = o.Row()
            for role, el in objs:
                mark(el, role); r.append_cell(el)
            h.append_row(r)
        elif kind == "table-column-cells":
            for role, el in objs:
                mark(el, role); r = o.Row(); r.append_cell(el); h.append_row(r)
        elif kind == "table-rows":
            for role, el in objs:
                mark(el, role); h.append_row(el)
        else:
            r = o.Row(width=len(objs)); h.append_row(r)
            for k, (role, el) in enumerate(objs):
                mark(el, role); h.set_column(k, el)
        return h
    if kind == "meta":
        d = o.Document("text")
        m = d.meta
        body = node(m.get_meta_body())
        MNS = "urn:oasis:names:tc:opendocument:xmlns:meta:1.0"
        for child in list(body):
            if child.tag == "{%s}user-defined" % MNS:
                body.remove(child)
        for role, name in objs:
            n = etree.SubElement(body, "{%s}user-defined" % MNS)
            n.set("{%s}name" % MNS, name); n.set("{%s}value-type" % MNS, "string"); n.text = "role/" + role; n.set(MARK, role)
        return m
    if kind == "manifest":
        d = o.Document("text")
        m = d.manifest
        r = node(m.root)
        for child in list(r):            # the template's own entries (one of them is "/") would collide with identifiers
            r.remove(child)
        for role, name in objs:
            n = etree.SubElement(r, "{%s}file-entry" % MANIFEST_NS)
            n.set("{%s}full-path" % MANIFEST_NS, name)
            n.set("{%s}media-type" % MANIFEST_NS, "role/" + role)
            n.set(MARK, role)
        return m
    raise ValueError(kind)


def stored_name(site, el):
    """the identifier actually stored, read from the lxml node (first node carrying the attribute)"""
    if isinstance(el, str):
        return el
    for n in node(el).iter():
        if isinstance(n.tag, str) and n.get(site.attr) is not None:
            return n.get(site.attr)
    return None


def valid_xml_text(s):
    try:
        etree.Element("x").set("a", s)
        return True
    except ValueError:
        return False


def result_tags(query):
    """prefixed tags named by the last step of every union branch of a query (harness-side, for generating decoys only)"""
    q = re.sub(r'"[^"]*"|\'[^\']*\'', '""', query)
    while re.search(r"\[[^\[\]]*\]", q):
        q = re.sub(r"\[[^\[\]]*\]", "", q)
    q = q.replace("(", " ").replace(")", " ")
    tags = []
    for b in q.split("|"):
        m = re.search(r"([A-Za-z][\w-]*:[A-Za-z][\w.-]*)\s*$", b.strip())
        if m and m.group(1) not in tags:
            tags.append(m.group(1))
    return tags


def derive_kinds(o, site, queries):
    """the element kinds other than the site's own that its identifier query can return"""
    from odfdo.element import ODF_NAMESPACES as NSM
    if site.make is None:
        return []
    tags = []
    for q in queries:
        if '"plain"' in q or "'plain'" in q:
            for t in result_tags(q):
                if t.split(":")[0] in NSM and t not in tags:
                    tags.append(t)
    try:
        own = site.make("plain", "plain").tag
    except Exception:
        return []
    if own not in tags:
        return []           # the site does not return the object itself (ranges, text between marks ...)
    return [t for t in tags if t != own]


def retag(o, el, tag):
    """the same element under another tag (lxml level): same attributes and children"""
    from odfdo.element import ODF_NAMESPACES as NSM
    import copy
    n = node(el)
    pfx, local = tag.split(":")
    new = etree.Element("{%s}%s" % (NSM[pfx], local), nsmap=n.nsmap)
    for k, v in n.attrib.items():
        new.set(k, v)
    new.text = n.text
    for c in n:
        new.append(copy.deepcopy(c))
    return o.Element.from_tag(new)


ABSENT_OK = (KeyError, ValueError)      # "not found" answers of lookups that do not return None


SAME_KIND_DECOYS = 6      # near-identical identifiers on objects of the target's own kind: three before, three after


def run_case(o, site, ident, decoy, third="plain", mode="present", kind=0, variant=0, extras=1):
    """Store, in document order: decoys / the identifier (as kind `kind`) / decoys / the benign object; then look the
    identifier up.  Decoys: SAME_KIND_DECOYS near-identical identifiers (substring, prefix, suffix, superstring, other
    case, other white space, other quote, one character changed) on objects of the site's own kind, and two on every
    other kind the site's query can return.  mode "absent": the identifier is not stored at all and the lookup must
    return nothing.  extras: how many of the *decoys'* identifiers are looked up as well, each on a freshly built
    host: each must return exactly its own object.  Returns a dict; 'rejected' when the API does not accept the
    identifier."""
    out = dict(site=site.key, ident=ident, decoy=decoy, third=third, mode=mode, as_kind=kind, rejected=False, raised=None, found=[], queries=[],
               extra_lookups=[])
    if not ident or not valid_xml_text(ident):
        out["rejected"] = True; out["why"] = "empty or not XML text"; return out
    if mode == "absent" and site.needs_stored:
        out["rejected"] = True; out["why"] = "the lookup is a method of the stored object"; return out
    if kind > len(site.kinds):
        out["rejected"] = True; out["why"] = "no such kind at this site"; return out
    kinds = [None] + list(site.kinds)
    # identifiers of the decoys
    n_same = SAME_KIND_DECOYS
    dnames, v = [], variant
    for _ in range(n_same + 2 * len(site.kinds)):
        d = decoy if not dnames else decoy_of(ident, v)
        tries = 0
        while (d in dnames or d == ident or d == third) and tries < N_RELATIONS:
            v += 1; tries += 1; d = decoy_of(ident, v)
        if d in dnames or d == ident or d == third:
            d = ident + "x" * (len(dnames) + 1)
        dnames.append(d); v += 1
    before = [(dnames[t], None) for t in range(0, n_same, 2)] + [(dnames[n_same + 2 * k], kt) for k, kt in enumerate(site.kinds)]
    after = [(dnames[t], None) for t in range(1, n_same, 2)] + [(dnames[n_same + 2 * k + 1], kt) for k, kt in enumerate(site.kinds)]
    plan, t = [], 0
    for name, kt in before:
        plan.append(("decoy" if t == 0 else "decoy-%d" % t, name, kt)); t += 1
    plan.append(("stored", ident, kinds[kind]))
    for name, kt in after:
        plan.append(("decoy-%d" % t, name, kt)); t += 1
    plan.append(("plain", third, None))

    def build():
        """fresh objects and host; returns (host, ob, objs, ident actually stored) or a rejection string"""
        nonlocal ident
        objs, seen_names = [], []
        for role, name, kt in plan:
            if site.make is None:
                if role == "stored" and mode == "absent":
                    continue
                if role != "stored" and (name == ident or name in seen_names):
                    continue
                seen_names.append(name); objs.append((role, name)); continue
            try:
                el = limited(site.make, name, role)
                if kt is not None:
                    el = retag(o, el, kt)
            except CallTimeout:
                raise
            except Exception as e:
                if role == "stored":
                    return "setter: %r" % (e,)
                continue
            actual = stored_name(site, el)
            if role == "stored":
                if actual is None:
                    return "identifier not stored"
                if actual != ident:
                    out["normalised_from"] = ident
                    ident = actual; out["ident"] = actual
                    objs = [(r, e2) for r, e2 in objs if stored_name(site, e2) != ident]
                if mode == "absent":
                    continue
            elif actual is None or actual == ident or any(actual == stored_name(site, e2) for _, e2 in objs):
                continue          # the setter normalised the decoy onto the target or onto another decoy
            objs.append((role, el))
        if ident == third:
            return "normalises to the benign name"
        try:
            host = make_host(o, site, objs)
        except Exception as e:
            return "host: %r" % (e,)
        return host, dict(objs), objs

    b = build()
    if isinstance(b, str):
        out["rejected"] = True; out["why"] = b; return out
    host, ob, objs = b
    out["stored_roles"] = [r for r, _ in objs]
    out["layout"] = [(r, n if isinstance(n, str) else stored_name(site, n), None if isinstance(n, str) else n.tag) for r, n in objs]
    del CAP[:]
    try:
        res = limited(site.look, host, ident, ob)
        out["found"] = roles(res)
    except CallTimeout as e:
        out["raised"] = repr(e)
    except Exception as e:
        if mode == "absent" and isinstance(e, ABSENT_OK + site.absent_ok) and not isinstance(e, etree.Error):
            out["absent_answer"] = "%s: %s" % (type(e).__name__, str(e)[:100])
        else:
            out["raised"] = "%s: %s" % (type(e).__name__, str(e)[:200])
    out["queries"] = dedupe(CAP)
    del CAP[:]
    # every other stored identifier must find exactly its own object as well
    if extras and mode == "present" and site.expect == ["stored"] and site.extras_ok:
        cands = [(r, n) for r, n, _ in out["layout"] if r.startswith("decoy")]
        if cands:
            start = variant % len(cands)
            for r, n in (cands[start:] + cands[:start])[:extras]:
                b2 = build()
                if isinstance(b2, str):
                    break
                host2, ob2, _ = b2
                if r not in ob2:
                    continue
                ob2 = dict(ob2, stored=ob2[r])
                rec = dict(role=r, ident=n, found=[], raised=None)
                try:
                    rec["found"] = roles(limited(site.look, host2, n, ob2))
                except CallTimeout as e:
                    rec["raised"] = repr(e)
                except Exception as e:
                    rec["raised"] = "%s: %s" % (type(e).__name__, str(e)[:200])
                out["extra_lookups"].append(rec)
        del CAP[:]
    return out


# ------------------------------------------------------------------------------------------ identifiers

N_RELATIONS = 12


def decoy_of(ident, variant):
    """a near-identical identifier (deterministic in (ident, variant)): other quote kind / prefix / superstring /
    suffix / one character changed / other case / leading blank / trailing blank / doubled inner blank or " 2" appended /
    inner substring / superstring at the front / tab for blank or blank inserted"""
    swap = {'"': "'", "'": '"'}
    k = variant % N_RELATIONS
    d = None
    if k == 0 and any(c in swap for c in ident):
        d = "".join(swap.get(c, c) for c in ident)
    elif k == 1 and len(ident) > 1:
        d = ident[:-1]
    elif k == 2:
        d = ident + ident[-1:]
    elif k == 3 and len(ident) > 1:
        d = ident[1:]
    elif k == 5 and ident.swapcase() != ident:
        d = ident.swapcase()
    elif k == 6:
        d = " " + ident
    elif k == 7:
        d = ident + " "
    elif k == 8:
        d = ident.replace(" ", "  ", 1) if " " in ident else ident + " 2"
    elif k == 9 and len(ident) > 2:
        d = ident[1:-1]
    elif k == 10:
        d = "x" + ident
    elif k == 11:
        d = ident.replace(" ", "_", 1) if " " in ident else ident[:len(ident) // 2] + " " + ident[len(ident) // 2:]
    if d is None:
        j = variant % max(1, len(ident))
        d = ident[:j] + ("y" if ident[j:j + 1] != "y" else "z") + ident[j + 1:]
    if d == ident or not d.strip() or d == "plain":
        d = ident + "x"
    return d


EDGE = ['"', "'", '""', "''", '"\'', '\'"', '"\'"', '\'"\'', '"abc', 'abc"', "'abc", "abc'", '"a\'', '\'a"', 'a"b', "a'b",
        'a"b\'c', 'a\'b"c', '""""', "''''", '"\'"\'"\'', 'a""b\'', '\'""', '""\'', 'x"\'', 'x\'"', '"x\'y"', "'x\"y'",
        'concat("a","b")', "concat('a',\"b\")", 'x concat(', 'concat(', '",\'"\',"', "a\",'\"',\"b'",
        '"] | //*[@x="', "'] | //*[@x='", '"]|//*["', 'a" or "1"="1', "a' or '1'='1", '") or ("', "') or ('", 'a"][1', "a'][1",
        'plain"', "plain'", '"plain', 'pla"in', "pla'in\"", 'a&b', 'a<b', 'a>b', 'a&amp;b', 'a&quot;b', '&#34;', 'a]b', 'a[b', 'a]]>b',
        'a(b)', 'a=b', 'a,b', 'a b', 'a  b', 'é', '中"文', "中'文\"", 'a{b}', '{$x}', '$v', '@a', 'a/b', '//', 'a|b', 'a*', 'a:b', '::',
        'text()', 'a"b"c\'d\'e', '\'"\'"', '"a"', "'a'", '"a\'b"', 'a\\"b', "a\\'b\"", 'Tab le', 'x="y"', "x='y'", 'true', 'false', 'True', 'R&D net', 'Sheet1', 'Table 1 (2024)', 'a b c']


# Delimiter sequences of every syntax an identifier is embedded in on its way to storage / lookup.  XPath literals and XML
# attribute values are covered by EDGE / RICH at every site; a table name is also embedded in the cell-range address of the named
# ranges that point to it ($'name'.$A$1:.$B$2 : quoted by apostrophes, inner apostrophe doubled, '.' ends the name, '$' and ':'
# belong to the range part).
SYNTAX_DELIMS = {
    "xpath-literal": ['"', "'", '",', "concat("],
    "xml-attribute": ['"', "&", "<", "&quot;"],
    "cell-range-address": ["'.", "''", ".$", ":", "$", ".", "'", "'.$", "''.", "$'", ":.", "'.'", ".'", "$.", "!"],
}


def delimiter_idents(syntaxes):
    """each delimiter sequence at the start, in the middle and at the end of an identifier, alone, twice, and two different ones"""
    out = []
    for syn in syntaxes:
        ds = SYNTAX_DELIMS[syn]
        for k, d in enumerate(ds):
            d2 = ds[(k + 1) % len(ds)]
            out += [d + "x", "x" + d + "y", "x" + d, d, "x" + d + "y" + d + "z", "files " + d + "csv" + d2 + " only"]
    seen, res = set(), []
    for i in out:
        if i not in seen:
            seen.add(i); res.append(i)
    return res


# identifiers that look like another accepted argument type or like a keyword: digit strings where an index / position is
# accepted, None-like words, coordinate-looking names where coordinates are accepted, family / kind keywords
LOOKALIKE = ["0", "1", "2", "3", "-1", "007", "2024", "\u00b2", "\u0661", "1.0", "1e3", "None", "none", "null", "A1", "B2:C3", "1:2", "$A$1",
             "table", "paragraph", "default", "text", "list", "style", "name", "*", "."]


def gen_idents(rng, n_random, n_long=2):
    out = list(EDGE)
    for _ in range(n_random):
        L = rng.choice([1, 2, 2, 3, 3, 4, 5, 6, 8, 12])
        s = "".join(rng.choice(RICH) if rng.random() < 0.45 else rng.choice(LETTERS) for _ in range(L))
        out.append(s)
    for _ in range(n_long):
        L = rng.randint(60, 200)
        out.append("".join(rng.choice(RICH) if rng.random() < 0.3 else rng.choice(LETTERS) for _ in range(L)))
    # words with quotes inserted at random places
    for _ in range(n_random // 3):
        w = list(rng.choice(["name", "Table 1", "réf", "id-7", "a.b", "中文"]))
        for _ in range(rng.randint(1, 3)):
            w.insert(rng.randint(0, len(w)), rng.choice('"\'"\'&<]'))
        out.append("".join(w))
    return out


def ident_class(s):
    if s in ("true", "false"):
        return "boolean-word-identifier"
    if s.isdigit() or (s[:1] == "-" and s[1:].isdigit()):
        return "digits-only-identifier"
    if s in LOOKALIKE:
        return "keyword-or-coordinate-like-identifier"
    dq, sq = '"' in s, "'" in s
    if dq and sq:
        return "both-quote-kinds-in-value"
    if dq:
        return "double-quote-in-value"
    if sq:
        return "single-quote-in-value"
    if any(c in "&<>" for c in s):
        return "xml-special-in-value"
    return "no-quote-in-value"


# ------------------------------------------------------------------------------------------ Coq side

def cs(s):
    return "([" + ";".join(str(ord(c)) for c in s) + "] : str)"


HEADER = r'''Require Import XPathLit. From Coq Require Import List NArith Bool Arith. Import ListNotations.
Open Scope N_scope.
Set Printing Width 1000000.   (* the (index, code) pairs are read back by a regular expression: no line breaks inside them *)
Definition plain : str := [112;108;97;105;110].
Fixpoint cmp_toks (v : str) (tq tb : list tok) : nat :=
  match tq, tb with
  | [], [] => 0%nat
  | TOther x :: tq', TOther y :: tb' => if str_eqb x y then cmp_toks v tq' tb' else 3%nat
  | TStr x :: tq', TStr y :: tb' =>
      if str_eqb y plain then (if str_eqb x v then cmp_toks v tq' tb' else 2%nat)
      else if str_eqb x y then cmp_toks v tq' tb' else 2%nat
  | _, _ => 3%nat
  end.
Definition is_plain_tok (t : tok) : bool := match t with TStr y => str_eqb y plain | _ => false end.
(* 8: the query carries the identifier (its benign form has the literal plain) but some union branch is not
   constrained by a predicate on it *)
Definition chk_q (v q b : str) : nat :=
  match skeleton q with
  | None => 1%nat
  | Some tq => match skeleton b with
               | None => 6%nat
               | Some tb => match cmp_toks v tq tb with
                            | O => if existsb is_plain_tok tb && negb (covered v tq) then 8%nat else 0%nat
                            | k => k
                            end
               end
  end.
Fixpoint chk_qs (v : str) (qs bs : list str) (raised : bool) : nat :=
  match qs, bs with
  | [], [] => 0%nat
  | q :: qs', b :: bs' => match chk_q v q b with O => chk_qs v qs' bs' raised | k => k end
  | [], _ :: _ => if raised then 0%nat else 3%nat
  | _ :: _, [] => 3%nat
  end.
(* the model's text: the benign query with every literal "plain" / 'plain' replaced by quote v *)
Fixpoint subst (rep : str) (skip : nat) (s : str) : str :=
  match s with
  | [] => []
  | c :: r =>
    match skip with
    | S k => subst rep k r
    | O => match strip_prefix (dq_lit plain) s, strip_prefix (sq_lit plain) s with
           | None, None => c :: subst rep 0 r
           | _, _ => rep ++ subst rep 6 r
           end
    end
  end.
Fixpoint fid (v : str) (qs bs : list str) : bool :=
  match qs, bs with
  | q :: qs', b :: bs' => str_eqb q (subst (quote v) 0 b) && fid v qs' bs'
  | _, _ => true
  end.
Fixpoint ns_eqb (a b : list N) : bool :=
  match a, b with [], [] => true | x :: a', y :: b' => (x =? y) && ns_eqb a' b' | _, _ => false end.
(* the look-up of another stored identifier (a decoy's): (roles found, the role looked up, raised): must be exactly its own object *)
Fixpoint chk_extras (l : list (list N * N * bool)) : nat :=
  match l with
  | [] => 0%nat
  | (found, r, raised) :: l' =>
      if existsb (fun x => negb (x =? r)) found then 5%nat
      else if raised || negb (ns_eqb found [r]) then 4%nat
      else chk_extras l'
  end.
(* case = (identifier, queries built, benign queries of the site, roles found, roles expected, raised, look-ups of the decoys' identifiers) *)
Definition chk (c : str * list str * list str * list N * list N * bool * list (list N * N * bool)) : nat :=
  let '(v, qs, bs, found, expected, raised, extras) := c in
  match chk_qs v qs bs raised with
  | O => if existsb (fun r => negb (existsb (N.eqb r) expected)) found then 5%nat
         else if raised || negb (ns_eqb found expected) then 4%nat
         else match chk_extras extras with
              | O => if fid v qs bs then 0%nat else 9%nat
              | k => k
              end
  | k => k
  end.
(* direct call of make_xpath_query(prefix, **{attribute: identifier}):  (prefix, attribute, identifier, query).
   Property level: the query lexes to  prefix[@attribute=  <the identifier as one string token>  ]  (white space
   between tokens is immaterial in XPath).  Exact text = prefix ++ pred attribute identifier, read back by
   parse_pred: fidelity only. *)
Definition chk_pred (c : str * str * str * str) : nat :=
  let '(pre, a, v, q) := c in
  match skeleton q with
  | None => 1%nat
  | Some [TOther x; TStr v'; TOther y] =>
      if negb (str_eqb x (nows (pre ++ [LBRA; AT] ++ a ++ [EQS])) && str_eqb y [RBRA]) then 3%nat
      else if negb (str_eqb v' v) then 2%nat
      else match strip_prefix pre q with
           | Some p => match parse_pred p with
                       | Some (a', v'') => if str_eqb a' a && str_eqb v'' v && str_eqb p (pred a v) then 0%nat else 9%nat
                       | None => 9%nat
                       end
           | None => 9%nat
           end
  | Some _ => 3%nat
  end.
(* Manifest.make_file_entry: (identifier, attribute value read by lxml, raw text between the quotes in the serialisation, raised) *)
Definition chk_xml (c : str * str * str * bool) : nat :=
  let '(v, got, raw, raised) := c in
  if raised then 4%nat
  else if negb (str_eqb got v) then 7%nat
  else match xml_unescape raw with
       | Some v' => if str_eqb v' v then 0%nat else 7%nat     (* the serializer may also use character references: no fidelity layer here *)
       | None => 7%nat
       end.
'''


def coq_case(res, site):
    found = "([" + ";".join(str(role_code(r)) for r in res["found"]) + "] : list N)"
    expect = expected_roles(site, res)
    expected = "([" + ";".join(str(role_code(r)) for r in expect) + "] : list N)"
    extra = ";".join("(([%s] : list N), %d, %s)" % (";".join(str(role_code(r)) for r in x["found"]), role_code(x["role"]), "true" if x["raised"] else "false")
                     for x in res.get("extra_lookups", []))
    return "(%s, ([%s] : list str), B%s%d, %s, %s, %s, ([%s] : list (list N * N * bool)))" % (
        cs(res["ident"]), ";".join(cs(q) for q in res["queries"]), "A" if res.get("mode") == "absent" else "", site.index, found, expected,
        "true" if res["raised"] else "false", extra)


def expected_roles(site, res):
    if res.get("mode") == "absent":
        return [r for r in res.get("stored_roles", []) if r in site.expect and r != "stored"]
    return [r for r in res.get("stored_roles", site.expect) if r in site.expect]       # in document order


def site_defs(sites):
    return "".join("Definition B%d : list str := [%s].\nDefinition BA%d : list str := [%s].\n"
                   % (s.index, ";".join(cs(q) for q in (s.benign or [])), s.index, ";".join(cs(q) for q in (s.benign_absent or []))) for s in sites)


# ------------------------------------------------------------------------------------------ direct sites

PRED_ATTRS = [("text_name", "text:name"), ("draw_name", "draw:name"), ("table_name", "table:name"), ("style_name", "style:name"),
              ("change_id", "text:change-id"), ("office_title", "office:title")]


def pred_case(o, ident, k):
    """make_xpath_query called directly; also evaluates the literal with libxml2 (validation of the reader)"""
    from odfdo.utils import make_xpath_query
    kw, attr = PRED_ATTRS[k % len(PRED_ATTRS)]
    pre = "descendant::x:y"
    rec = dict(kind="pred", site="make_xpath_query", ident=ident, attr=attr, raised=None, query=None, lxml_value=None)
    try:
        q = limited(make_xpath_query, pre, **{kw: ident})
        rec["query"] = q
    except Exception as e:
        rec["raised"] = repr(e); rec["query"] = ""
        return rec, "(%s, %s, %s, %s)" % (cs(pre), cs(attr), cs(ident), cs(""))
    head = pre + "[@" + attr + "="
    if q.startswith(head) and q.endswith("]"):
        try:
            rec["lxml_value"] = etree.XPath(q[len(head):-1])(etree.Element("r"))
        except Exception as e:
            rec["lxml_value"] = None; rec["lxml_error"] = type(e).__name__
    return rec, "(%s, %s, %s, %s)" % (cs(pre), cs(attr), cs(ident), cs(q))


def xml_case(o, ident, as_media=False):
    """Manifest.make_file_entry(ident, media) / (path, ident): attribute read back by lxml and its serialised text"""
    rec = dict(kind="xml", site="Manifest.make_file_entry/" + ("media_type" if as_media else "full_path"), ident=ident, raised=None)
    attr = "media-type" if as_media else "full-path"
    try:
        e = limited(o.Manifest.make_file_entry, *(("p/x", ident) if as_media else (ident, "m/x")))
        n = node(e)
        got = n.get("{%s}%s" % (MANIFEST_NS, attr))
        ser = etree.tostring(n, encoding="utf-8").decode("utf-8")
        m = re.search(r'manifest:%s="([^"]*)"' % attr, ser)
        raw = m.group(1) if m else None
        if got is None or raw is None:
            raise ValueError("attribute not written: " + ser[:200])
        other = n.get("{%s}%s" % (MANIFEST_NS, "full-path" if as_media else "media-type"))
        if other != ("p/x" if as_media else "m/x") or len(n.attrib) != 2 or len(n):
            rec["raised"] = "the entry has other attributes or children than the two given: " + ser[:200]
        rec["got"], rec["raw"] = got, raw
    except Exception as e:
        rec["raised"] = "%s: %s" % (type(e).__name__, str(e)[:200])
    if rec["raised"]:
        return rec, "(%s, %s, %s, true)" % (cs(ident), cs(""), cs(""))
    return rec, "(%s, %s, %s, false)" % (cs(ident), cs(rec["got"]), cs(rec["raw"]))


# ------------------------------------------------------------------------------------------ main

TIMES = {}


def significant(s):
    return any(c in SIGNIFICANT for c in s)


def evaluate(o, sites, work):
    """work: list of dicts {kind: lookup|pred|xml, site, ident, decoy/variant...}.  Runs the implementation, then Coq.
    Returns list of (work item, result record, code) and Coq errors."""
    by_key = {s.key: s for s in sites}
    recs, lookup_cases, pred_cases, xml_cases = [], [], [], []
    t_impl = time.time()
    for w in work:
        if w["kind"] == "lookup":
            site = by_key[w["site"]]
            res = run_case(o, site, w["ident"], w.get("decoy"), mode=w.get("mode", "present"), kind=w.get("as_kind", 0), variant=w.get("variant", 0),
                           extras=w.get("extras", 1))
            res["kind"] = "lookup"
            recs.append((w, res))
            if not res["rejected"]:
                lookup_cases.append((len(recs) - 1, coq_case(res, site)))
        elif w["kind"] == "pred":
            rec, term = pred_case(o, w["ident"], w.get("k", 0))
            recs.append((w, rec)); pred_cases.append((len(recs) - 1, term))
        else:
            rec, term = xml_case(o, w["ident"], w.get("as_media", False))
            recs.append((w, rec)); xml_cases.append((len(recs) - 1, term))
    TIMES["impl"] = TIMES.get("impl", 0) + time.time() - t_impl
    t_coq = time.time()
    codes, errors = {}, []
    header = HEADER + site_defs(sites)
    for cases, checker, tag in ((lookup_cases, "chk", "c14"), (pred_cases, "chk_pred", "c14p"), (xml_cases, "chk_xml", "c14x")):
        if not cases:
            continue
        bad, errs = common.run_shards(header, [t for _, t in cases], checker, tag, shard=max(100, min(600, -(-len(cases) // 16))))      # one round of at most 16 coqc processes when possible
        errors += errs
        for j, code in bad.items():
            codes[cases[j][0]] = code
    TIMES["coq"] = TIMES.get("coq", 0) + time.time() - t_coq
    out = []
    by_key = {s.key: s for s in sites}
    for idx, (w, rec) in enumerate(recs):
        code = codes.get(idx, 0)
        if errors and code == 0 and rec.get("kind") == "lookup" and not rec.get("rejected"):
            # the Coq evaluation broke: direct Python oracle of the property on the implementation's answer
            exp = expected_roles(by_key[rec["site"]], rec)
            if any(r not in exp for r in rec["found"]):
                code = 5
            elif rec["raised"] or rec["found"] != exp:
                code = 4
            elif any(x["raised"] or x["found"] != [x["role"]] for x in rec.get("extra_lookups", [])):
                code = 5
        if rec.get("kind") == "pred" and rec.get("raised"):
            code = 4
        out.append((w, rec, code))
    return out, errors


def key_of(rec):
    extra = ""
    if rec.get("mode") == "absent":
        extra += "/identifier-not-stored"
    if rec.get("as_kind"):
        extra += "/stored-as-other-kind"
    return "%s%s/%s" % (rec["site"], extra, ident_class(rec["ident"]))


def shrink(o, sites, w, code, budget_rounds=8):
    """drop characters while the same site still fails with a property-level code"""
    cur = dict(w)
    for _ in range(budget_rounds):
        ident = cur["ident"]
        if len(ident) <= 1:
            break
        cands = []
        for j in range(len(ident)):
            c = ident[:j] + ident[j + 1:]
            if c and c not in [x["ident"] for x in cands]:
                d = dict(cur, ident=c)
                if cur["kind"] == "lookup":
                    d["decoy"] = decoy_of(c, cur.get("variant", 0))
                cands.append(d)
        cands = cands[:40]
        res, errs = evaluate(o, sites, cands)
        nxt = None
        for cw, rec, k in res:
            if k not in (0, 9) and not rec.get("rejected"):
                nxt = dict(cw); break          # keep the identifier as given (the setter may normalise it; the decoys derive from the given one)
        if nxt is None:
            break
        cur = nxt
    return cur


def run(tier, seed, replay=None):
    t0 = time.time(); rng = random.Random(seed)
    o = common.use_repo()
    import odfdo.reference, odfdo.tracked_changes  # noqa
    install_capture()
    install_entry_point_counters(o)
    proofs = common.build_proofs("C14")
    sites = build_sites(o)
    for k, s in enumerate(sites):
        s.index = k
    by_key = {s.key: s for s in sites}
    errors = []
    # benign run of every site: the queries it builds for "plain" (decoys "plaim"..., last object "other"); the
    # kinds of element its identifier query can return are read off those queries, then the benign runs are redone
    # with decoys of every kind; the same with the identifier not stored
    multi_eps = [ep for ep, a in EP_ANNOT.items() if multi_type(a)]
    for s in sites:
        before_calls = {ep: EP_CALLS[ep] for ep in multi_eps}
        res = run_case(o, s, "plain", "plaim", third="other", extras=0)
        s.multi = [ep for ep in multi_eps if EP_CALLS[ep] > before_calls[ep]]
        s.kinds = derive_kinds(o, s, res.get("queries") or [])
        for kind in range(len(s.kinds), -1, -1):
            res = run_case(o, s, "plain", "plaim", third="other", kind=kind, extras=0)
            exp = expected_roles(s, res)
            if res["rejected"] or res["raised"] or res["found"] != exp:
                errors.append("benign lookup fails at site %s (stored as kind %d of %r): %r" % (s.key, kind, s.kinds, res))
        s.benign = res.get("queries") or []
        if not s.needs_stored:
            ra = run_case(o, s, "plain", "plaim", third="other", mode="absent", extras=0)
            if ra["rejected"] or ra["raised"] or ra["found"] != expected_roles(s, ra):
                errors.append("benign lookup of an identifier that is not stored fails at site %s: %r" % (s.key, ra))
            s.benign_absent = ra.get("queries") or []
    corpus = []
    for f in sorted((common.ROOT / "corpus" / PROP).glob("*.json")):
        c = json.load(open(f))
        corpus.append(c["case"])
    work = []
    if replay:
        work = [json.load(open(replay))["case"]]
    else:
        work += [dict(c) for c in corpus if c.get("site") in by_key or c["kind"] != "lookup"]
        quick = tier == "quick"
        pool = gen_idents(rng, 60 if quick else 1500, 2 if quick else 12)
        # exhaustive small-alphabet sweep at the main sites
        small = []
        for n in range(1, (3 if quick else 4) + 1):
            for tup in itertools.product('a"\' ]', repeat=n):
                small.append("".join(tup))
        exhaustive_n = 0
        shorter = [i for i in pool[len(EDGE):] if len(i) < 40]
        for s in sites:
            if s.heavy:
                ids = EDGE[s.index % (4 if quick else 3)::(4 if quick else 3)] + rng.sample(shorter, 4 if quick else 25)
            elif s.main:
                ids = EDGE + rng.sample(pool[len(EDGE):], 25 if quick else 350)
            else:
                ids = (EDGE[s.index % 6::6] + rng.sample(shorter, 3)) if quick else (EDGE + rng.sample(shorter, 200))
            if s.main and (not quick or s.key in ("get_table/name", "get_bookmark", "Manifest.get_media_type", "get_reference_mark/single",
                                                   "ReferenceMarkStart.referenced_text", "get_between/bookmarks")):
                ids = small + ids; exhaustive_n += len(small)
            # the delimiter sequences of the site's own syntaxes at start / middle / end of the identifier: never subsampled
            ids = ids + [i for i in delimiter_idents(s.syntaxes) if i not in ids]
            ids = ["true", "false"] + [i for i in ids if i not in ("true", "false")]     # the boolean words go through every site
            # look-alikes of other argument types / keywords: all of them where the entry point accepts more than a str, a rotating part elsewhere
            look = LOOKALIKE if (s.multi or not quick) else LOOKALIKE[s.index % 6::6]
            ids = look + [i for i in ids if i not in look]
            for n_i, i in enumerate(ids):
                v = rng.randrange(1000)
                ex = (2 if not s.heavy else 1) if not quick else (0 if (s.heavy and not s.main) else (1 if n_i % 3 == 0 or s.main else 0))
                work.append(dict(kind="lookup", site=s.key, ident=i, decoy=decoy_of(i, v), variant=v, extras=ex))
            # the identifier stored as each other kind of element the site's query can return
            for kk in range(1, len(s.kinds) + 1):
                for i in (ids[::3] if quick else ids):
                    v = rng.randrange(1000)
                    work.append(dict(kind="lookup", site=s.key, ident=i, decoy=decoy_of(i, v), variant=v, as_kind=kk, extras=0 if quick else 1))
            # the identifier not stored at all: the lookup must return nothing
            if not s.needs_stored:
                absent_ids = ["absent"] + (ids[s.index % 6::6] if quick else ids[s.index % 3::3])
                if s.multi:
                    absent_ids += [i for i in LOOKALIKE if i not in absent_ids]
                for i in absent_ids:
                    v = rng.randrange(1000)
                    work.append(dict(kind="lookup", site=s.key, ident=i, decoy=decoy_of(i, v), variant=v, mode="absent"))
        for k, i in enumerate(small + pool):
            work.append(dict(kind="pred", ident=i, k=k))
        for k, i in enumerate(small[:160] + pool[:len(EDGE) + (60 if quick else 800)]):
            work.append(dict(kind="xml", ident=i, as_media=bool(k % 2)))
    results, errs = evaluate(o, sites, work)
    errors += errs
    # ---- decision
    hist_site, hist_code, rejected, fidelity, no_query, lexer_disagree = {}, {}, {}, 0, 0, []
    failing = []
    for w, rec, code in results:
        k = rec["site"]
        if rec.get("rejected"):
            rejected[k] = rejected.get(k, 0) + 1; continue
        hist_site[k] = hist_site.get(k, 0) + 1
        hist_code[code] = hist_code.get(code, 0) + 1
        if rec.get("kind") == "lookup" and not rec["queries"]:
            no_query += 1
        if rec.get("kind") == "pred" and not rec.get("raised"):
            # validation of the specification reader against libxml2 on the literal the implementation wrote
            coq_ok = code in (0, 9)
            lx_ok = rec.get("lxml_value") == rec["ident"]
            if coq_ok != lx_ok:
                lexer_disagree.append(dict(ident=rec["ident"], query=rec["query"], coq_code=code, lxml=rec.get("lxml_value"), err=rec.get("lxml_error")))
        if code == 9:
            fidelity += 1
        elif code == 6:
            errors.append("benign query of %s does not lex" % k)
        elif code:
            failing.append((w, rec, code))
    # the lookup layer on its own (whatever the query layer said): wrong object / nothing / exception
    lookup_layer = {"wrong object returned": 0, "stored object not returned or exception": 0, "a decoy's own identifier did not find exactly the decoy": 0}
    for w, rec, code in results:
        if rec.get("kind") == "lookup" and not rec.get("rejected"):
            exp = expected_roles(by_key[rec["site"]], rec)
            if any(r not in exp for r in rec["found"]):
                lookup_layer["wrong object returned"] += 1; rec["lookup_layer"] = "an object with another identifier was returned"
            elif rec["raised"] or rec["found"] != exp:
                lookup_layer["stored object not returned or exception"] += 1; rec["lookup_layer"] = "the stored object was not returned"
            else:
                for x in rec.get("extra_lookups", []):
                    if x["raised"] or x["found"] != [x["role"]]:
                        lookup_layer["a decoy's own identifier did not find exactly the decoy"] += 1
                        rec["lookup_layer"] = "looking up the decoy %r (%s) returned %r %s" % (x["ident"], x["role"], x["found"], x["raised"] or "")
                        break
    for d in lexer_disagree[:3]:
        errors.append("specification reader and libxml2 disagree on %r" % (d,))
    known = {e["key"]: e for e in common.known_findings(PROP)}
    violations, known_seen, groups = [], [], {}
    for w, rec, code in failing:
        groups.setdefault(key_of(rec), []).append((w, rec, code))
    n_reported = 0
    prio = ["get_table/name", "make_xpath_query", "ReferenceMarkStart.referenced_text", "Manifest.get_media_type", "Manifest.make_file_entry/full_path"]
    main_keys = [x.key for x in sites if x.main]

    def rank(k):
        site = k.rsplit("/", 1)[0]
        return (k in known, prio.index(site) if site in prio else len(prio) + (0 if site in main_keys else 1), k)
    for key in sorted(groups, key=rank):
        w, rec, code = min(groups[key], key=lambda t: len(t[1]["ident"]))
        if key in known:
            known_seen.append("%s (%d cases; e.g. %r)" % (key, len(groups[key]), rec["ident"]))
            continue
        if n_reported >= 3 and not replay:
            continue
        if not replay and len(rec["ident"]) > 1:
            w2 = shrink(o, sites, dict(w), code, budget_rounds=4 if n_reported else 8)
            r2, _ = evaluate(o, sites, [w2])
            if r2 and r2[0][2] not in (0, 9) and not r2[0][1].get("rejected") and key_of(r2[0][1]) == key:
                w, rec, code = r2[0]
        if rec.get("kind") == "lookup" and "lookup_layer" not in rec:
            exp = expected_roles(by_key[rec["site"]], rec)
            rec["lookup_layer"] = ("an object with another identifier was returned" if any(r not in exp for r in rec["found"]) else
                                   "the stored object was not returned" if (rec["raised"] or rec["found"] != exp) else
                                   "a decoy's own identifier did not find exactly the decoy" if any(x["raised"] or x["found"] != [x["role"]] for x in rec.get("extra_lookups", [])) else "right object")
        payload = dict(layer=LAYER.get(code, str(code)), code=code, known_finding_key=None, key=key,
                       case=dict(w), identifier_stored=rec["ident"], identifier_codepoints=[ord(c) for c in rec["ident"]],
                       impl=dict(queries=rec.get("queries") or rec.get("query"), found=rec.get("found"), raised=rec.get("raised"),
                                 stored_roles=rec.get("stored_roles"), layout=rec.get("layout"), lookup_layer=rec.get("lookup_layer", "right object"),
                                 extra_lookups=rec.get("extra_lookups"), absent_answer=rec.get("absent_answer"),
                                 got=rec.get("got"), raw=rec.get("raw")),
                       benign_queries=by_key[rec["site"]].benign if rec["site"] in by_key else None,
                       other_failing_keys=len(groups), cases_failing_with_this_key=len(groups[key]))
        tag = re.sub(r"[^A-Za-z0-9]+", "_", key)[:60] + "-%d" % n_reported
        if replay and Path(replay).stem.startswith("%s-%s-" % (PROP, seed)):
            tag = Path(replay).stem[len("%s-%s-" % (PROP, seed)):]          # a replay rewrites its own file
        violations.append((common.write_replay(PROP, seed, tag, payload), False))
        n_reported += 1
    if replay and not failing and not errors:
        print("replay: no violation on this tree (code 0)")
    violations += common.proof_violation(PROP, seed, proofs, errors, bool(failing))
    done = [(w, rec, code) for w, rec, code in results if not rec.get("rejected")]
    distinct = len({common.digest((rec["site"], rec["ident"], rec.get("mode"), rec.get("as_kind"))) for w, rec, code in done if significant(rec["ident"])})
    modes = {}
    for w, rec, code in done:
        if rec.get("kind") == "lookup":
            m = "identifier not stored" if rec.get("mode") == "absent" else ("stored as another kind" if w.get("as_kind") else "stored")
            modes[m] = modes.get(m, 0) + 1
    samples = []
    for w, rec, code in done:
        if rec.get("kind") == "lookup" and '"' in rec["ident"] and "'" in rec["ident"] and len(samples) < 3:
            samples.append(dict(site=rec["site"], identifier=rec["ident"], decoy=rec.get("decoy"), queries=rec["queries"], found=rec["found"], code=code))
    if not samples:
        samples = [dict(site=rec["site"], identifier=rec["ident"], code=code) for w, rec, code in done[:3]]
    ep_driven, ep_excused, ep_open = classify_entry_points()
    if replay:
        ep_open = []
    coverage = dict(
        trusted_base=["libxml2's XPath 1.0 tokenizer reads string literals as XPathLit.lex does (a quote opens a literal that ends at the next identical quote; no escapes); "
                      "validated on this run: the literal written by make_xpath_query for every generated identifier is evaluated by lxml and compared with the verdict of the Coq reader",
                      "libxml2's XPath engine (attribute equality, axes, union) and lxml's XML parser/serialiser",
                      "query capture: wrappers installed by the harness around odfdo.element.xpath_compile / XPath (every importing module) and Element.get_element/_get_element_idx/xpath/get_elements",
                      "modelled in XPathLit.v: utils/xpath_query.py xpath_string_literal and the predicate text of make_xpath_query (repaired code), the pinned pasting between double / single quotes, "
                      "XML attribute escaping of Manifest.make_file_entry"],
        evaluations=len(done), distinct_nontrivial=distinct,
        rule="identifiers = fixed edge list (%d shapes: only quotes, both kinds, quote first/last, many quotes, concat( inside, injection shapes, XML specials, non-ASCII) + random strings over "
             "%d significant symbols and letters/digits (length 1-12, a few 60-200) + words with quotes inserted, all from one random.Random(seed); all strings of length <= %d over {a,\",',space,]} "
             "at the main sites and through make_xpath_query; every (site, identifier) stores identifier + near-identical decoy + 'plain' and looks the identifier up. "
             "decoys: near-identical in the substring / prefix / suffix / superstring / case / white-space / quote sense on objects of the same kind (six per case) and of every other kind the query can return, before and after the target; modes: stored / stored as another kind / not stored; the decoys' own identifiers are looked up too. "
             "non-trivial = identifier contains an XPath/XML-significant character; distinct = distinct (site, identifier actually stored, mode, kind)" % (len(EDGE), len(set(RICH)), 3 if tier == "quick" else 4),
        samples=samples, sites=len(sites) + 3, cases_per_site=hist_site, codes={str(k): v for k, v in sorted(hist_code.items())},
        entry_points=dict(found_by_introspection=len(EP_CALLS), driven=ep_driven, not_driven_with_reason=ep_excused, not_driven_unclassified=ep_open,
                          multi_type={ep: dict(annotation=EP_ANNOT[ep], driven=ep in ep_driven, sites=[x.key for x in sites if ep in x.multi])
                                      for ep in sorted(EP_ANNOT) if multi_type(EP_ANNOT[ep])}),
        lookalike_identifiers=LOOKALIKE,
        extra_lookups_of_decoy_identifiers=sum(len(rec.get("extra_lookups", [])) for w, rec, code in done),
        lookup_layer_failures=lookup_layer, lookup_modes=modes, kinds_per_site={x.key: x.kinds for x in sites if x.kinds}, rejected_by_setter=rejected, fidelity_divergences=fidelity, lookups_without_captured_query=no_query,
        reader_vs_libxml2_disagreements=len(lexer_disagree), corpus_cases=len(corpus), failing_keys=sorted(groups),
        implementation_wall_s=round(TIMES.get("impl", 0), 1), coq_evaluation_wall_s=round(TIMES.get("coq", 0), 1),
        exhaustive=False)
    if ep_open:
        print("NOTE: %d name-taking entry point(s) found by introspection are neither driven nor classified: %s" % (len(ep_open), ", ".join(ep_open[:8])))
    if fidelity:
        print("NOTE: %d case(s) where the query text differs from the model's text but denotes the same string (fidelity)" % fidelity)
    evf = common.ROOT / "evidence" / ("%s.json" % PROP)
    keep = evf.read_text() if (replay and evf.exists()) else None      # a replay does not replace the evidence of the last full run
    try:
        return _finish(tier, seed, proofs, coverage, violations, known_seen, t0)
    finally:
        if keep is not None:
            evf.write_text(keep)


def _finish(tier, seed, proofs, coverage, violations, known_seen, t0):
    return common.finish(PROP, tier, seed, proofs, coverage, violations, known_seen, t0,
                         assumptions=["an identifier is in the property's domain when the constructor/setter accepts it and it is XML text (no control characters); "
                                      "when the setter normalises it (Table strips white space) the normalised name is the identifier",
                                      "the empty identifier is outside the domain (the lookups treat it as 'no filter')",
                                      "regular-expression arguments (content=, url=, title= of frames) are not identifiers"])


if __name__ == "__main__":
    common.main(run)
