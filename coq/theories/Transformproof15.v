(* Transformproof15.v — compositions: rstrip after transpose keeps every value at the swapped coordinates; a span
   survives rstrip and optimize_width; after an aggressive rstrip optimize_width changes nothing, hence
   rstrip(aggressive) o optimize_width is idempotent; the same composition with aggressive=False is NOT (witness). *)
From Coq Require Import List ZArith Lia Bool Arith.
Import ListNotations.
Require Import Vault Vaultproof Row Table Grid Tableabs Tableproof Tableproof5 Transform Transformspec Transformproof Transformproof2
               Transformproof3 Transformproof4 Transformproof5 Transformproof7 Transformproof10 Transformproof11 Transformproof12 Transformproof13.
Open Scope Z_scope.

Section Compose.
Variable a : calg.

(* ---- rstrip o transpose ---- *)
Theorem rstrip_after_transpose_keeps aggr t x y : WF t -> cell_empty a aggr empty_cell = true ->
  0 <= x < Z.of_nat (max_length (grows (abs_t t))) -> 0 <= y ->
  cell_empty a aggr (gcell x y (abs_t t)) = false ->
  gcell y x (abs_t (t_rstrip a aggr (t_transpose t))) = gcell x y (abs_t t).
Proof.
  intros Hwf H0 Hx Hy Hne. destruct (transpose_refines t Hwf) as [_ Hwf'].
  rewrite <- (transpose_swaps_model t x y Hwf Hx Hy) in Hne |- *.
  apply rstrip_keeps_model; try assumption; lia.
Qed.

(* ---- a span survives the strip transformations: marked cells are not empty ---- *)
Lemma marked_not_empty aggr x y z t mid st st' i j : WF st -> 0 <= x <= z -> 0 <= y <= t ->
  (forall v, ca_cov a (ca_to_cov a v) = true) -> (forall v c r, ca_span a (ca_add_span a v c r) = true) ->
  t_set_span a x y z t false mid st = Some (st', true) -> x <= i <= z -> y <= j <= t ->
  cell_empty a aggr (gcell i j (abs_t st')) = false.
Proof.
  intros Hwf Hx Hy Hc Hs H Hi Hj. rewrite (set_span_explicit_model a x y z t mid st st' Hwf Hx Hy H i j) by lia. cbv zeta.
  unfold in_area. destruct (Z.leb_spec x i); [|lia]. destruct (Z.leb_spec i z); [|lia]. destruct (Z.leb_spec y j); [|lia]. destruct (Z.leb_spec j t); [|lia].
  cbn [andb]. unfold cell_empty, is_spanned. destruct ((i =? x) && (j =? y)); unfold cov; cbn [fst snd]; rewrite ?Hc, ?Hs.
  - rewrite Bool.orb_true_r. cbn [negb]. rewrite Bool.andb_false_r. reflexivity.
  - cbn [orb negb]. rewrite Bool.andb_false_r. reflexivity.
Qed.
Theorem span_survives_optimize_width x y z t mid st st' st'' : WF st -> 0 <= x <= z -> 0 <= y <= t ->
  (forall v, ca_cov a (ca_to_cov a v) = true) -> (forall v c r, ca_span a (ca_add_span a v c r) = true) ->
  cell_empty a true empty_cell = true ->
  t_set_span a x y z t false mid st = Some (st', true) -> t_optimize_width a true st' = Some st'' ->
  forall i j, x <= i <= z -> y <= j <= t -> gcell i j (abs_t st'') = gcell i j (abs_t st').
Proof.
  intros Hwf Hx Hy Hc Hs H0 H Ho i j Hi Hj.
  destruct (set_span_refines a x y z t false mid st Hwf ltac:(lia) ltac:(lia)) as (s1 & r1 & E1 & Hwf1 & _).
  rewrite H in E1. injection E1 as <- <-.
  apply (optimize_width_keeps_nonempty a st' st'' i j Hwf1 Ho H0); try lia.
  exact (marked_not_empty true x y z t mid st st' i j Hwf Hx Hy Hc Hs H Hi Hj).
Qed.
Theorem span_survives_rstrip aggr x y z t mid st st' : WF st -> 0 <= x <= z -> 0 <= y <= t ->
  (forall v, ca_cov a (ca_to_cov a v) = true) -> (forall v c r, ca_span a (ca_add_span a v c r) = true) ->
  cell_empty a aggr empty_cell = true ->
  t_set_span a x y z t false mid st = Some (st', true) ->
  forall i j, x <= i <= z -> y <= j <= t -> gcell i j (abs_t (t_rstrip a aggr st')) = gcell i j (abs_t st').
Proof.
  intros Hwf Hx Hy Hc Hs H0 H i j Hi Hj.
  destruct (set_span_refines a x y z t false mid st Hwf ltac:(lia) ltac:(lia)) as (s1 & r1 & E1 & Hwf1 & _).
  rewrite H in E1. injection E1 as <- <-.
  apply rstrip_keeps_model; try assumption; try lia.
  exact (marked_not_empty aggr x y z t mid st st' i j Hwf Hx Hy Hc Hs H Hi Hj).
Qed.

(* ---- after an aggressive rstrip, optimize_width changes nothing ---- *)
Lemma cell_empty_false_true c : cell_empty a true c = false -> cell_empty a false c = false.
Proof. intros H. destruct (cell_empty a false c) eqn:E; [|reflexivity]. rewrite (cell_empty_mono a c E) in H. discriminate. Qed.

Lemma force_width_stripped w v : force_width a w (row_rstrip a true v) = row_rstrip a true v.
Proof.
  unfold force_width, row_rstrip. destruct (rev (strip_end (run_empty a true) v)) as [|[n c] rr] eqn:Er; [reflexivity|].
  pose proof (rev_eq_snoc _ _ _ Er) as Hv. pose proof (strip_end_last (run_empty a true) v _ _ Hv) as Hl.
  unfold run_empty in Hl. cbn [snd] in Hl. rewrite Hl. reflexivity.
Qed.
Lemma minimized_stripped_ge v : rwidth (row_rstrip a true v) <= minimized_width a (row_rstrip a true v).
Proof.
  unfold minimized_width, row_rstrip. destruct (rev (strip_end (run_empty a true) v)) as [|[n c] rr] eqn:Er.
  - assert (strip_end (run_empty a true) v = []) by (rewrite <- (rev_involutive (strip_end _ v)), Er; reflexivity). rewrite H. cbn. lia.
  - pose proof (rev_eq_snoc _ _ _ Er) as Hv. pose proof (strip_end_last (run_empty a true) v _ _ Hv) as Hl.
    unfold run_empty in Hl. cbn [snd] in Hl. rewrite Hl. lia.
Qed.
Lemma row_stripped_not_empty v : row_is_empty a true v = false -> row_is_empty a false (row_rstrip a true v) = false.
Proof.
  intros H. unfold row_is_empty, row_rstrip in *.
  destruct (rev (strip_end (run_empty a true) v)) as [|[n c] rr] eqn:Er.
  - assert (E : strip_end (run_empty a true) v = []) by (rewrite <- (rev_involutive (strip_end _ v)), Er; reflexivity).
    apply strip_end_nil_iff in E. congruence.
  - pose proof (rev_eq_snoc _ _ _ Er) as Hv. pose proof (strip_end_last (run_empty a true) v _ _ Hv) as Hl.
    rewrite Hv, forallb_app. cbn [forallb]. unfold run_empty in *. cbn [snd] in *. rewrite (cell_empty_false_true _ Hl).
    cbn [andb]. apply Bool.andb_false_r.
Qed.

Lemma fold_max_mono (f g : nat * rowx -> Z) l : (forall r, In r l -> f r <= g r) -> forall b1 b2, b1 <= b2 ->
  fold_left (fun acc r => Z.max acc (f r)) l b1 <= fold_left (fun acc r => Z.max acc (g r)) l b2.
Proof.
  induction l as [|r l IH]; intros H b1 b2 Hb; cbn [fold_left]; [exact Hb|].
  apply IH; [intros; apply H; right; assumption|]. specialize (H r (or_introl eq_refl)). lia.
Qed.

Theorem optimize_after_aggressive_rstrip t : WF t ->
  t_optimize_width a true (t_rstrip a true t) = Some (t_rstrip a true t).
Proof.
  intros Hwf. destruct (rstrip_refines a true t Hwf) as [_ [[Hr2 Hc2] Hcw2]].
  destruct Hwf as [[Hr Hc] Hcw].
  set (rows1 := strip_end (rowrun_empty a true) (rows t)).
  set (rows2 := map (rowrun_rstrip a true) rows1).
  assert (Eu : t_rstrip a true t = {| cols := trim_cols (max_roww rows2) (cols t); rows := rows2 |}) by reflexivity.
  (* the rows are a fixed point of _optimize_width_trim_rows *)
  assert (Htrim : ow_trim_rows a true rows2 = rows2).
  { apply trimmed_fixed. unfold trimmed.
    destruct (rev rows2) as [|[n r] rr] eqn:Er.
    - assert (rows2 = []) by (rewrite <- (rev_involutive rows2), Er; reflexivity). rewrite H. split; [cbn; lia|exact I].
    - assert (Hlast : row_is_empty a false (snd r) = false).
      { unfold rows2 in Er. rewrite <- map_rev in Er. destruct (rev rows1) as [|[n1 r1] rr1] eqn:Er1; [discriminate|].
        cbn [map] in Er. injection Er as <- <- _. cbn [rowrun_rstrip snd fst].
        apply row_stripped_not_empty. pose proof (rev_eq_snoc _ _ _ Er1) as H1.
        apply (strip_end_last (rowrun_empty a true) (rows t) _ _ H1). }
      split; [|left; exact Hlast].
      pose proof (rev_eq_snoc _ _ _ Er) as H2.
      assert (Hs1 : strip_end (rowrun_empty a false) [(n, r)] = [(n, r)])
        by (cbn [strip_end]; unfold rowrun_empty; cbn [snd]; rewrite Hlast; reflexivity).
      rewrite H2, strip_end_app, Hs1. lia. }
  unfold t_optimize_width. rewrite Eu. cbn [rows cols]. rewrite Htrim.
  destruct rows2 as [|r2 rs2] eqn:E2.
  - change (max_roww []) with 0. rewrite trim_cols_idem by (assumption || lia). reflexivity.
  - rewrite <- E2 in *. f_equal. f_equal.
    + (* columns *)
      destruct (trim_cols_spec (max_roww rows2) (cols t) Hc) as [Hw _]; [unfold max_roww; apply fmax_ge|].
      unfold trim_cols at 1.
      assert (Hle : max_roww rows2 <= ow_length a rows2).
      { unfold max_roww, ow_length, roww. apply fold_max_mono; [|lia]. intros r Hin. unfold rows2 in Hin. apply in_map_iff in Hin.
        destruct Hin as (r0 & <- & _). cbn [rowrun_rstrip snd]. apply minimized_stripped_ge. }
      destruct (Z.ltb_spec 0 (Z.of_nat (width (trim_cols (max_roww rows2) (cols t))) - ow_length a rows2)); [lia|reflexivity].
    + (* cells *)
      rewrite <- (map_id rows2) at 2. apply map_ext_in. intros r Hin. unfold rows2 in Hin. apply in_map_iff in Hin.
      destruct Hin as (r0 & <- & _). cbn [rowrun_rstrip snd fst]. rewrite force_width_stripped. reflexivity.
Qed.

(* rstrip(aggressive=True) o optimize_width is idempotent *)
Theorem rstrip_optimize_idem t t1 : WF t -> t_optimize_width a true t = Some t1 ->
  exists t2, t_optimize_width a true (t_rstrip a true t1) = Some t2 /\
             abs_t (t_rstrip a true t2) = abs_t (t_rstrip a true t1).
Proof.
  intros Hwf H1. destruct (optimize_width_law a t t1 Hwf H1) as [_ Hwf1].
  exists (t_rstrip a true t1). split; [apply optimize_after_aggressive_rstrip; exact Hwf1|].
  apply rstrip_idem_model. exact Hwf1.
Qed.
End Compose.

(* with aggressive=False the composition is not idempotent: the first pass cuts the styled run of the second row to the
   width 4 of the first row (which still carries one plain empty cell); rstrip then removes that empty cell, and a second
   pass finds width 3 and cuts the styled run again.
   row 1: "a" "b" "c" and three plain empty cells; row 2: "x" and five styled empty cells (style 1) *)
Definition ro_table : tstate :=
  {| cols := [(6%nat, 0)];
     rows := [(1%nat, (0, [(1%nat, (5, 0)); (1%nat, (6, 0)); (1%nat, (7, 0)); (3%nat, (0, 0))]));
              (1%nat, (0, [(1%nat, (8, 0)); (5%nat, (0, 1))]))] |}.
Lemma rstrip_optimize_nonaggressive_witness :
  WF ro_table /\
  exists t1 t2, t_optimize_width plain_alg true ro_table = Some t1 /\
                t_optimize_width plain_alg true (t_rstrip plain_alg false t1) = Some t2 /\
                abs_t (t_rstrip plain_alg false t2) <> abs_t (t_rstrip plain_alg false t1).
Proof.
  split; [repeat split; repeat constructor; cbn; lia|].
  eexists. eexists. split; [vm_compute; reflexivity|]. split; [vm_compute; reflexivity|]. vm_compute. discriminate.
Qed.
