(* Attr.v -- executable model of the generic attribute properties of odfdo elements
     Element._generic_attrib_getter / _generic_attrib_setter / _define_attribut_property  (src/odfdo/element.py)
   and of the part of a constructor that stores arguments through such properties.  Definitions only. *)
From Coq Require Import String List Bool ZArith. Import ListNotations. Open Scope string_scope.

(* Python values as the generic setter distinguishes them:
     None | bool | str | anything else.   For "anything else" the model carries what CPython computed:
     s = str(value) and t = bool(value) (external, supplied by the harness, universally quantified in the theorems). *)
Inductive val := VNone | VBool (b : bool) | VStr (s : string) | VOther (s : string) (t : bool)
  | VNum (z : Z) (s : string).   (* an int: its value (for `x >= 2` guards) and s = str(z) as computed by CPython *)

Definition val_eqb (a b : val) : bool :=
  match a, b with
  | VNone, VNone => true
  | VBool x, VBool y => Bool.eqb x y
  | VStr x, VStr y => String.eqb x y
  | VOther x t, VOther y u => String.eqb x y && Bool.eqb t u
  | VNum x a, VNum y b => Z.eqb x y && String.eqb a b
  | _, _ => false
  end.

(* lxml's attrib mapping: attribute name -> text, insertion ordered, names unique *)
Definition attrs := list (string * string).

Fixpoint aget (n : string) (a : attrs) : option string :=
  match a with [] => None | (k, v) :: r => if String.eqb k n then Some v else aget n r end.

Fixpoint adel (n : string) (a : attrs) : attrs :=
  match a with [] => [] | (k, v) :: r => if String.eqb k n then adel n r else (k, v) :: adel n r end.

(* element.set(name, text): replaces in place, or appends *)
Fixpoint aset (n s : string) (a : attrs) : attrs :=
  match a with [] => [(n, s)] | (k, v) :: r => if String.eqb k n then (k, s) :: r else (k, v) :: aset n s r end.

(* value -> attribute text: None deletes; Boolean.encode; str(value) otherwise *)
Definition encode (v : val) : option string :=
  match v with
  | VNone => None
  | VBool true => Some "true"
  | VBool false => Some "false"
  | VStr s => Some s
  | VOther s _ => Some s
  | VNum _ s => Some s
  end.

(* attribute text -> value: absent is None; "true"/"false" is Boolean.decode; str(value) otherwise *)
Definition decode (o : option string) : val :=
  match o with
  | None => VNone
  | Some s => if String.eqb s "true" then VBool true else if String.eqb s "false" then VBool false else VStr s
  end.

(* `if family and self.family != family: return None`, AttributeError -> None.
   self_family: None = the object has no `family` attribute, Some f = its value (f itself may be None) *)
Definition blocked (family : string) (self_family : option (option string)) : bool :=
  if String.eqb family "" then false
  else match self_family with
       | None => true
       | Some None => true
       | Some (Some f) => negb (String.eqb f family)
       end.

Definition setter (name family : string) (sf : option (option string)) (v : val) (a : attrs) : attrs :=
  if blocked family sf then a
  else match encode v with None => adel name a | Some s => aset name s a end.

Definition getter (name family : string) (sf : option (option string)) (a : attrs) : val :=
  if blocked family sf then VNone else decode (aget name a).

(* order-insensitive comparison of attribute maps (the infoset has no attribute order) *)
Definition asub (a b : attrs) : bool :=
  forallb (fun p => match aget (fst p) b with Some v => String.eqb v (snd p) | None => false end) a.
Definition attrs_same (a b : attrs) : bool := asub a b && asub b a.
Fixpoint attrs_eqb (a b : attrs) : bool :=
  match a, b with
  | [], [] => true
  | (k, v) :: r, (k', v') :: r' => String.eqb k k' && String.eqb v v' && attrs_eqb r r'
  | _, _ => false
  end.

(* ---------------------------------------------------------------- constructors (table in Gen_Ctors.v) *)

(* condition under which `self.<prop> = <arg>` is executed *)
Inductive guard := GNone | GTruthy | GNotNone
  | GGe (n : Z).     (* `if x and x >= n` / `if x is not None and x >= n` / `x > n-1`: an int not below n *)
(* what is stored: the argument, f(argument) for a named Python function, `argument or <constant>` *)
Inductive conv := CId | CConv (f : string) | COrDefault.

Inductive akind :=
| Stored (prop : string) (g : guard) (c : conv) (generic : option (string * string))   (* generic = (attribute, family) when the property is a PropDef one *)
| StoredConst (prop : string) (b : bool) (generic : option (string * string))        (* `if arg: self.prop = True` *)
| StoredCond (prop : string)      (* stored, but only under a condition on something else: no obligation *)
| NonProp (target : string)       (* stored into a plain Python attribute: no obligation, exercised by the correspondence *)
| ViaHelper (helper key : string) (* handed unchanged to a method of the object (set_value, set_properties via kwargs[key] ...): no obligation *)
| StoredIndexed (props : list string)  (* `self.p = arg[i]` for a tuple argument: no obligation *)
| Dropped                         (* accepted by __init__ and stored nowhere *)
| Unrecognised.                   (* any other use: no obligation, exercised by the correspondence *)

Record centry := mkC { c_class : string; c_arg : string; c_kind : akind }.

Definition truthy (v : val) : bool :=
  match v with VNone => false | VBool b => b | VStr s => negb (String.eqb s "") | VOther _ t => t | VNum z _ => negb (Z.eqb z 0) end.
Definition is_none (v : val) : bool := match v with VNone => true | _ => false end.

Definition holds (g : guard) (v : val) : bool :=
  match g with
  | GNone => true | GTruthy => truthy v | GNotNone => negb (is_none v)
  | GGe n => match v with VNum z _ => Z.leb n z | _ => false end
  end.

(* one store of a constructor on a generic property: (attribute, family, executed?, value stored) --
   `executed` is the value of the guard on the caller's argument, the value stored is the argument after conversion
   or, for `if arg: self.p = True`, the constant *)
Definition store := (string * string * bool * val)%type.

Definition run_store (sf : option (option string)) (a : attrs) (st : store) : attrs :=
  let '(n, fam, ex, v) := st in if ex then setter n fam sf v a else a.

Definition run_ctor (sf : option (option string)) (sts : list store) (a : attrs) : attrs :=
  fold_left (run_store sf) sts a.

Definition is_dropped (e : centry) : bool := match c_kind e with Dropped => true | _ => false end.

Definition stored_prop (e : centry) : option string :=
  match c_kind e with Stored p _ _ _ => Some p | StoredConst p _ _ => Some p | _ => None end.
Definition stored_generic (e : centry) : option (string * (string * string)) :=
  match c_kind e with
  | Stored p _ _ (Some af) => Some (p, af)
  | StoredConst p _ (Some af) => Some (p, af)
  | _ => None
  end.
