(* Csvchk.v — validation of the csv dialect model (Csv.v) against the csv module of the running CPython, evaluated by
   vm_compute on every run: 1 = the model's writer does not produce the text csv.writer produced for that matrix of
   fields; 2 = the model's reader does not read a text as csv.reader did.  No proofs. *)
From Coq Require Import List NArith Bool Arith.
Import ListNotations.
Require Import Csv.
Local Open Scope N_scope.

Fixpoint nl_eqb (a b : list N) : bool :=
  match a, b with [], [] => true | x :: a', y :: b' => (x =? y) && nl_eqb a' b' | _, _ => false end.
Fixpoint ll_eqb {A} (eqb : A -> A -> bool) (a b : list A) : bool :=
  match a, b with [], [] => true | x :: a', y :: b' => eqb x y && ll_eqb eqb a' b' | _, _ => false end.
Definition rows_eqb (a b : list (list field)) : bool := ll_eqb (ll_eqb nl_eqb) a b.

(* (matrix of fields or None, the text, the rows csv.reader returned for the text) *)
Definition csvm_case := (option (list (list field)) * list N * list (list field))%type.
Definition chk_csvmodel (c : csvm_case) : nat :=
  let '(m, text, rows) := c in
  if negb (match m with Some m => nl_eqb (wtext m) text | None => true end) then 1%nat
  else if negb (rows_eqb (rtext text) rows) then 2%nat
  else 0%nat.
