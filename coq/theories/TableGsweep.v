(* TableGsweep.v — C08 in a small scope, exhaustively: every getter of the alphabet with every coordinate in -1 .. 4
   (ranges possibly crossed / beyond / negative) on every table with at most 2 row runs (repeat 1 or 2) of at most 2 cell
   runs (repeat 1 or 2) under 4 column layouts meets the specification.  A finite sweep by vm_compute, lifted with
   forallb_forall; the bound is part of the statement. *)
From Coq Require Import List ZArith Bool Arith.
Import ListNotations.
Require Import Vault Row Table Grid Tableabs Tablexmlproof TableB TableG TableGspec.
Open Scope Z_scope.

Definition lists_upto2 {A} (l : list A) : list (list A) :=
  [] :: map (fun a => [a]) l ++ flat_map (fun a => map (fun b => [a; b]) l) l.
(* cell runs: the k-th run of a row holds value k+1 (first) / k+3 (second), style 0 / 1 *)
Definition small_cells : list rruns :=
  [] :: flat_map (fun n1 : nat => [(n1, (1, 0))] :: map (fun n2 : nat => [(n1, (1, 0)); (n2, (2, 1))]) [1%nat; 2%nat]) [1%nat; 2%nat].
Definition small_rowruns : list (nat * rowx) :=
  flat_map (fun n : nat => map (fun cs => (n, (0, cs))) small_cells) [1%nat; 2%nat].
Definition small_cols : list (list (nat * Z)) := [[]; [(1%nat, 0)]; [(2%nat, 0); (1%nat, 1)]; [(4%nat, 0)]].
(* only tables whose rows fit the declared columns (C07: an invariant of every history) *)
Definition small_tables : list tstate :=
  filter fits (flat_map (fun cs => map (fun rs => {| cols := cs; rows := rs |}) (lists_upto2 small_rowruns)) small_cols).

Definition zs : list Z := [-1; 0; 1; 2; 3; 4].
Definition ozs : list (option Z) := None :: map Some zs.
Definition bools := [true; false].
Definition pairs {A B} (a : list A) (b : list B) : list (A * B) := flat_map (fun x => map (fun y => (x, y)) b) a.
Definition small_getters : list getter :=
  flat_map (fun xy : Z * Z => flat_map (fun cl => map (fun kp => GGetCell (fst xy) (snd xy) cl kp) bools) bools) (pairs zs zs)
  ++ flat_map (fun y => map (fun cl => GGetRow y cl) bools) zs
  ++ GGetCells None :: map (fun a : (Z * Z) * (Z * Z) => GGetCells (Some (fst (fst a), snd (fst a), fst (snd a), snd (snd a)))) (pairs (pairs zs zs) (pairs zs zs))
  ++ [GCellsP; GGetRows None; GGetColumns None]
  ++ map (fun a : Z * Z => GGetRows (Some a)) (pairs zs zs)
  ++ map (fun a : option Z * option Z => GTraverse (fst a) (snd a)) (pairs ozs ozs)
  ++ map GGetColumn zs
  ++ map (fun a : Z * Z => GGetColumns (Some a)) (pairs zs zs)
  ++ map (fun a : option Z * option Z => GTraverseColumns (fst a) (snd a)) (pairs ozs ozs)
  ++ map GColumnCells zs
  ++ flat_map (fun yx : Z * Z => flat_map (fun rcl => map (fun cl => GRowGetCell (fst yx) rcl (snd yx) cl) bools) bools) (pairs zs zs)
  ++ flat_map (fun y => flat_map (fun rcl => map (fun a : option Z * option Z => GRowTraverse y rcl (fst a) (snd a)) (pairs ozs ozs)) bools) zs
  ++ flat_map (fun y => map (fun rcl => GRowCells y rcl) bools) zs.

(* the code as it is against the reading it implements; against the documented reading; the candidate repair of F30 *)
Definition holdsb (pad_model pad_spec : bool) (t : tstate) (q : getter) : bool :=
  meets (promises_copy q) (expands q) (m_get false pad_model t q) (spec_get pad_spec (abs_t t) q).

Lemma small_scope_as_stored_computed : forallb (fun t => forallb (holdsb false false t) small_getters) small_tables = true.
Proof. vm_compute. reflexivity. Qed.
Lemma small_scope_documented_computed :
  forallb (fun t => forallb (fun q => is_area_get_cells q || holdsb false true t q) small_getters) small_tables = true.
Proof. vm_compute. reflexivity. Qed.
Lemma small_scope_padded_computed : forallb (fun t => forallb (holdsb true true t) small_getters) small_tables = true.
Proof. vm_compute. reflexivity. Qed.

Theorem small_scope_as_stored : forall t q, In t small_tables -> In q small_getters -> C08_holds_as_stored t q.
Proof.
  intros t q Ht Hq. pose proof small_scope_as_stored_computed as H.
  rewrite forallb_forall in H. specialize (H t Ht). rewrite forallb_forall in H. exact (H q Hq).
Qed.
Theorem small_scope : forall t q, In t small_tables -> In q small_getters -> is_area_get_cells q = false -> C08_holds t q.
Proof.
  intros t q Ht Hq Hn. pose proof small_scope_documented_computed as H.
  rewrite forallb_forall in H. specialize (H t Ht). rewrite forallb_forall in H. specialize (H q Hq).
  rewrite Hn in H. exact H.
Qed.
Theorem small_scope_padded : forall t q, In t small_tables -> In q small_getters -> C08_holds_padded t q.
Proof.
  intros t q Ht Hq. pose proof small_scope_padded_computed as H.
  rewrite forallb_forall in H. specialize (H t Ht). rewrite forallb_forall in H. exact (H q Hq).
Qed.
Lemma small_scope_size : (length small_tables, length small_getters) = (396%nat, 2382%nat).
Proof. vm_compute. reflexivity. Qed.
