(* TableBproof3.v — layer B, part 3: the primitives the mutators are made of.  Each one, started from a coherent
   state, (i) computes the same XML as its layer-A counterpart of Table.v (which recomputes every map), and
   (ii) leaves maps and caches coherent: the incremental map updates ARE make_cache_map of the new XML, and every
   cache that survives still describes the XML. *)
From Coq Require Import List ZArith Lia Bool Arith.
Import ListNotations.
Require Import Vault Vaultproof Vaultproof2 Vaultproof3 Vaultproof4 Row Table Grid Tableabs Tableproof Tableproof2 Tableproof3 Tableproof4
               Tableproof5 Tableproof6 Tableproof7 TableB TableBabs TableBproof.
Open Scope Z_scope.

(* ---- maps ---- *)
Lemma app_map_cmap {A} (v : runs A) rep a : app_map (cmap v) rep = cmap (v ++ [(rep, a)]).
Proof.
  unfold app_map. rewrite cmap_length. rewrite (insert_map_once_cmap v (length v) rep a) by lia.
  now rewrite firstn_all, skipn_all.
Qed.
Lemma cmap_from_reps {A B} (v : runs A) (v' : runs B) acc : map fst v = map fst v' -> cmap_from acc v = cmap_from acc v'.
Proof.
  revert v' acc; induction v as [|[n a] v IH]; intros [|[n' a'] v'] acc H; try discriminate; [reflexivity|].
  cbn [map fst] in H. inversion H; subst. cbn [cmap_from]. f_equal. now apply IH.
Qed.
Lemma cmap_reps {A B} (v : runs A) (v' : runs B) : map fst v = map fst v' -> cmap v = cmap v'.
Proof. apply cmap_from_reps. Qed.
Lemma cmap_map_rows f rs : cmap (map_rows f rs) = cmap rs.
Proof. apply cmap_reps. unfold map_rows. rewrite map_map. reflexivity. Qed.

(* ---- set_nth ---- *)
Lemma nth_error_set_nth_same {A} i (x : A) l : (i < length l)%nat -> nth_error (set_nth i x l) i = Some x.
Proof.
  intros Hi. unfold set_nth. rewrite nth_error_app2 by (rewrite firstn_length; lia).
  rewrite firstn_length, Nat.min_l by lia. now rewrite Nat.sub_diag.
Qed.
Lemma nth_error_set_nth_other {A} i k (x : A) l : k <> i -> (i < length l)%nat -> nth_error (set_nth i x l) k = nth_error l k.
Proof.
  unfold set_nth. revert i k; induction l as [|a l IH]; intros i k Hk Hi; [cbn [length] in Hi; lia|].
  destruct i as [|i]; destruct k as [|k]; try lia; cbn [firstn skipn app nth_error]; [reflexivity|reflexivity|].
  apply IH; [lia|cbn [length] in Hi; lia].
Qed.
Lemma map_fst_set_nth {A} i n (b b' : A) (v : runs A) : nth_error v i = Some (n, b) -> map fst (set_nth i (n, b') v) = map fst v.
Proof.
  intros H. rewrite (firstn_skipn_nth_error v i (n, b) H) at 2. unfold set_nth. rewrite !map_app. reflexivity.
Qed.
Lemma length_set_nth {A} i (x : A) l : (i < length l)%nat -> length (set_nth i x l) = length l.
Proof. intros Hi. unfold set_nth. rewrite app_length, firstn_length. cbn [length]. rewrite skipn_length. lia. Qed.

(* set_item on an unrepeated run replaces it *)
Lemma set_item_unrepeated {A} (v : runs A) y i b x : wf v -> 0 <= y < Z.of_nat (width v) ->
  find_idx (cmap v) y = Some i -> nth_error v i = Some (1%nat, b) ->
  set_item y (1%nat, x) v (cmap v) = Some (set_nth i (1%nat, x) v).
Proof.
  intros Hwf Hy Hf Hn. destruct (locate _ v y Hwf Hy) as (i' & n & b' & Hf' & Hn' & Hi & Hbef & Hcur & Hr).
  rewrite Hf in Hf'. inversion Hf'; subst i'. rewrite Hn in Hn'. inversion Hn'; subst n b'.
  unfold set_item. rewrite Hf, Hn, Hbef, Hcur. cbn [fst].
  set (L := Z.of_nat (length (expand (firstn i v)))) in *.
  assert (Hy' : y = L) by lia.
  destruct (Z.leb_spec 1 (y - (-1 + L + 1))); [lia|].
  replace (Z.to_nat (-1 + L + Z.of_nat 1 - (-1 + L) - (y - (-1 + L + 1)))) with 1%nat by lia.
  unfold set_nth. cbn [drop_pos Nat.leb Nat.sub]. destruct (skipn (S i) v); reflexivity.
Qed.

(* ---- wrappers and caches when the XML changes elsewhere ---- *)
Lemma wrap_ok_ext t t' kw : nth_error (rows t') (fst kw) = nth_error (rows t) (fst kw) -> wrap_ok t kw -> wrap_ok t' kw.
Proof. intros He (rep & st & cs & Hn & H). exists rep, st, cs. rewrite He. auto. Qed.
Lemma Forall_wrap_ok_ext t t' l : (forall k, (k < length (rows t))%nat -> nth_error (rows t') k = nth_error (rows t) k) ->
  Forall (wrap_ok t) l -> Forall (wrap_ok t') l.
Proof.
  intros He H. eapply Forall_impl; [|exact H]. intros kw Hk. apply (wrap_ok_ext t t' kw); [|exact Hk].
  apply He. destruct Hk as (rep & st & cs & Hn & _). apply nth_error_Some. congruence.
Qed.
Lemma keys_ok_zero l m : keys_ok 0 l -> keys_ok m l.
Proof. apply keys_ok_mono. lia. Qed.

(* ---- append_column / _update_width ---- *)
Lemma b_append_column_spec rep st b : CohM b ->
  ax (b_append_column rep st b) = t_append_column rep st (ax b) /\ CohM (b_append_column rep st b).
Proof.
  intros (Ht & Hc & Htc & Hcc). split; [reflexivity|].
  unfold CohM, b_append_column, t_append_column; cbn [ax tmapB cmapB tcache ccache cols rows].
  split; [exact Ht|]. split; [rewrite Hc; apply app_map_cmap|]. split; [exact Htc|].
  eapply keys_ok_mono; [|exact Hcc]. rewrite app_length. lia.
Qed.
Lemma b_update_width_spec w b : CohM b ->
  ax (b_update_width w b) = update_width w (ax b) /\ CohM (b_update_width w b).
Proof.
  intros Hm. unfold b_update_width, update_width, append_column. rewrite (bwidth_coh b Hm).
  destruct (0 <? w - twidth (ax b)); [apply b_append_column_spec; exact Hm|auto].
Qed.

(* ---- append_row ---- *)
Lemma b_append_row_spec rep r b : CohM b ->
  ax (b_append_row rep r b) = append_row rep r (ax b) /\ CohM (b_append_row rep r b).
Proof.
  intros (Ht & Hc & Htc & Hcc). unfold b_append_row, append_row. cbn [cols rows ax tmapB cmapB tcache ccache].
  assert (Hext : forall cs', Forall (wrap_ok {| cols := cs'; rows := rows (ax b) ++ [(rep, r)] |}) (tcache b)).
  { intros cs'. apply (Forall_wrap_ok_ext (ax b)); [|exact Htc]. intros k Hk. cbn [rows]. now rewrite nth_error_app1. }
  destruct (cols (ax b)) as [|c0 cs0] eqn:Ec.
  - apply b_update_width_spec. unfold CohM; cbn [ax tmapB cmapB tcache ccache cols rows].
    repeat split; auto. apply (keys_ok_zero _ 1). exact Hcc.
  - apply b_update_width_spec. unfold CohM; cbn [ax tmapB cmapB tcache ccache cols rows].
    split; [rewrite Ht; apply app_map_cmap|]. split; [exact Hc|]. split; [apply Hext|exact Hcc].
Qed.

(* ---- the row vault: set_row / insert_row / delete_row ---- *)
Lemma CohM_rows_replaced b rs m : CohM b -> m = cmap rs ->
  CohM {| ax := {| cols := cols (ax b); rows := rs |}; tmapB := m; cmapB := cmapB b; tcache := []; ccache := ccache b |}.
Proof. intros (Ht & Hc & Htc & Hcc) Hm. unfold CohM; cbn [ax tmapB cmapB tcache ccache cols rows]. repeat split; auto. Qed.

Lemma b_set_row_spec y rep r b : Coh b -> 0 <= y -> (1 <= rep)%nat ->
  exists b', b_set_row y rep r b = Some b' /\ set_row y rep r (ax b) = Some (ax b') /\ CohM b'.
Proof.
  intros [[[Hwr Hwc] Hcw] Hm] Hy Hrep. unfold b_set_row, set_row. rewrite (bheight_coh b Hm).
  destruct (Z.eqb_spec (y - theight (ax b)) 0) as [E0|E0].
  - eexists; split; [reflexivity|].
    destruct (b_append_row_spec rep r b Hm) as [Ha Hc1]. destruct (b_update_width_spec (roww r) _ Hc1) as [Hu Hc2].
    rewrite Hu, Ha. auto.
  - destruct (Z.ltb_spec 0 (y - theight (ax b))) as [Egt|Ele].
    + eexists; split; [reflexivity|].
      destruct (b_append_row_spec (Z.to_nat (y - theight (ax b))) empty_row b Hm) as [Ha0 Hc0].
      destruct (b_append_row_spec rep r _ Hc0) as [Ha Hc1]. destruct (b_update_width_spec (roww r) _ Hc1) as [Hu Hc2].
      rewrite Hu, Ha, Ha0. auto.
    + pose proof Hm as (Ht & _). rewrite Ht.
      assert (Hin : 0 <= y < Z.of_nat (width (rows (ax b)))) by (unfold theight in *; lia).
      destruct (set_map_correct y (rep, r) (rows (ax b)) Hwr Hin Hrep) as (v' & Hs & Hmp). cbn [fst] in Hmp.
      rewrite Hs, Hmp. eexists; split; [reflexivity|].
      destruct (b_update_width_spec (roww r) _ (CohM_rows_replaced b v' (cmap v') Hm eq_refl)) as [Hu Hc2].
      rewrite Hu. auto.
Qed.

Lemma b_insert_row_spec y rep r b : Coh b -> 0 <= y -> (1 <= rep)%nat ->
  exists b', b_insert_row y rep r b = Some b' /\ insert_row y rep r (ax b) = Some (ax b') /\ CohM b'.
Proof.
  intros [[[Hwr Hwc] Hcw] Hm] Hy Hrep. unfold b_insert_row, insert_row. rewrite (bheight_coh b Hm).
  destruct (Z.ltb_spec (y - theight (ax b)) 0) as [Elt|Ege].
  - pose proof Hm as (Ht & _). rewrite Ht.
    assert (Hin : 0 <= y < Z.of_nat (width (rows (ax b)))) by (unfold theight in *; lia).
    destruct (insert_map_correct y (rep, r) (rows (ax b)) Hwr Hin) as (v' & Hs & Hmp). cbn [fst] in Hmp.
    rewrite Hs, Hmp. eexists; split; [reflexivity|].
    destruct (b_update_width_spec (roww r) _ (CohM_rows_replaced b v' (cmap v') Hm eq_refl)) as [Hu Hc2].
    rewrite Hu. auto.
  - destruct (Z.eqb_spec (y - theight (ax b)) 0) as [E0|E0].
    + eexists; split; [reflexivity|].
      destruct (b_append_row_spec rep r b Hm) as [Ha Hc1]. destruct (b_update_width_spec (roww r) _ Hc1) as [Hu Hc2].
      rewrite Hu, Ha. auto.
    + eexists; split; [reflexivity|].
      destruct (b_append_row_spec (Z.to_nat (y - theight (ax b))) empty_row b Hm) as [Ha0 Hc0].
      destruct (b_append_row_spec rep r _ Hc0) as [Ha Hc1]. destruct (b_update_width_spec (roww r) _ Hc1) as [Hu Hc2].
      rewrite Hu, Ha, Ha0. auto.
Qed.

Lemma b_delete_row_spec y b : Coh b -> 0 <= y ->
  exists b', b_delete_row y b = Some b' /\ delete_row y (ax b) = Some (ax b') /\ CohM b'.
Proof.
  intros [[[Hwr Hwc] Hcw] Hm] Hy. unfold b_delete_row, delete_row. rewrite (bheight_coh b Hm).
  destruct (Z.leb_spec (theight (ax b)) y) as [Hout|Hin]; [exists b; auto|].
  pose proof Hm as (Ht & _). rewrite Ht.
  assert (Hin' : 0 <= y < Z.of_nat (width (rows (ax b)))) by (unfold theight in *; lia).
  destruct (delete_map_correct y (rows (ax b)) Hwr Hin') as (v' & Hs & Hmp).
  rewrite Hs, Hmp. eexists; split; [reflexivity|]. split; [reflexivity|].
  apply (CohM_rows_replaced b v' (cmap v') Hm eq_refl).
Qed.
