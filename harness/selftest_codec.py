"""Self-test of the C06 / C18 checks: seeded mutations of the scratch implementation must each be reported as a VIOLATION with
a replay that reproduces; behaviour-preserving rewrites must stay silent.  Not a registered check.

usage: ODFDO_REPO=<scratch worktree with the fixes applied> /venv/bin/python harness/selftest_codec.py [C06|C18] [name-substring]
Every file touched is restored from the text read before the edit."""
import os, re, subprocess, sys
from pathlib import Path

ROOT = Path(__file__).resolve().parent.parent
REPO = Path(os.environ.get("ODFDO_REPO", ""))
assert REPO.name and REPO != Path("/repo") and (REPO / "src/odfdo").is_dir(), "ODFDO_REPO must point to a scratch worktree"
S = "src/odfdo/"

DT = S + "datatype.py"; COL = S + "utils/color.py"; ET = S + "element_typed.py"; CELL = S + "cell.py"; META = S + "meta.py"; VAR = S + "variable.py"


BOOL_BLOCK = """        elif isinstance(value, bool):
            if value_type is None:
                value_type = "boolean"
            if text is None:
                text = "true" if value else "false"
            value = Boolean.encode(value)
"""
NUM_BLOCK = """        elif isinstance(value, (int, float, Decimal)):
            if value_type == "percentage":
                text = f"{int(value * 100)} %"
            if value_type is None:
                value_type = "float"
            if text is None:
                text = str(value)
            value = str(value)
"""
DATETIME_BLOCK = """        elif isinstance(value, datetime):
            if value_type is None:
                value_type = "date"
            if text is None:
                text = str(DateTime.encode(value))
            value = DateTime.encode(value)
"""
DATE_BLOCK = """        elif isinstance(value, date):
            if value_type is None:
                value_type = "date"
            if text is None:
                text = str(Date.encode(value))
            value = Date.encode(value)
"""

# (property, name, expect_violation, [(file, old, new), ...])
MUT = [
    ("C18", "encode: minutes computed before the %= (Appendix C)", True, [(DT,
        "        hours = microseconds / (60 * 60 * 1000000)\n        microseconds %= 60 * 60 * 1000000\n\n        minutes = microseconds / (60 * 1000000)\n",
        "        hours = microseconds / (60 * 60 * 1000000)\n        minutes = microseconds / (60 * 1000000)\n        microseconds %= 60 * 60 * 1000000\n\n")]),
    ("C18", "+00:00 not canonicalised to Z (Appendix C)", True, [(DT, 'if text.endswith("+00:00"):', 'if text.endswith("+00:00:"):')]),
    ("C18", "rgb2hex lower-case (Appendix C)", True, [(COL, 'f"#{code[0]:02X}{code[1]:02X}{code[2]:02X}"', 'f"#{code[0]:02x}{code[1]:02x}{code[2]:02x}"')]),
    ("C18", "hours rounded up only in the last second of an hour (3600n-1)", True, [(DT,
        "        hours = microseconds / (60 * 60 * 1000000)\n", "        hours = microseconds / (60 * 60 * 1000000) + 0.0003\n")]),
    ("C18", "decode: fraction not padded (PT1.5S -> 5 microseconds)", True, [(DT, '((fraction or "") + "000000")[:6]', '(fraction or "0")[:6]')]),
    ("C18", "decode: seconds digits optional in the pattern (PTS accepted)", True, [(DT, r"(?:(\d+)(?:\.(\d+))?S)?", r"(?:(\d*)(?:\.(\d+))?S)?")]),
    ("C18", "hex2rgb: green read from the wrong slice", True, [(COL, "green = int(code[2:4], 16)", "green = int(code[1:3], 16)")]),
    ("C18", "Boolean.decode case-insensitive (accepts True)", True, [(DT, '        if data == "true":\n            return True', '        if data.lower() == "true":\n            return True')]),
    ("C18", "negative durations: sign applied to the days only", True, [(DT, "        return -delta if sign else delta",
        "        return timedelta(days=-delta.days, seconds=delta.seconds) if sign else delta")]),
    ("C18", "Unit.__str__ back to str(Decimal) (exponent for 1E+5)", True, [(DT, 'return f"{self.value:f}{self.unit}"', 'return str(self.value) + self.unit')]),
    ("C18", "Unit(text) without the default unit (\"1.5\" gets an empty unit)", True, [(DT, "            unit = match.group(2) or unit", "            unit = match.group(2)")]),
    ("C18", "Duration.encode: fraction written with %d instead of %06d (1.05 s -> PT..01.50000S)", True, [(DT, "{microseconds % 1000000:06d}S", "{microseconds % 1000000:d}S")]),
    ("C18", "date / dateTime check accepts a space for the T (fromisoformat then reads it)", True, [(DT, 'r"(?:T\\d{2}:\\d{2}:\\d{2}(?:\\.\\d+)?', 'r"(?:[T ]\\d{2}:\\d{2}:\\d{2}(?:\\.\\d+)?')]),
    ("C18", "Boolean.encode: strings compared without lower() (\"True\" refused)", True, [(DT, '        if value is True or str(value).lower() == "true":', '        if value is True or str(value) == "true":')]),
    ("C18", "Unit.convert: centimetres divided by 2.5", True, [(DT, 'Decimal("2.54")', 'Decimal("2.5")')]),
    ("C18", "seeded C18-4: DateTime.encode behind functools.lru_cache (equal instants in other zones get the first string)", True, [(DT,
        "    @staticmethod\n    def encode(value: datetime) -> str:\n        text = value.isoformat()", "    @staticmethod\n    @__import__(\"functools\").lru_cache(maxsize=1024)\n    def encode(value: datetime) -> str:\n        text = value.isoformat()")]),
    ("C18", "REWRITE Duration.encode with divmod on integers", False, [(DT,
        "        hours = microseconds / (60 * 60 * 1000000)\n        microseconds %= 60 * 60 * 1000000\n\n        minutes = microseconds / (60 * 1000000)\n        microseconds %= 60 * 1000000\n\n        seconds = microseconds / 1000000\n",
        "        hours, microseconds = divmod(microseconds, 60 * 60 * 1000000)\n        minutes, microseconds = divmod(microseconds, 60 * 1000000)\n        seconds = microseconds // 1000000\n")]),
    ("C18", "REWRITE Date.encode through isoformat()[:10], rgb2hex through % formatting", False, [
        (DT, "            return value.date().isoformat()", "            return value.isoformat()[:10]"),
        (COL, 'f"#{code[0]:02X}{code[1]:02X}{code[2]:02X}"', '"#%02X%02X%02X" % tuple(code)')]),
    ("C06", "set_value_and_type: bool tested after int (Appendix C)", True, [(ET,
        BOOL_BLOCK.replace("        elif", "        if", 1) + NUM_BLOCK,
        NUM_BLOCK.replace("        elif", "        if", 1) + BOOL_BLOCK)]),
    ("C06", "set_value_and_type: date tested before datetime (Appendix C)", True, [(ET, DATETIME_BLOCK + DATE_BLOCK, DATE_BLOCK + DATETIME_BLOCK)]),
    ("C06", "Cell.value setter: int tested before bool (visible only for bool)", True, [(CELL,
        "        elif isinstance(value, bool):\n            self.bool = value\n        elif isinstance(value, Float):",
        "        elif isinstance(value, int):\n            self.int = value\n        elif isinstance(value, bool):\n            self.bool = value\n        elif isinstance(value, Float):")]),
    ("C06", "metadata: floats written with %f", True, [(META,
        "        elif isinstance(value, (int, float, Decimal)):\n            value_type = \"float\"\n            value = str(value)",
        "        elif isinstance(value, (int, float, Decimal)):\n            value_type = \"float\"\n            value = \"%f\" % value if isinstance(value, float) else str(value)")]),
    ("C06", "string-value stripped (white-space-laden strings only)", True, [(ET,
        '            self.set_attribute("office:string-value", value)', '            self.set_attribute("office:string-value", value.strip())')]),
    ("C06", "Cell.duration setter drops the sign (negative durations only)", True, [(CELL,
        "        dvalue = Duration.encode(value)\n        self.set_attribute(\"office:time-value\", dvalue)",
        "        dvalue = Duration.encode(abs(value))\n        self.set_attribute(\"office:time-value\", dvalue)")]),
    ("C06", "two sites + history: VarSet.set_value without clear and stale string-value kept", True, [
        (VAR, "        display = self.get_attribute(\"text:display\")\n        self.clear()\n        text = self.set_value_and_type(value=value)",
              "        display = self.get_attribute(\"text:display\")\n        text = self.set_value_and_type(value=value)"),
        (ET, '            "office:string-value",\n            "office:time-value",', '            "office:time-value",')]),
    ("C06", "_get_typed_value: date-value with an offset read through Date.decode of the first 19 characters", True, [(ET,
        '            if "T" in read_attribute:\n                return (DateTime.decode(read_attribute), value_type)',
        '            if "T" in read_attribute:\n                return (DateTime.decode(read_attribute[:19]), value_type)')]),
    ("C06", "seeded C06-2: meta:value-type written only for a new metadata entry (needs an overwrite of another type)", True, [(META,
        "            metadata.set_attribute(\"meta:name\", name)\n            self.get_meta_body().append(metadata)\n        metadata.set_attribute(\"meta:value-type\", value_type)\n",
        "            metadata.set_attribute(\"meta:name\", name)\n            metadata.set_attribute(\"meta:value-type\", value_type)\n            self.get_meta_body().append(metadata)\n")]),
    ("C06", "Cell.value setter: string property setter without clear() (stale value attributes of the previous type)", True, [(CELL,
        "        self.clear()\n        if value is None:\n            value_str = \"\"", "        if value is None:\n            value_str = \"\"")]),
    ("C06", "set_value_and_type: office:currency not removed (visible only over a currency cell through the raw call)", True, [(ET,
        '            "office:currency",\n            "calcext:value-type",', '            "calcext:value-type",')]),
    ("C06", "currency cells: office:currency not written", True, [(ET,
        '            self.set_attribute("office:value", value)\n            self.set_attribute("office:currency", currency)\n', '            self.set_attribute("office:value", value)\n')]),
    ("C06", "get_value(get_type=True) reports float for percentage and currency", True, [(ET,
        "            with contextlib.suppress(ValueError):\n                if int(value) == value:\n                    return (int(value), value_type)\n            return (value, value_type)",
        "            with contextlib.suppress(ValueError):\n                if int(value) == value:\n                    return (int(value), \"float\")\n            return (value, \"float\")")]),
    ("C06", "Row.set_value writes a cell repeated twice (a neighbour of the addressed cell changes)", True, [(S + "row.py",
        "            x,\n            Cell(value, style=style, cell_type=cell_type, currency=currency),\n", "            x,\n            Cell(value, style=style, cell_type=cell_type, currency=currency, repeated=2),\n")]),
    ("C06", "seeded C06-6: UserDefined(from_document) takes the metadata value with `or` (falsy document values lost)", True, [(VAR,
        "                if content is not None:\n                    value = content.get(\"value\", None)\n                    value_type = content.get(\"value_type\", None)\n                    text = content.get(\"text\", None)\n",
        "                if content:\n                    value = content.get(\"value\") or value\n                    value_type = content.get(\"value_type\") or value_type\n                    text = content.get(\"text\") or text\n")]),
    ("C06", "Meta.user_defined_metadata dict setter skips falsy values", True, [(META,
        "        for key, val in metadata.items():\n            self.set_user_defined_metadata(name=key, value=val)", "        for key, val in metadata.items():\n            if val:\n                self.set_user_defined_metadata(name=key, value=val)")]),
    ("C06", "VarGet constructor: `if value:` before set_value_and_type (falsy values not written)", True, [(VAR,
        "            text = self.set_value_and_type(\n                value=value, value_type=value_type, text=text\n            )\n            self.text = text  # type: ignore\n\n\nVarGet._define_attribut_property()",
        "            if value:\n                text = self.set_value_and_type(\n                    value=value, value_type=value_type, text=text\n                )\n            self.text = text  # type: ignore\n\n\nVarGet._define_attribut_property()")]),
    ("C06", "REWRITE Cell.set_value without clear() (the removal list of set_value_and_type does the work)", False, [(CELL,
        "        self.clear()\n        text = self.set_value_and_type(", "        text = self.set_value_and_type(")]),
    ("C06", "REWRITE str branch moved before datetime in set_value_and_type; set literal as tuple in Cell.value", False, [
        (ET, "        elif isinstance(value, datetime):\n            if value_type is None:\n                value_type = \"date\"\n            if text is None:\n                text = str(DateTime.encode(value))\n            value = DateTime.encode(value)\n",
             "        elif isinstance(value, str):\n            if value_type is None:\n                value_type = \"string\"\n            if text is None:\n                text = value\n        elif isinstance(value, datetime):\n            if value_type is None:\n                value_type = \"date\"\n            if text is None:\n                text = str(DateTime.encode(value))\n            value = DateTime.encode(value)\n"),
        (CELL, '        if value_type in {"float", "percentage", "currency"}:\n            value_decimal', '        if value_type in ("float", "percentage", "currency"):\n            value_decimal')]),
    ("C06", "REWRITE metadata bool through Boolean.encode; locals renamed", False, [
        (META, '            value = "true" if value else "false"', '            value = Boolean.encode(value)')]),
]


def run(cmd):
    e = dict(os.environ, ODFDO_REPO=str(REPO))
    p = subprocess.run(cmd, shell=True, cwd=ROOT, env=e, capture_output=True, text=True, timeout=1500)
    return p.returncode, p.stdout + p.stderr


def main():
    want_prop = sys.argv[1] if len(sys.argv) > 1 and sys.argv[1].startswith("C") else None
    sub = sys.argv[2] if len(sys.argv) > 2 else None
    results = []
    for prop, name, expect, edits in MUT:
        if want_prop and prop != want_prop: continue
        if sub and sub not in name: continue
        saved = {}
        try:
            for f, old, new in edits:
                p = REPO / f
                txt = saved.setdefault(f, p.read_text())
                cur = p.read_text()
                assert cur.count(old) == 1, "%s: pattern found %d times in %s" % (name, cur.count(old), f)
                p.write_text(cur.replace(old, new))
            rc, out = run("./check %s --quick" % prop)
            viol = re.findall(r"VIOLATION property=%s replay=(\S+)(.*)" % prop, out)
            if expect:
                ok = rc == 1 and viol and "no-failing-input-found" not in viol[0][1]
                rep = ""
                if ok:
                    rc2, out2 = run("./check %s --replay %s" % (prop, viol[0][0]))
                    ok = rc2 == 1 and "VIOLATION property=%s" % prop in out2
                    import json
                    d = json.load(open(viol[0][0])); rep = "%s | %s | %s" % (d.get("layer", "")[:40], d.get("input_class"), d.get("case"))
                results.append((prop, name, "CAUGHT+REPLAYED" if ok else "ESCAPED rc=%s %s" % (rc, out[-300:]), rep))
            else:
                ok = rc == 0 and not viol
                results.append((prop, name, "SILENT" if ok else "FALSE ALARM rc=%s %s" % (rc, out[-600:]), ""))
        finally:
            for f, txt in saved.items():
                (REPO / f).write_text(txt)
        print(results[-1]); sys.stdout.flush()
    bad = [r for r in results if not (r[2].startswith("CAUGHT") or r[2] == "SILENT")]
    print("%d scenarios, %d not as expected" % (len(results), len(bad)))
    return 1 if bad else 0


if __name__ == "__main__":
    sys.exit(main())
