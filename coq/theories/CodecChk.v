(* CodecChk.v — the checker evaluated by Coq on every correspondence case of C18.
   A case carries an input and what the implementation returned for it; [chk18] returns 0 when
   (i) the property's predicates, evaluated here on the implementation's outputs, hold and
   (ii) the implementation's outputs equal the model's.  Definitions only. *)
From Coq Require Import List ZArith NArith Bool Arith.
Import ListNotations.
Require Import Codec Typed CodecUnit.

Definition optZ_eq := optZ_eqb.
Definition optdt_eqb (a b : option dtime) : bool :=
  match a, b with None, None => true | Some x, Some y => dtime_eqb x y | _, _ => false end.
Definition optstr_eqb (a b : option str) : bool :=
  match a, b with None, None => true | Some x, Some y => str_eqb x y | _, _ => false end.
Definition rgb_eqb (a b : N * N * N) : bool :=
  let '(r, g, b1) := a in let '(r', g', b') := b in (r =? r')%N && (g =? g')%N && (b1 =? b')%N.
Definition optrgb_eqb (a b : option (N * N * N)) : bool :=
  match a, b with None, None => true | Some x, Some y => rgb_eqb x y | _, _ => false end.
Definition optbool_eqb (a b : option bool) : bool :=
  match a, b with None, None => true | Some x, Some y => Bool.eqb x y | _, _ => false end.

Definition optunit_eqb (a b : option (dec * str)) : bool :=
  match a, b with None, None => true | Some x, Some y => unit_eqb x y | _, _ => false end.
Definition optoptstr_eqb (a b : option (option str)) : bool :=
  match a, b with None, None => true | Some x, Some y => optstr_eqb x y | _, _ => false end.
Definition DT (y m d h mi s u : N) (z : option Z) : dtime := mkdt y m d h mi s u z.
(* the same instant and the same offset; Z and +00:00 both decode to offset 0 *)
Definition midnight (y m d : N) : dtime := mkdt y m d 0 0 0 0 None.

Definition whole_minute_tz (o : option Z) : bool := match o with None => true | Some z => (z mod 60000000 =? 0)%Z end.

Inductive ccase :=
| CDur (us : Z) (enc : str) (dec : option Z)          (* Duration.encode(timedelta(microseconds=us)) ; Duration.decode of that *)
| CDurDec (t : str) (out : option Z)                  (* Duration.decode(t); None = ValueError *)
| CBool (b : bool) (enc : str) (dec : option bool)
| CBoolDec (t : str) (out : option bool)
| CDate (y m d : N) (enc : str) (dec : option dtime)  (* Date.encode(date(y,m,d)) ; Date.decode of that *)
| CDateOfDt (d : dtime) (enc : str)                   (* Date.encode(datetime) *)
| CDt (d : dtime) (enc : str) (dec : option dtime)    (* DateTime.encode ; DateTime.decode of that *)
| CDtDec (t : str) (out : option dtime)               (* DateTime.decode(t) / Date.decode(t) on arbitrary text *)
| CRgb (r g b : Z) (enc : option str) (dec : option (N * N * N))   (* rgb2hex((r,g,b)) ; hex2rgb of that *)
| CHexDec (t : str) (out : option (N * N * N))
| CCss (name : str) (enc : option str) (dec : option (N * N * N))  (* rgb2hex(name) ; hex2rgb of that *)
| CHexa (i : hinput) (out : option (option str))       (* hexa_color(i): None = raised, Some None = returned None *)
| CUnitStr (d : dec) (u : str) (enc : str) (back : option (dec * str))   (* str(Unit(d, u)) ; Unit(that) as (value.as_tuple(), unit) *)
| CUnitDec (t : str) (out : option (dec * str))        (* Unit(t) *)
| CUnitFloat (r : str) (out : option dec)              (* Unit(float with repr r).value *)
| CUnitConv (d : dec) (u : str) (dpi : Z) (out : option Z)   (* Unit(d, u).convert("px", dpi).value, None = raised *)
| CBoolEnc (i : binput) (out : option str).            (* Boolean.encode on any argument *)

(* codes:  1 round trip / decoded value wrong   2 encoded string outside the lexical form   3 encoder differs from the model
           4 decoder differs from the model (accepts what it must reject, rejects what it must read, or another value)
   The property's own predicates (1, 2) are evaluated first, on the implementation's outputs alone; then the comparison with the model (3, 4). *)
Definition chk18 (css : list (str * (Z * Z * Z))) (c : ccase) : nat :=
  match c with
  | CDur us enc dec =>
      if negb (optZ_eqb dec (Some us)) then 1
      else if negb (dur_lexical enc) then 2
      else if negb (str_eqb enc (dur_encode us)) then 3
      else if negb (optZ_eqb dec (dur_decode enc)) then 4
      else 0
  | CDurDec t out =>
      match out with
      | Some v => if negb (dur_lexical t) then 2 else if optZ_eqb out (dur_decode t) then 0 else 1
      | None => if optZ_eqb out (dur_decode t) then 0 else 4
      end
  | CBool b enc dec =>
      if negb (optbool_eqb dec (Some b)) then 1
      else if negb (bool_lexical enc) then 2
      else if negb (str_eqb enc (bool_encode b)) then 3
      else if negb (optbool_eqb dec (bool_decode enc)) then 4 else 0
  | CBoolDec t out =>
      match out with
      | Some v => if negb (bool_lexical t) then 2 else if optbool_eqb out (bool_decode t) then 0 else 1
      | None => if optbool_eqb out (bool_decode t) then 0 else 4
      end
  | CDate y m d enc dec =>
      if negb (optdt_eqb dec (Some (midnight y m d))) then 1
      else if negb (date_lexical enc) then 2
      else if negb (str_eqb enc (date_encode y m d)) then 3
      else if negb (optdt_eqb dec (date_decode enc)) then 4 else 0
  | CDateOfDt d enc =>
      if negb (date_lexical enc) then 2
      else if negb (str_eqb enc (date_encode (yr d) (mo d) (dy d))) then 3 else 0
  | CDt d enc dec =>
      if negb (optdt_eqb dec (Some d)) then 1
      (* an offset with a seconds part has no xsd:dateTime form at all: outside the lexical claim, still compared with the model *)
      else if whole_minute_tz (tz d) && negb (datetime_lexical enc) then 2
      else if negb (str_eqb enc (datetime_encode d)) then 3
      else if negb (optdt_eqb dec (datetime_decode enc)) then 4 else 0
  | CDtDec t out =>
      match datetime_decode t, out with
      | Some v, Some w => if dtime_eqb v w then 0 else 1
      | Some _, None => 4
      | None, Some _ => 2      (* a string outside the ODF date / dateTime forms is given a value *)
      | None, None => 0
      end
  | CRgb r g b enc dec =>
      let inr := ((0 <=? r) && (r <=? 255) && (0 <=? g) && (g <=? 255) && (0 <=? b) && (b <=? 255))%Z in
      match enc with
      | None => if inr then 3 else 0
      | Some e =>
        if negb inr then 3
        else if negb (optrgb_eqb dec (Some (Z.to_N r, Z.to_N g, Z.to_N b))) then 1
        else if negb (color_lexical e) then 2
        else if negb (optstr_eqb enc (rgb2hex r g b)) then 3
        else if negb (optrgb_eqb dec (hex2rgb e)) then 4 else 0
      end
  | CHexDec t out =>
      match out with
      | Some v => if negb (color_lexical t) then 2 else if optrgb_eqb out (hex2rgb t) then 0 else 1
      | None => if optrgb_eqb out (hex2rgb t) then 0 else 4
      end
  | CCss name enc dec =>
      match enc with
      | None => if optstr_eqb enc (rgb2hex_name css name) then 0 else 3
      | Some e =>
        match lookup (map ascii_lower name) css with
        | Some (r, g, b) =>
          if negb (optrgb_eqb dec (Some (Z.to_N r, Z.to_N g, Z.to_N b))) then 1
          else if negb (color_lexical e) then 2
          else if negb (optstr_eqb enc (rgb2hex_name css name)) then 3
          else if negb (optrgb_eqb dec (hex2rgb e)) then 4 else 0
        | None => 3
        end
      end
  | CHexa i out =>
      match out with
      | Some (Some h) =>
          (* what is returned must be #rrggbb and denote the colour given *)
          if negb (color_lexical h) then 2
          else if negb (optrgb_eqb (hex2rgb h) (hexa_denotes css i)) then 1
          else if optoptstr_eqb out (hexa_color css i) then 0 else 3
      | _ => if optoptstr_eqb out (hexa_color css i) then 0 else 3
      end
  | CUnitStr d u enc back =>
      (* lengths compare by numeric value and unit (Unit.__eq__) *)
      if negb (match back with Some (d', u') => dec_num_eqb d d' && str_eqb u u' | None => false end) then 1
      else if negb (unit_lexical enc) then 2
      else if negb (str_eqb enc (unit_str d u)) then 3
      else if negb (optunit_eqb back (unit_parse enc)) then 4 else 0
  | CUnitFloat r out => match out, unit_of_float r with Some a, Some b => if dec_eqb a b then 0 else 3 | None, None => 0 | _, _ => 3 end
  | CUnitConv d u dpi out => match out, unit_convert_px d u dpi with Some a, Some b => if (a =? b)%Z then 0 else 3 | None, None => 0 | _, _ => 3 end
  | CBoolEnc i out =>
      match out with
      | Some t => if negb (bool_lexical t) then 2 else if optstr_eqb out (bool_encode_any i) then 0 else 3
      | None => if optstr_eqb out (bool_encode_any i) then 0 else 3
      end
  | CUnitDec t out =>
      match out with
      | Some v => if negb (unit_lexical t) then 2 else if optunit_eqb out (unit_parse t) then 0 else 1
      | None => if optunit_eqb out (unit_parse t) then 0 else 4
      end
  end.
