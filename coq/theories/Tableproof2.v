(* Tableproof2.v — Row-level mutators against plain list edits, and the cell mutators of the table
   (set_cell, insert_cell, append_cell, delete_cell): exactly row y of the grid is rewritten. *)
From Coq Require Import List ZArith Lia Bool Arith.
Import ListNotations.
Require Import Vault Vaultproof Row Table Grid Tableabs Tableproof.
Open Scope Z_scope.


Theorem row_set_cell_refines x (c : nat * cell) (cs : rruns) :
  wf cs -> 0 <= x -> (1 <= fst c)%nat ->
  exists cs', row_set_cell x c cs = Some cs' /\
    expand cs' = l_set empty_cell (Z.to_nat x) (fst c) (snd c) (expand cs) /\ wf cs'.
Proof.
  intros Hwf Hx Hc. destruct c as [rep cv]. cbn [fst snd] in *.
  unfold row_set_cell, rwidth, l_set. fold (width cs).
  destruct (Z.eqb_spec (x - Z.of_nat (width cs)) 0) as [E0|E0].
  - eexists; split; [reflexivity|]. split.
    + rewrite expand_app. cbn [expand]. rewrite app_nil_r.
      replace (Z.to_nat x) with (length (expand cs)) by (unfold width in E0; lia).
      rewrite Nat.sub_diag. cbn [repeat]. rewrite app_nil_r, firstn_all, skipn_all2 by lia. now rewrite app_nil_r.
    + apply Forall_app; split; [exact Hwf|]. constructor; [cbv beta; cbn [fst]; lia|constructor].
  - destruct (Z.ltb_spec 0 (x - Z.of_nat (width cs))) as [Egt|Ele].
    + eexists; split; [reflexivity|]. split.
      * rewrite expand_app. cbn [expand]. rewrite app_nil_r.
        set (d := Z.to_nat (x - Z.of_nat (width cs))).
        replace (Z.to_nat x - width cs)%nat with d by (unfold d; lia).
        rewrite firstn_all2 by (rewrite app_length, repeat_length; unfold d, width in *; lia).
        rewrite skipn_all2 by (unfold width in *; lia). rewrite app_nil_r, <- app_assoc. reflexivity.
      * apply Forall_app; split; [exact Hwf|]. constructor; [cbv beta; cbn [fst]; lia|]. constructor; [cbv beta; cbn [fst]; lia|constructor].
    + assert (Hin : 0 <= x < Z.of_nat (width cs)) by lia.
      destruct (set_item_refines x (rep, cv) cs Hwf Hin Hc) as (v' & Hs & He & Hw).
      rewrite Hs. eexists; split; [reflexivity|]. split; [|exact Hw].
      rewrite He. cbn [fst snd]. f_equal.
      replace (Z.to_nat x - width cs)%nat with 0%nat by lia.
      cbn [repeat]. now rewrite app_nil_r.
Qed.

(* ---- the run found through the map holds the logical item ---- *)
Lemma row_at_nth y t : wf (rows t) -> 0 <= y < theight t ->
  exists rep r, row_at y t = Some (rep, r) /\ nth_error (expand (rows t)) (Z.to_nat y) = Some r.
Proof.
  intros Hwf Hy. unfold theight in Hy. unfold row_at, find_idx, cmap.
  pose proof (bisect_spec (rows t) (-1) y Hwf ltac:(lia) ltac:(lia)) as Hs.
  cbv zeta in Hs. destruct Hs as (b & n & Hnth & Hrange & _ & _).
  set (i := bisect (cmap_from (-1) (rows t)) y) in *.
  assert (Hi : (i < length (rows t))%nat) by (apply nth_error_Some; congruence).
  rewrite cmap_from_length. destruct (Nat.ltb_spec i (length (rows t))); [|lia].
  exists n, b. split; [exact Hnth|].
  pose proof (firstn_skipn_nth_error (rows t) i (n, b) Hnth) as Hv.
  rewrite Hv at 1. rewrite expand_app. cbn [expand].
  set (L := length (expand (firstn i (rows t)))) in *.
  rewrite nth_error_app2 by (fold L; lia). fold L.
  rewrite nth_error_app1 by (rewrite repeat_length; lia).
  apply nth_error_repeat. lia.
Qed.

Lemma nth_error_expand_in {A} (v : list (nat * A)) p b : nth_error (expand v) p = Some b -> exists n, In (n, b) v.
Proof.
  revert p; induction v as [|[n a] v IH]; intros p H; [destruct p; discriminate|].
  cbn [expand] in H. destruct (Nat.ltb_spec p (length (repeat a n))) as [Hlt|Hge].
  - rewrite nth_error_app1 in H by exact Hlt. apply nth_error_In, repeat_spec in H. subst. exists n. now left.
  - rewrite nth_error_app2 in H by exact Hge. destruct (IH _ H) as [m Hm]. exists m. now right.
Qed.

Theorem set_cell_refines x y c t :
  twf t -> cwf t -> 0 <= x -> 0 <= y -> (1 <= fst c)%nat ->
  exists t', set_cell x y c t = Some t' /\ abs_t t' = g_set_cell x y c (abs_t t) /\ twf t'.
Proof.
  intros Htw Hcw Hx Hy Hc. unfold set_cell, g_set_cell, g_edit_row, g_row.
  destruct (Z.leb_spec (theight t) y) as [Hout|Hin].
  - (* beyond the table: a new row *)
    destruct (row_set_cell_refines x c [] ltac:(constructor) Hx Hc) as (cs' & Hs & He & Hw).
    rewrite Hs.
    destruct (set_row_refines y 1 (0, cs') t Htw Hy ltac:(lia)) as (t' & Hsr & Ha & Hw').
    exists t'. split; [exact Hsr|]. split; [|exact Hw'].
    rewrite Ha. f_equal. unfold grow_of. cbn [snd]. rewrite He. cbn [expand].
    rewrite nth_overflow; [reflexivity|].
    cbn [abs_t grows]. rewrite map_length. unfold theight, width in Hout. lia.
  - destruct (row_at_nth y t (proj1 Htw) ltac:(lia)) as (rep & r & Hra & Hnth).
    rewrite Hra. destruct r as [st cs].
    assert (Hwcs : wf cs).
    { destruct (nth_error_expand_in _ _ _ Hnth) as [n Hn].
      unfold cwf in Hcw. rewrite Forall_forall in Hcw. apply (Hcw _ Hn). }
    destruct (row_set_cell_refines x c cs Hwcs Hx Hc) as (cs' & Hs & He & Hw).
    rewrite Hs.
    destruct (set_row_refines y 1 (st, cs') t Htw Hy ltac:(lia)) as (t' & Hsr & Ha & Hw').
    exists t'. split; [exact Hsr|]. split; [|exact Hw'].
    rewrite Ha. f_equal. unfold grow_of. cbn [snd]. rewrite He. f_equal.
    cbn [abs_t grows]. 
    erewrite nth_error_nth; [reflexivity|]. rewrite nth_error_map, Hnth. reflexivity.
Qed.

Theorem row_insert_cell_refines x (c : nat * cell) (cs : rruns) :
  wf cs -> 0 <= x -> (1 <= fst c)%nat ->
  exists cs', row_insert_cell x c cs = Some cs' /\
    expand cs' = l_insert empty_cell (Z.to_nat x) (fst c) (snd c) (expand cs) /\ wf cs'.
Proof.
  intros Hwf Hx Hc. destruct c as [rep cv]. cbn [fst snd] in *.
  unfold row_insert_cell, rwidth, l_insert. fold (width cs).
  destruct (Z.ltb_spec (x - Z.of_nat (width cs)) 0) as [Ein|Eout].
  - assert (Hin : 0 <= x < Z.of_nat (width cs)) by lia.
    destruct (insert_item_refines x (rep, cv) cs Hwf Hin) as (v' & Hs & He & Hw).
    rewrite Hs. eexists; split; [reflexivity|]. split; [|apply Hw; exact Hc].
    rewrite He. cbn [fst snd]. f_equal.
    replace (Z.to_nat x - width cs)%nat with 0%nat by lia. cbn [repeat]. now rewrite app_nil_r.
  - destruct (Z.eqb_spec (x - Z.of_nat (width cs)) 0) as [E0|E0].
    + eexists; split; [reflexivity|]. split.
      * rewrite expand_app. cbn [expand]. rewrite app_nil_r.
        replace (Z.to_nat x) with (length (expand cs)) by (unfold width in E0; lia).
        fold (width cs). rewrite Nat.sub_diag. cbn [repeat]. rewrite app_nil_r.
        unfold width. rewrite firstn_all, skipn_all. now rewrite app_nil_r.
      * apply Forall_app; split; [exact Hwf|]. constructor; [cbv beta; cbn [fst]; lia|constructor].
    + eexists; split; [reflexivity|]. split.
      * rewrite expand_app. cbn [expand]. rewrite app_nil_r.
        set (d := Z.to_nat (x - Z.of_nat (width cs))).
        replace (Z.to_nat x - width cs)%nat with d by (unfold d; lia).
        rewrite firstn_all2 by (rewrite app_length, repeat_length; unfold d, width in *; lia).
        rewrite skipn_all2 by (unfold width in *; lia). rewrite app_nil_r, <- app_assoc. reflexivity.
      * apply Forall_app; split; [exact Hwf|]. constructor; [cbv beta; cbn [fst]; lia|].
        constructor; [cbv beta; cbn [fst]; lia|constructor].
Qed.

Theorem row_delete_cell_refines x (cs : rruns) :
  wf cs -> 0 <= x ->
  exists cs', row_delete_cell x cs = Some cs' /\ expand cs' = l_delete (Z.to_nat x) (expand cs) /\ wf cs'.
Proof.
  intros Hwf Hx. unfold row_delete_cell, rwidth, l_delete.
  destruct (Z.leb_spec (Z.of_nat (width cs)) x) as [Hout|Hin].
  - exists cs. split; [reflexivity|]. split; [|exact Hwf].
    rewrite firstn_all2, skipn_all2 by (unfold width in Hout; lia). now rewrite app_nil_r.
  - destruct (delete_item_refines x cs Hwf ltac:(lia)) as (v' & Hd & He & Hw).
    rewrite Hd. eexists; split; [reflexivity|]. split; assumption.
Qed.


Lemma base_row_spec y t : twf t -> cwf t -> 0 <= y ->
  exists st cs, base_row y t = Some (st, cs)
    /\ expand cs = g_row y (abs_t t) /\ wf cs.
Proof.
  intros Htw Hcw Hy. unfold base_row. destruct (Z.leb_spec (theight t) y) as [Hout|Hin].
  - exists 0, []. split; [reflexivity|]. split; [|constructor].
    unfold g_row. rewrite nth_overflow; [reflexivity|].
    cbn [abs_t grows]. rewrite map_length. unfold theight, width in Hout. lia.
  - destruct (row_at_nth y t (proj1 Htw) ltac:(lia)) as (rep & [st cs] & Hra & Hnth).
    rewrite Hra. exists st, cs. split; [reflexivity|]. split.
    + unfold g_row. cbn [abs_t grows]. erewrite nth_error_nth; [reflexivity|]. rewrite nth_error_map, Hnth. reflexivity.
    + destruct (nth_error_expand_in _ _ _ Hnth) as [n Hn].
      unfold cwf in Hcw. rewrite Forall_forall in Hcw. apply (Hcw _ Hn).
Qed.

Theorem insert_cell_refines x y c t :
  twf t -> cwf t -> 0 <= x -> 0 <= y -> (1 <= fst c)%nat ->
  exists t', t_insert_cell x y c t = Some t' /\ abs_t t' = g_insert_cell x y c (abs_t t) /\ twf t'.
Proof.
  intros Htw Hcw Hx Hy Hc. unfold t_insert_cell, g_insert_cell, g_edit_row.
  destruct (base_row_spec y t Htw Hcw Hy) as (st & cs & Hb & He & Hw). rewrite Hb.
  destruct (row_insert_cell_refines x c cs Hw Hx Hc) as (cs' & Hs & He' & Hw').
  rewrite Hs. destruct (set_row_refines y 1 (st, cs') t Htw Hy ltac:(lia)) as (t' & Hsr & Ha & Hwt).
  exists t'. split; [exact Hsr|]. split; [|exact Hwt].
  rewrite Ha. f_equal. unfold grow_of. cbn [snd]. rewrite He', He. reflexivity.
Qed.

Theorem append_cell_refines y c t :
  twf t -> cwf t -> 0 <= y ->
  exists t', t_append_cell y c t = Some t' /\ abs_t t' = g_append_cell y c (abs_t t) /\ twf t'.
Proof.
  intros Htw Hcw Hy. unfold t_append_cell, g_append_cell, g_edit_row.
  destruct (base_row_spec y t Htw Hcw Hy) as (st & cs & Hb & He & Hw). rewrite Hb.
  destruct (set_row_refines y 1 (st, cs ++ [c]) t Htw Hy ltac:(lia)) as (t' & Hsr & Ha & Hwt).
  exists t'. split; [exact Hsr|]. split; [|exact Hwt].
  rewrite Ha. f_equal. unfold grow_of. cbn [snd]. rewrite expand_app, He. destruct c. cbn [expand fst snd]. now rewrite app_nil_r.
Qed.

Theorem delete_cell_refines x y t :
  twf t -> cwf t -> 0 <= x -> 0 <= y ->
  exists t', t_delete_cell x y t = Some t' /\ abs_t t' = g_delete_cell x y (abs_t t) /\ twf t'.
Proof.
  intros Htw Hcw Hx Hy. unfold t_delete_cell, g_delete_cell, g_edit_row.
  rewrite gheight_abs.
  destruct (Z.leb_spec (theight t) y) as [Hout|Hin].
  - exists t. repeat split; auto; apply Htw.
  - destruct (base_row_spec y t Htw Hcw Hy) as (st & cs & Hb & He & Hw).
    unfold base_row in Hb.
    destruct (Z.leb_spec (theight t) y); [lia|].
    destruct (row_at y t) as [[rep [st' cs'']]|] eqn:Era; [|discriminate]. inversion Hb; subst.
    destruct (row_delete_cell_refines x cs Hw Hx) as (cs' & Hs & He' & Hw').
    rewrite Hs. destruct (set_row_refines y 1 (st, cs') t Htw Hy ltac:(lia)) as (t' & Hsr & Ha & Hwt).
    exists t'. split; [exact Hsr|]. split; [|exact Hwt].
    rewrite Ha. f_equal. unfold grow_of. cbn [snd]. rewrite He', He. reflexivity.
Qed.
