(* hence: the getters return the same cells for the string form and the tuple form of an address *)
From Coq Require Import List ZArith Lia Bool.
Import ListNotations.
Require Import Coord Coordproof1 Coordproof2 Coordproof3.
Open Scope Z_scope.

Theorem same_cells (w : Z) (g : grid) (row : list cellv) x y z t : 0 <= x -> 0 <= y -> 0 <= z -> 0 <= t ->
  exists s a c col, print_cell x y = Some s /\ print_area x y z t = Some a /\ print_cols x z = Some c /\ print_col x = Some col /\
    table_get_cell w g (CStr s) = table_get_cell w g (CTup [Some x; Some y]) /\
    table_get_cell w g (CStr a) = table_get_cell w g (CTup [Some x; Some y]) /\
    table_get_cells w g (Some (CStr a)) = table_get_cells w g (Some (CTup [Some x; Some y; Some z; Some t])) /\
    table_get_values w g (Some (CStr a)) = table_get_values w g (Some (CTup [Some x; Some y; Some z; Some t])) /\
    table_get_cells w g (Some (CStr (print_rows y t))) = table_get_cells w g (Some (CTup [Some y; Some t])) /\
    table_get_values w g (Some (CStr (print_rows y t))) = table_get_values w g (Some (CTup [Some y; Some t])) /\
    table_get_row w g (AStr (print_row y)) = table_get_row w g (AInt y) /\
    table_get_row w g (AStr s) = table_get_row w g (AInt y) /\
    table_get_column w g (AStr col) = table_get_column w g (AInt x) /\
    table_get_column w g (AStr s) = table_get_column w g (AInt x) /\
    row_get_values row (Some (CStr c)) = row_get_values row (Some (CTup [Some x; Some z])) /\
    row_get_cell row (AStr col) = row_get_cell row (AInt x).
Proof.
  intros Hx Hy Hz Ht.
  destruct (forms_cell w (lenZ g) x y z t Hx Hy Hz Ht) as (s & a & Hps & Hpa & C1 & C2 & C3 & _).
  destruct (forms_table_area w (lenZ g) x y z t Hx Hy Hz Ht) as (a' & Hpa' & Hane & T1 & T2 & _).
  rewrite Hpa in Hpa'. inversion Hpa'; subst a'.
  destruct (forms_table_rows w (lenZ g) y t Hy Ht) as (Hrne & R1 & R2 & _).
  destruct (forms_row (lenZ row) x z Hx Hz) as (c & Hpc & W1 & W2 & _).
  destruct (forms_any (lenZ g) x y Hx Hy) as (col & s' & Hpcol & Hps' & _ & _ & _ & A4 & A5 & A6).
  destruct (forms_any w x y Hx Hy) as (col' & s'' & Hpcol' & Hps'' & B1 & B2 & B3 & _).
  destruct (forms_any (lenZ row) x y Hx Hy) as (col'' & s''' & Hpcol'' & _ & D1 & D2 & _).
  rewrite Hps in Hps', Hps''. inversion Hps'; subst s'. inversion Hps''; subst s''. rewrite Hpcol in Hpcol', Hpcol''. inversion Hpcol'; subst col'. inversion Hpcol''; subst col''.
  assert (Hcne : c <> []).
  { destruct (forms_column_cols w (lenZ g) x z Hx Hz) as (c' & Hpc' & Hne & _). rewrite Hpc in Hpc'. inversion Hpc'; subst. exact Hne. }
  exists s, a, c, col. repeat (split; [assumption|]).
  unfold table_get_cell, table_get_cells, table_get_values, table_quad, table_get_row, table_get_column, row_get_values, row_get_cell, opt_coord.
  rewrite !truthy_str by assumption. cbn [truthy].
  rewrite C1, C2, C3, T1, T2, R1, R2, W1, W2, A4, A5, A6, B1, B2, B3, D1, D2. repeat split.
Qed.
