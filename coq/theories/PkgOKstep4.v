(* PkgOKstep4.v — C04_full: PkgOK and AllGood preserved by every operation of the history alphabet, hence along histories;
   zip shape of every package written from a reachable state *)
From Coq Require Import List ZArith Bool Arith Lia.
Import ListNotations.
Require Import Package PkgManproof PkgZipproof PkgOKproof Pkgproof Pkgproof2 Pkgproof3 Pkgproof4 Pkgproof5
               PkgStepWF PkgStepWF2 PkgStepWF3 PkgStepWF4 PkgOKstep PkgOKstep2 PkgOKstep3.
Open Scope Z_scope.

Section O4.
Variable xml bytes kid : Type.
Variable ser : xml -> bytes.
Variable par : bytes -> xml.
Variable pretty stamp : xml -> xml.
Variable entries : xml -> mentries.
Variable with_entries : mentries -> xml -> xml.
Variable kids : xml -> list kid.
Variable mime : bytes -> mtype.
Variable mime_bytes : mtype -> bytes.
Variable rdf0 : bytes.
Hypothesis par_ser : forall x, par (ser x) = x.
Hypothesis entries_with : forall es x, entries (with_entries es x) = es.
Hypothesis entries_pretty : forall x, entries (pretty x) = entries x.
Hypothesis mime_mime_bytes : forall m, mime (mime_bytes m) = m.
Notation container := (container bytes).
Notation document := (document xml bytes).
Notation fsys := (fsys bytes kid).
Notation cB := (cB bytes kid).
Notation WFc := (WFc bytes kid).
Notation dB := (dB xml bytes kid).
Notation dX := (dX xml bytes kid par).
Notation WFd := (WFd xml bytes kid).
Notation FsOK := (FsOK bytes kid).
Notation SInv := (SInv xml bytes kid).
Notation disk_lookup := (disk_lookup bytes kid).
Notation disk_entries := (disk_entries bytes kid).
Notation d_tree := (d_tree xml bytes kid par FIXED).
Notation PkgOK := (PkgOK xml bytes kid par entries mime).
Notation AllGood := (AllGood xml bytes kid par entries mime).
Notation files := (files xml bytes kid).
Notation step := (step xml bytes kid ser par pretty stamp entries with_entries kids mime mime_bytes rdf0 FIXED).
Notation run := (run xml bytes kid ser par pretty stamp entries with_entries kids mime mime_bytes rdf0 FIXED).
Notation d_save := (d_save xml bytes kid ser par pretty stamp entries kids mime rdf0 FIXED).
Notation ser_loop := (ser_loop xml bytes kid ser par pretty FIXED).
Notation check_rdf := (check_rdf xml bytes kid par entries rdf0 FIXED).
Notation c_save := (c_save xml bytes kid par kids mime FIXED).

(* ---------- what an opened document holds: the members of the file ---------- *)
Lemma fold_load_lookup : forall (l : list (name * bytes)) (c : container) n, NoDup (map fst l) ->
  lookup n (parts _ (fold_left (fun c e => c_load bytes (fst e) (snd e) c) l c)) =
  match lookup n l with Some b => Some (Some b) | None => lookup n (parts _ c) end.
Proof.
  induction l as [|[k v] l IH]; intros c n Hn; cbn [fold_left lookup fst snd]; [reflexivity|].
  inversion Hn; subst. rewrite IH by assumption. unfold c_load at 1. cbn [parts]. rewrite lookup_upsert.
  destruct (n =? k) eqn:E; [|reflexivity]. apply Z.eqb_eq in E. subst k.
  rewrite (not_in_keys_lookup n l H1). reflexivity.
Qed.

Lemma fold_load_path : forall (l : list (name * bytes)) (c : container),
  cpath _ (fold_left (fun c e => c_load bytes (fst e) (snd e) c) l c) = cpath _ c.
Proof. induction l as [|e l IH]; intros c; cbn [fold_left]; [reflexivity|]. rewrite IH. reflexivity. Qed.

Lemma open_obs : forall (fs : fsys) p b (c : container), FsOK fs -> c_open bytes kid fs p b = Some c ->
  forall n, dB fs (mkD c []) n = lookup n (file_entries bytes kid (lookup p fs)).
Proof.
  intros fs p b c F H n. unfold Package.c_open in H. unfold Pkgproof.dB, Pkgproof.cB. cbn [cont].
  destruct (lookup p fs) as [[es|es|m ks]|] eqn:Lp; try discriminate.
  - destruct (lookup MIMETYPE (zip_plain _ es)) as [mb|] eqn:Lm; [|discriminate]. inversion H; subst c; clear H.
    cbn [file_entries]. destruct b.
    + assert (Hn : NoDup (map fst (zip_plain _ es))) by (apply (F p); unfold Package.disk_entries; rewrite Lp; reflexivity).
      rewrite fold_load_lookup by exact Hn. rewrite fold_load_path. cbn [parts cpath lookup].
      destruct (lookup n (zip_plain _ es)) as [v|] eqn:Ln; [reflexivity|].
      destruct (n =? MIMETYPE) eqn:E; [apply Z.eqb_eq in E; subst; congruence|reflexivity].
    + cbn [parts cpath lookup]. unfold Package.disk_lookup, Package.disk_entries. rewrite Lp.
      destruct (n =? MIMETYPE) eqn:E; [apply Z.eqb_eq in E; subst; symmetry; exact Lm|reflexivity].
  - destruct b; [discriminate|]. inversion H; subst c. cbn [parts cpath lookup file_entries].
    unfold Package.disk_lookup, Package.disk_entries. rewrite Lp. reflexivity.
Qed.

Lemma open_obs_X : forall (fs : fsys) p b (c : container), FsOK fs -> c_open bytes kid fs p b = Some c ->
  forall n, dX fs (mkD c []) n = match lookup n (file_entries bytes kid (lookup p fs)) with Some v => Some (par v) | None => None end.
Proof. intros fs p b c F H n. unfold Pkgproof.dX. cbn [xps lookup]. rewrite (open_obs fs p b c F H n). reflexivity. Qed.

(* files other than the one written keep opening the same way *)
Lemma open_other : forall (fs : fsys) q f p b, p <> q -> c_open bytes kid (upsert q f fs) p b = c_open bytes kid fs p b.
Proof. intros. unfold Package.c_open. rewrite lookup_upsert_neq by assumption. reflexivity. Qed.

Lemma good_other : forall (fs : fsys) q f p b c, FsOK fs -> FsOK (upsert q f fs) -> p <> q ->
  c_open bytes kid fs p b = Some c -> PkgOK fs (mkD c []) -> PkgOK (upsert q f fs) (mkD c []).
Proof.
  intros fs q f p b c F F' Hpq O H.
  assert (O' : c_open bytes kid (upsert q f fs) p b = Some c) by (rewrite open_other; assumption).
  assert (HB : forall n, dB (upsert q f fs) (mkD c []) n = dB fs (mkD c []) n).
  { intros n. rewrite (open_obs _ p b c F' O' n), (open_obs fs p b c F O n). rewrite lookup_upsert_neq by assumption. reflexivity. }
  apply (PkgOK_transfer xml bytes kid par entries mime fs (mkD c []) _ _ H).
  - intros n. rewrite HB. reflexivity.
  - intros mb Hb. exists mb. rewrite HB. auto.
  - intros xm Hx. exists xm. split; [|reflexivity]. rewrite <- Hx. unfold Pkgproof.dX. cbn [xps lookup]. rewrite HB. reflexivity.
Qed.

(* ---------- Container.save does not change what the container holds, also as seen through the new file system ---------- *)
Lemma c_save_frame : forall fs (c : container) t pk c' fs', WFc fs c ->
  c_save fs c t pk = (c', Some fs') -> forall n, cB fs' c' n = cB fs c n.
Proof.
  intros fs c t pk c' fs' W H n.
  pose proof (load_all_listing bytes kid fs c W) as [A1 [A2 [A3 [A4 A5]]]].
  pose proof (c_save_container xml bytes kid par kids mime fs c t pk) as Hc. rewrite H in Hc. cbn [fst] in Hc. subst c'.
  set (c1 := c_load_missing bytes kid FIXED fs (c_listing bytes kid FIXED fs c) c) in *.
  rewrite <- A1. unfold Pkgproof.cB.
  destruct (lookup n (parts _ c1)) as [[b|]|] eqn:Ln; [reflexivity|reflexivity|].
  rewrite (A5 n Ln).
  (* not in memory, hence not on disk before; the file written holds the live parts only *)
  assert (Hlive : lookup n (live _ c1) = None).
  { rewrite live_lookup by apply (wf_keys _ _ _ _ A2). rewrite Ln. reflexivity. }
  unfold Package.c_save in H. fold c1 in H. unfold Package.disk_lookup.
  destruct (cpath _ c1) as [q|] eqn:Cq; [|reflexivity].
  assert (Hold : match disk_entries fs q with Some es => lookup n es | None => None end = None).
  { exact (A5 n Ln). }
  destruct pk.
  - destruct (save_zip _ c1) as [es|] eqn:Z; inversion H; subst fs'. unfold Package.disk_entries. rewrite lookup_upsert.
    destruct (q =? tgt_id t) eqn:E; [|exact Hold]. rewrite (save_zip_lookup bytes c1 es Z). exact Hlive.
  - destruct t as [p|p]; inversion H; subst fs'. unfold Package.disk_entries. rewrite lookup_upsert.
    destruct (q =? p) eqn:E; [exact Hlive|exact Hold].
  - destruct (lookup MIMETYPE (live _ c1)); inversion H; subst fs'. unfold Package.disk_entries. rewrite lookup_upsert.
    destruct (q =? tgt_id t) eqn:E; [reflexivity|exact Hold].
Qed.

Definition emask (x0 : xml) (x : xml) : xml := with_entries (entries x) x0.
Lemma emask_inj : forall x0 a b, emask x0 a = emask x0 b -> entries a = entries b.
Proof. intros x0 a b H. unfold emask in H. apply (f_equal entries) in H. rewrite !entries_with in H. exact H. Qed.

(* ---------- Document.save ---------- *)
Theorem save_pkgok : forall fs (d : document) t pk pty, SInv (fs, d) -> PkgOK fs d -> AllGood fs ->
  let r := d_save fs d t pk pty in PkgOK (fst (fst r)) (snd (fst r)) /\ AllGood (fst (fst r)).
Proof.
  intros fs d t pk pty [F W] H G. cbn [fst snd] in *. unfold Package.d_save.
  pose proof (d_tree_sem xml bytes kid par fs META d W is_xml_META) as [T1 [T2 [T3 [W1 [_ [_ T7]]]]]].
  destruct (d_tree fs META d) as [d1 [x|]]; cbn [fst snd] in *.
  2:{ split; [|exact G]. apply (PkgOK_same_obs xml bytes kid par entries mime fs d); [exact H|exact T2|apply T3]. }
  destruct (T7 ltac:(discriminate)) as [x0 [Lx0 _]].
  destruct (set_tree_sem xml bytes kid par fs META (stamp x) d1 W1 is_xml_META (wfd_live _ _ _ _ _ W1 META x0 Lx0)) as [W2 [S2 [S3 _]]].
  assert (H2 : PkgOK fs (set_tree xml bytes META (stamp x) d1)).
  { apply (PkgOK_same_obs xml bytes kid par entries mime fs d); [exact H|intros m; rewrite S2; apply T2|]. rewrite S3. cbn. apply T3. }
  pose proof (check_rdf_wf xml bytes kid par entries rdf0 fs _ W2) as W3.
  pose proof (check_rdf_pkgok xml bytes kid par stamp entries kids mime rdf0 fs _ W2 H2) as H3.
  destruct (check_rdf fs (set_tree xml bytes META (stamp x) d1)) as [d3 ok3]. cbn [fst] in *.
  destruct ok3; cbn [negb]; [|split; assumption].
  match goal with |- context [let '(d4, ok4) := ?L in _] => destruct L as [d4 ok4] eqn:EL end.
  destruct (loops_obs xml bytes kid ser par pretty pty pk fs d3 d4 ok4 W3 EL) as [L1 [L2 L3]].
  assert (H4 : PkgOK fs d4) by (apply (obs_pkgok xml bytes kid par entries mime fs d3 d4 H3 L1 L2 L3)).
  destruct ok4; cbn [negb]; [|split; assumption].
  assert (Hm2 : forall xm0 y, emask xm0 (lay xml pretty (pty && negb (pk_eqb pk PXml)) y) = emask xm0 y).
  { intros xm0 y. unfold emask, Pkgproof2.lay. destruct (pty && negb (pk_eqb pk PXml)); [rewrite entries_pretty|]; reflexivity. }
  assert (W4 : WFd fs d4).
  { pose proof (loops_wf xml bytes kid ser par pretty pty pk fs d3 W3) as X. rewrite EL in X. exact X. }
  pose proof (c_save_inv xml bytes kid par kids mime fs (cont _ _ d4) t pk F (wfd_c _ _ _ _ _ W4)) as [C1 [C2 [C3 [C4 [C5 C6]]]]].
  destruct (c_save fs (cont _ _ d4) t pk) as [c5 ofs] eqn:CS. cbn [fst snd] in *.
  assert (Hd5 : forall fsx, (forall m, cB fsx c5 m = cB fs (cont _ _ d4) m) -> PkgOK fsx (d_with_cont _ _ d4 c5)).
  { intros fsx Hx. apply (PkgOK_transfer xml bytes kid par entries mime fs d4 fsx _ H4).
    - intros m. unfold Pkgproof.dB at 1. cbn [cont d_with_cont]. rewrite Hx. reflexivity.
    - intros mb Hb. exists mb. split; [|reflexivity]. unfold Pkgproof.dB. cbn [cont d_with_cont]. rewrite Hx. exact Hb.
    - intros xm Hxm. exists xm. split; [|reflexivity]. rewrite <- Hxm. unfold Pkgproof.dX, Pkgproof.dB. cbn [cont xps d_with_cont]. rewrite Hx. reflexivity. }
  destruct ofs as [fs'|]; cbn [fst snd]; [|split; [apply Hd5; exact C1|exact G]].
  pose proof (c_save_frame fs (cont _ _ d4) t pk c5 fs' (wfd_c _ _ _ _ _ W4) CS) as Fr.
  split; [apply Hd5; exact Fr|].
  (* every package of the new file system is coherent: the one just written because it holds the document *)
  assert (F' : FsOK fs') by (apply C6; reflexivity).
  intros p b c O.
  assert (Hfs' : exists f, fs' = upsert (tgt_id t) f fs).
  { unfold Package.c_save in CS. destruct pk; [destruct (save_zip _ _)|destruct t|destruct (lookup MIMETYPE _)]; inversion CS; eauto. }
  destruct Hfs' as [f Ef].
  destruct (Z.eq_dec p (tgt_id t)) as [Ep|Ep].
  - subst p.
    destruct (PkgOK_obs xml bytes kid par entries mime fs d4) as [Ho _]. destruct (Ho H4) as [xm [mb [A [B [C [D Ty]]]]]].
    assert (Hpk : pk <> PXml).
    { intros ->. unfold Package.c_save in CS. destruct (lookup MIMETYPE _); inversion CS as [[Ec Ef2]].
      rewrite <- Ef2 in O. unfold Package.c_open in O. rewrite lookup_upsert_eq in O. discriminate O. }
    destruct (c_save_sem xml bytes kid par kids mime fs (cont _ _ d4) t pk c5 fs' (wfd_c _ _ _ _ _ W4) Hpk CS) as [S1 _].
    destruct (save_loops xml bytes kid ser par pretty xml (emask xm) par_ser pty pk fs d3 d4 true W3 (Hm2 xm) EL eq_refl) as [Fl _].
    assert (HBo : forall n, dB fs' (mkD c []) n = dB fs d4 n).
    { intros n. rewrite (open_obs fs' (tgt_id t) b c F' O n). apply S1. }
    apply (PkgOK_transfer xml bytes kid par entries mime fs d4 fs' _ H4).
    + intros n. rewrite HBo. reflexivity.
    + intros mb0 Hb. exists mb0. rewrite HBo. auto.
    + intros xm0 Hx. rewrite A in Hx. inversion Hx; subst xm0.
      specialize (Fl MANIFEST is_xml_MANIFEST). unfold Pkgproof.dX at 1. cbn [xps lookup]. rewrite HBo.
      destruct (dB fs d4 MANIFEST) as [bm|] eqn:Bm.
      * destruct Fl as [y [Hy Hmk]]. rewrite A in Hy. inversion Hy; subst y. exists (par bm). split; [reflexivity|]. apply (emask_inj xm). exact Hmk.
      * rewrite A in Fl. discriminate.
  - subst fs'. rewrite open_other in O by exact Ep.
    apply (good_other fs (tgt_id t) f p b c F F' Ep O). apply (G p b c O).
Qed.
End O4.
