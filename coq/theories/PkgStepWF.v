(* PkgStepWF.v — the bookkeeping invariant (unique archive names in every file, WFd of the document) is preserved by
   every operation of the history alphabet (repaired code): C03_full. *)
From Coq Require Import List ZArith Bool Arith Lia.
Import ListNotations.
Require Import Package PkgManproof PkgZipproof Pkgproof Pkgproof2 Pkgproof3 Pkgproof4 Pkgproof5.
Open Scope Z_scope.

Section Open.
Variable xml bytes kid : Type.
Notation container := (container bytes).
Notation WFc := (WFc bytes kid).
Notation WFd := (WFd xml bytes kid).
(* ---------- Container.open ---------- *)
Lemma c_open_wf : forall fs p b (c : container), c_open bytes kid fs p b = Some c -> forall fs', WFc fs' c.
Proof.
  intros fs p b c H fs'. unfold Package.c_open in H.
  destruct (lookup p fs) as [[es|es|m ks]|]; try discriminate.
  - destruct (lookup MIMETYPE (zip_plain _ es)) as [mb|]; [|discriminate]. inversion H; subst c; clear H.
    destruct b.
    + (* buffer: everything read at once; zip packaging, no path *)
      set (c0 := mkC [(MIMETYPE, Some mb)] [] None PZip).
      assert (G : forall l (c : container), NoDup (map fst (parts _ c)) -> pkg _ c = PZip -> cpath _ c = None ->
                  let c' := fold_left (fun c e => c_load bytes (fst e) (snd e) c) l c in
                  NoDup (map fst (parts _ c')) /\ pkg _ c' = PZip /\ cpath _ c' = None).
      { induction l as [|e l IH]; intros c K P C; cbn [fold_left]; [auto|].
        apply IH; unfold c_load; cbn [parts pkg cpath]; auto. apply NoDup_keys_upsert. exact K. }
      destruct (G (zip_plain _ es) c0) as [K [P C]]; [repeat constructor; cbn; tauto|reflexivity|reflexivity|].
      constructor; [exact K|intros X; rewrite P in X; discriminate|intros X; rewrite C in X; congruence].
    + constructor; cbn [parts pkg cpath tsl].
      * repeat constructor. cbn. tauto.
      * discriminate.
      * discriminate.
  - destruct b; [discriminate|]. inversion H; subst c. constructor; cbn [parts pkg cpath tsl].
    + constructor.
    + intros _ _ n b0 L. discriminate.
    + discriminate.
Qed.

Lemma open_doc_wf : forall fs p b (c : container), c_open bytes kid fs p b = Some c -> forall fs', WFd fs' (mkD c []).
Proof.
  intros. constructor; cbn [cont xps].
  - eapply c_open_wf; eauto.
  - intros n [].
  - intros n x L. discriminate.
Qed.

End Open.

Section W.
Variable xml bytes kid : Type.
Variable ser : xml -> bytes.
Variable par : bytes -> xml.
Variable pretty stamp : xml -> xml.
Variable entries : xml -> mentries.
Variable with_entries : mentries -> xml -> xml.
Variable kids : xml -> list kid.
Variable mime : bytes -> mtype.
Variable mime_bytes : mtype -> bytes.
Variable rdf0 : bytes.
Notation container := (container bytes).
Notation document := (document xml bytes).
Notation fsys := (fsys bytes kid).
Notation cB := (cB bytes kid).
Notation WFc := (WFc bytes kid).
Notation dB := (dB xml bytes kid).
Notation dX := (dX xml bytes kid par).
Notation WFd := (WFd xml bytes kid).
Notation disk_lookup := (disk_lookup bytes kid).
Notation disk_entries := (disk_entries bytes kid).
Notation c_get_part := (c_get_part bytes kid FIXED).
Notation d_tree := (d_tree xml bytes kid par FIXED).
Notation step := (step xml bytes kid ser par pretty stamp entries with_entries kids mime mime_bytes rdf0 FIXED).
Notation d_save := (d_save xml bytes kid ser par pretty stamp entries kids mime rdf0 FIXED).

(* every zip / folder in the file system has unique member names *)
Definition FsOK (fs : fsys) : Prop := forall p es, disk_entries fs p = Some es -> NoDup (map fst es).

Lemma WFc_fs : forall fs fs' (c : container), WFc fs c -> WFc fs' c.
Proof. intros fs fs' c [K T P]. constructor; assumption. Qed.

Lemma nodup_lookup {V} : forall (l : list (Z * V)) k v, NoDup (map fst l) -> In (k, v) l -> lookup k l = Some v.
Proof.
  induction l as [|[k' v'] l IH]; cbn; intros k v Hn Hi; [destruct Hi|].
  inversion Hn; subst. destruct Hi as [Hi|Hi].
  - inversion Hi; subst. rewrite Z.eqb_refl. reflexivity.
  - destruct (k =? k') eqn:E; [|apply IH; assumption].
    apply Z.eqb_eq in E. subst k'. exfalso. apply H1. apply in_map_iff. exists (k, v). auto.
Qed.

(* ---------- loading a list of (name, bytes) members that the file really holds ---------- *)
Definition load_new (c : container) (e : name * bytes) : container :=
  match lookup (fst e) (parts _ c) with None => c_load bytes (fst e) (snd e) c | Some _ => c end.

Lemma fold_load_new_sem : forall fs (l : list (name * bytes)) (c : container), WFc fs c ->
  (forall e, In e l -> disk_lookup fs (cpath _ c) (fst e) = Some (snd e)) ->
  let c' := fold_left load_new l c in
  (forall m, cB fs c' m = cB fs c m) /\ WFc fs c' /\ cpath _ c' = cpath _ c /\ pkg _ c' = pkg _ c
  /\ (forall e, In e l -> lookup (fst e) (parts _ c') <> None)
  /\ (forall k, lookup k (parts _ c) <> None -> lookup k (parts _ c') <> None).
Proof.
  intros fs. induction l as [|e l IH]; intros c W H; cbn [fold_left].
  - split; [reflexivity|]. split; [exact W|]. split; [reflexivity|]. split; [reflexivity|]. split; [intros e []|auto].
  - assert (H1 : (forall m, cB fs (load_new c e) m = cB fs c m) /\ WFc fs (load_new c e) /\ cpath _ (load_new c e) = cpath _ c
                 /\ pkg _ (load_new c e) = pkg _ c /\ lookup (fst e) (parts _ (load_new c e)) <> None
                 /\ (forall k, lookup k (parts _ c) <> None -> lookup k (parts _ (load_new c e)) <> None)).
    { unfold load_new. destruct (lookup (fst e) (parts _ c)) eqn:L.
      - split; [reflexivity|]. split; [exact W|]. split; [reflexivity|]. split; [reflexivity|]. split; [congruence|auto].
      - destruct (c_load_sem bytes kid fs c (fst e) (snd e) W L (H e (or_introl eq_refl))) as [A [B [C D]]].
        split; [exact A|]. split; [exact B|]. split; [exact C|]. split; [exact D|]. split.
        + unfold c_load. cbn [parts]. rewrite lookup_upsert_eq. discriminate.
        + intros k Hk. unfold c_load. cbn [parts]. rewrite lookup_upsert. destruct (k =? fst e); [discriminate|exact Hk]. }
    destruct H1 as [A1 [A2 [A3 [A4 [A5 A6]]]]].
    destruct (IH (load_new c e) A2) as [B1 [B2 [B3 [B4 [B5 B6]]]]].
    { intros e' He'. rewrite A3. apply H. right. exact He'. }
    split; [intros m; rewrite B1; apply A1|]. split; [exact B2|]. split; [congruence|]. split; [congruence|]. split.
    + intros e' [<-|He']; [apply B6; exact A5|apply B5; exact He'].
    + intros k Hk. apply B6, A6, Hk.
Qed.

(* ---------- Container.clone ---------- *)
Lemma c_load_all_zip_is_fold : forall fs (c : container) p es, cpath _ c = Some p -> disk_entries fs p = Some es ->
  c_load_all_zip bytes kid FIXED fs c = fold_left load_new es c.
Proof. intros fs c p es Cp D. unfold Package.c_load_all_zip. rewrite Cp, D. reflexivity. Qed.

Lemma c_clone_sem : forall fs (c : container), FsOK fs -> WFc fs c ->
  let r := c_clone bytes kid FIXED fs c in
  (forall m, cB fs (fst r) m = cB fs c m) /\ WFc fs (fst r) /\ cpath _ (fst r) = cpath _ c /\ pkg _ (fst r) = pkg _ c
  /\ (forall m, cB fs (snd r) m = cB fs c m) /\ (forall fs', WFc fs' (snd r)) /\ cpath _ (snd r) = None /\ pkg _ (snd r) = pkg _ c.
Proof.
  intros fs c F W. unfold Package.c_clone.
  set (c1 := match cpath _ c, pkg _ c with
             | Some _, PZip => c_load_all_zip bytes kid FIXED fs c
             | Some _, PFolder => if fx38 FIXED then c_load_missing bytes kid FIXED fs (c_listing bytes kid FIXED fs c) c else c
             | _, _ => c end).
  assert (H1 : (forall m, cB fs c1 m = cB fs c m) /\ WFc fs c1 /\ cpath _ c1 = cpath _ c /\ pkg _ c1 = pkg _ c
               /\ (forall n, lookup n (parts _ c1) = None -> disk_lookup fs (cpath _ c) n = None)).
  { unfold c1. destruct (cpath _ c) as [p|] eqn:Cp.
    - destruct (pkg _ c) eqn:Pk.
      + (* zip: every member not yet in memory is read *)
        destruct (disk_entries fs p) as [es|] eqn:D.
        * rewrite (c_load_all_zip_is_fold fs c p es Cp D).
          destruct (fold_load_new_sem fs es c W) as [A [B [C [E [G I]]]]].
          { intros e He. rewrite Cp. unfold Package.disk_lookup. rewrite D. apply nodup_lookup; [apply (F p es D)|destruct e; exact He]. }
          split; [exact A|]. split; [exact B|]. split; [congruence|]. split; [congruence|].
          intros n Ln. unfold Package.disk_lookup. rewrite D. destruct (lookup n es) as [b|] eqn:Le; [|reflexivity].
          exfalso. apply (G (n, b)); [apply lookup_In; exact Le|exact Ln].
        * unfold Package.c_load_all_zip. rewrite Cp, D.
          split; [reflexivity|]. split; [exact W|]. split; [exact Cp|]. split; [exact Pk|].
          intros n _. unfold Package.disk_lookup. rewrite D. reflexivity.
      + cbn [fx38 FIXED].
        destruct (c_load_missing_sem bytes kid fs (c_listing bytes kid FIXED fs c) c W) as [L1 [L2 [L3 [L4 [L5 L6]]]]].
        split; [exact L1|]. split; [exact L2|]. split; [congruence|]. split; [congruence|].
        intros n Ln. destruct (in_dec Z.eq_dec n (c_listing bytes kid FIXED fs c)) as [Hi|Hi].
        * rewrite <- Cp. apply L5; assumption.
        * rewrite <- Cp. apply (listing_covers_disk bytes kid fs c n W Hi).
          destruct (lookup n (parts _ c)) eqn:L0; [|reflexivity]. exfalso. apply (L6 n); [congruence|exact Ln].
      + exfalso. apply (wf_pk _ _ _ _ W); [rewrite Cp; discriminate|exact Pk].
    - split; [reflexivity|]. split; [exact W|]. split; [exact Cp|]. split; [reflexivity|]. intros n _. reflexivity. }
  destruct H1 as [A1 [A2 [A3 [A4 A5]]]]. cbn [fst snd].
  split; [exact A1|]. split; [exact A2|]. split; [exact A3|]. split; [exact A4|]. split.
  - intros m. rewrite <- A1. unfold Pkgproof.cB. cbn [parts cpath].
    destruct (lookup m (parts _ c1)) as [[b|]|] eqn:L; [reflexivity|reflexivity|].
    cbn. rewrite A3. symmetry. apply A5. exact L.
  - split; [|split; [reflexivity|exact A4]].
    intros fs'. destruct A2 as [K T P]. constructor; cbn [parts cpath pkg tsl]; [exact K|intros _ X; congruence|intros X; congruence].
Qed.
End W.
