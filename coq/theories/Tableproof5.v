(* Tableproof5.v — the Row-level alphabet against plain list edits, row edits through the table (set_values,
   set_cells), append_column / set_column / extend_rows / clear, against the grid specification. *)
From Coq Require Import List ZArith Lia Bool Arith.
Import ListNotations.
Require Import Vault Vaultproof Row Table Grid Tableabs Tableproof Tableproof2 Tableproof3 Tableproof4.
Open Scope Z_scope.

Lemma norm_coord_nonneg x len : 0 <= len -> 0 <= norm_coord x len.
Proof.
  intros H. unfold norm_coord. destruct (Z.ltb_spec x 0); [|lia].
  destruct (Z.eqb_spec len 0); [lia|]. apply Z.mod_pos_bound. lia.
Qed.
Lemma rwidth_nonneg v : 0 <= rwidth v. Proof. unfold rwidth. lia. Qed.
Lemma twidth_nonneg t : 0 <= twidth t. Proof. unfold twidth. lia. Qed.
Lemma theight_nonneg t : 0 <= theight t. Proof. unfold theight. lia. Qed.

Lemma expand_cells_of (cs : rruns) : expand cs = cells_of cs.
Proof. induction cs as [|[n a] cs IH]; [reflexivity|]. cbn [expand cells_of flat_map fst snd]. now rewrite IH. Qed.

Definition rop_ok (o : rop) : Prop :=
  match o with
  | RSet _ c | RIns _ c | RApp c => (1 <= fst c)%nat
  | RSetCells _ _ cs | RExtend cs => cells_ok cs
  | RDel _ | RClear => True end.

Lemma row_set_cells_loop_refines cs : forall x v, wf v -> 0 <= x -> cells_ok cs ->
  exists v', row_set_cells_loop x cs v = Some v' /\ expand v' = l_set_cells (Z.to_nat x) cs (expand v) /\ wf v'.
Proof.
  induction cs as [|c cs IH]; intros x v Hw Hx Hok.
  - exists v. auto.
  - inversion Hok as [|? ? Hc Hok']; subst.
    destruct (row_set_cell_refines x c v Hw Hx Hc) as (v1 & Hs & He & Hw1).
    cbn [row_set_cells_loop l_set_cells]. rewrite Hs.
    destruct (IH (x + Z.of_nat (fst c)) v1 Hw1 ltac:(lia) Hok') as (v' & Hs' & He' & Hw').
    exists v'. split; [exact Hs'|]. split; [|exact Hw'].
    rewrite He', He. f_equal. lia.
Qed.

Lemma rstep_refines v o : wf v -> rop_ok o ->
  exists v', rstep v o = Some v' /\ expand v' = lstep (expand v) o /\ wf v'.
Proof.
  intros Hw Hok.
  assert (Hwd : rwidth v = Z.of_nat (length (expand v))) by reflexivity.
  pose proof (norm_coord_nonneg) as Hn.
  destruct o as [x c|x c|x|c|cl s cs|cs|]; cbn [rstep lstep rop_ok] in *; rewrite <- ?Hwd.
  - apply row_set_cell_refines; auto. apply Hn, rwidth_nonneg.
  - apply row_insert_cell_refines; auto. apply Hn, rwidth_nonneg.
  - apply row_delete_cell_refines; auto. apply Hn, rwidth_nonneg.
  - unfold row_append_cell. eexists; split; [reflexivity|]. split.
    + rewrite expand_app. destruct c. cbn [expand fst snd]. now rewrite app_nil_r.
    + apply Forall_app; split; [exact Hw|]. constructor; [exact Hok|constructor].
  - unfold row_set_cells.
    destruct ((norm_coord s (rwidth v) =? 0) && negb cl && (rwidth v <=? Z.of_nat (length cs))).
    + exists cs. split; [reflexivity|]. split; [apply expand_cells_of|exact Hok].
    + apply row_set_cells_loop_refines; auto. apply Hn, rwidth_nonneg.
  - eexists; split; [reflexivity|]. split.
    + rewrite expand_app, (expand_cells_of cs). reflexivity.
    + apply Forall_app; split; assumption.
  - exists []. repeat split. constructor.
Qed.

Lemma rowx_run_refines os : forall r, rwf r -> Forall rop_ok os ->
  exists r', rowx_run r os = Some r' /\ expand (snd r') = fold_left lstep os (expand (snd r)) /\ rwf r'.
Proof.
  induction os as [|o os IH]; intros r Hw Hok.
  - exists r. auto.
  - inversion Hok; subst.
    destruct (rstep_refines (snd r) o Hw) as (v' & Hs & He & Hw'); [assumption|].
    cbn [rowx_run fold_left]. rewrite Hs.
    destruct (IH ((if clears (snd r) o then 0 else fst r), v') Hw') as (r' & Hr & He' & Hw''); [assumption|].
    exists r'. split; [exact Hr|]. split; [|exact Hw'']. rewrite He'. cbn [snd]. now rewrite He.
Qed.

(* an edit of one row through the table rewrites exactly row y of the grid *)
Theorem edit_row_refines y os t :
  twf t -> cwf t -> 0 <= y -> Forall rop_ok os ->
  exists t', t_edit_row y os t = Some t' /\ abs_t t' = g_edit_row y (fun l => fold_left lstep os l) (abs_t t) /\ twf t' /\ cwf t'.
Proof.
  intros Htw Hcw Hy Hok. unfold t_edit_row, g_edit_row.
  destruct (base_row_spec y t Htw Hcw Hy) as (st & cs & Hb & He & Hw). rewrite Hb.
  destruct (rowx_run_refines os (st, cs) Hw Hok) as (r' & Hr & He' & Hw'). rewrite Hr.
  destruct (set_row_refines y 1 r' t Htw Hy ltac:(lia)) as (t' & Hsr & Ha & Hwt).
  exists t'. split; [exact Hsr|]. split; [|split; [exact Hwt|]].
  - rewrite Ha. f_equal. unfold grow_of. rewrite He'. cbn [snd]. now rewrite He.
  - apply (set_row_cwf y 1 r' t t' Htw Hcw Hw' Hy ltac:(lia) Hsr).
Qed.

Theorem set_lines_refines cl x ls : forall y t,
  twf t -> cwf t -> 0 <= y -> Forall cells_ok ls ->
  exists t', t_set_lines cl x y ls t = Some t' /\ abs_t t' = g_set_lines cl x y ls (abs_t t) /\ twf t' /\ cwf t'.
Proof.
  induction ls as [|l ls IH]; intros y t Htw Hcw Hy Hok.
  - exists t. auto.
  - inversion Hok as [|? ? Hl Hok']; subst. cbn [t_set_lines g_set_lines].
    destruct l as [|c l].
    + apply IH; auto. lia.
    + destruct (edit_row_refines y [RSetCells cl x (c :: l)] t Htw Hcw Hy) as (t1 & Hs & Ha & Htw1 & Hcw1).
      { constructor; [exact Hl|constructor]. }
      rewrite Hs. destruct (IH (y + 1) t1 Htw1 Hcw1 ltac:(lia) Hok') as (t' & Hs' & Ha' & Hw').
      exists t'. split; [exact Hs'|]. split; [|exact Hw']. rewrite Ha', Ha. reflexivity.
Qed.

Lemma wf_cols_width (v : list (nat * Z)) : wf v -> (v = [] <-> Z.of_nat (width v) = 0).
Proof.
  intros Hw. destruct v as [|[n a] v]; [split; reflexivity|].
  inversion Hw; subst. cbn [fst] in *. split; [discriminate|].
  unfold width. cbn [expand]. rewrite app_length, repeat_length. lia.
Qed.

Theorem append_column_refines rep st t : twf t -> cwf t ->
  abs_t (t_append_column rep st t) = g_append_column rep (abs_t t) /\ twf (t_append_column rep st t) /\ cwf (t_append_column rep st t).
Proof.
  intros [Hr Hc] Hcw. unfold t_append_column, g_append_column, abs_t, twidth. cbn [cols rows ncols grows].
  split; [|split; [split|exact Hcw]].
  - f_equal. rewrite width_app. unfold width at 2. cbn [expand]. rewrite app_nil_r, repeat_length. lia.
  - exact Hr.
  - apply Forall_app; split; [exact Hc|]. constructor; [cbn [fst]; lia|constructor].
Qed.

Theorem set_column_refines x rep st t : twf t -> cwf t -> 0 <= x -> (1 <= rep)%nat ->
  exists t', t_set_column x rep st t = Some t' /\ abs_t t' = g_set_column x rep (abs_t t) /\ twf t' /\ cwf t'.
Proof.
  intros [Hr Hc] Hcw Hx Hrep. unfold t_set_column, g_set_column.
  destruct (Z.eqb_spec (x - twidth t) 0) as [E0|E0].
  - destruct (append_column_refines rep st t (conj Hr Hc) Hcw) as (Ha & Hw).
    eexists; split; [reflexivity|]. split; [|exact Hw]. rewrite Ha. unfold g_append_column. f_equal.
    cbn [abs_t ncols]. lia.
  - destruct (Z.ltb_spec 0 (x - twidth t)) as [Egt|Ele].
    + destruct (append_column_refines (Z.to_nat (x - twidth t)) 0 t (conj Hr Hc) Hcw) as (Ha1 & Hw1 & Hc1).
      destruct (append_column_refines rep st _ Hw1 Hc1) as (Ha2 & Hw2).
      eexists; split; [reflexivity|]. split; [|exact Hw2]. rewrite Ha2, Ha1. unfold g_append_column.
      cbn [abs_t ncols grows]. f_equal. lia.
    + assert (Hin : 0 <= x < Z.of_nat (width (cols t))) by (unfold twidth in *; lia).
      destruct (set_item_refines x (rep, st) (cols t) Hc Hin Hrep) as (cs & Hs & He & Hw).
      rewrite Hs. eexists; split; [reflexivity|]. split; [|split; [split; assumption|exact Hcw]].
      unfold abs_t, twidth. cbn [cols rows ncols grows]. f_equal.
      unfold width. rewrite He. cbn [fst snd]. rewrite !app_length, firstn_length, repeat_length, skipn_length.
      unfold width in Hin. lia.
Qed.

(* ---- extend_rows ---- *)
Lemma fmax_repeat {A} (f : A -> Z) x n a : (1 <= n)%nat ->
  fold_left (fun a r => Z.max a (f r)) (repeat x n) a = Z.max a (f x).
Proof.
  intros Hn. destruct n as [|n]; [lia|]. clear Hn. cbn [repeat fold_left].
  induction n as [|n IH]; [reflexivity|]. cbn [repeat fold_left].
  replace (Z.max (Z.max a (f x)) (f x)) with (Z.max a (f x)) by lia. exact IH.
Qed.
Lemma fmax_expand {A} (f : A -> Z) (v : list (nat * A)) : forall a, wf v ->
  fold_left (fun a r => Z.max a (f r)) (expand v) a = fold_left (fun a r => Z.max a (f (snd r))) v a.
Proof.
  induction v as [|[n x] v IH]; intros a Hw; [reflexivity|].
  inversion Hw; subst. cbn [fst] in *. cbn [expand fold_left snd]. rewrite fold_left_app, fmax_repeat by assumption.
  apply IH. assumption.
Qed.
Lemma fold_left_map' {A B C} (g : C -> B -> C) (h : A -> B) l a :
  fold_left g (map h l) a = fold_left (fun a x => g a (h x)) l a.
Proof. revert a; induction l; intros; cbn [map fold_left]; auto. Qed.
Lemma max_len_abs (rs : list (nat * rowx)) : wf rs -> max_len (map grow_of (expand rs)) = max_roww rs.
Proof.
  intros Hw. unfold max_len, max_roww. rewrite fold_left_map'.
  rewrite (fmax_expand (fun r : rowx => Z.of_nat (length (grow_of r))) rs 0 Hw). reflexivity.
Qed.
Lemma abs_rows_expand (rs : list (nat * rowx)) :
  map grow_of (expand rs) = flat_map (fun r => repeat (snd r) (fst r)) (abs_rows rs).
Proof.
  induction rs as [|[n r] rs IH]; [reflexivity|]. cbn [expand abs_rows map flat_map fst snd].
  rewrite map_app, map_repeat'. f_equal. exact IH.
Qed.

Theorem extend_rows_refines rs t : twf t -> cwf t -> Forall (fun r : nat * rowx => (1 <= fst r)%nat /\ rwf (snd r)) rs ->
  abs_t (t_extend_rows rs t) = g_extend_rows (abs_rows rs) (abs_t t) /\ twf (t_extend_rows rs t) /\ cwf (t_extend_rows rs t).
Proof.
  intros [Hr Hc] Hcw Hok.
  assert (Hwrs : wf rs) by (eapply Forall_impl; [|exact Hok]; intros ? [? _]; assumption).
  assert (Hcrs : Forall (fun r : nat * rowx => wf (snd (snd r))) rs) by (eapply Forall_impl; [|exact Hok]; intros ? [_ ?]; assumption).
  assert (Hwr' : wf (rows t ++ rs)) by (apply Forall_app; split; assumption).
  assert (Hcr' : Forall (fun r : nat * rowx => wf (snd (snd r))) (rows t ++ rs)) by (apply Forall_app; split; assumption).
  assert (Hgrows : map grow_of (expand (rows t ++ rs)) = grows (abs_t t) ++ flat_map (fun r => repeat (snd r) (fst r)) (abs_rows rs)).
  { rewrite expand_app, map_app. cbn [abs_t grows]. f_equal. apply abs_rows_expand. }
  unfold t_extend_rows, g_extend_rows. rewrite <- Hgrows, (max_len_abs _ Hwr').
  set (w := max_roww (rows t ++ rs)).
  pose proof (wf_cols_width (cols t) Hc) as Hz.
  destruct (cols t) as [|c0 cs0] eqn:Ec.
  - assert (Hn0 : twidth t = 0) by (unfold twidth; rewrite Ec; reflexivity).
    destruct rs as [|r0 rs0].
    + destruct (update_width_spec w {| cols := []; rows := rows t ++ [] |}) as (H1 & H2 & H3).
      cbn [abs_rows map]. split; [|split; [split|]].
      * unfold abs_t. rewrite H1, H2. cbn [rows cols ncols grows]. f_equal. rewrite Hn0. reflexivity.
      * rewrite H2. exact Hwr'.
      * apply H3. constructor.
      * unfold cwf. rewrite H2. exact Hcr'.
    + cbn [abs_rows map]. split; [|split; [split|]].
      * unfold abs_t, twidth. cbn [rows cols ncols grows]. f_equal. fold (twidth t). rewrite Hn0. cbn [Z.eqb].
        unfold width. cbn [expand]. rewrite app_nil_r, repeat_length. lia.
      * exact Hwr'.
      * cbn [cols]. constructor; [cbn [fst]; lia|constructor].
      * exact Hcr'.
  - assert (Hn0 : twidth t <> 0).
    { unfold twidth. rewrite Ec. intros E. apply Hz in E. discriminate. }
    destruct (update_width_spec w {| cols := c0 :: cs0; rows := rows t ++ rs |}) as (H1 & H2 & H3).
    split; [|split; [split|]].
    + unfold abs_t. rewrite H1, H2. cbn [rows cols ncols grows]. f_equal.
      unfold twidth at 1. cbn [cols]. rewrite <- Ec. fold (twidth t).
      destruct (abs_rows rs); [reflexivity|]. destruct (Z.eqb_spec (twidth t) 0); [contradiction|reflexivity].
    + rewrite H2. exact Hwr'.
    + apply H3. cbn [cols]. exact Hc.
    + unfold cwf. rewrite H2. exact Hcr'.
Qed.
