(* Property C13 — statements only. *)
From Coq Require Import List ZArith Bool. Import ListNotations.
Require Import Styles Stylesproof Gen_Contexts.
Open Scope Z_scope.

(* generated finite obligation: for which (family, mode) does the lookup search the container insert_style uses *)
Theorem C13_contexts_cover_generated :
  filter (fun fm => negb (covers gen_tables (fst fm) (snd fm)))
         (flat_map (fun f => [(f, MCommon); (f, MAutomatic); (f, MDefault)]) gen_families)
  = [].
Proof. vm_compute. reflexivity. Qed.
Print Assumptions C13_contexts_cover_generated.
