(* TableBproof5.v — layer B, part 5: the `repeated` setters of live rows / cells (repaired, F8); the boolean cohb
   evaluated by the correspondence IS the proposition CohM; one step and every history keep Coh; the live answers
   equal the answers of a fresh parse and of the grid; the live step leaves the XML the same call leaves on a fresh parse. *)
From Coq Require Import List ZArith Lia Bool Arith.
Import ListNotations.
Require Import Vault Vaultproof Vaultproof2 Vaultproof3 Vaultproof4 Row Table Grid Tableabs Tableproof Tableproof2 Tableproof3 Tableproof4
               Tableproof5 Tableproof6 Tableproof7 TableB TableBabs TableBproof TableBproof2 TableBproof3 TableBproof4.
Open Scope Z_scope.

Lemma Forall_set_nth {A} (P : A -> Prop) i x l : Forall P l -> P x -> Forall P (set_nth i x l).
Proof.
  intros Hl Hx. unfold set_nth. apply Forall_app. split; [apply Forall_firstn; exact Hl|].
  constructor; [exact Hx|apply Forall_skipn; exact Hl].
Qed.
Lemma WF_update_width w t : WF t -> WF (update_width w t).
Proof.
  intros [[Hr Hc] Hcw]. destruct (update_width_spec w t) as (_ & Hrows & Hcols).
  split; [split; [rewrite Hrows; exact Hr|apply Hcols; exact Hc]|]. unfold cwf. rewrite Hrows. exact Hcw.
Qed.

(* ---- the repaired `repeated` setters on live handles ---- *)
(* the four single-cell Row calls on a row object with a coherent map: the XML of Row.v, the map kept coherent *)
Lemma wrow_op_spec o cs : wf cs -> lop_ok (LRowOp 0 o) ->
  exists cs' rs, wrow_op o cs (cmap cs) = Some (cs', cmap cs', rs) /\
    (match o with RSet _ _ | RIns _ _ | RDel _ | RApp _ => rstep cs o | _ => None end) = Some cs' /\ wf cs' /\
    (rs = false -> (length cs <= length cs')%nat).
Proof.
  intros Hw Hok. assert (Hn : forall x, 0 <= norm_coord x (rwidth cs)) by (intros; apply norm_coord_nonneg, rwidth_nonneg).
  destruct o as [x c|x c|x|c| | |]; cbn [lop_ok] in Hok; try contradiction; cbn [wrow_op rstep]; rewrite ?hmap_cmap; fold (rwidth cs).
  - destruct (wrow_set_cell_spec (norm_coord x (rwidth cs)) c cs Hw (Hn x) Hok) as (cs' & rs & H1 & H2 & H3).
    exists cs', rs. repeat split; auto. destruct (row_set_cell_refines _ c cs Hw (Hn x) Hok) as (v & Hv & _ & Hwv). rewrite H2 in Hv. now inversion Hv.
  - destruct (wrow_insert_cell_spec (norm_coord x (rwidth cs)) c cs Hw (Hn x)) as (cs' & rs & H1 & H2 & H3).
    exists cs', rs. repeat split; auto. destruct (row_insert_cell_refines _ c cs Hw (Hn x) Hok) as (v & Hv & _ & Hwv). rewrite H2 in Hv. now inversion Hv.
  - destruct (wrow_delete_cell_spec (norm_coord x (rwidth cs)) cs Hw (Hn x)) as (cs' & rs & H1 & H2 & H3).
    exists cs', rs. repeat split; auto. destruct (row_delete_cell_refines _ cs Hw (Hn x)) as (v & Hv & _ & Hwv). rewrite H2 in Hv. now inversion Hv.
  - destruct c as [n cv]. cbn [fst] in *. exists (cs ++ [(n, cv)]), false. rewrite (app_map_cmap cs n cv). repeat split.
    + apply Forall_app. split; [exact Hw|]. constructor; [exact Hok|constructor].
    + rewrite app_length. lia.
Qed.

Theorem b_live_spec b l : Coh b -> lop_ok l ->
  exists b', b_live true b l = Some b' /\ a_live (ax b) l = Some (ax b') /\ Coh b'.
Proof.
  intros Hc Hlok. pose proof Hc as [Hwf Hm]. pose proof Hwf as [[Hwr Hwc] Hcw].
  assert (Hny : forall y, 0 <= ny y (ax b)) by (intros; apply norm_coord_nonneg, theight_nonneg).
  assert (Hnx : forall x, 0 <= nx x (ax b)) by (intros; apply norm_coord_nonneg, twidth_nonneg).
  destruct l as [y rep|x y rep|y o]; cbn [b_live a_live]; cbv zeta; rewrite ?(bny_coh b _ Hm), ?(bnx_coh b _ Hm), (bheight_coh b Hm).
  - destruct (Z.leb_spec (theight (ax b)) (ny y (ax b))) as [Hout|Hin]; [exists b; auto|].
    assert (Hyb : 0 <= ny y (ax b) < bheight b) by (rewrite (bheight_coh b Hm); split; [apply Hny|lia]).
    destruct (get_wrap_coh b _ Hc Hyb) as (i & w & b1 & rrep & st & cs & Hgw & Hfi & Hnth & Hrat & Hok & Hlk & Hax & Htm & Hcm & Hccq & Hc1).
    rewrite Hgw, Hfi, Hnth. rewrite <- Hax in Hok, Hnth.
    destruct (wrap_row_ok (ax b1) i w rrep st cs Hok Hnth) as (Hr & Hrm & Hk & Hp). rewrite Hr, Hp.
    eexists; split; [reflexivity|]. cbn [ax]. rewrite Hax. split; [reflexivity|].
    rewrite Hax in Hnth. assert (Hi : (i < length (rows (ax b)))%nat) by (apply nth_error_Some; congruence).
    pose proof Hc1 as [_ (Ht1 & Hcq1 & Htc1 & Hcc1)].
    split.
    + split; [split; [|exact Hwc]|]; cbn [rows cols].
      * apply Forall_set_nth; [exact Hwr|cbn [fst]; lia].
      * unfold cwf. cbn [rows]. apply Forall_set_nth; [exact Hcw|]. cbn [snd]. exact (cwf_nth _ _ _ _ _ Hcw Hnth).
    + unfold CohM; cbn [ax tmapB cmapB tcache ccache cols rows]. split; [reflexivity|]. split; [reflexivity|].
      split; [|rewrite Hccq; destruct Hm as (_ & _ & _ & H4); exact H4].
      rewrite Forall_forall in *. intros kw Hkw. specialize (Htc1 kw Hkw). rewrite Hax in Htc1.
      destruct Htc1 as (rep' & st' & cs' & Hn' & Hrest).
      destruct (Nat.eq_dec (fst kw) i) as [E|E].
      * rewrite E in Hn'. rewrite Hnth in Hn'. inversion Hn'; subst rep' st' cs'.
        exists (Nat.max 1 rep), st, cs. cbn [rows]. split; [rewrite E; apply nth_error_set_nth_same; exact Hi|exact Hrest].
      * exists rep', st', cs'. cbn [rows]. split; [rewrite nth_error_set_nth_other; assumption|exact Hrest].
  - destruct (Z.leb_spec (theight (ax b)) (ny y (ax b))) as [Hout|Hin]; [exists b; auto|].
    assert (Hyb : 0 <= ny y (ax b) < bheight b) by (rewrite (bheight_coh b Hm); split; [apply Hny|lia]).
    destruct (get_wrap_coh b _ Hc Hyb) as (i & w & b1 & rrep & st & cs & Hgw & Hfi & Hnth & Hrat & Hok & Hlk & Hax & Htm & Hcm & Hccq & Hc1).
    rewrite Hgw, Hfi, Hnth. rewrite <- Hax in Hok, Hnth.
    destruct (wrap_row_ok (ax b1) i w rrep st cs Hok Hnth) as (Hr & Hrm & Hk & Hp). rewrite Hrm, hmap_cmap. unfold rwidth at 1.
    destruct (Z.leb_spec (Z.of_nat (width cs)) (nx x (ax b))) as [Hxo|Hxi].
    { exists b1. split; [reflexivity|]. rewrite Hax. auto. }
    destruct (wrap_cell_pos_ok (ax b1) i w rrep st cs (nx x (ax b)) Hok Hnth) as (w' & Hwc' & Hok' & Hrm' & Hp').
    rewrite Hwc', Hr.
    assert (Hwcs : wf cs) by (rewrite Hax in Hnth; exact (cwf_nth _ _ _ _ _ Hcw Hnth)).
    destruct (locate _ cs (nx x (ax b)) Hwcs ltac:(split; [apply Hnx|lia])) as (ci & n & c & Hf & Hn & Hci & _).
    assert (Hcp : cell_pos_at (nx x (ax b)) cs = Some (ci, (n, c))) by (unfold cell_pos_at; now rewrite Hf, Hn).
    rewrite Hcp. eexists; split; [reflexivity|].
    set (cs' := set_nth ci (Nat.max 1 rep, c) cs).
    match goal with |- context [b_update_width ?ww ?bb] => set (b2 := bb); set (w2 := ww) end.
    assert (Hi : (i < length (rows (ax b1)))%nat) by (apply nth_error_Some; congruence).
    pose proof Hc1 as [_ (Ht1 & Hcq1 & Htc1 & Hcc1)].
    assert (Hm2 : CohM b2).
    { unfold b2, CohM; cbn [ax tmapB cmapB tcache ccache cols rows]. rewrite Hp.
      split; [rewrite Ht1; apply cmap_reps; symmetry; apply (map_fst_set_nth i rrep (st, cs) (st, cs')); exact Hnth|].
      split; [exact Hcq1|]. split; [|exact Hcc1].
      apply (Forall_upsertn' (wrap_ok (ax b1))); [| |exact Htc1].
      - exists rrep, st, cs'. cbn [fst snd rows w_pos w_rmap w_cells].
        split; [apply nth_error_set_nth_same; exact Hi|]. split; [|split; [reflexivity|]].
        + rewrite Hp'. destruct Hok as (? & ? & ? & _ & Hpp & _). exact Hpp.
        + destruct Hok' as (r1 & s1 & c1 & Hn1 & _ & _ & Hk1). cbn [fst snd] in *. rewrite Hnth in Hn1. inversion Hn1; subst.
          unfold cs'. rewrite length_set_nth by exact Hci. exact Hk1.
      - intros kv Hne Hkv. apply (wrap_ok_ext (ax b1)); [|exact Hkv]. cbn [rows]. apply nth_error_set_nth_other; assumption. }
    destruct (b_update_width_spec w2 b2 Hm2) as [Hu Hc2]. rewrite Hu.
    assert (Hw2 : w2 = rwidth cs') by (unfold w2; cbn [w_rmap]; apply hmap_cmap).
    split.
    + unfold b2; cbn [ax]. rewrite Hw2, Hp, Hax. reflexivity.
    + split; [|exact Hc2]. rewrite Hu. apply WF_update_width. unfold b2; cbn [ax]. rewrite Hp, Hax.
      rewrite Hax in Hnth.
      assert (Hwcs' : wf cs') by (unfold cs'; apply Forall_set_nth; [exact Hwcs|cbn [fst]; lia]).
      split; [split; [|exact Hwc]|]; cbn [rows cols].
      * apply Forall_set_nth; [exact Hwr|]. cbn [fst]. exact (wf_nth _ _ _ _ Hwr Hnth).
      * unfold cwf. cbn [rows]. apply Forall_set_nth; [exact Hcw|]. cbn [snd]. exact Hwcs'.
  - (* a Row call through the live wrapper *)
    destruct (Z.leb_spec (theight (ax b)) (ny y (ax b))) as [Hout|Hin]; [exists b; auto|].
    assert (Hyb : 0 <= ny y (ax b) < bheight b) by (rewrite (bheight_coh b Hm); split; [apply Hny|lia]).
    destruct (get_wrap_coh b _ Hc Hyb) as (i & w & b1 & rrep & st & cs & Hgw & Hfi & Hnth & Hrat & Hok & Hlk & Hax & Htm & Hcm & Hccq & Hc1).
    rewrite Hgw, Hfi, Hnth. rewrite <- Hax in Hok, Hnth.
    destruct (wrap_row_ok (ax b1) i w rrep st cs Hok Hnth) as (Hr & Hrm & Hk & Hp). rewrite Hr, Hrm, Hp.
    assert (Hwcs : wf cs) by (rewrite Hax in Hnth; exact (cwf_nth _ _ _ _ _ Hcw Hnth)).
    assert (Hlo : lop_ok (LRowOp 0 o)) by exact Hlok.
    destruct (wrow_op_spec o cs Hwcs Hlo) as (cs' & rs & Hwo & Hrs & Hwcs' & Hlen). rewrite Hwo.
    assert (Ho : match o with RSet _ _ | RIns _ _ | RDel _ | RApp _ => True | _ => False end) by (destruct o; cbn [lop_ok] in Hlok; auto).
    eexists; split; [reflexivity|]. cbn [ax].
    assert (Hi : (i < length (rows (ax b1)))%nat) by (apply nth_error_Some; congruence).
    pose proof Hc1 as [_ (Ht1 & Hcq1 & Htc1 & Hcc1)].
    split; [|split].
    + rewrite Hax. destruct o; try contradiction; rewrite Hrs; reflexivity.
    + rewrite Hax. rewrite Hax in Hnth. split; [split; [|exact Hwc]|]; cbn [rows cols].
      * apply Forall_set_nth; [exact Hwr|]. cbn [fst]. exact (wf_nth _ _ _ _ Hwr Hnth).
      * unfold cwf. cbn [rows]. apply Forall_set_nth; [exact Hcw|]. cbn [snd]. exact Hwcs'.
    + unfold CohM; cbn [ax tmapB cmapB tcache ccache cols rows].
      split; [rewrite Ht1; apply cmap_reps; symmetry; apply (map_fst_set_nth i rrep (st, cs) (st, cs')); exact Hnth|].
      split; [exact Hcq1|]. split; [|exact Hcc1].
      apply (Forall_upsertn' (wrap_ok (ax b1))); [| |exact Htc1].
      * exists rrep, st, cs'. cbn [fst snd rows w_pos w_rmap w_cells].
        split; [apply nth_error_set_nth_same; exact Hi|]. split; [|split; [reflexivity|]].
        -- destruct Hok as (? & ? & ? & _ & Hpp & _). exact Hpp.
        -- destruct rs; [constructor|]. eapply keys_ok_mono; [|exact Hk]. auto.
      * intros kv Hne Hkv. apply (wrap_ok_ext (ax b1)); [|exact Hkv]. cbn [rows]. apply nth_error_set_nth_other; assumption.
Qed.

(* ---- the boolean evaluated on implementation states is the proposition ---- *)
Lemma list_eqb_iff {A} (eqb : A -> A -> bool) (Heq : forall a b, eqb a b = true <-> a = b) l l' : list_eqb eqb l l' = true <-> l = l'.
Proof.
  unfold list_eqb. revert l'; induction l as [|a l IH]; intros [|a' l']; cbn [length combine forallb fst snd Nat.eqb andb]; try (split; [discriminate|discriminate]); [tauto|].
  specialize (IH l'). cbn [length] in *. rewrite andb_true_iff in IH. rewrite !andb_true_iff, Heq.
  split.
  - intros (Hl & Ha & Hf). f_equal; [exact Ha|]. apply IH. split; assumption.
  - intros H. inversion H; subst. destruct IH as [_ IH]. destruct (IH eq_refl). auto.
Qed.
Lemma zl_eqb_iff l l' : zl_eqb l l' = true <-> l = l'.
Proof. apply list_eqb_iff. intros a b. apply Z.eqb_eq. Qed.
Lemma cellkeys_ok_iff n l : cellkeys_ok n l = true <-> keys_ok n l.
Proof.
  unfold cellkeys_ok, keys_ok. rewrite forallb_forall, Forall_forall. split; intros H kp Hin; specialize (H kp Hin).
  - rewrite andb_true_iff in H. destruct H as [H1 H2]. split; [now apply Z.eqb_eq|now apply Nat.ltb_lt].
  - destruct H as [H1 H2]. rewrite andb_true_iff. split; [now apply Z.eqb_eq|now apply Nat.ltb_lt].
Qed.
Lemma wrap_okb_iff t kw : wrap_okb t kw = true <-> wrap_ok t kw.
Proof.
  unfold wrap_okb, wrap_ok. destruct (nth_error (rows t) (fst kw)) as [[rep [st cs]]|].
  - rewrite !andb_true_iff, Z.eqb_eq, zl_eqb_iff, cellkeys_ok_iff. split.
    + intros [[H1 H2] H3]. exists rep, st, cs. auto.
    + intros (rep' & st' & cs' & Hn & H1 & H2 & H3). inversion Hn; subst. auto.
  - split; [discriminate|]. intros (rep' & st' & cs' & Hn & _). discriminate.
Qed.
Theorem cohb_iff b : cohb b = true <-> CohM b.
Proof.
  unfold cohb, CohM, tmap_okb, cmap_okb, tcache_okb, ccache_okb.
  rewrite !andb_true_iff, !zl_eqb_iff, cellkeys_ok_iff, forallb_forall, Forall_forall.
  split.
  - intros [[[H1 H2] H3] H4]. repeat split; auto. intros kw Hin. apply wrap_okb_iff. auto.
  - intros (H1 & H2 & H3 & H4). repeat split; auto. intros kw Hin. apply wrap_okb_iff. auto.
Qed.

(* ---- reparse ---- *)
Lemma Coh_fresh t : WF t -> Coh (fresh t).
Proof. intros Hwf. split; [exact Hwf|]. unfold CohM, fresh; cbn [ax tmapB cmapB tcache ccache]. repeat split; constructor. Qed.
Lemma Coh_reparse b : WF (ax b) -> Coh (reparse b).
Proof. intros Hwf. exact (Coh_fresh (ax b) Hwf). Qed.

(* ---- one step, every history ---- *)
Theorem coh_step b o : Coh b -> bop_ok o -> Coh (fst (tB_step b o)).
Proof.
  intros Hc Hok. destruct o as [m|q|l]; cbn [tB_step tB_step_gen bop_ok] in *.
  - destruct (b_mut_spec b m Hc Hok) as (b' & Hb & _ & Hc'). fold (b_mut true b m). rewrite Hb. exact Hc'.
  - apply b_read_spec. exact Hc.
  - destruct (b_live_spec b l Hc Hok) as (b' & Hb & _ & Hc'). rewrite Hb. exact Hc'.
Qed.
Theorem coh_history os : forall b, Coh b -> Forall bop_ok os -> Coh (tB_run b os).
Proof.
  induction os as [|o os IH]; intros b Hc Hok; [exact Hc|].
  inversion Hok; subst. unfold tB_run in *. cbn [fold_left]. apply IH; [apply coh_step; assumption|assumption].
Qed.

(* the XML after a live step is the XML after the same step on a fresh parse *)
Theorem step_eq_fresh b o : Coh b -> bop_ok o -> ax (fst (tB_step b o)) = ax (fst (tB_step (reparse b) o)).
Proof.
  intros Hc Hok. pose proof (Coh_reparse b (proj1 Hc)) as Hcr.
  destruct o as [m|q|l]; cbn [tB_step tB_step_gen bop_ok] in *.
  - destruct (b_mut_spec b m Hc Hok) as (b' & Hb & Hs & _). destruct (b_mut_spec (reparse b) m Hcr Hok) as (b2 & Hb2 & Hs2 & _).
    rewrite Hb, Hb2. cbn [fst]. cbn [reparse ax] in Hs2. congruence.
  - destruct (b_read_spec b q Hc) as (_ & Ha & _). destruct (b_read_spec (reparse b) q Hcr) as (_ & Ha2 & _). rewrite Ha, Ha2. reflexivity.
  - destruct (b_live_spec b l Hc Hok) as (b' & Hb & Hs & _). destruct (b_live_spec (reparse b) l Hcr Hok) as (b2 & Hb2 & Hs2 & _).
    rewrite Hb, Hb2. cbn [fst]. cbn [reparse ax] in Hs2. congruence.
Qed.

(* every read: live answer = answer of a fresh parse = answer of the grid *)
Theorem live_eq_fresh b q : Coh b ->
  snd (b_read b q) = snd (b_read (reparse b) q) /\ proj (snd (b_read b q)) = gb_read (abs_t (ax b)) q.
Proof.
  intros Hc. destruct (b_read_spec b q Hc) as (_ & _ & Ha).
  destruct (b_read_spec (reparse b) q (Coh_reparse b (proj1 Hc))) as (_ & _ & Ha2).
  rewrite Ha, Ha2. split; [reflexivity|]. apply a_read_grid. exact (proj1 Hc).
Qed.
