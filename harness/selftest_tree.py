"""Self-test of the C09 / C16 checks: seeded mutations of the implementation (each must give VIOLATION with a replay that
reproduces) and behaviour-preserving rewrites (must stay silent).  Works on copies of $ODFDO_REPO/src under .work/.

    ODFDO_REPO=/root/scratch/tree /venv/bin/python harness/selftest_tree.py [name ...]
"""
import os, re, shutil, subprocess, sys
from pathlib import Path
ROOT = Path(__file__).resolve().parent.parent
BASE = Path(os.environ.get("ODFDO_REPO", "/repo"))

# (name, property, file, old, new, expected: 'V' violation / 'S' silent)
MUT = [
 ("c09-offset-scan-lt", "C09", "paragraph.py",
  "                if len(text) + counted <= offset:  # type: ignore",
  "                if len(text) + counted < offset:  # type: ignore", "V"),
 ("c09-delete-tail-no-prev", "C09", "element.py",
  "                if parent.__element.text is None:\n                    parent.__element.text = tail\n                else:\n                    parent.__element.text += tail",
  "                pass", "V"),
 ("c09-find-text-boundary", "C09", "element.py",
  "            if found_nb + count >= position:\n                break",
  "            if found_nb + count > position:\n                break", "V"),
 ("c09-regex-index-across-nodes", "C09", "element.py",
  "        return text, list(regex.finditer(text))[position - count]",
  "        return text, list(regex.finditer(text))[min(position, len(regex.findall(text)) - 1)]", "V"),
 ("c09-strip-drops-tail", "C09", "element.py",
  "            if tail is not None:\n                element_result.append(tail)\n            return (element_result, True)",
  "            return (element_result, True)", "V"),
 ("c09-regex-forward-order", "C09", "paragraph.py",
  "                for group in reversed(list(pattern.finditer(text))):",
  "                for group in list(pattern.finditer(text)):", "V"),
 ("c09-insert-tail-branch-loses-after", "C09", "element.py",
  "            parent.addnext(xelement)\n            parent.tail = text_before\n            element.tail = text_after",
  "            parent.addnext(xelement)\n            parent.tail = text_before\n            element.tail = text_after if text_before else None", "V"),
 ("c09-negative-last-match-first", "C09", "element.py",
  "        return text, list(regex.finditer(text))[-1]",
  "        return text, list(regex.finditer(text))[0]", "V"),
 ("c09-range-end-before-start", "C09", "element.py",
  "            parent.insert(0, end.__element)\n            parent.insert(0, start.__element)",
  "            parent.insert(0, start.__element)\n            parent.insert(0, end.__element)", "V"),
 ("c09-main-text-parent-only", "C09", "element.py",
  "    \"descendant::text()[not (ancestor::office:annotation)]\"",
  "    \"descendant::text()[not (parent::office:annotation)]\"", "V"),
 ("c09-strip-default-overwrites-text", "C09", "element.py",
  "            for content in element:\n                new.__append(content)",
  "            for content in element:\n                if isinstance(content, Element):\n                    new.__append(content)\n                else:\n                    new.text = content", "V"),
 # behaviour-preserving
 ("c09-rewrite-index-loop", "C09", "paragraph.py",
  "                for group in reversed(list(pattern.finditer(text))):\n                    start, end = group.span()",
  "                groups = list(pattern.finditer(text))\n                for gi in range(len(groups) - 1, -1, -1):\n                    start, end = groups[gi].span()", "S"),
 ("c09-rewrite-find-text", "C09", "element.py",
  "            found_nb = len(text)\n            if found_nb + count >= position:\n                break\n            count += found_nb",
  "            upto = count + len(text)\n            if position <= upto:\n                break\n            count = upto", "S"),
 # ------------------------------------------------------------------ C16
 ("c16-tail-matches-not-counted", "C16", "element.py",
  "                count += number\n        # Format only",
  "                if text.is_text():\n                    count += number\n        # Format only", "V"),
 ("c16-subn-one-substitution", "C16", "element.py",
  "                new_text, number = cpattern.subn(new, str(text))",
  "                new_text, number = cpattern.subn(new, str(text), count=1)", "V"),
 ("c16-count-by-search", "C16", "element.py",
  "                count += len(cpattern.findall(str(text)))",
  "                count += 1 if cpattern.search(str(text)) else 0", "V"),
 ("c16-format-owner-of-tail", "C16", "element.py",
  "                    owner = container.parent",
  "                    owner = container", "V"),
 ("c16-search-all-other-text", "C16", "element.py",
  "        for match in re.finditer(pattern, self._own_text):",
  "        for match in re.finditer(pattern, self._own_text.rstrip()):", "V"),
 ("c16-replace-skips-empty-result", "C16", "element.py",
  "                if text.is_text():  # type: ignore\n                    container.text = new_text  # type: ignore\n                    owner: Element | None = container",
  "                if not new_text and not text.is_text():\n                    continue\n                if text.is_text():  # type: ignore\n                    container.text = new_text  # type: ignore\n                    owner: Element | None = container", "V"),
 ("c16-format-only-first-owner", "C16", "element.py",
  "        for owner in to_format:\n            owner.append_plain_text(\"\")  # type: ignore",
  "        for owner in to_format[:1]:\n            owner.append_plain_text(\"\")  # type: ignore", "V"),
 ("c16-own-text-includes-notes", "C16", "element.py",
  "            if child.tag not in (\"text:note\", \"office:annotation\"):\n                result.append(child._own_text)",
  "            result.append(child._own_text)", "V"),
 ("c16-text-at-uses-tail", "C16", "element.py",
  "            return self._own_text[start:]",
  "            return (self._own_text + (self.tail or \"\"))[start:]", "V"),
 # behaviour-preserving
 ("c16-rewrite-compiled-search", "C16", "element.py",
  "        match = re.search(pattern, self._own_text)\n        if match is None:\n            return None\n        return match.start(), match.end()",
  "        found = re.compile(pattern).search(self._own_text)\n        return None if found is None else found.span()", "S"),
 ("c16-rewrite-count-first", "C16", "element.py",
  "                new_text, number = cpattern.subn(new, str(text))\n                container = text.parent",
  "                old_text = str(text)\n                number = len(cpattern.findall(old_text))\n                new_text = cpattern.sub(new, old_text)\n                container = text.parent", "S"),
]


def run(name, prop, fname, old, new, expect):
    d = ROOT / ".work" / ("mut-" + name)
    if d.exists(): shutil.rmtree(d)
    shutil.copytree(BASE / "src", d / "src")
    f = d / "src" / "odfdo" / fname
    s = f.read_text()
    if s.count(old) != 1:
        return "%-40s SKIP: pattern found %d times" % (name, s.count(old))
    f.write_text(s.replace(old, new))
    env = dict(os.environ, ODFDO_REPO=str(d))
    p = subprocess.run([str(ROOT / "check"), prop, "--quick"], env=env, capture_output=True, text=True, timeout=900)
    out = p.stdout + p.stderr
    viol = re.findall(r"VIOLATION property=%s replay=(\S+)(.*)" % prop, out)
    verdict = "VIOLATION" if viol else "silent"
    extra = ""
    if viol:
        rp, tail = viol[0]
        layer = ""
        try:
            import json
            layer = json.load(open(rp)).get("layer", "")[:60]
        except Exception:
            pass
        p2 = subprocess.run([str(ROOT / "check"), prop, "--replay", rp], env=env, capture_output=True, text=True, timeout=900)
        rep = "VIOLATION" in (p2.stdout + p2.stderr)
        extra = " replay=%s reproduces=%s layer=%r%s" % (Path(rp).name, rep, layer, tail)
    ok = (expect == "V") == bool(viol) and p.returncode == (1 if viol else 0)
    shutil.rmtree(d, ignore_errors=True)
    return "%-40s %-4s expect=%s got=%s exit=%d%s" % (name, "OK" if ok else "FAIL", expect, verdict, p.returncode, extra)


if __name__ == "__main__":
    want = sys.argv[1:]
    for m in MUT:
        if want and m[0] not in want: continue
        print(run(*m)); sys.stdout.flush()
