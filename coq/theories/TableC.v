(* TableC.v — the model of CLONING for Element / Cell / Row / Table (property C10, table half), with LIST IDENTITY for
   exactly the mutable position maps that Python could share: a heap of list objects, and objects that hold LOCATIONS.

     insert_map_once(m, len(m), rep)   appends IN PLACE (bisect.insort on the argument) and returns the same list object
     insert_map_once elsewhere, set / insert / delete_item_in_vault, _compute_*_cache   build a NEW list object
     CachedElement.get_elements        gives every row wrapper the table's OWN _tmap / _cmap list objects (aliases)
     Row.repeated (setter)             rewrites the row's _tmap list object in place (del m[:]; m.extend(...))
     Row.clone                         slices the three maps: three NEW list objects with the same content
     Table.clone / Cell.clone / Element.clone   deepcopy of the lxml node under a fresh root + a new wrapper whose maps
                                       are computed from the copy: new list objects
   Definitions only. *)
From Coq Require Import List ZArith Bool Arith.
Import ListNotations.
Require Import Vault Row Table TableB.
Local Open Scope Z_scope.

Definition heap := list (list Z).
Definition hget (h : heap) (l : nat) : list Z := nth l h [].
Definition hset (h : heap) (l : nat) (v : list Z) : heap := if (l <? length h)%nat then set_nth l v h else h.
Definition halloc (h : heap) (v : list Z) : heap * nat := (h ++ [v], length h).

(* a Row wrapper: its XML (style, cells), its y, and the LOCATIONS of its three map lists *)
Record rowobj := { ro_row : rowx; ro_y : option Z; ro_rmap : nat; ro_tmap : nat; ro_cmap : nat }.
Definition ro_locs (r : rowobj) : list nat := [ro_rmap r; ro_tmap r; ro_cmap r].
(* what can be observed of a row object: XML, y, and the CONTENT of its maps *)
Definition ro_view (h : heap) (r : rowobj) : rowx * option Z * list Z * list Z * list Z :=
  (ro_row r, ro_y r, hget h (ro_rmap r), hget h (ro_tmap r), hget h (ro_cmap r)).

(* Row.clone: the XML copied, y copied, the three maps SLICED into new list objects.
   [share_rmap] = true is the broken variant that keeps the same _rmap list object (for the refuted statement) *)
Definition ro_clone (share_rmap : bool) (h : heap) (r : rowobj) : heap * rowobj :=
  let '(h1, l1) := if share_rmap then (h, ro_rmap r) else halloc h (hget h (ro_rmap r)) in
  let '(h2, l2) := halloc h1 (hget h (ro_tmap r)) in
  let '(h3, l3) := halloc h2 (hget h (ro_cmap r)) in
  (h3, {| ro_row := ro_row r; ro_y := ro_y r; ro_rmap := l1; ro_tmap := l2; ro_cmap := l3 |}).

(* the Row-level calls, with their effect on list objects *)
Inductive roop :=
| RoAppend (c : nat * cell)                  (* append_cell: _rmap appended IN PLACE *)
| RoSet (x : Z) (c : nat * cell)             (* set_cell inside the row: a NEW _rmap list; at / beyond the end: in place *)
| RoInsert (x : Z) (c : nat * cell)
| RoDelete (x : Z)
| RoClear                                    (* clear: new empty lists for all three maps *)
| RoSetStyle (st : Z)                        (* an attribute: no map involved *)
| RoSetRepeated (m : list Z).                (* repeated setter of a row inside a table whose recomputed _tmap is m: _tmap rewritten IN PLACE *)

Definition ro_with (r : rowobj) (cs : rruns) (l : nat) : rowobj :=
  {| ro_row := (fst (ro_row r), cs); ro_y := ro_y r; ro_rmap := l; ro_tmap := ro_tmap r; ro_cmap := ro_cmap r |}.
(* the result of a wrow_* call: in place when the cell cache was not reset (append paths), a new list otherwise *)
Definition ro_apply (h : heap) (r : rowobj) (res : option (rruns * list Z * bool)) : heap * rowobj :=
  match res with
  | None => (h, r)
  | Some (cs', m', true) => let '(h', l) := halloc h m' in (h', ro_with r cs' l)
  | Some (cs', m', false) => (hset h (ro_rmap r) m', ro_with r cs' (ro_rmap r))
  end.
Definition ro_step (h : heap) (r : rowobj) (o : roop) : heap * rowobj :=
  let cs := snd (ro_row r) in let m := hget h (ro_rmap r) in
  match o with
  | RoAppend c => (hset h (ro_rmap r) (app_map m (fst c)), ro_with r (cs ++ [c]) (ro_rmap r))
  | RoSet x c => ro_apply h r (wrow_set_cell (norm_coord x (hmap m)) c cs m)
  | RoInsert x c => ro_apply h r (wrow_insert_cell (norm_coord x (hmap m)) c cs m)
  | RoDelete x => ro_apply h r (wrow_delete_cell (norm_coord x (hmap m)) cs m)
  | RoClear =>
      let '(h1, l1) := halloc h [] in let '(h2, l2) := halloc h1 [] in let '(h3, l3) := halloc h2 [] in
      (h3, {| ro_row := (0, []); ro_y := ro_y r; ro_rmap := l1; ro_tmap := l2; ro_cmap := l3 |})
  | RoSetStyle st => (h, {| ro_row := (st, cs); ro_y := ro_y r; ro_rmap := ro_rmap r; ro_tmap := ro_tmap r; ro_cmap := ro_cmap r |})
  | RoSetRepeated m' => (hset h (ro_tmap r) m', r)
  end.

(* a Table wrapper as far as list identity goes: the locations of _tmap and _cmap; its row wrappers obtained through
   get_elements ALIAS these two locations and own a new _rmap *)
Record tabobj := { to_xml : tstate; to_tmap : nat; to_cmap : nat }.
Definition to_locs (t : tabobj) : list nat := [to_tmap t; to_cmap t].
Definition to_view (h : heap) (t : tabobj) : tstate * list Z * list Z := (to_xml t, hget h (to_tmap t), hget h (to_cmap t)).
Definition tab_get_row (h : heap) (t : tabobj) (i : nat) : option (heap * rowobj) :=
  match nth_error (rows (to_xml t)) i with
  | Some (_, r) => let '(h', l) := halloc h (cmap (snd r)) in
                   Some (h', {| ro_row := r; ro_y := None; ro_rmap := l; ro_tmap := to_tmap t; ro_cmap := to_cmap t |})
  | None => None end.
(* Table.clone (= Element.clone + Table.__init__): the XML copied, both maps recomputed into new list objects *)
Definition to_clone (h : heap) (t : tabobj) : heap * tabobj :=
  let '(h1, l1) := halloc h (cmap (rows (to_xml t))) in
  let '(h2, l2) := halloc h1 (cmap (cols (to_xml t))) in
  (h2, {| to_xml := to_xml t; to_tmap := l1; to_cmap := l2 |}).
(* Table.append_row: _tmap appended in place *)
Definition to_append_row (h : heap) (t : tabobj) (rep : nat) (r : rowx) : heap * tabobj :=
  (hset h (to_tmap t) (app_map (hget h (to_tmap t)) rep),
   {| to_xml := {| cols := cols (to_xml t); rows := rows (to_xml t) ++ [(rep, r)] |}; to_tmap := to_tmap t; to_cmap := to_cmap t |}).

(* ---- twin histories on two row objects over one heap: (true, o) = o on the original, (false, o) = o on the clone ---- *)
Fixpoint run2 (h : heap) (a b : rowobj) (ops : list (bool * roop)) : heap * rowobj * rowobj :=
  match ops with
  | [] => (h, a, b)
  | (true, o) :: r => let '(h', a') := ro_step h a o in run2 h' a' b r
  | (false, o) :: r => let '(h', b') := ro_step h b o in run2 h' a b' r
  end.
Fixpoint run1 (h : heap) (a : rowobj) (ops : list roop) : heap * rowobj :=
  match ops with [] => (h, a) | o :: r => let '(h', a') := ro_step h a o in run1 h' a' r end.
Definition side (s : bool) (ops : list (bool * roop)) : list roop := map snd (filter (fun p => Bool.eqb (fst p) s) ops).

(* ---- the object kinds without shared mutable state: Cell, Column, a generic Element, and a Table at layer B (whose maps a
        clone recomputes into new list objects, C10_table_clone).  Element.clone deep-copies the lxml node (disjoint subtree:
        trusted) and builds a new wrapper; x / y are immutable integers copied by value.  The state of such an object is a plain
        value, a call is a function of that value alone: the pair (original, clone) is a product. ---- *)
Record cellobj := { co_run : nat * cell; co_x : option Z; co_y : option Z }.
Inductive coop := CoSetValue (v : Z) | CoSetStyle (st : Z) | CoSetRepeated (n : nat) | CoClear.
Definition co_step (c : cellobj) (o : coop) : cellobj :=
  match o with
  | CoSetValue v => {| co_run := (fst (co_run c), (v, snd (snd (co_run c)))); co_x := co_x c; co_y := co_y c |}
  | CoSetStyle st => {| co_run := (fst (co_run c), (fst (snd (co_run c)), st)); co_x := co_x c; co_y := co_y c |}
  | CoSetRepeated n => {| co_run := (Nat.max 1 n, snd (co_run c)); co_x := co_x c; co_y := co_y c |}
  | CoClear => {| co_run := (1%nat, empty_cell); co_x := co_x c; co_y := co_y c |}
  end.
Definition co_clone (c : cellobj) : cellobj := {| co_run := co_run c; co_x := co_x c; co_y := co_y c |}.   (* Cell.clone: x and y copied *)
Record colobj := { ko_run : nat * Z; ko_x : option Z }.
Inductive koop := KoSetStyle (st : Z) | KoSetRepeated (n : nat).
Definition ko_step (c : colobj) (o : koop) : colobj :=
  match o with
  | KoSetStyle st => {| ko_run := (fst (ko_run c), st); ko_x := ko_x c |}
  | KoSetRepeated n => {| ko_run := (Nat.max 1 n, snd (ko_run c)); ko_x := ko_x c |}
  end.
Definition ko_clone (c : colobj) : colobj := {| ko_run := ko_run c; ko_x := ko_x c |}.

(* twin histories on a pair of objects whose calls are functions of the object alone *)
Section Product.
Variables (S Op : Type) (step : S -> Op -> S).
Fixpoint prun2 (a b : S) (ops : list (bool * Op)) : S * S :=
  match ops with
  | [] => (a, b)
  | (true, o) :: r => prun2 (step a o) b r
  | (false, o) :: r => prun2 a (step b o) r
  end.
Definition prun1 (a : S) (ops : list Op) : S := fold_left step ops a.
Definition pside (s : bool) (ops : list (bool * Op)) : list Op := map snd (filter (fun p => Bool.eqb (fst p) s) ops).
End Product.
Arguments prun2 {S Op}. Arguments prun1 {S Op}. Arguments pside {Op}.
