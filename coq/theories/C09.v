(* Property C09 — inserting or removing markup never alters the paragraph text around it.
   Statements only; each is closed by [exact] of a lemma proved in TreeProof*.v.  Model: Tree.v (event list + tree). *)
From Coq Require Import List ZArith Bool. Import ListNotations.
Require Import WS WSnfproof Tree TreeNF TreeProof TreeProof2 TreeProof3 TreeProof5 TreeProof9 TreeProof10 TreeProof11 TreeProof12.

(* ---- insertion: set_span / set_link by offset and length (offset >= 0: the repaired code raises on negative ones) *)
Theorem C09_insert_preserves_offset : forall k a off len evs, plain_kind k = true -> (0 <= off)%Z ->
  readable_ev (wrap_off k a off len evs) = readable_ev evs.
Proof. exact wrap_off_readable. Qed.
Print Assumptions C09_insert_preserves_offset.

(* Link(url, text=match) stores the match raw: the raw text nodes are preserved too.  Span(match) re-encodes the
   white space of the match through C05's codec, so only [readable] is preserved there (documented exception) *)
Theorem C09_insert_link_keeps_raw : forall a off len evs, (0 <= off)%Z -> raw (wrap_off KLink a off len evs) = raw evs.
Proof. exact wrap_off_link_raw. Qed.
Print Assumptions C09_insert_link_keeps_raw.
Theorem C09_span_reencodes_raw : exists evs, raw (wrap_off KSpan 1 0 2 evs) <> raw evs /\ readable_ev (wrap_off KSpan 1 0 2 evs) = readable_ev evs.
Proof. exists [Txt [Ch 0; Sp]; Open (KS 1) 0; Close]. split; [vm_compute; discriminate|reflexivity]. Qed.
Print Assumptions C09_span_reencodes_raw.

(* ---- insertion by regular expression: any sorted, non-overlapping, in-range list of match spans per text node *)
Theorem C09_insert_preserves_regex : forall k a spans evs, plain_kind k = true -> all_spans_ok (texts evs) spans = true ->
  readable_ev (wrap_re k a spans evs) = readable_ev evs.
Proof. exact wrap_re_readable. Qed.
Print Assumptions C09_insert_preserves_regex.

Theorem C09_insert_link_regex_keeps_raw : forall a spans evs, all_spans_ok (texts evs) spans = true ->
  raw (wrap_re KLink a spans evs) = raw evs.
Proof. exact wrap_re_link_raw. Qed.
Print Assumptions C09_insert_link_regex_keeps_raw.

(* ---- Element._insert: bookmark, reference mark, note, annotation (position / before / after, any occurrence index) *)
Theorem C09_insert_preserves_mark : forall elem w evs evs', silent elem -> insert_ elem w evs = Some evs' ->
  readable_ev evs' = readable_ev evs.
Proof. exact insert_readable. Qed.
Print Assumptions C09_insert_preserves_mark.
Theorem C09_insert_mark_keeps_raw : forall elem w evs evs', raw elem = [] -> insert_ elem w evs = Some evs' -> raw evs' = raw evs.
Proof. exact insert_raw. Qed.
Print Assumptions C09_insert_mark_keeps_raw.

(* ---- k successive insertions of mixed kinds *)
Theorem C09_insert_preserves : forall k x y, ins_steps k x y -> readable_ev y = readable_ev x.
Proof. exact ins_steps_readable. Qed.
Print Assumptions C09_insert_preserves.

(* ---- the inserted element wraps exactly what was designated *)
Theorem C09_wraps_match_offset : forall k a off len evs i st en, (0 <= off)%Z ->
  sel_off off len 0 0 (texts evs) = Some (i, st, en) ->
  exists s, nth_error (texts evs) i = Some s
    /\ wrap_off k a off len evs = subst_nth i (fun s => Txt (sl_to s st) :: wrapped k a (sl s st en) (sl_from s en)) evs
    /\ readable_ 0 (wrap_content k (sl s st en)) = sl s st en
    (* offsets index the RAW text (text:s / tab / line-break before the offset are not counted), and the range is
       clipped at the end of the text node it starts in *)
    /\ sl s st en = firstn (Z.to_nat (Z.min en (Z.of_nat (length s)) - st)) (skipn (Z.to_nat off) (raw evs))
    /\ (en - st = if (0 <? len)%Z then Z.min len (Z.of_nat (length s)) else Z.of_nat (length s))%Z.
Proof. exact wrap_off_wraps. Qed.
Print Assumptions C09_wraps_match_offset.
Theorem C09_wraps_match_regex : forall k a, plain_kind k = true -> forall sp pos s x y, spans_ok pos (pos + length s) sp = true -> In (x, y) sp ->
  exists pre post, cut k a pos sp s = pre ++ Open k a :: wrap_content k (firstn (y - x) (skipn (x - pos) s)) ++ Close :: post
    /\ Bal pre /\ readable_ 0 pre = firstn (x - pos) s
    /\ readable_ 0 (wrap_content k (firstn (y - x) (skipn (x - pos) s))) = firstn (y - x) (skipn (x - pos) s).
Proof. exact cut_wraps. Qed.
Print Assumptions C09_wraps_match_regex.
(* an empty mark inserted by position sits at the designated offset of the MAIN text (the text nodes outside
   annotations: what main_text=True scans in the repaired code, fixes/F102): q characters into a text node that is
   preceded by exactly p - q characters of main text *)
Theorem C09_mark_position : forall elem p evs evs', (0 <= p)%Z -> insert_ elem (WPos p) evs = Some evs' ->
  exists pre post s q, evs = pre ++ Txt s :: post /\ evs' = pre ++ split_ins elem q s ++ post
    /\ Z.to_nat p = length (concat (texts_main pre)) + q /\ q <= length s
    /\ concat (texts_main pre) ++ firstn q s = firstn (Z.to_nat p) (concat (texts_main evs)).
Proof. exact insert_pos_spec. Qed.
Print Assumptions C09_mark_position.

(* ---- content=regex (set_bookmark, set_reference_mark, insert_annotation), repaired code (fixes/F104): ONE search *)
Theorem C09_insert_preserves_range : forall e1 e2 p spans evs evs', silent e1 -> silent e2 -> spans_wf spans = true ->
  insert_range e1 e2 p spans evs = Some evs' -> readable_ev evs' = readable_ev evs.
Proof. exact insert_range_readable. Qed.
Print Assumptions C09_insert_preserves_range.
Theorem C09_insert_range_keeps_raw : forall e1 e2 p spans evs evs', raw e1 = [] -> raw e2 = [] -> spans_wf spans = true ->
  insert_range e1 e2 p spans evs = Some evs' -> raw evs' = raw evs.
Proof. exact insert_range_raw. Qed.
Print Assumptions C09_insert_range_keeps_raw.
(* the start and end elements enclose exactly the selected match, which lies in one main text node *)
Theorem C09_range_encloses : forall e1 e2 p spans evs evs', all_spans_ok (texts_main evs) spans = true ->
  insert_range e1 e2 p spans evs = Some evs' ->
  exists pre post s x y, evs = pre ++ Txt s :: post /\ x < y <= length s
    /\ evs' = pre ++ otxt (netxt (firstn x s)) ++ e1 ++ Txt (firstn (y - x) (skipn x s)) :: e2 ++ Txt (skipn y s) :: post.
Proof. exact insert_range_encloses. Qed.
Print Assumptions C09_range_encloses.
Theorem C09_nomatch_raises_range : forall e1 e2 p spans evs, Forall (fun sp => sp = []) spans -> insert_range e1 e2 p spans evs = None.
Proof. exact insert_range_nomatch. Qed.
Print Assumptions C09_nomatch_raises_range.
(* F104, the pinned form: the start with before=regex, then a SECOND search with after=regex on the split text.
   "bacc" with the pattern c$ : the oracle of the second search is that of the intermediate state "bac" | "c" *)
Theorem C09_content_two_searches_refuted : exists e1 e2 spans1 spans2 evs evs1 evs2,
  insert_ e1 (WRe false 0 spans1) evs = Some evs1 /\ insert_ e2 (WRe true 0 spans2) evs1 = Some evs2 /\
  all_spans_ok (texts_main evs) spans1 = true /\ all_spans_ok (texts_main evs1) spans2 = true /\
  text_between 1 2 evs2 <> Some [Ch 2].
Proof.
  exists [Open KMark 1; Close], [Open KMark 2; Close], [[(3, 4)]], [[(2, 3)]; [(0, 1)]], [Txt [Ch 1; Ch 0; Ch 2; Ch 2]].
  eexists. eexists. split; [vm_compute; reflexivity|]. split; [vm_compute; reflexivity|].
  split; [reflexivity|]. split; [reflexivity|]. vm_compute. discriminate.
Qed.
Print Assumptions C09_content_two_searches_refuted.

(* ---- an address that matches nothing leaves the paragraph untouched, or raises (None) without modification *)
Theorem C09_nomatch_noop_regex : forall k a spans evs, Forall (fun sp => sp = []) spans -> wrap_re k a spans evs = evs.
Proof. exact wrap_re_nomatch. Qed.
Print Assumptions C09_nomatch_noop_regex.
Theorem C09_nomatch_noop_offset : forall k a off len evs, (Z.of_nat (length (raw evs)) <= off)%Z -> wrap_off k a off len evs = evs.
Proof. exact wrap_off_beyond. Qed.
Print Assumptions C09_nomatch_noop_offset.
Theorem C09_nomatch_raises_regex : forall elem ue p spans evs, Forall (fun sp => sp = []) spans -> insert_ elem (WRe ue p spans) evs = None.
Proof. exact insert_nomatch. Qed.
Print Assumptions C09_nomatch_raises_regex.
Theorem C09_nomatch_raises_position : forall elem p evs, (Z.of_nat (length (concat (texts_main evs))) < p)%Z -> insert_ elem (WPos p) evs = None.
Proof. exact insert_beyond. Qed.
Print Assumptions C09_nomatch_raises_position.

(* ---- removal *)
(* delete(child) / child.delete(): what disappears is exactly the i-th element; every other character stays, tail included *)
Theorem C09_delete_keeps : forall i evs evs', delete_ i true evs = Some evs' ->
  exists pre post, evs = pre ++ elem_at i evs ++ post /\ raw evs' = raw pre ++ raw post.
Proof. exact delete_keeps. Qed.
Print Assumptions C09_delete_keeps.
(* strip_tags / strip_elements (remove_spans, remove_links, remove_span, remove_link) under the guard that no string handed
   to Element.__append's _add_text contains two adjacent spaces (F16) *)
Theorem C09_strip_keeps : forall sp pr n n', strip_ok sp pr false n = true -> strip_top collapse sp pr n = Some n' ->
  raw (content n') = raw (content n) /\ tail_of n' = tail_of n.
Proof. exact strip_top_raw. Qed.
Print Assumptions C09_strip_keeps.

(* the guard is exact, and without it only the multiplicity of consecutive spaces is lost: the result is never longer,
   and equal to the original after runs of spaces are squeezed ([collapse] = re.sub(" +", " ", ·)) *)
Theorem C09_strip_guard_exact : forall sp pr n n', strip_top collapse sp pr n = Some n' ->
  (raw (content n') = raw (content n) <-> strip_ok sp pr false n = true)
  /\ collapse (raw (flat n')) = collapse (raw (flat n)) /\ length (raw (content n')) <= length (raw (content n)).
Proof. exact strip_top_exact. Qed.
Print Assumptions C09_strip_guard_exact.

(* strip_tags on an element that is itself stripped (Span.remove_spans(), repaired code fixes/F105): all the characters of
   the element, its own tail included, are in the returned paragraph — under the same guard *)
Theorem C09_strip_default_keeps : forall a0 sp pr n n', sp (kind_of n) (match n with Node _ _ s _ _ _ => s end) = true ->
  strip_ok sp pr false n = true -> fold_ok (fst (strip_ collapse sp pr false n)) (None, []) = true ->
  strip_default collapse a0 sp pr n = Some n' -> raw (content n') = raw (flat n).
Proof. exact strip_default_raw. Qed.
Print Assumptions C09_strip_default_keeps.
Definition F105_witness : node :=      (* <text:span>a<text:span>b</text:span>c</text:span> *)
  Node KSpan 1 false (Some [Ch 0]) [Node KSpan 2 false (Some [Ch 1]) [] (Some [Ch 2])] None.
Theorem C09_strip_default_pinned_refuted : exists n n',
  strip_default_pinned 9 (fun k _ => kind_eqb k KSpan) (fun _ => false) n = Some n' /\ raw (content n') <> raw (flat n).
Proof. exists F105_witness. eexists. split; [vm_compute; reflexivity|vm_compute; discriminate]. Qed.
Print Assumptions C09_strip_default_pinned_refuted.

(* ---- refuted on the code as it is: F16 (known finding), and the negative-offset arithmetic of the pinned code (F101, repaired) *)
Definition F16_witness : node :=       (* <text:p>a <text:span> b</text:span></text:p> *)
  Node KP 1 false (Some [Ch 0; Sp]) [Node KSpan 2 false (Some [Sp; Ch 1]) [] None] None.
Theorem C09_strip_unguarded_refuted : exists n n', strip_tags_ [KSpan] true n = Some n' /\ raw (content n') <> raw (content n).
Proof. exists F16_witness. eexists. split; [vm_compute; reflexivity|vm_compute; discriminate]. Qed.
Print Assumptions C09_strip_unguarded_refuted.
Theorem C09_negative_offset_refuted : exists evs, readable_ev (wrap_off KSpan 1 (-1) 1 evs) <> readable_ev evs.
Proof. exists [Txt [Ch 0; Ch 1; Ch 2]]. vm_compute. discriminate. Qed.
Print Assumptions C09_negative_offset_refuted.

(* ---- the property at full strength on the model (every part above is proved; the two restrictions are the guard
        [strip_ok] = finding F16 and [0 <= off] = the repaired F101) *)
Definition C09_full : Prop :=
  (forall k x y, ins_steps k x y -> readable_ev y = readable_ev x)
  /\ (forall sp pr n n', strip_top collapse sp pr n = Some n' -> raw (content n') = raw (content n))
  /\ (forall i evs evs', delete_ i true evs = Some evs' -> exists pre post, evs = pre ++ elem_at i evs ++ post /\ raw evs' = raw pre ++ raw post).
Theorem C09_full_refuted : ~ C09_full.
Proof.
  intros [_ [H _]]. destruct C09_strip_unguarded_refuted as [n [n' [E D]]]. apply D. eapply H. exact E.
Qed.
Print Assumptions C09_full_refuted.

(* ---- the two views of the model are interchangeable: [flat] and [parse] are inverse bijections between the trees
        without argument marks and the event lists that [parse] accepts (one element, well bracketed, never two
        adjacent text nodes) *)
Theorem C09_tree_eventlist_bijection :
  (forall n, nosel n = true -> parse (flat n) = Some n) /\
  (forall evs n, parse evs = Some n -> flat n = evs /\ nosel n = true).
Proof. split; [exact parse_flat|exact flat_parse]. Qed.
Print Assumptions C09_tree_eventlist_bijection.
Theorem C09_content_parses_back : forall n, nosel n = true ->
  parse_content (content n) = Some (match n with Node _ _ _ tx ks _ => (tx, ks) end).
Proof. exact parse_content_flat. Qed.
Print Assumptions C09_content_parses_back.

(* ---- the hypotheses are inhabited by non-trivial values *)
Example C09_example_history :   (* "ab cd": span on [1,3) = "b " (the space becomes text:s), bookmark at raw offset 4 (the
                                   text:s is not counted: it lands after "cd"), link on the match (0,1) of the text node "cd" *)
  let e0 := [Txt [Ch 0; Ch 1; Sp; Ch 2; Ch 3]] in
  let e1 := wrap_off KSpan 1 1 2 e0 in
  exists e2, insert_ [Open KMark 2; Close] (WPos 4) e1 = Some e2 /\
  ins_steps 3 e0 (wrap_re KLink 3 [[]; []; [(0, 1)]; []] e2) /\ readable_ev (wrap_re KLink 3 [[]; []; [(0, 1)]; []] e2) = [Ch 0; Ch 1; Sp; Ch 2; Ch 3].
Proof.
  eexists. split; [vm_compute; reflexivity|]. split; [|reflexivity].
  eapply ISS_S; [apply (IS_off KSpan 1 1 2); [reflexivity|vm_compute; discriminate]|].
  eapply ISS_S; [eapply (IS_ins [Open KMark 2; Close] (WPos 4)); [split; [apply (Bal_elem _ _ []); constructor|reflexivity]|vm_compute; reflexivity]|].
  eapply ISS_S; [|apply ISS_0]. apply (IS_re KLink 3); reflexivity.
Qed.
Example C09_example_note_is_silent :   (* a footnote: citation "1", body paragraph "nb" *)
  silent [Open KNote 5; Open KOther 6; Txt [Ch 9]; Close; Open KOther 7; Open KP 8; Txt [Ch 1; Ch 2]; Close; Close; Close].
Proof.
  split; [|reflexivity].
  apply (Bal_elem KNote 5 [Open KOther 6; Txt [Ch 9]; Close; Open KOther 7; Open KP 8; Txt [Ch 1; Ch 2]; Close; Close] []); [|constructor].
  apply (Bal_elem KOther 6 [Txt [Ch 9]] _); [repeat constructor|].
  apply (Bal_elem KOther 7 [Open KP 8; Txt [Ch 1; Ch 2]; Close] []); [|constructor].
  apply (Bal_elem KP 8 [Txt [Ch 1; Ch 2]] []); repeat constructor.
Qed.
Example C09_example_strip_guard :
  strip_ok (fun k _ => kind_eqb k KSpan) (fun _ => false) false
    (Node KP 1 false (Some [Ch 0; Sp]) [Node KSpan 2 false (Some [Ch 1]) [] (Some [Sp; Ch 2])] None) = true.
Proof. reflexivity. Qed.
