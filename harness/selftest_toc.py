"""Self-test of the C20 / C13 checks by mutation of the scratch implementation ($ODFDO_REPO, never /repo).

usage: ODFDO_REPO=/root/scratch/toc python harness/selftest_toc.py C20|C13 [name ...]

Each mutation is a textual replacement in one or two source files.  The scratch tree's current diff (the candidate
repairs) is saved with `git diff`, the mutation applied on top, `./check Cxx --quick` run, the replay re-run, and the
tree restored with `git checkout -- . && git apply`.  Expected: mutations -> exit 1 + VIOLATION + reproducible replay;
behaviour-preserving rewrites -> exit 0, no output line."""
import os, re, subprocess, sys, time
from pathlib import Path

ROOT = Path(__file__).resolve().parent.parent
REPO = Path(os.environ["ODFDO_REPO"])
assert REPO.resolve() != Path("/repo"), "never mutate /repo"

TOC = "src/odfdo/toc.py"
HDR = "src/odfdo/scripts/headers.py"
DOC = "src/odfdo/document.py"
STY = "src/odfdo/styles.py"
ELT = "src/odfdo/element.py"

MUT = {"C20": [
    # name, kind, [(file, old, new)]
    ("no-delete-deeper", "mutation", [(TOC, "        while idx in level_indexes:\n            del level_indexes[idx]\n            idx += 1\n        return \".\".join(str(x) for x in numbers) + \".\"\n\n    def fill",
                                      "        return \".\".join(str(x) for x in numbers) + \".\"\n\n    def fill")]),
    ("level-filter-ge", "mutation", [(TOC, "if level is None or level > outline_level:", "if level is None or level >= outline_level:")]),
    ("entries-reversed", "mutation", [(TOC, "            index_body.append(paragraph)  # type: ignore", "            index_body.insert(paragraph, position=1 if title and str(title) else 0)  # type: ignore")]),
    ("delete-only-next-level", "subtle mutation (needs 1,2,3,1,3)", [(TOC, "        while idx in level_indexes:\n            del level_indexes[idx]\n            idx += 1\n        return \".\".join(str(x) for x in numbers) + \".\"\n\n    def fill",
                                                                   "        if idx in level_indexes:\n            del level_indexes[idx]\n            idx += 1\n        return \".\".join(str(x) for x in numbers) + \".\"\n\n    def fill")]),
    ("ancestor-not-persisted", "subtle mutation (needs a skipped level then a shallower one)", [(TOC, "            numbers.append(level_indexes.setdefault(idx, 1))\n        # header level\n        index = level_indexes.get(level, 0) + 1\n        level_indexes[level] = index\n        numbers.append(index)\n        # after header level\n        idx = level + 1\n        while idx in level_indexes:\n            del level_indexes[idx]\n            idx += 1\n        return \".\".join(str(x) for x in numbers) + \".\"\n\n    def fill",
                                                                                               "            numbers.append(level_indexes.get(idx, 1))\n        # header level\n        index = level_indexes.get(level, 0) + 1\n        level_indexes[level] = index\n        numbers.append(index)\n        # after header level\n        idx = level + 1\n        while idx in level_indexes:\n            del level_indexes[idx]\n            idx += 1\n        return \".\".join(str(x) for x in numbers) + \".\"\n\n    def fill")]),
    ("outline-zero-is-nine", "boundary mutation (level 10 under outline 0)", [(TOC, "outline_level = self.outline_level or 10", "outline_level = self.outline_level or 9")]),
    ("title-dropped", "mutation", [(TOC, "        if title and str(title):\n            index_body.insert(title, position=0)", "        if title and not str(title):\n            index_body.insert(title, position=0)")]),
    ("refill-keeps-old-entries", "history mutation (second fill)", [(TOC, "        # Clean the old index-body\n        self.body = None\n        index_body = self.body\n",
                                                                   "        # Clean the old index-body\n        if index_body is None:\n            self.body = None\n        index_body = self.body\n        if title is not None:\n            index_body.delete(title)\n")]),
    ("number-mod-10", "boundary mutation (tenth heading of a level)", [(TOC, "return \".\".join(str(x) for x in numbers) + \".\"\n\n    def fill", "return \".\".join(str(x % 10) for x in numbers) + \".\"\n\n    def fill")]),
    ("entry-text-without-children", "mutation (only headings with spans / white-space elements)", [(TOC, "{heading_plain_text(header)}", "{header.text}")]),
    ("link-target-shown", "mutation of the heading text (only headings with a hyperlink)", [(TOC, "            result.append(heading_plain_text(child))", "            result.append(str(child) if tag == \"text:a\" else heading_plain_text(child))")]),
    ("note-not-skipped", "mutation of the heading text (only headings with a footnote)", [(TOC, 'elif tag not in ("text:note", "office:annotation", "office:annotation-end"):', 'elif tag not in ("office:annotation", "office:annotation-end"):')]),
    ("tool-depth-ge", "mutation in the second site (scripts/headers.py)", [(HDR, "if level is None or level > depth:", "if level is None or level >= depth:")]),
    ("tool-no-delete-deeper", "two sites disagree (tool only)", [(HDR, "    while idx in level_indexes:\n        del level_indexes[idx]\n        idx += 1\n", "")]),
    ("rewrite-list-cleanup", "behaviour-preserving rewrite", [(TOC, "        idx = level + 1\n        while idx in level_indexes:\n            del level_indexes[idx]\n            idx += 1\n        return \".\".join(str(x) for x in numbers) + \".\"\n\n    def fill",
                                                              "        for deeper in sorted(k for k in level_indexes if k > level):\n            level_indexes.pop(deeper)\n        return \".\".join(map(str, numbers)) + \".\"\n\n    def fill")]),
    ("rewrite-fill-locals", "behaviour-preserving rewrite", [(TOC, "        outline_level = self.outline_level or 10\n", "        wanted = self.outline_level\n        outline_level = 10 if not wanted else wanted\n"),
                                                             (TOC, "            paragraph = Paragraph(f\"{number_str} {heading_plain_text(header)}\")", "            entry_text = number_str + \" \" + heading_plain_text(header)\n            paragraph = Paragraph(entry_text)")]),
], "C13": []}


def sh(cmd, **kw):
    return subprocess.run(cmd, shell=True, capture_output=True, text=True, **kw)


def main():
    prop = sys.argv[1]
    only = set(sys.argv[2:])
    try:
        import selftest_styles
        MUT["C13"] = selftest_styles.MUT
    except ImportError:
        pass
    base = sh("git diff", cwd=REPO).stdout
    (ROOT / ".work").mkdir(exist_ok=True)
    bfile = ROOT / ".work" / ("selftest-base-%s.diff" % prop)
    bfile.write_text(base)
    results = []
    for name, kind, edits in MUT[prop]:
        if only and name not in only: continue
        try:
            for f, old, new in edits:
                p = REPO / f; s = p.read_text()
                assert s.count(old) == 1, "%s: pattern of %s found %d times in %s" % (name, name, s.count(old), f)
                p.write_text(s.replace(old, new))
            t = time.time()
            r = sh("./check %s --quick" % prop, cwd=ROOT, env=dict(os.environ, ODFDO_REPO=str(REPO)))
            out = r.stdout.strip().splitlines()
            viol = [l for l in out if l.startswith("VIOLATION")]
            rep = ""
            if viol:
                m = re.search(r"replay=(\S+)", viol[0])
                r2 = sh("./check %s --replay %s" % (prop, m.group(1)), cwd=ROOT, env=dict(os.environ, ODFDO_REPO=str(REPO)))
                rep = "replay rc=%d %s" % (r2.returncode, "reproduced" if "VIOLATION" in r2.stdout else "NOT reproduced")
            results.append((name, kind, r.returncode, len(viol), viol[0] if viol else "", rep, round(time.time() - t)))
            print(results[-1], flush=True)
        finally:
            sh("git checkout -- .", cwd=REPO)
            if base.strip():
                a = sh("git apply %s" % bfile, cwd=REPO)
                assert a.returncode == 0, a.stderr
    ok = all((rc == 1 and nv > 0 and "reproduced" in rep and "NOT" not in rep) if "rewrite" not in kind else (rc == 0 and nv == 0)
             for (_, kind, rc, nv, _, rep, _) in results)
    print("SELFTEST", prop, "OK" if ok else "FAILED")
    return 0 if ok else 1


if __name__ == "__main__":
    sys.exit(main())
