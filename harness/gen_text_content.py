"""Regenerates coq/theories/Gen_TextContent.v from TEXT_CONTENT in $ODFDO_REPO/src/odfdo/container.py (default /repo).
No arguments.  Exit status non-zero when the source has a shape the translator does not understand (fail closed)."""
import sys
from pathlib import Path
sys.path.insert(0, str(Path(__file__).resolve().parent))
import pkglib

if __name__ == "__main__":
    try:
        tc, tab = pkglib.write_gen_text_content()
    except Exception as e:
        print("gen_text_content: %r" % (e,), file=sys.stderr)
        sys.exit(1)
    print("Gen_TextContent.v: %d names" % len(tc))
