(* Names2proof.v — if the rule derived from the setter is, as data, the specification's rule, the setter accepts exactly
   the specification's range names, for all strings. *)
From Coq Require Import List NArith Bool Lia.
Import ListNotations.
Require Import Names Namesproof Namesproof2 Names2.
Local Open Scope N_scope.

Lemma span_r_ext cls p : (forall c, mem_r c cls = p c) -> forall s, span_r cls s = lo_span p s.
Proof. intros H. induction s as [|c r IH]; cbn [span_r lo_span]; [reflexivity|]. now rewrite H, IH. Qed.
Lemma mem_digits_r c : mem_r c lit_digits_r = lo_digit c.
Proof. unfold mem_r, lit_digits_r, lo_digit. cbn [existsb fst snd]. now rewrite orb_false_r. Qed.
Lemma mem_letters_r c : mem_r c lit_letters_r = lo_letter c.
Proof. unfold mem_r, lit_letters_r, lo_letter. cbn [existsb fst snd]. now rewrite orb_false_r. Qed.
Lemma below_128_in c : c < 128 -> In c (map N.of_nat (seq 0 128)).
Proof.
  intros H. apply in_map_iff. exists (N.to_nat c). split; [apply N2Nat.id|]. apply in_seq. lia.
Qed.
Lemma mem_charrej c : negb (mem_r c lit_charrej) = (128 <=? c) || lo_letter c || lo_digit c || (c =? 95).
Proof.
  destruct (N.leb_spec 128 c) as [Hge|Hlt].
  - cbn [orb]. unfold mem_r, lit_charrej. cbn [existsb fst snd].
    replace (c <=? 47) with false by (symmetry; apply N.leb_gt; lia).
    replace (c <=? 64) with false by (symmetry; apply N.leb_gt; lia).
    replace (c <=? 94) with false by (symmetry; apply N.leb_gt; lia).
    replace (c <=? 96) with false by (symmetry; apply N.leb_gt; lia).
    replace (c <=? 127) with false by (symmetry; apply N.leb_gt; lia).
    rewrite !andb_false_r. reflexivity.
  - cbn [orb].
    assert (Hall : forallb (fun x => Bool.eqb (negb (mem_r x lit_charrej)) (lo_letter x || lo_digit x || (x =? 95))) (map N.of_nat (seq 0 128)) = true)
      by (vm_compute; reflexivity).
    rewrite forallb_forall in Hall. apply eqb_prop, Hall, below_128_in, Hlt.
Qed.

Lemma shape_a1_eq s : re_match lit_shape_a1 s = lo_a1_shape s.
Proof.
  rewrite lo_a1_shape_eq. destruct s as [|c r]; [reflexivity|]. unfold lit_shape_a1. cbn [re_match lo_span].
  rewrite mem_letters_r, (span_r_ext lit_letters_r lo_letter mem_letters_r).
  destruct (lo_letter c); cbn [andb]; [|reflexivity].
  destruct (lo_span lo_letter r) as [|d r']; [reflexivity|].
  rewrite mem_digits_r, (span_r_ext lit_digits_r lo_digit mem_digits_r). unfold nilb.
  destruct (lo_digit d); cbn [andb]; [|reflexivity]. destruct (lo_span lo_digit r'); reflexivity.
Qed.
Lemma mem_two a b c : mem_r c [(a, a); (b, b)] = (c =? a) || (c =? b).
Proof.
  unfold mem_r. cbn [existsb fst snd]. rewrite orb_false_r.
  destruct (N.leb_spec a c), (N.leb_spec c a), (N.leb_spec b c), (N.leb_spec c b), (N.eqb_spec c a), (N.eqb_spec c b); cbn; try reflexivity; lia.
Qed.
Lemma shape_r1c1_eq s : re_match lit_shape_r1c1 s = lo_r1c1_shape s.
Proof.
  unfold lit_shape_r1c1, lo_r1c1_shape. destruct s as [|c r]; [reflexivity|]. cbn [re_match].
  rewrite mem_two. destruct r as [|d r'].
  - destruct ((c =? 82) || (c =? 114)); reflexivity.
  - rewrite mem_digits_r, (span_r_ext lit_digits_r lo_digit mem_digits_r).
    destruct ((c =? 82) || (c =? 114)); cbn [andb]; [|reflexivity].
    destruct (lo_digit d); cbn [andb]; [|reflexivity].
    destruct (lo_span lo_digit r') as [|c2 r2]; [reflexivity|].
    rewrite mem_two. destruct r2 as [|d2 r2'].
    + destruct ((c2 =? 67) || (c2 =? 99)); reflexivity.
    + rewrite mem_digits_r, (span_r_ext lit_digits_r lo_digit mem_digits_r).
      destruct ((c2 =? 67) || (c2 =? 99)); cbn [andb]; [|reflexivity].
      destruct (lo_digit d2); cbn [andb]; [|reflexivity]. destruct (lo_span lo_digit r2'); reflexivity.
Qed.

Theorem nr_rule_equiv : forall (sp : list N) (charrej firstrej : ranges) (shapes : list (list ritem)),
  charrej = lit_charrej -> firstrej = lit_firstrej ->
  (shapes = [lit_shape_r1c1; lit_shape_a1] \/ shapes = [lit_shape_a1; lit_shape_r1c1]) ->
  forall s : str, nr_rule_ok sp charrej firstrej shapes s = lo_range_name_ok sp s.
Proof.
  intros sp charrej firstrej shapes -> -> Hs s. unfold nr_rule_ok, lo_range_name_ok.
  destruct (strip sp s) as [|c r]; [reflexivity|].
  rewrite (forallb_ext' (fun x => negb (mem_r x lit_charrej)) (fun x => (128 <=? x) || lo_letter x || lo_digit x || (x =? 95)) (c :: r) mem_charrej).
  change (mem_r c lit_firstrej) with (mem_r c lit_digits_r). rewrite mem_digits_r.
  destruct Hs as [-> | ->]; cbn [forallb]; rewrite shape_a1_eq, shape_r1c1_eq, andb_true_r.
  - destruct (lo_digit c), (lo_a1_shape (c :: r)), (lo_r1c1_shape (c :: r)); rewrite ?andb_true_r, ?andb_false_r; reflexivity.
  - destruct (lo_digit c), (lo_a1_shape (c :: r)), (lo_r1c1_shape (c :: r)); rewrite ?andb_true_r, ?andb_false_r; reflexivity.
Qed.
