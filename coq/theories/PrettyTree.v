(* PrettyTree.v — executable model of pretty_indent (src/odfdo/container.py) over an lxml-like tree, and the ODF
   reading of paragraphs (definitions only).  [textual] is the membership test of TEXT_CONTENT, supplied by the
   generated Gen_TextContent.v.  [fx] selects the pinned code (false) or the repaired code (true, fixes/F15-*.diff):
   the repaired code gives a non-textual child of text content a tail only when it closes a text:p / text:h. *)
From Coq Require Import List ZArith Bool Arith.
Import ListNotations.
Require Import WS.

Definition tagid := Z.
(* tags the model distinguishes (ids fixed in harness/pkglib.py: TAG_FIXED) *)
Definition T_P : tagid := 1%Z.  Definition T_H : tagid := 2%Z.
Definition T_SPAN : tagid := 3%Z. Definition T_A : tagid := 4%Z. Definition T_META : tagid := 5%Z. Definition T_METAFIELD : tagid := 6%Z.
Definition T_S : tagid := 7%Z. Definition T_TAB : tagid := 8%Z. Definition T_LB : tagid := 9%Z.
Definition T_BINARY : tagid := 10%Z.   (* office:binary-data *)
Definition is_ph (t : tagid) : bool := Z.eqb t T_P || Z.eqb t T_H.
Definition inline (t : tagid) : bool := Z.eqb t T_SPAN || Z.eqb t T_A || Z.eqb t T_META || Z.eqb t T_METAFIELD.

(* element: tag, text:c count (1 when absent), attribute-set id, text, children, tail *)
Inductive node := Node (tag : tagid) (c : nat) (att : Z) (text : str) (kids : list node) (tail : str).
Definition ntag (e : node) := match e with Node t _ _ _ _ _ => t end.
Definition ntail (e : node) := match e with Node _ _ _ _ _ t => t end.

Definition map_last {A B} (f : bool -> A -> B) : list A -> list B :=
  fix go l := match l with [] => [] | [a] => [f true a] | a :: r => f false a :: go r end.

Definition indent (k : nat) : str := Nl :: repeat Sp (2 * k).     (* "\n" + k * TAB, TAB = two spaces *)
Definition is_nil {A} (l : list A) := match l with [] => true | _ => false end.

Section Pretty.
Variable textual : tagid -> bool.
Variable refill : nat -> nat -> str -> str.      (* textwrap.fill of office:binary-data (flat XML only) *)

(* pretty_indent(elem, level, ending_level, textual_parent); [closing]: elem is the last child of a text:p / text:h *)
Fixpoint pi (fx : bool) (level ending : nat) (tp closing : bool) (e : node) {struct e} : node :=
  match e with
  | Node tag c att tx ks tl =>
      let follow := S level in
      let nb := negb (is_nil ks) in
      if textual tag then
        Node tag c att tx (map_last (fun last k => pi fx follow (if last then level else follow) true (last && is_ph tag) k) ks)
             (if tp then tl else indent ending)
      else if Z.eqb tag T_BINARY then
        Node tag c att (refill ending follow tx)
             (map_last (fun last k => pi fx follow (if last then level else follow) true (last && is_ph tag) k) ks)
             (if is_nil tl && (negb fx || closing || negb tp) then indent ending else tl)
      else
        let ks' := map_last (fun last k => pi fx follow (if last then level else follow) false (last && is_ph tag) k) ks in
        if tp then
          Node tag c att (if nb then tx ++ indent follow else tx) ks'
               (if is_nil tl && (negb fx || closing) then indent ending else tl)
        else
          Node tag c att (if nb then indent follow else tx) ks' (indent ending)
  end.
Definition pretty (fx : bool) (root : node) : node := pi fx 0 0 false false root.
End Pretty.

(* ---------------------------------------------------------------- the ODF reading (section 6.1.2) of a paragraph *)
Definition istr (s : str) : list item := match s with [] => [] | _ => [IStr s] end.
Definition OBJ : list tok := [Ch 0].      (* an object in the text flow (note, frame, field, bookmark ...) *)
(* the character data of a paragraph / inline container, as consumer items; other elements are opaque *)
Fixpoint flow (e : node) : list item :=
  match e with
  | Node _ _ _ tx ks _ =>
      istr tx ++ flat_map (fun k => match k with
                                    | Node t c _ _ _ tl =>
                                        (if Z.eqb t T_S then [IS c] else if Z.eqb t T_TAB then [ITab] else if Z.eqb t T_LB then [ILb]
                                         else if inline t then flow k else [IElem 0 OBJ]) ++ istr tl
                                    end) ks
  end.
Definition contrib (k : node) : list item :=
  match k with
  | Node t c _ _ _ tl =>
      (if Z.eqb t T_S then [IS c] else if Z.eqb t T_TAB then [ITab] else if Z.eqb t T_LB then [ILb]
       else if inline t then flow k else [IElem 0 OBJ]) ++ istr tl
  end.
(* the readable text of every paragraph and heading, in document order *)
Fixpoint readable_ws (e : node) : list str :=
  match e with
  | Node t _ _ _ ks _ => (if is_ph t then [consume (flow e)] else []) ++ flat_map readable_ws ks
  end.
(* element structure and attributes, character data erased *)
Fixpoint skeleton (e : node) : node :=
  match e with Node t c a _ ks _ => Node t c a [] (map skeleton ks) [] end.

(* boolean equalities for the correspondence *)
Fixpoint node_eqb (a b : node) {struct a} : bool :=
  match a, b with
  | Node t c at1 tx ks tl, Node t' c' at' tx' ks' tl' =>
      Z.eqb t t' && Nat.eqb c c' && Z.eqb at1 at' && str_eqb tx tx' && str_eqb tl tl'
      && (fix go (l : list node) (m : list node) : bool :=
            match l, m with [], [] => true | x :: l', y :: m' => node_eqb x y && go l' m' | _, _ => false end) ks ks'
  end.
Definition strs_eqb (a b : list str) : bool := Nat.eqb (length a) (length b) && forallb (fun p => str_eqb (fst p) (snd p)) (combine a b).
