(* Property C03 — statements only.  Each is closed by [exact] of a lemma proved elsewhere.
   Model: Package.v (FIXED = the code with fixes/F9 F34 F37 F38 ...); abstract XML / bytes with par (ser x) = x.
   WFd = bookkeeping invariant (unique dict keys, current folder time stamps, only XML parts cached, a parsed tree has
   bytes behind it); C03_full proves it along every history; the correspondence also evaluates it (WFdb) on every
   implementation state. *)
From Coq Require Import List ZArith Bool. Import ListNotations.
Require Import Package PkgManproof PkgZipproof Pkgproof Pkgproof3 Pkgproof4 Pkgproof5 PkgStepWF PkgStepWF4 PkgInitproof PkgHistproof PkgFlatproof PkgBuffer PkgBufferproof PkgInstproof.
Open Scope Z_scope.

(* save (zip or folder; path or buffer target; pretty or not) then open by path: the new document shows, part by part,
   what the saved document holds in memory.  With pretty the equality is up to [mask], any projection that pretty_indent
   preserves (C11_pretty_text / C11_pretty_attrs_skeleton establish that for the projection of C11) *)
Theorem C03_roundtrip : forall (xml bytes kid : Type) (ser : xml -> bytes) (par : bytes -> xml) (pretty stamp : xml -> xml)
    (entries : xml -> mentries) (kids : xml -> list kid) (mime : bytes -> mtype) (rdf0 : bytes) (proj : Type) (mask : xml -> proj),
  (forall x, par (ser x) = x) ->
  forall (fs : fsys bytes kid) (d : document xml bytes) (t : target) (pk : packaging) (pty : bool) (fs' : fsys bytes kid) (d' : document xml bytes) (c : container bytes),
  WFd xml bytes kid fs d -> pk <> PXml -> (pty = true -> forall x, mask (pretty x) = mask x) ->
  d_save xml bytes kid ser par pretty stamp entries kids mime rdf0 FIXED fs d t pk pty = (fs', d', true) ->
  c_open bytes kid fs' (tgt_id t) false = Some c ->
  forall n, view xml bytes kid par proj mask fs' (mkD c []) n = view xml bytes kid par proj mask fs d' n.
Proof. exact roundtrip. Qed.
Print Assumptions C03_roundtrip.

(* the file itself, read back independently, is the document: no part lost, invented or changed (domain and contents) *)
Theorem C03_no_part_lost_or_invented : forall (xml bytes kid : Type) (ser : xml -> bytes) (par : bytes -> xml) (pretty stamp : xml -> xml)
    (entries : xml -> mentries) (kids : xml -> list kid) (mime : bytes -> mtype) (rdf0 : bytes) (proj : Type) (mask : xml -> proj),
  (forall x, par (ser x) = x) ->
  forall (fs : fsys bytes kid) (d : document xml bytes) (t : target) (pk : packaging) (pty : bool) (fs' : fsys bytes kid) (d' : document xml bytes),
  WFd xml bytes kid fs d -> pk <> PXml -> (pty = true -> forall x, mask (pretty x) = mask x) ->
  d_save xml bytes kid ser par pretty stamp entries kids mime rdf0 FIXED fs d t pk pty = (fs', d', true) ->
  forall n, file_view xml bytes kid par proj mask (lookup (tgt_id t) fs') n = view xml bytes kid par proj mask fs d' n.
Proof. exact save_file_is_memory. Qed.
Print Assumptions C03_no_part_lost_or_invented.

(* an open/save cycle without edits is the identity on content: save leaves memory as it was (see also C11_save_pure),
   so together with the two theorems above  view (open (save d)) = view d  for every part but manifest.rdf, which
   Document.save reconciles with the manifest on purpose *)
Theorem C03_unmodified_identity : forall (xml bytes kid : Type) (ser : xml -> bytes) (par : bytes -> xml) (pretty stamp : xml -> xml)
    (entries : xml -> mentries) (kids : xml -> list kid) (mime : bytes -> mtype) (rdf0 : bytes) (proj : Type) (mask : xml -> proj),
  (forall x, mask (stamp x) = mask x) ->
  forall (fs : fsys bytes kid) (d : document xml bytes) (t : target) (pk : packaging) (pty : bool) (fs' : fsys bytes kid) (d' : document xml bytes),
  WFd xml bytes kid fs d ->
  d_save xml bytes kid ser par pretty stamp entries kids mime rdf0 FIXED fs d t pk pty = (fs', d', true) ->
  forall n, n <> RDF -> view xml bytes kid par proj mask fs d' n = view xml bytes kid par proj mask fs d n.
Proof. exact save_pure. Qed.
Print Assumptions C03_unmodified_identity.

(* the zip writer: under every name the archive holds exactly what the container holds *)
Theorem C03_zip_writer_exact : forall (bytes : Type) (c : container bytes) es, save_zip bytes c = Some es ->
  forall n, lookup n (zip_plain bytes es) = lookup n (live bytes c).
Proof. exact save_zip_lookup. Qed.
Print Assumptions C03_zip_writer_exact.

(* flat XML export (cannot be re-opened): contains the children of the four XML parts, in the order meta, settings, styles, content *)
Theorem C03_flatxml_partial : forall (xml bytes kid : Type) (par : bytes -> xml) (kids : xml -> list kid) (c : container bytes),
  flat_kids xml bytes kid par kids c =
    (match lookup META (live bytes c) with Some b => kids (par b) | None => [] end)
    ++ (match lookup SETTINGS (live bytes c) with Some b => kids (par b) | None => [] end)
    ++ (match lookup STYLES (live bytes c) with Some b => kids (par b) | None => [] end)
    ++ (match lookup CONTENT (live bytes c) with Some b => kids (par b) | None => [] end).
Proof. exact flat_kids_order. Qed.
Print Assumptions C03_flatxml_partial.

(* reading a part never changes what the document holds (repaired code: F34) *)
Theorem C03_reads_neutral : forall (xml bytes kid : Type) (par : bytes -> xml) (fs : fsys bytes kid) (n : name) (d : document xml bytes),
  WFd xml bytes kid fs d -> is_xml n = true ->
  let r := d_tree xml bytes kid par FIXED fs n d in
  snd r = dX xml bytes kid par fs d n /\
  (forall m, dB xml bytes kid fs (fst r) m = dB xml bytes kid fs d m) /\
  (forall m, dX xml bytes kid par fs (fst r) m = dX xml bytes kid par fs d m) /\
  WFd xml bytes kid fs (fst r) /\
  cpath bytes (cont xml bytes (fst r)) = cpath bytes (cont xml bytes d) /\
  pkg bytes (cont xml bytes (fst r)) = pkg bytes (cont xml bytes d) /\
  (snd r <> None -> exists x, lookup n (xps xml bytes (fst r)) = Some (Some x) /\ snd r = Some x).
Proof. exact d_tree_sem. Qed.
Print Assumptions C03_reads_neutral.

(* F9 on the pinned code: bytes given with set_part for an XML part whose tree is parsed are not what a reader sees *)
Theorem C03_set_part_refuted : exists fs d n b,
  cview fs (snd (fst (cstep PINNED (fs, d) (OSetPart n b)))) n <> Some (CXml (cmask (cpar b)))
  /\ cview fs (snd (fst (cstep FIXED (fs, d) (OSetPart n b)))) n = Some (CXml (cmask (cpar b))).
Proof. exact f9_refuted. Qed.
Print Assumptions C03_set_part_refuted.

(* F34 on the pinned code: folder-opened document, set_part of a part not read before, the next read undoes it *)
Theorem C03_folder_set_part_refuted : exists fs d n b,
  let s1 := fst (cstep PINNED (fs, d) (OSetPart n b)) in
  cview (fst s1) (snd (fst (cstep PINNED s1 (OTouch n)))) n <> cview (fst s1) (snd s1) n
  /\ let s2 := fst (cstep FIXED (fs, d) (OSetPart n b)) in
     cview (fst s2) (snd (fst (cstep FIXED s2 (OTouch n)))) n = cview (fst s2) (snd s2) n.
Proof. exact f34_refuted. Qed.
Print Assumptions C03_folder_set_part_refuted.

(* F35 before its repair (Container.parts listed the file, not memory): a manifest.rdf provided through the API on a
   path-opened package that had none is replaced by save; with the repair (fixes/F35-*.diff) save keeps it *)
Theorem C03_parts_listing_refuted : exists (s : cfs * cdoc) (o1 o2 : cop) (n : name),
  (let s1 := fst (cstep FIXED35OFF s o1) in let s2 := fst (cstep FIXED35OFF s1 o2) in cview (fst s2) (snd s2) n <> cview (fst s1) (snd s1) n) /\
  (let s1 := fst (cstep FIXED s o1) in let s2 := fst (cstep FIXED s1 o2) in cview (fst s2) (snd s2) n = cview (fst s1) (snd s1) n).
Proof. exact f35_refuted. Qed.
Print Assumptions C03_parts_listing_refuted.

(* the hypotheses are inhabited: a path-opened zip with an unread part, a parsed and edited content, an added and a deleted part *)
Example C03_example : WFd cxml cbytes Z ex_fs ex_doc /\ (forall x, cpar (cser x) = x) /\ (forall x, cmask (cstamp x) = cmask x).
Proof. exact (conj ex_doc_wf (conj cpar_cser cmask_cstamp)). Qed.

(* C03_full, one operation: every operation of the alphabet (open, new, get_part, XML part access, edit, set_part, del_part, add_file, import, save in any packaging to any target, clone) preserves SInv = unique member names in every archive of the file system + the bookkeeping invariant WFd of the document *)
Theorem C03_full_step :
  forall (xml bytes kid : Type) (ser : xml -> bytes)
           (par : bytes -> xml) (pretty stamp : xml -> xml)
           (entries : xml -> mentries) (with_entries : mentries -> xml -> xml)
           (kids : xml -> list kid) (mime : bytes -> mtype)
           (mime_bytes : mtype -> bytes) (rdf0 : bytes),
         (forall x : xml, par (ser x) = x) ->
         forall (s : fsys bytes kid * document xml bytes) (o : op xml bytes),
         SInv xml bytes kid s ->
         SInv xml bytes kid
           (fst
              (step xml bytes kid ser par pretty stamp entries with_entries
                 kids mime mime_bytes rdf0 FIXED s o)).
Proof. exact step_inv. Qed.
Print Assumptions C03_full_step.

(* C03_full: ... hence along any history *)
Theorem C03_full :
  forall (xml bytes kid : Type) (ser : xml -> bytes)
           (par : bytes -> xml) (pretty stamp : xml -> xml)
           (entries : xml -> mentries) (with_entries : mentries -> xml -> xml)
           (kids : xml -> list kid) (mime : bytes -> mtype)
           (mime_bytes : mtype -> bytes) (rdf0 : bytes),
         (forall x : xml, par (ser x) = x) ->
         forall (os : list (op xml bytes))
           (s : fsys bytes kid * document xml bytes),
         SInv xml bytes kid s ->
         SInv xml bytes kid
           (run xml bytes kid ser par pretty stamp entries with_entries kids
              mime mime_bytes rdf0 FIXED s os).
Proof. exact run_inv. Qed.
Print Assumptions C03_full.

(* C03_roundtrip for every state reachable by any history from a state satisfying SInv (an opened package, a new document: C04_start): no WFd hypothesis left *)
Theorem C03_roundtrip_reachable :
  forall (xml bytes kid : Type) (ser : xml -> bytes)
           (par : bytes -> xml) (pretty stamp : xml -> xml)
           (entries : xml -> mentries) (with_entries : mentries -> xml -> xml)
           (kids : xml -> list kid) (mime : bytes -> mtype)
           (mime_bytes : mtype -> bytes) (rdf0 : bytes) 
           (proj : Type) (mask : xml -> proj),
         (forall x : xml, par (ser x) = x) ->
         forall (s0 : fsys bytes kid * document xml bytes)
           (os : list (op xml bytes)),
         SInv xml bytes kid s0 ->
         forall (t : target) (pk : packaging) (pty : bool)
           (fs' : fsys bytes kid) (d' : document xml bytes)
           (c : container bytes),
         pk <> PXml ->
         (pty = true -> forall x : xml, mask (pretty x) = mask x) ->
         d_save xml bytes kid ser par pretty stamp entries kids mime rdf0 FIXED
           (fst
              (run xml bytes kid ser par pretty stamp entries with_entries kids
                 mime mime_bytes rdf0 FIXED s0 os))
           (snd
              (run xml bytes kid ser par pretty stamp entries with_entries kids
                 mime mime_bytes rdf0 FIXED s0 os)) t pk pty = (
         fs', d', true) ->
         c_open bytes kid fs' (tgt_id t) false = Some c ->
         forall n : name,
         view xml bytes kid par proj mask fs' {| cont := c; xps := nil |} n =
         view xml bytes kid par proj mask
           (fst
              (run xml bytes kid ser par pretty stamp entries with_entries kids
                 mime mime_bytes rdf0 FIXED s0 os)) d' n.
Proof. exact roundtrip_reachable. Qed.
Print Assumptions C03_roundtrip_reachable.

(* save leaves memory as it was, for every reachable state *)
Theorem C03_unmodified_identity_reachable :
  forall (xml bytes kid : Type) (ser : xml -> bytes)
           (par : bytes -> xml) (pretty stamp : xml -> xml)
           (entries : xml -> mentries) (with_entries : mentries -> xml -> xml)
           (kids : xml -> list kid) (mime : bytes -> mtype)
           (mime_bytes : mtype -> bytes) (rdf0 : bytes) 
           (proj : Type) (mask : xml -> proj),
         (forall x : xml, par (ser x) = x) ->
         forall (s0 : fsys bytes kid * document xml bytes)
           (os : list (op xml bytes)),
         SInv xml bytes kid s0 ->
         (forall x : xml, mask (stamp x) = mask x) ->
         forall (t : target) (pk : packaging) (pty : bool)
           (fs' : fsys bytes kid) (d' : document xml bytes),
         d_save xml bytes kid ser par pretty stamp entries kids mime rdf0 FIXED
           (fst
              (run xml bytes kid ser par pretty stamp entries with_entries kids
                 mime mime_bytes rdf0 FIXED s0 os))
           (snd
              (run xml bytes kid ser par pretty stamp entries with_entries kids
                 mime mime_bytes rdf0 FIXED s0 os)) t pk pty = (
         fs', d', true) ->
         forall n : name,
         n <> RDF ->
         view xml bytes kid par proj mask
           (fst
              (run xml bytes kid ser par pretty stamp entries with_entries kids
                 mime mime_bytes rdf0 FIXED s0 os)) d' n =
         view xml bytes kid par proj mask
           (fst
              (run xml bytes kid ser par pretty stamp entries with_entries kids
                 mime mime_bytes rdf0 FIXED s0 os))
           (snd
              (run xml bytes kid ser par pretty stamp entries with_entries kids
                 mime mime_bytes rdf0 FIXED s0 os)) n.
Proof. exact save_pure_reachable. Qed.
Print Assumptions C03_unmodified_identity_reachable.

(* C03_roundtrip with the re-opening by path OR from a BytesIO (every member read at once), for every reachable state *)
Theorem C03_roundtrip_reachable_any_open :
  forall (xml bytes kid : Type) (ser : xml -> bytes)
           (par : bytes -> xml) (pretty stamp : xml -> xml)
           (entries : xml -> mentries) (with_entries : mentries -> xml -> xml)
           (kids : xml -> list kid) (mime : bytes -> mtype)
           (mime_bytes : mtype -> bytes) (rdf0 : bytes) 
           (proj : Type) (mask : xml -> proj),
         (forall x : xml, par (ser x) = x) ->
         forall (s0 : fsys bytes kid * document xml bytes)
           (os : list (op xml bytes)),
         PkgStepWF4.SInv xml bytes kid s0 ->
         forall (t : target) (pk : packaging) (pty : bool)
           (fs' : fsys bytes kid) (d' : document xml bytes) 
           (b : bool) (c : container bytes),
         pk <> PXml ->
         (pty = true -> forall x : xml, mask (pretty x) = mask x) ->
         d_save xml bytes kid ser par pretty stamp entries kids mime rdf0 FIXED
           (fst
              (run xml bytes kid ser par pretty stamp entries with_entries kids
                 mime mime_bytes rdf0 FIXED s0 os))
           (snd
              (run xml bytes kid ser par pretty stamp entries with_entries kids
                 mime mime_bytes rdf0 FIXED s0 os)) t pk pty = (
         fs', d', true) ->
         c_open bytes kid fs' (tgt_id t) b = Some c ->
         forall n : name,
         view xml bytes kid par proj mask fs' {| cont := c; xps := nil |} n =
         view xml bytes kid par proj mask
           (fst
              (run xml bytes kid ser par pretty stamp entries with_entries kids
                 mime mime_bytes rdf0 FIXED s0 os)) d' n.
Proof. exact roundtrip_reachable_any. Qed.
Print Assumptions C03_roundtrip_reachable_any_open.

(* flat XML export of any well-formed state: the file holds office:mimetype and, in the order meta, settings, styles, content, exactly the children (whole subtrees, [kids]) of the trees the document has in memory — not only their order (C03_flatxml_partial). The optional indentation of the assembled root is pretty_indent's (C11) *)
Theorem C03_flatxml :
  forall (xml bytes kid : Type) (ser : xml -> bytes)
           (par : bytes -> xml) (pretty stamp : xml -> xml)
           (entries : xml -> mentries) (kids : xml -> list kid)
           (mime : bytes -> mtype) (rdf0 : bytes),
         (forall x : xml, par (ser x) = x) ->
         forall (fs : fsys bytes kid) (d : document xml bytes) 
           (t : target) (pty : bool) (fs' : fsys bytes kid)
           (d' : document xml bytes),
         WFd xml bytes kid fs d ->
         d_save xml bytes kid ser par pretty stamp entries kids mime rdf0 FIXED
           fs d t PXml pty = (fs', d', true) ->
         exists m : mtype,
           lookup (tgt_id t) fs' =
           Some
             (FFlat m
                (kids_of xml bytes kid par kids fs d' META ++
                 kids_of xml bytes kid par kids fs d' SETTINGS ++
                 kids_of xml bytes kid par kids fs d' STYLES ++
                 kids_of xml bytes kid par kids fs d' CONTENT)).
Proof. exact flatxml_is_memory. Qed.
Print Assumptions C03_flatxml.

(* a BytesIO reused as the target of zip saves (PkgBuffer.v: cells, position, write = overwrite + extend at the position, read = the archive that ends the buffer if it is there in full): a save that leaves the position alone appends, and open reads the archive just written whatever the buffer held *)
Theorem C03_buffer_reads_last_archive :
  forall size : BinNums.Z -> nat,
         (forall z : BinNums.Z, (0 < size z)%nat) ->
         forall (z : BinNums.Z) (b : buffer),
         at_end b ->
         read size (save_append size z b) = Some z /\
         at_end (save_append size z b).
Proof. exact read_after_append. Qed.
Print Assumptions C03_buffer_reads_last_archive.

(* ... after any number of saves into the same buffer *)
Theorem C03_buffer_reads_last_of_many :
  forall size : BinNums.Z -> nat,
         (forall z : BinNums.Z, (0 < size z)%nat) ->
         forall (zs : list BinNums.Z) (z : BinNums.Z) (b : buffer),
         at_end b ->
         read size
           (save_append size z
              (List.fold_left
                 (fun (b0 : buffer) (z0 : BinNums.Z) => save_append size z0 b0)
                 zs b)) = Some z.
Proof. exact read_last_of_many. Qed.
Print Assumptions C03_buffer_reads_last_of_many.

(* the rewound-but-not-truncated writer (`target.seek(0)` before ZipFile(target, "w")): a shorter archive written over a longer
   one is not what open reads back; the appending writer reads it back (same witness) *)
Theorem C03_buffer_rewind_refuted : exists z1 z2 b, at_end b /\ read ex_size (save_append ex_size z1 b) = Some z1 /\
  read ex_size (save_rewound ex_size z2 (save_append ex_size z1 b)) <> Some z2
  /\ read ex_size (save_append ex_size z2 (save_append ex_size z1 b)) = Some z2.
Proof. exact read_after_rewind_refuted. Qed.
Print Assumptions C03_buffer_rewind_refuted.

(* the initial-state predicate is inhabited: the file system of the four templates has unique member names, and the empty
   document (before the first open / new) is well formed *)
Example C03_initial_state : SInv cxml cbytes Z (tmpl_fs, mkD (mkC [] [] None PZip) []).
Proof. exact (conj (proj1 tmpl_fs_ok) (empty_doc_wf cxml cbytes Z tmpl_fs)). Qed.

(* still covered by the correspondence only: in-place folder saves (their outcome depends on the clock), and that zipfile / BytesIO
   behave as PkgBuffer.v says (buffer reuse is exercised on every run). *)
