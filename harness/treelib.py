"""Shared by c09.py and c16.py: paragraph generator, independent lxml abstraction (tree -> Coq [node] term),
projections computed in Python (only for the direct oracle / shrinking / keys; the verdicts are Coq's), regex oracle."""
import re, signal, json
from contextlib import contextmanager
from lxml import etree

NS = {
    'text': 'urn:oasis:names:tc:opendocument:xmlns:text:1.0',
    'office': 'urn:oasis:names:tc:opendocument:xmlns:office:1.0',
    'xlink': 'http://www.w3.org/1999/xlink',
    'dc': 'http://purl.org/dc/elements/1.1/',
}
T = '{%s}' % NS['text']; O = '{%s}' % NS['office']; XL = '{%s}' % NS['xlink']
KINDS = {T + 'p': 'KP', T + 'h': 'KH', T + 'span': 'KSpan', T + 'a': 'KLink', T + 'tab': 'KTab', T + 'line-break': 'KLb',
         T + 'note': 'KNote', O + 'annotation': 'KAnnot'}
MARKS = {T + 'bookmark', T + 'bookmark-start', T + 'bookmark-end', T + 'reference-mark', T + 'reference-mark-start',
         T + 'reference-mark-end', O + 'annotation-end'}


class Timeout(Exception):
    pass


@contextmanager
def limit(seconds=5):
    def h(sig, frm):
        raise Timeout()
    old = signal.signal(signal.SIGALRM, h); signal.alarm(seconds)
    try:
        yield
    finally:
        signal.alarm(0); signal.signal(signal.SIGALRM, old)


class Ctx:
    """interning of characters and of (tag, attributes) pairs into small numbers"""
    def __init__(self):
        self.chars = {}
        self.attrs = {}

    def tok(self, c):
        if c == ' ': return 'Sp'
        if c == '\t': return 'Tb'
        if c == '\n': return 'Nl'
        if c not in self.chars: self.chars[c] = len(self.chars)
        return 'Ch %d' % self.chars[c]

    def cs(self, s):
        return '[' + ';'.join(self.tok(c) for c in s) + ']'

    def ocs(self, s):
        return 'None' if s is None else '(Some %s)' % self.cs(s)

    def attr(self, tag, attrib):
        k = (tag, tuple(sorted(attrib.items())))
        if k not in self.attrs: self.attrs[k] = len(self.attrs) + 1
        return self.attrs[k]


def lx(elem):
    """the lxml element behind an odfdo element (private field, by name)"""
    return elem._Element__element


# ---------------------------------------------------------------- abstraction: lxml -> python tuple tree
# node = (kind:str, attr:int, sel:bool, text|None, [kids], tail|None)

def abs_node(x, ctx, sel=()):
    tag = x.tag
    if not isinstance(tag, str):
        raise ValueError("comment or processing instruction in the tree")
    if tag == T + 's':
        kind, a = 'KS %d' % int(x.get(T + 'c') or 1), 0
    elif tag in (T + 'tab', T + 'line-break'):
        kind, a = KINDS[tag], 0
    elif tag in KINDS:
        kind, a = KINDS[tag], ctx.attr(tag, dict(x.attrib))
    elif tag in MARKS:
        kind, a = 'KMark', ctx.attr(tag, dict(x.attrib))
    else:
        kind, a = 'KOther', ctx.attr(tag, dict(x.attrib))
    return (kind, a, any(x is s for s in sel), x.text, [abs_node(c, ctx, sel) for c in x], x.tail)


def coq_node(n, ctx):
    k, a, s, tx, ks, tl = n
    return 'Node %s %d %s %s [%s] %s' % ('(%s)' % k if ' ' in k else k, a, 'true' if s else 'false', ctx.ocs(tx),
                                        ';'.join('(' + coq_node(c, ctx) + ')' for c in ks), ctx.ocs(tl))


def flat(n, out=None, top=True):
    """events of the CONTENT of n (python mirror of Tree.content): ('O',kind,a) ('C',) ('T',s)"""
    out = [] if out is None else out
    k, a, s, tx, ks, tl = n
    if not top: out.append(('O', k, a))
    if tx is not None: out.append(('T', tx))
    for c in ks: flat(c, out, False)
    if not top:
        out.append(('C',))
        if tl is not None: out.append(('T', tl))
    return out


def coq_evs(evs, ctx):
    r = []
    for e in evs:
        if e[0] == 'O': r.append('Open %s %d' % ('(%s)' % e[1] if ' ' in e[1] else e[1], e[2]))
        elif e[0] == 'C': r.append('Close')
        else: r.append('Txt ' + ctx.cs(e[1]))
    return '[' + ';'.join(r) + ']'


def elem_events(n):
    """events of one whole element without its tail"""
    k, a, s, tx, ks, tl = n
    return [('O', k, a)] + flat((k, a, s, tx, ks, None)) + [('C',)]


def texts(n):
    return [e[1] for e in flat(n) if e[0] == 'T']


def texts_main(n):
    """text nodes outside annotations (what _insert scans with main_text=True in the repaired code)"""
    out, ad = [], 0
    for e in flat(n):
        if e[0] == 'O':
            ad = ad + 1 if ad else (1 if e[1] == 'KAnnot' else 0)
        elif e[0] == 'C':
            if ad: ad -= 1
        elif not ad:
            out.append(e[1])
    return out


def own_text(n):
    """python mirror of Tree.own_text (only to know on which string the regex oracle must be tabulated)"""
    k, a, s, tx, ks, tl = n
    head = ' ' * int(k[3:]) if k.startswith('KS ') else '\t' if k == 'KTab' else '\n' if k == 'KLb' else (tx or '')
    return head + ''.join(('' if c[0] in ('KNote', 'KAnnot') else own_text(c)) + (c[5] or '') for c in ks)


def raw(n):
    return ''.join(texts(n))


def readable(n):
    """python mirror of Tree.readable_ev (content n): used by the direct oracle only"""
    out, sk = [], 0
    for e in flat(n):
        if e[0] == 'O':
            if sk: sk += 1
            elif e[1] in ('KNote', 'KAnnot'): sk = 1
            elif e[1].startswith('KS '): out.append(' ' * int(e[1][3:]))
            elif e[1] == 'KTab': out.append('\t')
            elif e[1] == 'KLb': out.append('\n')
        elif e[0] == 'C':
            if sk: sk -= 1
        elif not sk:
            out.append(e[1])
    return ''.join(out)


def n_elements(n):
    return sum(1 for e in flat(n) if e[0] == 'O')


def spans_oracle(rx, n, main=False):
    """match spans per text node — independent of odfdo: re.finditer over the abstraction's text nodes
    (main: only the text nodes outside annotations)"""
    pat = re.compile(rx)
    return [[m.span() for m in pat.finditer(t)] for t in (texts_main(n) if main else texts(n))]


def coq_spans(sp):
    return '[' + ';'.join('[' + ';'.join('(%d,%d)' % ab for ab in l) + ']' for l in sp) + ']'


# ---------------------------------------------------------------- generator of paragraphs (as XML)
def esc(s):
    return s.replace('&', '&amp;').replace('<', '&lt;')


ALPHA = list('aabbc  ')
RARE = list('é<&x')
# characters whose NFC / NFD / NFKC / casefold / UTF-16 forms differ in LENGTH from themselves: a search that works on a
# normalised or re-encoded copy of the text reports shifted positions after any of them
UNI = ['e\u0301', 'a\u030a', '\u212b', '\u2126', '\ufb01', '\u0130', '\U0001f600', '\u1112\u1161\u11ab', '\u00e9']


def gen_text(rng, lo=0, hi=6, edge=False):
    n = rng.randint(lo, hi)
    r = rng.random()
    pool = ALPHA + (RARE if r < .15 else UNI if r < .40 else [])
    s = ''.join(rng.choice(pool) for _ in range(n))
    if not edge:
        s = re.sub(' +', ' ', s)
    return s


def gen_content(rng, depth, edge, budget):
    """list of XML fragments; text pieces are never adjacent"""
    out = []
    n = rng.randint(0, 4 if depth == 0 else 2)
    last_text = False
    for _ in range(n):
        if budget[0] <= 0: break
        budget[0] -= 1
        r = rng.random()
        if r < .38 and not last_text:
            t = gen_text(rng, 1, 6, edge)
            if t:
                out.append(esc(t)); last_text = True
            continue
        last_text = False
        if r < .52 and depth < 2:
            out.append('<text:span text:style-name="s%d">%s</text:span>' % (rng.randint(1, 2), ''.join(gen_content(rng, depth + 1, edge, budget))))
        elif r < .62 and depth < 2:
            out.append('<text:a xlink:href="u%d">%s</text:a>' % (rng.randint(1, 2), ''.join(gen_content(rng, depth + 1, edge, budget))))
        elif r < .72:
            c = rng.choice([1, 1, 2, 3])
            out.append('<text:s text:c="%d"/>' % c if c > 1 or rng.random() < .5 else '<text:s/>')
        elif r < .78:
            out.append('<text:tab/>')
        elif r < .83:
            out.append('<text:line-break/>')
        elif r < .90:
            out.append(rng.choice(['<text:bookmark text:name="k%d"/>', '<text:bookmark-start text:name="k%d"/>',
                                   '<text:bookmark-end text:name="k%d"/>', '<text:reference-mark text:name="k%d"/>']) % rng.randint(1, 3))
        elif r < .95:
            out.append('<text:note text:note-class="footnote" text:id="n%d"><text:note-citation>%s</text:note-citation>'
                       '<text:note-body><text:p>%s</text:p></text:note-body></text:note>'
                       % (rng.randint(1, 3), rng.choice(['1', 'a']), esc(gen_text(rng, 1, 4))))
        else:
            out.append('<office:annotation office:name="an%d"><text:p>%s</text:p><dc:creator>c</dc:creator>'
                       '<dc:date>2020-01-01T00:00:00</dc:date></office:annotation>' % (rng.randint(1, 2), esc(gen_text(rng, 1, 4))))
    return out


def gen_paragraph(rng, edge=False, tag='text:p'):
    if rng.random() < .25:      # plain sentence, the common case of the API's users
        body = esc(gen_text(rng, 0, 10, edge))
    else:
        body = ''.join(gen_content(rng, 0, edge, [9]))
    attrs = ' text:outline-level="1"' if tag == 'text:h' else ''
    return '<%s%s>%s</%s>' % (tag, attrs, body, tag)


def gen_body(rng, edge=False):
    """content of an office:text body: paragraphs and headings, some nested in footnotes, comments, text boxes, list items
    and table cells (a paragraph inside a paragraph is what a per-paragraph walk processes twice)"""
    def para():
        return gen_paragraph(rng, edge, tag='text:h' if rng.random() < .15 else 'text:p')
    def nested_para():
        inner = '<text:p>%s</text:p>' % esc(gen_text(rng, 2, 8))
        kind = rng.randrange(3)
        if kind == 0:
            ins = ('<text:note text:note-class="footnote" text:id="nn%d"><text:note-citation>1</text:note-citation>'
                   '<text:note-body>%s</text:note-body></text:note>' % (rng.randint(1, 9), inner))
        elif kind == 1:
            ins = ('<office:annotation office:name="aa%d">%s<dc:creator>c</dc:creator><dc:date>2020-01-01T00:00:00</dc:date>'
                   '</office:annotation>' % (rng.randint(1, 9), inner))
        else:
            ins = ('<draw:frame draw:name="f%d" text:anchor-type="as-char" svg:width="1cm" svg:height="1cm"><draw:text-box>%s'
                   '</draw:text-box></draw:frame>' % (rng.randint(1, 9), inner))
        return '<text:p>%s%s%s</text:p>' % (esc(gen_text(rng, 1, 6)), ins, esc(gen_text(rng, 0, 5)))
    blocks = []
    for _ in range(rng.randint(2, 5)):
        r = rng.random()
        if r < .35: blocks.append(para())
        elif r < .70: blocks.append(nested_para())
        elif r < .85: blocks.append('<text:list><text:list-item>%s</text:list-item><text:list-item>%s</text:list-item></text:list>' % (para(), nested_para()))
        else: blocks.append('<table:table table:name="t%d"><table:table-column/><table:table-row><table:table-cell>%s</table:table-cell>'
                            '<table:table-cell>%s</table:table-cell></table:table-row></table:table>' % (rng.randint(1, 9), para(), para()))
    return blocks


REGEXES = ['a', 'b', 'c', 'ab', 'bc', 'b+', '[ab]', '[ab]+', 'a|c', 'c ', ' ', 'a b', ' +', '^a', 'c$', 'a.', r'\s', r'\bb',
           '[^ ]+', 'é', 'x', 'ba?', '(a)(b)', 'e\u0301', '\u212b', 'b.', '[a\ufb01]+']


def json_default(o):
    return str(o)
