(* TableGproof8.v — C08 under LAZY consumption of the generators: in the code as it is every yielded copy is made from the
   stored element, so whatever the caller does to object k before asking for object k+1, the objects he receives are the
   objects an eager list(...) gives; in the code before the repair of F112 (and in any variant that duplicates the copy it
   has just yielded) an edit of object k shows in the following objects of the same run. *)
From Coq Require Import List ZArith Lia Bool Arith.
Import ListNotations.
Require Import Vault Row Table TableB TableG.
Open Scope Z_scope.

Lemma run_flags_false k : Forall (fun b => b = false) (run_flags false k).
Proof. destruct k; cbn [run_flags]; constructor; [reflexivity|]. induction k; cbn [repeat]; constructor; auto. Qed.
Lemma run_flags_length p k : length (run_flags p k) = k.
Proof. destruct k; cbn [run_flags length]; [reflexivity|]. now rewrite repeat_length. Qed.

Lemma trav_flags_false {A} : forall (m : list Z) (v : runs A) x en before, Forall (fun b => b = false) (trav_flags false x en before m v).
Proof.
  induction m as [|juska m IH]; intros [|[n c] v] x en before; try constructor.
  cbn [trav_flags]. apply Forall_app. split; [apply run_flags_false|apply IH].
Qed.
Lemma trav_flags_length {A} p late : forall (m : list Z) (v : runs A) x en before start,
  length (trav_flags p x en before m v) = length (trav_objs late x en before start m v).
Proof.
  induction m as [|juska m IH]; intros [|[n c] v] x en before start; try reflexivity.
  cbn [trav_flags trav_objs]. rewrite !app_length, run_flags_length, map_length, seq_length. f_equal. apply IH.
Qed.
Lemma vault_flags_false {A} s e (v : runs A) : Forall (fun b => b = false) (vault_flags false s e v).
Proof. unfold vault_flags. destruct (find_idx _ _); [apply trav_flags_false|constructor]. Qed.
Lemma vault_flags_length {A} p s e (v : runs A) : length (vault_flags p s e v) = length (vault_traverse false s e v).
Proof. unfold vault_flags, vault_traverse. destruct (find_idx _ _); [apply trav_flags_length|reflexivity]. Qed.
Lemma yield_flags_false rs : Forall (fun b => b = false) (yield_flags false rs).
Proof. unfold yield_flags. induction rs as [|[n r] rs IH]; cbn [flat_map fst]; [constructor|]. apply Forall_app. split; [apply run_flags_false|exact IH]. Qed.
Lemma yield_flags_length p rs : forall i y, length (yield_flags p rs) = length (yield_rows false i y rs).
Proof.
  unfold yield_flags. induction rs as [|[n r] rs IH]; intros i y; [reflexivity|].
  cbn [flat_map yield_rows fst]. rewrite !app_length, run_flags_length, map_length, seq_length. f_equal. apply IH.
Qed.

(* no copy is made from a yielded copy  ==>  lazy consumption with ANY edits gives the eager list *)
Theorem lazy_is_eager {O} (inherit : O -> O -> O) (f : O -> O) : forall (flags : list bool) (objs : list O) prev,
  Forall (fun b => b = false) flags -> length flags = length objs ->
  lazy_run inherit f prev (combine flags objs) = objs.
Proof.
  induction flags as [|b flags IH]; intros [|o objs] prev Hf Hl; try discriminate; [reflexivity|].
  inversion Hf; subst. cbn [combine lazy_run]. f_equal. apply IH; [assumption|now inversion Hl].
Qed.

Section Instances.
Variable A : Type.
Variable inherit : Z * nat * A -> Z * nat * A -> Z * nat * A.
Variable f : Z * nat * A -> Z * nat * A.
(* Row.traverse / Row.cells / Row.get_cells, traverse_columns / columns / get_columns *)
Theorem vault_traverse_lazy (s e : option Z) (v : runs A) :
  lazy_run inherit f None (combine (vault_flags false s e v) (vault_traverse false s e v)) = vault_traverse false s e v.
Proof. apply lazy_is_eager; [apply vault_flags_false|apply vault_flags_length]. Qed.
End Instances.
(* Table.traverse / rows / get_rows *)
Theorem yield_rows_lazy (inherit : robj -> robj -> robj) (f : robj -> robj) rs :
  lazy_run inherit f None (combine (yield_flags false rs) (yield_rows false 0 0 rs)) = yield_rows false 0 0 rs.
Proof. apply lazy_is_eager; [apply yield_flags_false|apply yield_flags_length]. Qed.

(* ---- refuted: copies made from the previously yielded copy (Row.traverse and traverse_columns before the repair of F112; the
        same for a _yield_odf_rows that duplicates the copy it has just handed out): an edit of the first object of a run
        shows in the second ---- *)
Definition inherit_cell (own prev : Z * nat * cell) : Z * nat * cell := (fst (fst own), snd (fst own), snd prev).
Theorem lazy_prev_refuted_w : exists (v : rruns) (f : Z * nat * cell -> Z * nat * cell), wf v /\
  lazy_run inherit_cell f None (combine (vault_flags true None None v) (vault_traverse false None None v)) <> vault_traverse false None None v.
Proof.
  exists [(2%nat, (7, 0))], (fun p => (fst p, (99, 0))). split; [repeat constructor|]. vm_compute. discriminate.
Qed.
Definition inherit_row (own prev : robj) : robj := {| r_y := r_y own; r_rep := r_rep own; r_h := r_h own; r_val := r_val prev |}.
Theorem lazy_rows_prev_refuted_w : exists (rs : list (nat * rowx)) (f : robj -> robj), wf rs /\
  lazy_run inherit_row f None (combine (yield_flags true rs) (yield_rows false 0 0 rs)) <> yield_rows false 0 0 rs.
Proof.
  exists [(2%nat, (0, [(1%nat, (7, 0))]))], (fun r => {| r_y := r_y r; r_rep := r_rep r; r_h := r_h r; r_val := (0, snd (r_val r) ++ [(1%nat, (9, 0))]) |}).
  split; [repeat constructor|]. vm_compute. discriminate.
Qed.
