(* Transformproof.v — list lemmas about strip_end (the reversed(...) / break loops of rstrip) *)
From Coq Require Import List ZArith Lia Bool Arith.
Import ListNotations.
Require Import Vault Row Table Transform.

Lemma strip_end_cons {A} (p : A -> bool) x l :
  strip_end p (x :: l) = match strip_end p l with [] => if p x then [] else [x] | r' => x :: r' end.
Proof. reflexivity. Qed.

Lemma strip_end_nil_iff {A} (p : A -> bool) l : strip_end p l = [] <-> forallb p l = true.
Proof.
  induction l as [|x l IH]; [split; reflexivity|].
  rewrite strip_end_cons. cbn [forallb]. destruct (strip_end p l) eqn:E.
  - destruct (p x); cbn [andb]; [tauto|]. split; discriminate.
  - split; [discriminate|]. intros H. apply andb_prop in H. destruct H as [_ H]. apply IH in H. discriminate.
Qed.

Lemma strip_end_idem {A} (p : A -> bool) l : strip_end p (strip_end p l) = strip_end p l.
Proof.
  induction l as [|x l IH]; [reflexivity|].
  rewrite strip_end_cons. destruct (strip_end p l) as [|y r] eqn:E.
  - destruct (p x) eqn:Px; [reflexivity|]. cbn. rewrite Px. reflexivity.
  - rewrite strip_end_cons. rewrite IH. reflexivity.
Qed.

Lemma strip_end_app {A} (p : A -> bool) l1 l2 :
  strip_end p (l1 ++ l2) = match strip_end p l2 with [] => strip_end p l1 | r => l1 ++ r end.
Proof.
  induction l1 as [|x l1 IH]; cbn [app].
  - destruct (strip_end p l2); reflexivity.
  - rewrite !strip_end_cons, IH. destruct (strip_end p l2) as [|y r] eqn:E; [reflexivity|].
    destruct l1; reflexivity.
Qed.
Lemma strip_end_repeat {A} (p : A -> bool) a n : strip_end p (repeat a n) = if p a then [] else repeat a n.
Proof.
  induction n as [|n IH]; [destruct (p a); reflexivity|].
  cbn [repeat]. rewrite strip_end_cons, IH. destruct (p a) eqn:Pa; [reflexivity|]. destruct n; reflexivity.
Qed.
Lemma strip_end_decomp {A} (p : A -> bool) l : exists s, l = strip_end p l ++ s /\ forallb p s = true.
Proof.
  induction l as [|x l (s & Hs & Hp)]; [exists []; split; reflexivity|].
  rewrite strip_end_cons. destruct (strip_end p l) as [|y r] eqn:E.
  - destruct (p x) eqn:Px.
    + exists (x :: l). split; [reflexivity|]. cbn [forallb]. rewrite Px. apply strip_end_nil_iff. exact E.
    + exists l. split; [reflexivity|]. apply strip_end_nil_iff. exact E.
  - exists s. split; [cbn [app] in *; congruence|exact Hp].
Qed.
Lemma strip_end_last {A} (p : A -> bool) l r x : strip_end p l = r ++ [x] -> p x = false.
Proof.
  revert r. induction l as [|y l IH]; intros r H; [destruct r; discriminate|].
  rewrite strip_end_cons in H. destruct (strip_end p l) as [|z q] eqn:E.
  - destruct (p y) eqn:Py; [destruct r; discriminate|].
    destruct r as [|? r]; [inversion H; subst; exact Py|]. inversion H. destruct r; discriminate.
  - destruct r as [|y' r]; [inversion H|]. inversion H; subst. eapply IH. eassumption.
Qed.
Lemma strip_end_ext_in {A} (p q : A -> bool) l : (forall x, In x l -> p x = q x) -> strip_end p l = strip_end q l.
Proof.
  induction l as [|x l IH]; intros H; [reflexivity|].
  rewrite !strip_end_cons, IH by (intros; apply H; right; assumption).
  rewrite (H x) by (left; reflexivity). reflexivity.
Qed.
Lemma strip_end_map {A B} (f : A -> B) (p : B -> bool) l : strip_end p (map f l) = map f (strip_end (fun x => p (f x)) l).
Proof.
  induction l as [|x l IH]; [reflexivity|]. cbn [map]. rewrite !strip_end_cons, IH.
  destruct (strip_end (fun x => p (f x)) l); cbn [map]; [destruct (p (f x))|]; reflexivity.
Qed.
Lemma forallb_strip_end {A} (p : A -> bool) l : forallb p (strip_end p l) = forallb p l.
Proof.
  destruct (forallb p l) eqn:E.
  - apply strip_end_nil_iff in E. rewrite E. reflexivity.
  - destruct (strip_end_decomp p l) as (s & Hs & Hp).
    destruct (forallb p (strip_end p l)) eqn:E2; [|reflexivity].
    rewrite Hs, forallb_app, E2, Hp in E. discriminate.
Qed.
Lemma strip_end_incl {A} (p : A -> bool) l x : In x (strip_end p l) -> In x l.
Proof.
  destruct (strip_end_decomp p l) as (s & Hs & _). intros H. rewrite Hs. apply in_or_app. left. exact H.
Qed.
Lemma strip_end_length {A} (p : A -> bool) l : (length (strip_end p l) <= length l)%nat.
Proof. destruct (strip_end_decomp p l) as (s & Hs & _). rewrite Hs at 2. rewrite app_length. lia. Qed.
Lemma strip_end_firstn {A} (p : A -> bool) l : firstn (length (strip_end p l)) l = strip_end p l.
Proof.
  destruct (strip_end_decomp p l) as (s & Hs & _). rewrite Hs at 2.
  rewrite firstn_app, Nat.sub_diag, firstn_all, firstn_O, app_nil_r. reflexivity.
Qed.
Lemma strip_end_skipn {A} (p : A -> bool) l : forallb p (skipn (length (strip_end p l)) l) = true.
Proof.
  destruct (strip_end_decomp p l) as (s & Hs & Hp). rewrite Hs at 2.
  rewrite skipn_app, Nat.sub_diag, skipn_all. cbn [app skipn]. exact Hp.
Qed.

(* ---- run lists: stripping trailing runs = stripping trailing logical items ---- *)
Lemma wf_strip_end {A} (p : nat * A -> bool) (v : list (nat * A)) : wf v -> wf (strip_end p v).
Proof. unfold wf. rewrite !Forall_forall. intros H x Hx. apply H. eapply strip_end_incl. exact Hx. Qed.
Lemma expand_strip_end {A} (p : A -> bool) (v : list (nat * A)) : wf v ->
  expand (strip_end (fun r => p (snd r)) v) = strip_end p (expand v).
Proof.
  induction v as [|[n x] v IH]; intros Hw; [reflexivity|].
  inversion Hw as [|? ? Hn Hv]; subst. cbn [fst] in Hn. specialize (IH Hv).
  rewrite strip_end_cons. cbn [expand snd]. rewrite strip_end_app, <- IH, strip_end_repeat.
  destruct (strip_end (fun r => p (snd r)) v) as [|[m y] r'] eqn:E.
  - cbn [expand]. destruct (p x); [reflexivity|]. cbn [expand]. rewrite app_nil_r. reflexivity.
  - assert (Hm : (1 <= m)%nat).
    { pose proof (wf_strip_end (fun r => p (snd r)) v Hv) as Hw'. rewrite E in Hw'. inversion Hw'; subst. assumption. }
    cbn [expand]. destruct m; [lia|]. reflexivity.
Qed.
Lemma forallb_expand {A} (p : A -> bool) (v : list (nat * A)) : wf v ->
  forallb p (expand v) = forallb (fun r => p (snd r)) v.
Proof.
  induction v as [|[n x] v IH]; intros Hw; [reflexivity|].
  inversion Hw as [|? ? Hn Hv]; subst. cbn [fst] in Hn. cbn [expand forallb snd]. rewrite forallb_app, (IH Hv). f_equal.
  destruct n; [lia|]. cbn [repeat forallb]. destruct (p x) eqn:Px; [|reflexivity]. cbn [andb].
  clear - Px. induction n; [reflexivity|]. cbn [repeat forallb]. rewrite Px. exact IHn.
Qed.
