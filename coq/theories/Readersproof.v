(* Lemmas for C15: reads of the paragraph machine are pure and repeatable, in any order; the repaired Markdown export
   and the RST export leave the table alone and answer as the pinned one did; the pinned export does not. *)
From Coq Require Import List Arith Bool. Import ListNotations.
Require Import WS Readers.

Lemma read_pure : forall st o, is_read o = true -> fst (pstep st o) = st.
Proof. intros st [| | |s] H; try reflexivity. discriminate. Qed.

Lemma read_deterministic : forall st o, is_read o = true -> snd (pstep (fst (pstep st o)) o) = snd (pstep st o).
Proof. intros st o H. rewrite (read_pure st o H). reflexivity. Qed.

(* any sequence of reads: the state at the end is the state at the start, and the i-th answer is the answer the i-th read
   gives on the ORIGINAL state -- so answers do not depend on what was read before, nor on how often *)
Lemma reads_any_order : forall os st, forallb is_read os = true ->
  fst (prun st os) = st /\ snd (prun st os) = map (fun o => snd (pstep st o)) os.
Proof.
  induction os as [|o os IH]; intros st H; [split; reflexivity|].
  cbn [forallb] in H. apply andb_true_iff in H. destruct H as [Ho Hos].
  cbn [prun map]. pose proof (read_pure st o Ho) as P.
  destruct (pstep st o) as [st1 a] eqn:E. cbn [fst] in P. subst st1.
  destruct (IH st Hos) as [I1 I2]. destruct (prun st os) as [st2 l]. cbn [fst snd] in *. subst. split; reflexivity.
Qed.

(* a write in between is the only thing that can change an answer *)
Lemma write_changes_state : exists st s, fst (pstep st (WAppend s)) <> st.
Proof. exists [], [Ch 1]. cbn. discriminate. Qed.

Section Export.
  Variable A : Type.
  Variable render : ctable -> A.
  Variable rstrip : ctable -> ctable.

  Lemma md_fixed_pure : forall t, fst (md_export_fixed A render t) = t.
  Proof. reflexivity. Qed.

  Lemma md_fixed_same_answer : forall t, snd (md_export_fixed A render t) = snd (md_export_pinned A render t).
  Proof. reflexivity. Qed.

  Lemma md_fixed_deterministic : forall t,
    snd (md_export_fixed A render (fst (md_export_fixed A render t))) = snd (md_export_fixed A render t).
  Proof. reflexivity. Qed.

  Lemma rst_pure : forall t, fst (rst_export A render rstrip t) = t /\
    snd (rst_export A render rstrip (fst (rst_export A render rstrip t))) = snd (rst_export A render rstrip t).
  Proof. split; reflexivity. Qed.

  (* the pinned export changes exactly the tables that optimize_width changes *)
  Lemma md_pinned_changes_iff : forall t, fst (md_export_pinned A render t) = t <-> optimize_rows t = t.
  Proof. intros; split; intro H; exact H. Qed.
End Export.

(* F20 witness: one row "x" followed by two empty row elements, the first one repeated three times *)
Definition f20_table : ctable :=
  [mkRow 1 [mkCell 1 false false; mkCell 3 true true]; mkRow 3 [mkCell 4 true true]; mkRow 1 [mkCell 4 true true]].

Lemma md_pinned_refuted : forall A (render : ctable -> A), exists t, fst (md_export_pinned A render t) <> t.
Proof. intros. exists f20_table. vm_compute. discriminate. Qed.

Lemma ctable_eqb_refl_on_witness : ctable_eqb (optimize_rows f20_table) [mkRow 1 [mkCell 1 false false; mkCell 1 true true]; mkRow 1 [mkCell 2 true true]] = true.
Proof. vm_compute. reflexivity. Qed.

(* ---- boolean equality reflects equality ---- *)
Lemma list_eqb_eq : forall X (e : X -> X -> bool), (forall x y, e x y = true -> x = y) ->
  forall a b, list_eqb e a b = true -> a = b.
Proof.
  intros X e He. induction a as [|x a IH]; destruct b as [|y b]; cbn; intro H; try discriminate; [reflexivity|].
  apply andb_true_iff in H. destruct H as [H1 H2]. f_equal; [apply He; exact H1|apply IH; exact H2].
Qed.

Lemma ccell_eqb_eq : forall x y, ccell_eqb x y = true -> x = y.
Proof.
  intros [r s h] [r' s' h']. unfold ccell_eqb. cbn. intro H.
  apply andb_true_iff in H. destruct H as [H H3]. apply andb_true_iff in H. destruct H as [H1 H2].
  apply Nat.eqb_eq in H1. apply Bool.eqb_prop in H2. apply Bool.eqb_prop in H3. subst. reflexivity.
Qed.

Lemma crow_eqb_eq : forall x y, crow_eqb x y = true -> x = y.
Proof.
  intros [r c] [r' c']. unfold crow_eqb. cbn. intro H. apply andb_true_iff in H. destruct H as [H1 H2].
  apply Nat.eqb_eq in H1. apply (list_eqb_eq _ _ ccell_eqb_eq) in H2. subst. reflexivity.
Qed.

Lemma ctable_eqb_eq : forall a b, ctable_eqb a b = true -> a = b.
Proof. exact (list_eqb_eq _ _ crow_eqb_eq). Qed.

Lemma sweep_optimize_idempotent : forallb optimize_idempotent_on small_tables = true.
Proof. vm_compute. reflexivity. Qed.

(* on the small scope the PINNED export, too, is repeatable: a second export finds the table as the first left it *)
Lemma md_pinned_repeatable_small : forall A (render : ctable -> A) t, In t small_tables ->
  md_export_pinned A render (fst (md_export_pinned A render t)) = md_export_pinned A render t.
Proof.
  intros A render t HI. unfold md_export_pinned. cbn [fst].
  pose proof (proj1 (forallb_forall optimize_idempotent_on small_tables) sweep_optimize_idempotent t HI) as H.
  apply ctable_eqb_eq in H. rewrite H. reflexivity.
Qed.
