(* CodecUnitproof2.v — Unit with a POSITIVE exponent: format(value, "f") prints digits followed by zeros, which Unit(text) reads back as the same number with exponent 0. *)
From Coq Require Import List ZArith NArith Bool Arith Lia DecimalPos DecimalFacts.
Import ListNotations.
Require Import Codec Typed Codecproof Typedproof CodecUnit CodecUnitproof.

Lemma revapp_chars_uint_app s t acc :
  Decimal.revapp (chars_uint (s ++ t)) acc = Decimal.revapp (chars_uint t) (Decimal.revapp (chars_uint s) acc).
Proof.
  revert acc. induction s as [|c s IH]; intros acc; [reflexivity|].
  cbn [app chars_uint]. unfold push_digit.
  destruct (c - 48)%N as [|p]; [cbn [Decimal.revapp]; apply IH|].
  do 4 (destruct p as [p|p|]; try (cbn [Decimal.revapp]; apply IH)).
Qed.

Lemma digits_val_snoc0 s : digits_val (s ++ [48%N]) = (10 * digits_val s)%N.
Proof.
  unfold digits_val, N.of_uint. rewrite !Unsigned.of_uint_alt. unfold Decimal.rev.
  rewrite revapp_chars_uint_app. reflexivity.
Qed.

Lemma zeros_snoc k : zeros (S k) = zeros k ++ [48%N].
Proof. induction k as [|k IH]; [reflexivity|]. change (zeros (S k) ++ [48%N]) with (48%N :: (zeros k ++ [48%N])). rewrite <- IH. reflexivity. Qed.

Lemma digits_val_app_zeros s k : digits_val (s ++ zeros k) = (digits_val s * 10 ^ N.of_nat k)%N.
Proof.
  induction k as [|k IH]; [cbn [zeros]; rewrite List.app_nil_r; change (N.of_nat 0) with 0%N; rewrite N.pow_0_r; lia|].
  rewrite zeros_snoc, List.app_assoc, digits_val_snoc0, IH, Nat2N.inj_succ, N.pow_succ_r'. lia.
Qed.

(* a positive exponent prints as digits followed by zeros ("%f" never uses an exponent) and reads back with exponent 0 *)
Definition dec_flat (d : dec) : dec :=
  mkdec (dneg d) (if (dcoef d =? 0)%N then 0%N else (dcoef d * 10 ^ Z.to_N (dexp d))%N) 0.

Theorem unit_roundtrip_posexp_lemma d u : (0 < dexp d)%Z -> u <> [] -> forallb is_letter u = true ->
  unit_parse (unit_str d u) = Some (dec_flat d, u) /\ dec_num_eqb d (dec_flat d) = true.
Proof.
  intros He Hne Hu. destruct d as [neg coef e]. cbn [dexp] in He. split.
  - unfold unit_str, dec_format_f, dec_flat. cbn [dneg dcoef dexp].
    set (digits := print_N coef).
    assert (Hdig : forallb is_digit digits = true) by apply print_N_digits.
    assert (Hnz : digits <> []) by apply print_N_nonempty.
    assert (Hval : digits_val digits = coef) by apply digits_val_print_N.
    destruct u as [|u0 ur]; [congruence|]. cbn [forallb] in Hu. apply andb_true_iff in Hu as [Hu0 Hur].
    destruct (letter_not_digit _ Hu0) as (Hud & Hudot & Humin).
    assert (Hstart : starts_digit (u0 :: ur) = false) by (cbn; exact Hud).
    assert (HuAll : forallb is_letter (u0 :: ur) = true) by (cbn [forallb]; now rewrite Hu0, Hur).
    rewrite <- List.app_assoc.
    destruct (Z.leb_spec 0 e) as [_|Hneg]; [|lia].
    set (body := if (coef =? 0)%N then digits else digits ++ zeros (Z.to_nat e)).
    assert (Hbdig : forallb is_digit body = true).
    { unfold body. destruct (coef =? 0)%N; [exact Hdig|]. rewrite forallb_app, zeros_digits, Hdig. reflexivity. }
    assert (Hbnz : body <> []).
    { unfold body. destruct (coef =? 0)%N; [exact Hnz|]. destruct digits; [congruence|discriminate]. }
    assert (Hbval : digits_val body = if (coef =? 0)%N then 0%N else (coef * 10 ^ Z.to_N e)%N).
    { unfold body. destruct (N.eqb_spec coef 0) as [E|E]; [rewrite Hval; exact E|].
      rewrite digits_val_app_zeros, Hval. f_equal. f_equal. lia. }
    apply unit_parse_body; [ | exact HuAll | discriminate | ].
    2:{ destruct body as [|x r]; [congruence|]. cbn [app]. cbn [forallb] in Hbdig. apply andb_true_iff in Hbdig as [Hx _].
        unfold is_digit, c_minus in *. lia. }
    unfold unit_body. rewrite read_digits_app by assumption. rewrite Hudot.
    destruct body as [|x r] eqn:E; [congruence|]. rewrite List.app_nil_r, Hbval. reflexivity.
  - unfold dec_num_eqb, dec_scaled, dec_flat. cbn [dneg dcoef dexp].
    rewrite Z.min_r by lia. rewrite Z.sub_0_r, Z.sub_diag. apply Z.eqb_eq.
    destruct (N.eqb_spec coef 0) as [E|E]; [subst coef; cbn; lia|].
    rewrite N2Z.inj_mul, N2Z.inj_pow, Z2N.id by lia. change (10 ^ 0)%Z with 1%Z. change (Z.of_N 10) with 10%Z. ring.
Qed.

Theorem unit_roundtrip_numeric_lemma d u : u <> [] -> forallb is_letter u = true ->
  exists d', unit_parse (unit_str d u) = Some (d', u) /\ dec_num_eqb d d' = true.
Proof.
  intros Hne Hu. destruct (Z.le_gt_cases (dexp d) 0) as [H|H].
  - exists d. split; [now apply unit_roundtrip_lemma | apply dec_num_eqb_refl].
  - exists (dec_flat d). now apply unit_roundtrip_posexp_lemma.
Qed.
Lemma dec_flat_signed_coef d : (0 < dexp d)%Z -> dec_signed_coef (dec_flat d) = (dec_signed_coef d * 10 ^ dexp d)%Z.
Proof.
  intros He. destruct d as [neg coef e]. unfold dec_signed_coef, dec_flat. cbn [dneg dcoef dexp] in *.
  destruct (N.eqb_spec coef 0) as [E|E]; [subst coef; cbn; lia|].
  rewrite N2Z.inj_mul, N2Z.inj_pow, Z2N.id by lia. change (Z.of_N 10) with 10%Z. ring.
Qed.

(* Unit.convert("px") of the length read back from the text is the conversion of the original length *)
Theorem unit_convert_flat_lemma d u dpi : (0 < dexp d)%Z -> unit_convert_px (dec_flat d) u dpi = unit_convert_px d u dpi.
Proof.
  intros He. unfold unit_convert_px. rewrite dec_flat_signed_coef by exact He.
  replace (dexp (dec_flat d)) with 0%Z by reflexivity.
  change (0 <=? 0)%Z with true. cbn iota.
  destruct (Z.leb_spec 0 (dexp d)) as [_|H]; [|lia].
  change (10 ^ 0)%Z with 1%Z. rewrite !Z.mul_1_r.
  destruct (str_eqb u s_in); [f_equal; ring|].
  destruct (str_eqb u s_cm); [|reflexivity]. f_equal. f_equal. ring.
Qed.

Theorem unit_convert_after_roundtrip_lemma d u dpi : u <> [] -> forallb is_letter u = true ->
  exists d', unit_parse (unit_str d u) = Some (d', u) /\ unit_convert_px d' u dpi = unit_convert_px d u dpi.
Proof.
  intros Hne Hu. destruct (Z.le_gt_cases (dexp d) 0) as [H|H].
  - exists d. split; [now apply unit_roundtrip_lemma | reflexivity].
  - exists (dec_flat d). split; [now apply unit_roundtrip_posexp_lemma | now apply unit_convert_flat_lemma].
Qed.
