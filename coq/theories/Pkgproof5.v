(* Pkgproof5.v — save leaves the document as it was (C11_save_pure); opening the saved file gives the part map back (C03_roundtrip) *)
From Coq Require Import List ZArith Bool Arith Lia.
Import ListNotations.
Require Import Package PkgManproof PkgZipproof Pkgproof Pkgproof2 Pkgproof3 Pkgproof4.
Open Scope Z_scope.

Section S5.
Variable xml bytes kid : Type.
Variable ser : xml -> bytes.
Variable par : bytes -> xml.
Variable pretty stamp : xml -> xml.
Variable entries : xml -> mentries.
Variable kids : xml -> list kid.
Variable mime : bytes -> mtype.
Variable rdf0 : bytes.
Variable proj : Type.
Variable mask : xml -> proj.
Hypothesis par_ser : forall x, par (ser x) = x.
Hypothesis mask_stamp : forall x, mask (stamp x) = mask x.
Notation container := (container bytes).
Notation document := (document xml bytes).
Notation fsys := (fsys bytes kid).
Notation cB := (cB bytes kid).
Notation WFc := (WFc bytes kid).
Notation dB := (dB xml bytes kid).
Notation dX := (dX xml bytes kid par).
Notation WFd := (WFd xml bytes kid).
Notation d_tree := (d_tree xml bytes kid par FIXED).
Notation view := (view xml bytes kid par proj mask).
Notation file_view := (file_view xml bytes kid par proj mask).
Notation d_save := (d_save xml bytes kid ser par pretty stamp entries kids mime rdf0 FIXED).
Notation ser_loop := (ser_loop xml bytes kid ser par pretty FIXED).
Notation check_rdf := (check_rdf xml bytes kid par entries rdf0 FIXED).

Lemma check_rdf_sem : forall fs (d : document), WFd fs d ->
  let d' := fst (check_rdf fs d) in
  (forall m, m <> RDF -> dB fs d' m = dB fs d m) /\ (forall m, is_xml m = true -> dX fs d' m = dX fs d m).
Proof.
  intros fs d W. unfold Package.check_rdf.
  pose proof (d_tree_sem xml bytes kid par fs MANIFEST d W is_xml_MANIFEST) as [_ [T2 [T3 [W1 _]]]].
  destruct (d_tree fs MANIFEST d) as [d1 [xm|]]; cbn [fst] in *; [|split; intros; auto].
  assert (Hset : forall b, let d' := d_with_cont _ _ d1 (c_set_part bytes FIXED RDF b (cont _ _ d1)) in
            (forall m, m <> RDF -> dB fs d' m = dB fs d m) /\ (forall m, is_xml m = true -> dX fs d' m = dX fs d m)).
  { intros b d'. pose proof (c_set_part_sem bytes kid fs RDF b (cont _ _ d1) (wfd_c _ _ _ _ _ W1)) as [S1 _].
    assert (HB : forall m, m <> RDF -> dB fs d' m = dB fs d m).
    { intros m Hm. unfold Pkgproof.dB, d'. cbn [cont d_with_cont]. rewrite S1.
      destruct (m =? RDF) eqn:E; [apply Z.eqb_eq in E; congruence|]. apply T2. }
    split; [exact HB|]. intros m Hm. rewrite <- T3. unfold Pkgproof.dX. change (xps _ _ d') with (xps _ _ d1).
    rewrite HB; [rewrite T2; reflexivity|]. intros ->. discriminate. }
  assert (Hdel : let d' := d_with_cont _ _ d1 (c_del_part bytes RDF (cont _ _ d1)) in
            (forall m, m <> RDF -> dB fs d' m = dB fs d m) /\ (forall m, is_xml m = true -> dX fs d' m = dX fs d m)).
  { intros d'. pose proof (c_del_part_sem bytes kid fs RDF (cont _ _ d1) (wfd_c _ _ _ _ _ W1)) as [S1 _].
    assert (HB : forall m, m <> RDF -> dB fs d' m = dB fs d m).
    { intros m Hm. unfold Pkgproof.dB, d'. cbn [cont d_with_cont]. rewrite S1.
      destruct (m =? RDF) eqn:E; [apply Z.eqb_eq in E; congruence|]. apply T2. }
    split; [exact HB|]. intros m Hm. rewrite <- T3. unfold Pkgproof.dX. change (xps _ _ d') with (xps _ _ d1).
    rewrite HB; [rewrite T2; reflexivity|]. intros ->. discriminate. }
  destruct (rdf_listed FIXED (entries xm));
    destruct (memz RDF (c_listing bytes kid FIXED fs (cont _ _ d1))); cbn [fst]; auto.
Qed.

(* the serialisation phase changes neither a tree nor the bytes of a non-XML part *)
Lemma save_loops_pure : forall (pty : bool) (pk : packaging) fs (d3 d4 : document) ok4,
  WFd fs d3 ->
  (if pty && negb (pk_eqb pk PXml)
   then let '(da, oka) := ser_loop fs true (map fst (xps _ _ d3)) d3 in
        let '(db, okb) := ser_loop fs true (filter (fun n => match lookup n (xps _ _ da) with Some _ => false | None => true end)
                                                   [CONTENT; META; SETTINGS; STYLES]) da in
        (db, oka && okb)
   else ser_loop fs false (map fst (xps _ _ d3)) d3) = (d4, ok4) ->
  (forall m, dX fs d4 m = dX fs d3 m) /\ (forall m, is_xml m = false -> dB fs d4 m = dB fs d3 m).
Proof.
  intros pty pk fs d3 d4 ok4 W H.
  assert (Hk : forall n, In n (map fst (xps _ _ d3)) -> is_xml n = true) by (apply (wfd_x _ _ _ _ _ W)).
  destruct (pty && negb (pk_eqb pk PXml)) eqn:P.
  - rewrite !ser_loop_is_fold in H.
    destruct (fold_body_inv xml bytes kid ser par pretty true fs _ _ _ _ (map fst (xps _ _ d3)) (d3, true) Hk (LInv_start xml bytes kid ser par pretty true fs d3 W)) as [I1 _].
    destruct (fold_left (body xml bytes kid ser par pretty true fs) (map fst (xps _ _ d3)) (d3, true)) as [da oka] eqn:E1. cbn [fst snd] in *.
    match type of H with context [ser_loop fs true ?l da] => set (ns2 := l) in H end.
    assert (Hk2 : forall n, In n ns2 -> is_xml n = true).
    { intros n Hn. unfold ns2 in Hn. apply filter_In in Hn as [Hn _]. cbn in Hn. repeat (destruct Hn as [<-|Hn]; [reflexivity|]). destruct Hn. }
    destruct (fold_body_inv xml bytes kid ser par pretty true fs _ _ _ _ ns2 (da, true) Hk2 I1) as [I2 _].
    rewrite ser_loop_is_fold in H.
    destruct (fold_left (body xml bytes kid ser par pretty true fs) ns2 (da, true)) as [db okb] eqn:E2. cbn [fst snd] in *.
    inversion H; subst. split; [apply (li_x _ _ _ _ _ _ _ _ _ _ _ _ _ I2)|apply (li_b _ _ _ _ _ _ _ _ _ _ _ _ _ I2)].
  - rewrite ser_loop_is_fold in H.
    destruct (fold_body_inv xml bytes kid ser par pretty false fs _ _ _ _ (map fst (xps _ _ d3)) (d3, true) Hk (LInv_start xml bytes kid ser par pretty false fs d3 W)) as [I1 _].
    rewrite H in I1. cbn [fst] in I1.
    split; [apply (li_x _ _ _ _ _ _ _ _ _ _ _ _ _ I1)|apply (li_b _ _ _ _ _ _ _ _ _ _ _ _ _ I1)].
Qed.

(* C11_save_pure: a successful save (any packaging, pretty or not) leaves every part of the document in memory as it was,
   up to the generator stamp; manifest.rdf is the one part save reconciles with the manifest on purpose *)
Theorem save_pure : forall fs (d : document) t pk pty fs' d',
  WFd fs d -> d_save fs d t pk pty = (fs', d', true) ->
  forall n, n <> RDF -> view fs d' n = view fs d n.
Proof.
  intros fs d t pk pty fs' d' W H n Hn.
  unfold Package.d_save in H.
  pose proof (d_tree_sem xml bytes kid par fs META d W is_xml_META) as [T1 [T2 [T3 [W1 [_ [_ T7]]]]]].
  destruct (d_tree fs META d) as [d1 [x|]]; cbn [fst snd] in *; [|inversion H].
  destruct (T7 ltac:(discriminate)) as [x0 [Lx0 _]].
  destruct (set_tree_sem xml bytes kid par fs META (stamp x) d1 W1 is_xml_META (wfd_live _ _ _ _ _ W1 META x0 Lx0)) as [W2 [S2 [S3 _]]].
  pose proof (check_rdf_wf xml bytes kid par entries rdf0 fs _ W2) as W3.
  pose proof (check_rdf_sem fs _ W2) as [R1 R2].
  destruct (check_rdf fs (set_tree xml bytes META (stamp x) d1)) as [d3 ok3]. cbn [fst] in *.
  destruct ok3; cbn [negb] in H; [|inversion H].
  match type of H with (let '(d4, ok4) := ?L in _) = _ => destruct L as [d4 ok4] eqn:EL end.
  destruct ok4; cbn [negb] in H; [|inversion H].
  destruct (save_loops_pure pty pk fs d3 d4 true W3 EL) as [L1 L2].
  assert (W4 : WFd fs d4).
  { destruct (pty && negb (pk_eqb pk PXml)) eqn:P.
    - (* reuse the invariant *)
      assert (Hk : forall n, In n (map fst (xps _ _ d3)) -> is_xml n = true) by (apply (wfd_x _ _ _ _ _ W3)).
      rewrite !ser_loop_is_fold in EL.
      destruct (fold_body_inv xml bytes kid ser par pretty true fs _ _ _ _ (map fst (xps _ _ d3)) (d3, true) Hk (LInv_start xml bytes kid ser par pretty true fs d3 W3)) as [I1 _].
      destruct (fold_left (body xml bytes kid ser par pretty true fs) (map fst (xps _ _ d3)) (d3, true)) as [da oka] eqn:E1. cbn [fst snd] in *.
      match type of EL with context [ser_loop fs true ?l da] => set (ns2 := l) in EL end.
      assert (Hk2 : forall n, In n ns2 -> is_xml n = true).
      { intros m Hm. unfold ns2 in Hm. apply filter_In in Hm as [Hm _]. cbn in Hm. repeat (destruct Hm as [<-|Hm]; [reflexivity|]). destruct Hm. }
      destruct (fold_body_inv xml bytes kid ser par pretty true fs _ _ _ _ ns2 (da, true) Hk2 I1) as [I2 _].
      rewrite ser_loop_is_fold in EL.
      destruct (fold_left (body xml bytes kid ser par pretty true fs) ns2 (da, true)) as [db okb] eqn:E2. cbn [fst snd] in *.
      inversion EL; subst. exact (li_wf _ _ _ _ _ _ _ _ _ _ _ _ _ I2).
    - assert (Hk : forall n, In n (map fst (xps _ _ d3)) -> is_xml n = true) by (apply (wfd_x _ _ _ _ _ W3)).
      rewrite ser_loop_is_fold in EL.
      destruct (fold_body_inv xml bytes kid ser par pretty false fs _ _ _ _ (map fst (xps _ _ d3)) (d3, true) Hk (LInv_start xml bytes kid ser par pretty false fs d3 W3)) as [I1 _].
      rewrite EL in I1. exact (li_wf _ _ _ _ _ _ _ _ _ _ _ _ _ I1). }
  assert (Hc5 : forall c5, (forall m, cB fs c5 m = cB fs (cont _ _ d4) m) -> view fs (d_with_cont _ _ d4 c5) n = view fs d n).
  { intros c5 S. unfold Package.view. destruct (is_dir n); [reflexivity|].
    assert (HB : bytes_of xml bytes kid fs (d_with_cont _ _ d4 c5) n = dB fs d4 n) by (unfold bytes_of; cbn [cont d_with_cont]; apply S).
    assert (HX : tree_of xml bytes kid par fs (d_with_cont _ _ d4 c5) n = dX fs d4 n) by (unfold tree_of; rewrite HB; reflexivity).
    rewrite HB, HX. change (tree_of xml bytes kid par fs d n) with (dX fs d n). change (bytes_of xml bytes kid fs d n) with (dB fs d n).
    destruct (is_xml n) eqn:Xn.
    - rewrite L1, (R2 n Xn), S3, T3. destruct (n =? META) eqn:E; [|reflexivity].
      apply Z.eqb_eq in E. subst n. rewrite <- T1, mask_stamp. reflexivity.
    - rewrite (L2 n Xn), (R1 n Hn), S2, T2. reflexivity. }
  destruct (c_save xml bytes kid par kids mime FIXED fs (cont _ _ d4) t pk) as [c5 ofs] eqn:CS.
  assert (S : forall m, cB fs c5 m = cB fs (cont _ _ d4) m).
  { unfold Package.c_save in CS.
    destruct (c_load_missing_sem bytes kid fs (c_listing bytes kid FIXED fs (cont _ _ d4)) (cont _ _ d4) (wfd_c _ _ _ _ _ W4)) as [A _].
    destruct pk; [destruct (save_zip _ _)|destruct t|destruct (lookup MIMETYPE _)]; inversion CS; subst; exact A. }
  destruct ofs as [fs5|]; inversion H; subst; apply Hc5; exact S.
Qed.

(* opening a saved zip or folder by path: the part map of the new document is the part map of the file *)
Lemma open_path_view : forall (fs : fsys) p c, c_open bytes kid fs p false = Some c ->
  forall n, view fs (mkD c []) n = file_view (lookup p fs) n.
Proof.
  intros fs p c H n. unfold Package.c_open in H. unfold Package.view, Package.file_view, tree_of, bytes_of.
  destruct (is_dir n); [reflexivity|].
  destruct (lookup p fs) as [[es|es|m ks]|] eqn:Lp; try discriminate.
  - destruct (lookup MIMETYPE (zip_plain _ es)) as [mb|] eqn:Lm; [|discriminate]. inversion H; subst c; clear H.
    cbn [cont xps parts cpath lookup file_entries]. unfold Package.disk_lookup, disk_entries. rewrite Lp.
    destruct (n =? MIMETYPE) eqn:E.
    + apply Z.eqb_eq in E. subst n. rewrite Lm. reflexivity.
    + destruct (lookup n (zip_plain _ es)); destruct (is_xml n); reflexivity.
  - inversion H; subst c; clear H. cbn [cont xps parts cpath lookup file_entries]. unfold Package.disk_lookup, disk_entries. rewrite Lp.
    destruct (lookup n es); destruct (is_xml n); reflexivity.
Qed.

(* C03_roundtrip *)
Theorem roundtrip : forall fs (d : document) t pk pty fs' d' c,
  WFd fs d -> pk <> PXml -> (pty = true -> forall x, mask (pretty x) = mask x) ->
  d_save fs d t pk pty = (fs', d', true) ->
  c_open bytes kid fs' (tgt_id t) false = Some c ->
  forall n, view fs' (mkD c []) n = view fs d' n.
Proof.
  intros fs d t pk pty fs' d' c W Hpk Hm Hs Ho n.
  rewrite (open_path_view fs' (tgt_id t) c Ho).
  apply (save_file_is_memory xml bytes kid ser par pretty stamp entries kids mime rdf0 proj mask par_ser fs d t pk pty fs' d' W Hpk Hm Hs).
Qed.
End S5.
