"""Orchestration shared by the table checks: generate + drive histories on 16 processes, evaluate them in Coq,
decide (shrink, replay, known findings), write evidence."""
import json, multiprocessing, os, random, sys, time
from pathlib import Path
sys.path.insert(0, str(Path(__file__).resolve().parent))
import common
import tablelib as tl

KINDS = ['empty', 'prefilled', 'rle', 'rle', 'sample']


def _worker(job):
    seed, kind, nsteps, kinds, maxw, maxh = job
    odfdo = common.use_repo()
    case, err = tl.gen_and_run(odfdo, seed, kind, nsteps, kinds, maxw, maxh)
    if err is not None:
        return case, err
    return case, tl.run_case(odfdo, case)


def _replay_worker(case):
    odfdo = common.use_repo()
    return case, tl.run_case(odfdo, case)


def drive(jobs, fn=_worker, procs=16):
    if len(jobs) <= 2:
        return [fn(j) for j in jobs]
    ctx = multiprocessing.get_context('fork')
    with ctx.Pool(procs) as pool:
        return pool.map(fn, jobs, chunksize=max(1, len(jobs) // (procs * 8)))


def plan(tier, rng, kinds):
    n = 900 if tier == 'quick' else 14000
    maxw, maxh = (8, 8) if tier == 'quick' else (12, 12)
    jobs = []
    for i in range(n):
        kind = KINDS[i % len(KINDS)]
        nsteps = rng.randint(1, 8 if tier == 'quick' else 12)
        jobs.append((rng.getrandbits(48), kind, nsteps, kinds, maxw, maxh))
    return jobs


def step_key(rec):
    return rec['op'][0]


def histogram(results):
    ops, kinds, sizes, raised, reps = {}, {}, {}, 0, {}
    for case, res in results:
        kinds[case['kind']] = kinds.get(case['kind'], 0) + 1
        for r in res.get('records', []):
            ops[r['op'][0]] = ops.get(r['op'][0], 0) + 1
            if r['raised']:
                raised += 1
            cols, rows = tl.shape_of(r['post'])
            h = sum(x for x, _ in rows)
            sizes[min(h, 12)] = sizes.get(min(h, 12), 0) + 1
    return dict(operations=ops, initial_kinds=kinds, post_heights=sizes, implementation_exceptions=raised)


def nontrivial(results):
    """distinct (shape of pre-state, operation kind, position class, repeat) tuples where the call changed the state or
    addressed a repeated run — counted by hashing"""
    seen = set()
    for case, res in results:
        pre = res.get('init')
        for r in res.get('records', []):
            post = r['post']
            if pre is not None:
                cols, rows = tl.shape_of(pre)
                touched_rep = any(x > 1 for x, _ in rows) or any(x > 1 for x, _ in cols) or any(c > 1 for _, cs in rows for c in cs)
                if post != pre or touched_rep:
                    seen.add(common.digest((cols, rows, r['abstract_op'])))
            pre = post
    return len(seen)
