"""C20: a filled table of contents lists exactly the headings, in order, numbered right, nothing else;
refill is idempotent; the heading-listing tool reports the same outline.

Theorems: coq/theories/C20.v (model Toc.v, white-space model WS.v).  Correspondence: every generated history
(document with headings / TOCs anywhere, then fill / refill / heading edits / tool calls) is run on the
implementation; after every step the document is abstracted by an independent lxml walk (headings with their
inline content, TOCs with title / outline level / entry item lists); for every fill and every tool call Coq
(TocChk.chk, vm_compute) evaluates the property on the abstracted implementation state against the
specification (ten outline counters + ODF white-space consumer) and compares with the model's own step."""
import sys, os, json, random, itertools, time, io, signal, contextlib
from pathlib import Path
sys.path.insert(0, str(Path(__file__).resolve().parent))
import common
from lxml import etree

PROP = "C20"
TEXT = 'urn:oasis:names:tc:opendocument:xmlns:text:1.0'
T = '{%s}' % TEXT
OFFICE = 'urn:oasis:names:tc:opendocument:xmlns:office:1.0'
XLINK = 'http://www.w3.org/1999/xlink'
DC = 'http://purl.org/dc/elements/1.1/'
NSDECL = 'xmlns:text="%s" xmlns:office="%s" xmlns:xlink="%s" xmlns:dc="%s"' % (TEXT, OFFICE, XLINK, DC)

# ----------------------------------------------------------------------------- Coq printing
_extra = {}
NCODES = 400     # character constants k0..k399 defined in the shard header (one identifier per character keeps the terms small)


def tok(c):
    if c == ' ': return 'Sp'
    if c == '\t': return 'Tb'
    if c == '\n': return 'Nl'
    o = ord(c)
    if o < 128: return 'k%d' % o
    if c not in _extra: _extra[c] = 128 + len(_extra)
    if _extra[c] >= NCODES: raise OutOfDomain('too many distinct characters')
    return 'k%d' % _extra[c]


def cs(s):
    return '[' + ';'.join(tok(c) for c in s) + ']'


def coq_hitems(items):
    out = []
    for it in items:
        k = it[0]
        if k == 't': out.append('HStr ' + cs(it[1]))
        elif k == 's': out.append('HS %d' % it[1])
        elif k == 'tab': out.append('HTab')
        elif k == 'lb': out.append('HLb')
        elif k == 'span': out.append('HSpan ' + coq_hitems(it[1]))
        elif k == 'link': out.append('HLink ' + coq_hitems(it[1]))
        elif k == 'note': out.append('HNote')
        else: raise ValueError(it)
    return '[' + ';'.join(out) + ']'


def coq_items(items):
    out = []
    for it in items:
        k = it[0]
        if k == 't': out.append('IStr ' + cs(it[1]))
        elif k == 's': out.append('IS %d' % it[1])
        elif k == 'tab': out.append('ITab')
        elif k == 'lb': out.append('ILb')
        else: out.append('IElem 9 []')
    return '[' + ';'.join(out) + ']'


def coq_Z(n):
    return '(%d)' % n


def coq_toc(t, titles):
    if t['title'] is None:
        tt = 'None'
    else:
        tid = titles.setdefault(t['title'][0], len(titles))
        tt = 'Some (%d%%nat, %s)' % (tid, 'true' if t['title'][1] else 'false')
    ol = 'None' if t['outline'] is None else 'Some %s' % coq_Z(t['outline'])
    es = '[' + ';'.join('(%s, %s)' % (coq_Z(lv), coq_items(its)) for lv, its in t['entries']) + ']'
    return 'mkT (%s) (%s) %s' % (tt, ol, es)


def coq_heads(heads):
    return '[' + ';'.join('mkH %s %s' % (coq_Z(lv), coq_hitems(c)) for lv, c in heads) + ']'


class Share:
    """let-binding of repeated sub-terms (pre / post / post2 mostly coincide): same term, shorter text"""
    def __init__(self): self.names, self.binds = {}, []

    def __call__(self, term):
        if len(term) < 12: return term
        if term not in self.names:
            self.names[term] = 'v%d' % len(self.names)
            self.binds.append((self.names[term], term))
        return self.names[term]

    def wrap(self, body):
        return '(' + ''.join('let %s := %s in ' % b for b in self.binds) + body + ')'


def coq_doc(a, titles, sh):
    return '(mkD %s %s)' % (sh(coq_heads(a['heads'])), sh('[' + ';'.join(sh(coq_toc(t, titles)) for t in a['tocs']) + ']'))


HEADER = ('Require Import WS WSnfproof Toc TocChk. From Coq Require Import List ZArith Arith Bool. Import ListNotations. Open Scope Z_scope.\n'
          + ' '.join('Definition k%d := Ch %d.' % (i, i) for i in range(NCODES)))

LAYER = {1: "selection: the number of entries differs from the number of headings with level <= outline level",
         2: "number: an entry does not start with the hierarchical number of its heading",
         3: "text: an entry reads as number + ' ' + heading text followed by one extra line break (text:line-break at the end of the entry)",
         4: "text: an entry is not number + ' ' + heading text (or is not in white-space normal form)",
         5: "title: the index title is not kept by fill",
         6: "refill: filling again without changing the document changed the document",
         7: "frame: fill changed a heading, another TOC or the outline level",
         8: "tool: odfdo-headers does not print the specified outline",
         10: "tool: odfdo-headers and the filled TOC disagree",
         11: "exception: fill / the headers tool raised on a document of the property's domain",
         12: "abstraction: TOC not found in the abstracted document"}
FIDELITY = 9


# ----------------------------------------------------------------------------- independent abstraction (lxml only)
class OutOfDomain(Exception):
    pass


def abs_inline(el):
    """content of a text:h / text:span -> hitem tree"""
    out = []
    if el.text: out.append(['t', el.text])
    for c in el:
        if c.tag == T + 's': out.append(['s', int(c.get(T + 'c') or 1)])
        elif c.tag == T + 'tab': out.append(['tab'])
        elif c.tag == T + 'line-break': out.append(['lb'])
        elif c.tag == T + 'span': out.append(['span', abs_inline(c)])
        elif c.tag == T + 'a': out.append(['link', abs_inline(c)])
        elif c.tag in (T + 'note', '{%s}annotation' % OFFICE, '{%s}annotation-end' % OFFICE): out.append(['note'])
        else: raise OutOfDomain(c.tag)
        if c.tail: out.append(['t', c.tail])
    return out


def abs_par(el):
    """content of an entry paragraph -> item list (flat; anything that is not white-space markup is opaque)"""
    out = []
    if el.text: out.append(['t', el.text])
    for c in el:
        if c.tag == T + 's': out.append(['s', int(c.get(T + 'c') or 1)])
        elif c.tag == T + 'tab': out.append(['tab'])
        elif c.tag == T + 'line-break': out.append(['lb'])
        else: out.append(['elem'])
        if c.tail: out.append(['t', c.tail])
    return out


def c14n(el):
    cp = etree.fromstring(etree.tostring(el))
    cp.tail = None
    return etree.tostring(cp, method="c14n").decode()


def title_nonempty(el):
    """str(index-title) != '' computed from the XML: any character data, or any paragraph-like child (whose
    str() ends with a newline)"""
    if el.text: return True
    for c in el:
        if c.tag in (T + 'p', T + 'h'): return True
        if c.tail: return True
        if ''.join(c.itertext()): return True
    return False


def abstract(body_el):
    heads, tocs = [], []
    for el in body_el.iter(T + 'h', T + 'table-of-content'):
        if el.tag == T + 'h':
            lv = el.get(T + 'outline-level')
            heads.append([int(lv) if lv is not None else 0, abs_inline(el)])
        else:
            src = el.find(T + 'table-of-content-source')
            ol = None
            if src is not None and src.get(T + 'outline-level') is not None:
                ol = int(src.get(T + 'outline-level'))
            ib = el.find(T + 'index-body')
            title, entries = None, []
            if ib is not None:
                for c in ib:
                    if c.tag == T + 'index-title' and title is None:
                        title = [c14n(c), title_nonempty(c)]
                    elif c.tag == T + 'p':
                        st = c.get(T + 'style-name') or ''
                        lv = int(st[len('odfto_toc_level_'):]) if st.startswith('odfto_toc_level_') and st[16:].isdigit() else -1
                        entries.append([lv, abs_par(c)])
                    else:
                        entries.append([-2, [['elem']]])
            tocs.append(dict(title=title, outline=ol, entries=entries, has_body=ib is not None))
    return dict(heads=heads, tocs=tocs)


# ----------------------------------------------------------------------------- building documents (driver side)
def esc(s):
    return s.replace('&', '&amp;').replace('<', '&lt;').replace('>', '&gt;')


def hitems_xml(items):
    out = []
    for it in items:
        k = it[0]
        if k == 't': out.append(esc(it[1]))
        elif k == 's': out.append('<text:s/>' if it[1] == 1 else '<text:s text:c="%d"/>' % it[1])
        elif k == 'tab': out.append('<text:tab/>')
        elif k == 'lb': out.append('<text:line-break/>')
        elif k == 'span': out.append('<text:span text:style-name="T1">%s</text:span>' % hitems_xml(it[1]))
        elif k == 'link': out.append('<text:a xlink:type="simple" xlink:href="http://example.org/a?b=1&amp;c=2">%s</text:a>' % hitems_xml(it[1]))
        elif k == 'note': out.append('<text:note text:id="ftn1" text:note-class="footnote"><text:note-citation>1</text:note-citation><text:note-body><text:p>note  body</text:p></text:note-body></text:note>')
    return ''.join(out)


def make_heading(odfdo, b):
    """b = {k:'h', level, mode:'api'|'raw', pieces|content}"""
    if b.get('mode') == 'raw':
        xml = '<text:h %s text:outline-level="%d">%s</text:h>' % (NSDECL, b['level'], hitems_xml(b['content']))
        return odfdo.Element.from_tag(xml)
    h = odfdo.Header(b['level'], b['pieces'][0][1] if b['pieces'] and b['pieces'][0][0] == 'text' else None)
    for kind, s in b['pieces'][1 if b['pieces'] and b['pieces'][0][0] == 'text' else 0:]:
        if kind == 'text': h.append_plain_text(s)
        elif kind == 'span': h.append(odfdo.Span(s))
        elif kind == 'link': h.append(odfdo.Link('http://example.org/x', text=s))
        elif kind == 'note': h.insert_note(after=h.get_elements('text:span')[0] if s and h.get_elements('text:span') else None, note_id='n%d' % len(h.get_elements('descendant::text:note')), citation='*', body='note body')
        elif kind == 'annotation': h.append(odfdo.Element.from_tag('<office:annotation %s><dc:creator>me</dc:creator><text:p>remark</text:p></office:annotation>' % NSDECL))
        elif kind == 'span2':
            sp = odfdo.Span(s[0]); sp.append(odfdo.Span(s[1])); sp.append_plain_text(s[2]); h.append(sp)
    return h


def make_toc(odfdo, b):
    kw = {}
    if b.get('title') is not None: kw['title'] = b['title']
    if b.get('outline') is not None: kw['outline_level'] = b['outline']
    if 'name' in b: kw['name'] = b['name']
    toc = odfdo.TOC(**kw)
    v = b.get('variant')
    if v == 'emptytitle':          # an index title element without content
        it = toc.get_element('text:index-body/text:index-title')
        for c in it.children: it.delete(c)
    elif v == 'nosource':          # no text:table-of-content-source at all (outline level unknown -> 10)
        toc.delete(toc.get_element('text:table-of-content-source'))
    elif v == 'twopar':
        toc.get_element('text:index-body/text:index-title').append(odfdo.Paragraph('second  line'))
    return toc


def make_block(odfdo, b):
    k = b['k']
    if k == 'h': return make_heading(odfdo, b)
    if k == 'p': return odfdo.Paragraph(b['text'])
    if k == 'toc': return make_toc(odfdo, b)
    if k == 'section':
        s = odfdo.Element.from_tag('<text:section %s text:name="%s"/>' % (NSDECL, b['name']))
        for c in b['blocks']: s.append(make_block(odfdo, c))
        return s
    if k == 'list':
        l = odfdo.Element.from_tag('<text:list %s/>' % NSDECL)
        for c in b['blocks']:
            li = odfdo.Element.from_tag('<text:list-item %s/>' % NSDECL)
            li.append(make_block(odfdo, c)); l.append(li)
        return l
    raise ValueError(k)


class Timeout(Exception):
    pass


def _alarm(sig, frm):
    raise Timeout()


def drive(odfdo, spec, doc_cache=None):
    """run one history; returns list of checked steps [(step index, kind, payload)], op histogram"""
    from odfdo.scripts import headers as tool
    if doc_cache is not None and doc_cache.get('doc') is not None:
        doc = doc_cache['doc']
    else:
        doc = odfdo.Document('text')
        if doc_cache is not None: doc_cache['doc'] = doc
    body = doc.body
    body.clear()
    for b in spec['blocks']:
        body.append(make_block(odfdo, b))
    steps = []
    state = {'doc': doc}

    def lx():
        return state['doc'].body._Element__element

    def tocs():
        return state['doc'].body.get_elements('descendant::text:table-of-content')

    def heads():
        return state['doc'].body.get_elements('descendant::text:h')

    last_fill = None      # (toc index, effective outline) while nothing was edited since
    for si, op in enumerate(spec['ops']):
        name = op[0]
        if name == 'fill':
            k, styled, passdoc = op[1], op[2], op[3]
            pre = abstract(lx())
            if k >= len(pre['tocs']): continue
            try:
                t = tocs()[k]
                t.fill(state['doc'] if passdoc else None, use_default_styles=styled)
                post = abstract(lx()); d1 = c14n(lx())
                tocs()[k].fill(state['doc'] if passdoc else None, use_default_styles=styled)
                post2 = abstract(lx()); d2 = c14n(lx())
                steps.append((si, 'fill', dict(pre=pre, post=post, post2=post2, k=k, styled=styled, same=(d1 == d2))))
                ol = post['tocs'][k]['outline']
                last_fill = (k, 10 if not ol else ol)
            except (OutOfDomain, Timeout):
                raise
            except Exception as e:
                steps.append((si, 'err', dict(error=repr(e), op=op, pre=pre)))
                last_fill = None
        elif name == 'tool':
            depth = op[1]
            if depth is None:            # the depth of the TOC filled last
                if last_fill is None: continue
                depth = last_fill[1]
            pre = abstract(lx())
            try:
                buf = io.StringIO()
                with contextlib.redirect_stdout(buf):
                    tool.headers_document(state['doc'], depth)
                es = None
                if last_fill is not None and last_fill[1] == depth:
                    es = pre['tocs'][last_fill[0]]['entries']
                steps.append((si, 'tool', dict(heads=pre['heads'], depth=depth, out=buf.getvalue(), entries=es)))
            except (OutOfDomain, Timeout):
                raise
            except Exception as e:
                steps.append((si, 'err', dict(error=repr(e), op=op, pre=pre)))
        else:
            last_fill = None if name != 'noop' else last_fill
            hs = heads()
            if name == 'append_text':
                if hs: hs[op[1] % len(hs)].append_plain_text(op[2])
            elif name == 'set_text':
                if hs:
                    h = hs[op[1] % len(hs)]
                    for c in h.children: h.delete(c, keep_tail=False)
                    h.text = ''
                    h.append_plain_text(op[2])
            elif name == 'append_span':
                if hs: hs[op[1] % len(hs)].append(odfdo.Span(op[2]))
            elif name == 'set_level':
                if hs: hs[op[1] % len(hs)].set_attribute('text:outline-level', str(op[2]))
            elif name == 'del_h':
                if hs: hs[op[1] % len(hs)].delete()
            elif name == 'insert_h':
                h = make_heading(odfdo, op[2])
                kids = state['doc'].body.children
                state['doc'].body.insert(h, position=op[1] % (len(kids) + 1))
            elif name == 'set_outline':
                ts = tocs()
                if ts: ts[op[1] % len(ts)].outline_level = op[2]
            elif name == 'set_title':
                ts = tocs()
                if ts: ts[op[1] % len(ts)].set_toc_title(op[2])
            elif name == 'add_toc':
                t = make_toc(odfdo, op[2])
                kids = state['doc'].body.children
                state['doc'].body.insert(t, position=op[1] % (len(kids) + 1))
            elif name == 'reload':
                buf = io.BytesIO(); state['doc'].save(buf); buf.seek(0)
                state['doc'] = odfdo.Document(buf)
                if doc_cache is not None: doc_cache['doc'] = None
            elif name == 'noop':
                pass
            else:
                raise ValueError(name)
    return steps


def step_term(kind, p, titles):
    sh = Share()
    if kind == 'fill':
        return sh.wrap('CFill %s %s %s %d%%nat %s %s' % (coq_doc(p['pre'], titles, sh), coq_doc(p['post'], titles, sh), coq_doc(p['post2'], titles, sh),
                                                       p['k'], 'true' if p['styled'] else 'false', 'true' if p['same'] else 'false'))
    if kind == 'tool':
        es = 'None' if p['entries'] is None else 'Some [%s]' % ';'.join('(%s, %s)' % (coq_Z(lv), coq_items(its)) for lv, its in p['entries'])
        return '(CTool %s %s %s (%s))' % (coq_heads(p['heads']), coq_Z(p['depth']), cs(p['out']), es)
    return '(CErr 11%nat)'


def work(chunk):
    """worker: drive a chunk of specs on the implementation, return per spec the checked steps as Coq terms"""
    odfdo = common.use_repo()
    signal.signal(signal.SIGALRM, _alarm)
    cache = {}
    out = []
    for idx, spec in chunk:
        try:
            signal.setitimer(signal.ITIMER_REAL, 30)
            steps = drive(odfdo, spec, cache if spec.get('reuse_doc') else None)
            signal.setitimer(signal.ITIMER_REAL, 0)
            res = []
            for si, kind, p in steps:
                res.append((si, kind, step_term(kind, p, {}), p.get('error'), digest_step(kind, p)))
            out.append((idx, res, None))
        except OutOfDomain as e:
            signal.setitimer(signal.ITIMER_REAL, 0); cache.clear()
            out.append((idx, [], 'out-of-domain ' + repr(e)))
        except Timeout:
            cache.clear()
            out.append((idx, [(0, 'err', 'CErr 11%nat', 'time limit', 'timeout')], None))
        except Exception as e:        # driver trouble before/around the call (not the operation under test)
            signal.setitimer(signal.ITIMER_REAL, 0); cache.clear()
            out.append((idx, [], 'driver ' + repr(e)))
    return out


def digest_step(kind, p):
    """key for distinct_nontrivial: the level sequence, outline, kinds of inline content (not the letters)"""
    def shape(c):
        return [x[0] if x[0] != 'span' else ['span', shape(x[1])] for x in c]
    if kind == 'fill':
        pre = p['pre']
        t = pre['tocs'][p['k']]
        return common.digest(([(lv, shape(c)) for lv, c in pre['heads']], t['outline'], t['title'] is not None and t['title'][1],
                              len(t['entries']), p['styled'], len(pre['tocs'])))
    if kind == 'tool':
        return common.digest(('tool', [(lv, shape(c)) for lv, c in p['heads']], p['depth']))
    return common.digest(('err', p.get('error')))


# ----------------------------------------------------------------------------- generators
WORDS = ['Intro', 'a', 'Zürich', '中文', 'x<y', 'R&D', '1.2.', '3', 'end.', 'é', 'Title', 'b c', '"q"', 'n°', 'A B']


def gen_text(rng, allow_ws=True):
    n = rng.randint(0, 4)
    out = []
    for i in range(n):
        out.append(rng.choice(WORDS))
        if allow_ws:
            out.append(rng.choice([' ', ' ', ' ', '  ', '   ', '\t', '\n', ' \t', '', ' ', '  \n ']))
        else:
            out.append(' ')
    s = ''.join(out)
    if rng.random() < 0.15: s = rng.choice([' ', '  ', '\t']) + s
    return s


def gen_api_heading(rng, level):
    pieces = []
    if rng.random() < 0.85: pieces.append(['text', gen_text(rng)])
    for _ in range(rng.choice([0, 0, 0, 1, 1, 2])):
        r = rng.random()
        if r < 0.35: pieces.append(['span', gen_text(rng)])
        elif r < 0.43: pieces.append(['link', gen_text(rng) or 'site'])
        elif r < 0.47: pieces.append([rng.choice(['note', 'note', 'annotation']), rng.random() < 0.5])
        elif r < 0.6: pieces.append(['span2', [gen_text(rng), gen_text(rng), gen_text(rng)]])
        else: pieces.append(['text', gen_text(rng)])
    return dict(k='h', level=level, mode='api', pieces=pieces)


def gen_raw_items(rng, depth=0):
    """inline content as other producers may write it (any text:s count, raw double spaces, empty spans)"""
    out = []
    for _ in range(rng.randint(0, 4)):
        r = rng.random()
        if r < 0.45:
            s = gen_text(rng, allow_ws=False)
            if rng.random() < 0.2: s = s.replace(' ', '  ', 1)
            if s and (not out or out[-1][0] != 't'): out.append(['t', s])
        elif r < 0.6: out.append(['s', rng.choice([1, 1, 2, 3, 7])])
        elif r < 0.7: out.append(['tab'])
        elif r < 0.78: out.append(['lb'])
        elif r < 0.84 and depth < 2: out.append(['link', gen_raw_items(rng, depth + 1)])
        elif r < 0.87: out.append(['note'])
        elif depth < 2: out.append(['span', gen_raw_items(rng, depth + 1)])
    return out


def gen_raw_heading(rng, level):
    return dict(k='h', level=level, mode='raw', content=gen_raw_items(rng))


def gen_heading(rng, level):
    return gen_api_heading(rng, level) if rng.random() < 0.7 else gen_raw_heading(rng, level)


def simple_heading(level, i):
    return dict(k='h', level=level, mode='api', pieces=[['text', 'H%d' % i]])


def gen_levels(rng, n):
    style = rng.random()
    if style < 0.35:      # well nested: never skips a level going down
        out, cur = [], 0
        for _ in range(n):
            cur = rng.randint(1, min(10, cur + 1)); out.append(cur)
        return out
    if style < 0.7:
        hi = rng.choice([2, 3, 4, 6, 10])
        return [rng.randint(1, hi) for _ in range(n)]
    return [rng.choice([1, 2, 3, 5, 9, 10, 10]) for _ in range(n)]


TITLES = ['Table of Contents', 'Contents', 'Table  des   matières', 'T\tb', 'Sommaire & Co <1>']


def gen_toc(rng, i):
    b = dict(k='toc', outline=rng.choice([0, 0, 1, 2, 3, 4, 5, 6, 7, 8, 9, 10]), name='toc%d' % i)
    r = rng.random()
    if r < 0.55: pass
    elif r < 0.75: b['title'] = rng.choice(TITLES)
    elif r < 0.83: b['title'] = ''            # TOC created without a title
    elif r < 0.9: b['variant'] = 'emptytitle'
    elif r < 0.95: b['variant'] = 'nosource'
    else: b['variant'] = 'twopar'
    return b


def gen_random_case(rng, big=False):
    n = rng.choice([0, 1, 2, 3, 4, 5, 6, 8, 12]) if not big else rng.randint(10, 30)
    levels = gen_levels(rng, n) if not big else rng.choice([[1] * n, [rng.choice([1, 1, 2]) for _ in range(n)], [2] * n])
    blocks = [gen_heading(rng, lv) if not big else simple_heading(lv, i) for i, lv in enumerate(levels)]
    # paragraphs in between
    for _ in range(rng.randint(0, 3)):
        blocks.insert(rng.randint(0, len(blocks)), dict(k='p', text=gen_text(rng)))
    # wrap a slice into a section / list
    if blocks and rng.random() < 0.3:
        i = rng.randint(0, len(blocks) - 1); j = rng.randint(i, min(len(blocks), i + 3))
        blocks[i:j] = [dict(k=rng.choice(['section', 'section', 'list']), name='S%d' % rng.randint(0, 99), blocks=blocks[i:j])]
    ntoc = rng.choice([1, 1, 1, 2])
    for i in range(ntoc):
        t = gen_toc(rng, i)
        target = blocks
        secs = [b for b in blocks if b['k'] == 'section']
        if secs and rng.random() < 0.3: target = secs[0]['blocks']
        target.insert(rng.randint(0, len(target)), t)
    ops = []
    for _ in range(rng.randint(1, 7)):
        r = rng.random()
        if r < 0.4: ops.append(['fill', rng.randrange(ntoc), rng.random() < 0.8, rng.random() < 0.5]);
        elif r < 0.5: ops.append(['tool', None])
        elif r < 0.55: ops.append(['tool', rng.choice([1, 2, 3, 5, 10, 999])])
        elif r < 0.63: ops.append(['append_text', rng.randrange(40), gen_text(rng)])
        elif r < 0.68: ops.append(['set_text', rng.randrange(40), gen_text(rng)])
        elif r < 0.72: ops.append(['append_span', rng.randrange(40), gen_text(rng)])
        elif r < 0.78: ops.append(['set_level', rng.randrange(40), rng.randint(1, 10)])
        elif r < 0.82: ops.append(['del_h', rng.randrange(40)])
        elif r < 0.88: ops.append(['insert_h', rng.randrange(40), gen_heading(rng, rng.randint(1, 10))])
        elif r < 0.92: ops.append(['set_outline', rng.randrange(4), rng.randint(0, 10)])
        elif r < 0.95: ops.append(['set_title', rng.randrange(4), rng.choice(TITLES)])
        elif r < 0.97: ops.append(['add_toc', rng.randrange(40), gen_toc(rng, 7)])
        else: ops.append(['reload'])
    ops.append(['fill', rng.randrange(ntoc), rng.random() < 0.8, rng.random() < 0.5])
    ops.append(['tool', None])
    return dict(blocks=blocks, ops=ops, family='random-big' if big else 'random')


def level_case(seq, outline, pos, family):
    blocks = [simple_heading(lv, i) for i, lv in enumerate(seq)]
    blocks.insert(pos % (len(blocks) + 1), dict(k='toc', outline=outline, name='t'))
    return dict(blocks=blocks, ops=[['fill', 0, True, False], ['tool', None]], family=family, reuse_doc=True)


def gen_cases(tier, rng):
    cases = []
    # (a) exhaustive level sequences over four levels (thorough: up to length 7 over {1,2,3,4}, length 8 over {1,2,3})
    L = 5 if tier == 'quick' else 7
    n = 0
    for ln in range(0, L + 1):
        for seq in itertools.product((1, 2, 3, 4), repeat=ln):
            cases.append(level_case(seq, (0, 1, 2, 3, 4)[n % 5] if n % 7 else 10, n, 'exh-1234')); n += 1
    if tier == 'thorough':
        for seq in itertools.product((1, 2, 3), repeat=8):
            cases.append(level_case(seq, (0, 2, 3)[n % 3], n, 'exh-123-len8')); n += 1
    # every sequence up to length 3 (quick) / 4 (thorough) with every outline level 0..10
    for ln in range(0, (3 if tier == 'quick' else 4) + 1):
        for seq in itertools.product((1, 2, 3, 4), repeat=ln):
            for ol in range(0, 11):
                cases.append(level_case(seq, ol, n, 'exh-1234-x-outline')); n += 1
    # other four-level alphabets (deep levels, gaps)
    for alpha in ((1, 2, 5, 10), (2, 3, 9, 10), (7, 8, 9, 10)) if tier == 'thorough' else ((1, 3, 9, 10),):
        for ln in range(0, (4 if tier == 'quick' else 6) + 1):
            for seq in itertools.product(alpha, repeat=ln):
                cases.append(level_case(seq, (0, alpha[1], alpha[2], 10, alpha[3] - 1)[n % 5], n, 'exh-%s' % '-'.join(map(str, alpha)))); n += 1
    nexh = len(cases)
    # (b) random histories
    for _ in range(500 if tier == 'quick' else 6000):
        cases.append(gen_random_case(rng))
    for _ in range(12 if tier == 'quick' else 150):
        cases.append(gen_random_case(rng, big=True))
    # (c) edge stream
    edge = []
    for ol in (0, 1, 5, 10):
        edge.append(dict(blocks=[dict(k='toc', outline=ol, name='e')], ops=[['fill', 0, True, False], ['tool', None]], family='edge-no-heading'))
        edge.append(dict(blocks=[dict(k='h', level=10, mode='api', pieces=[]), dict(k='toc', outline=ol, name='e'),
                                 dict(k='h', level=1, mode='raw', content=[['s', 3]]), dict(k='h', level=ol or 1, mode='raw', content=[['span', []], ['lb']])],
                         ops=[['fill', 0, True, True], ['tool', None], ['fill', 0, False, True], ['tool', 999]], family='edge-empty-headings'))
    edge.append(dict(blocks=[dict(k='toc', outline=0, name='a', title=''), simple_heading(1, 0), simple_heading(2, 1)],
                     ops=[['fill', 0, True, False], ['tool', None]], family='edge-toc-without-title'))
    edge.append(dict(blocks=[simple_heading(1, 0), dict(k='toc', outline=2, name='a'), dict(k='toc', outline=1, name='b'), simple_heading(2, 1)],
                     ops=[['fill', 0, True, False], ['fill', 1, True, False], ['fill', 0, True, False], ['set_level', 1, 1], ['fill', 1, False, False], ['tool', None], ['reload'], ['fill', 0, True, True], ['tool', None]],
                     family='edge-two-tocs'))
    edge.append(dict(blocks=[dict(k='toc', outline=0, name='a'), dict(k='h', level=1, mode='api', pieces=[['text', 'See '], ['link', 'the  site'], ['text', ' now']]),
                             dict(k='h', level=2, mode='api', pieces=[['text', 'Foot'], ['note', False], ['annotation', False]]),
                             dict(k='h', level=2, mode='raw', content=[['t', 'a'], ['link', [['span', [['t', 'b'], ['s', 2]]], ['t', 'c']]], ['note'], ['t', 'd']])],
                     ops=[['fill', 0, True, False], ['tool', None], ['reload'], ['fill', 0, False, True], ['tool', 999]], family='edge-links-and-notes'))
    cases += edge
    return cases, nexh


# ----------------------------------------------------------------------------- Python oracle (used only when Coq itself fails)
def py_number(levels):
    cs_, out = [0] * 10, []
    for l in levels:
        for i in range(10):
            if i + 1 < l: cs_[i] = cs_[i] or 1
            elif i + 1 == l: cs_[i] += 1
            else: cs_[i] = 0
        out.append(cs_[:l])
    return out


def py_inner(c):
    return ''.join(x[1] if x[0] == 't' else ' ' * x[1] if x[0] == 's' else '\t' if x[0] == 'tab' else '\n' if x[0] == 'lb' else py_inner(x[1]) for x in c)


def py_read(items):
    return ''.join(x[1] if x[0] == 't' else ' ' * x[1] if x[0] == 's' else '\t' if x[0] == 'tab' else '\n' if x[0] == 'lb' else '￼' for x in items)


def py_oracle(kind, p):
    """direct oracle of the property on one checked step: True = holds"""
    if kind == 'err': return False
    if kind == 'tool':
        hs = [h for h in p['heads'] if h[0] <= p['depth']]
        want = ''.join('.'.join(map(str, n)) + '. ' + py_inner(h[1]) + '\n' for n, h in zip(py_number([h[0] for h in hs]), hs))
        return want == p['out']
    t0, t1 = p['pre']['tocs'][p['k']], p['post']['tocs'][p['k']]
    ol = t0['outline'] or 10
    hs = [h for h in p['pre']['heads'] if h[0] <= ol]
    want = ['.'.join(map(str, n)) + '. ' + py_inner(h[1]) for n, h in zip(py_number([h[0] for h in hs]), hs)]
    return want == [py_read(e[1]) for e in t1['entries']] and p['post'] == p['post2'] and p['same'] \
        and (t0['title'] is None or not t0['title'][1] or t0['title'] == t1['title'])


# ----------------------------------------------------------------------------- shrinking
def shrink_variants(spec, upto):
    """single removals: one block, one op before the failing one, simpler heading content"""
    out = []
    ops = spec['ops'][:upto + 1]
    base = dict(spec, ops=ops)
    base.pop('reuse_doc', None)
    out.append(base)
    for i in range(len(ops) - 1):
        out.append(dict(base, ops=ops[:i] + ops[i + 1:]))
    for i, b in enumerate(spec['blocks']):
        if b['k'] != 'toc':
            out.append(dict(base, blocks=spec['blocks'][:i] + spec['blocks'][i + 1:]))
        if b['k'] == 'h' and (b.get('pieces') not in ([['text', 'H']], None) or b.get('mode') == 'raw'):
            out.append(dict(base, blocks=spec['blocks'][:i] + [dict(k='h', level=b['level'], mode='api', pieces=[['text', 'H']])] + spec['blocks'][i + 1:]))
        if b['k'] in ('section', 'list'):
            out.append(dict(base, blocks=spec['blocks'][:i] + b['blocks'] + spec['blocks'][i + 1:]))
    return out


def evaluate(specs, tag, nproc=16):
    """drive + Coq; returns per spec: list of (step index, kind, code, error), driver notes, coq errors"""
    import multiprocessing as mp
    indexed = list(enumerate(specs))
    nchunks = max(1, min(len(indexed), nproc * 4))
    chunks = [indexed[i::nchunks] for i in range(nchunks)]
    if len(indexed) <= 4:
        results = [work(indexed)]
    else:
        with mp.get_context('fork').Pool(min(nproc, nchunks)) as pool:
            results = pool.map(work, chunks)
    per = {}
    notes = {}
    for r in results:
        for idx, res, note in r:
            per[idx] = res
            if note: notes[idx] = note
    terms, where = [], []
    for idx in range(len(specs)):
        for si, kind, term, err, dg in per.get(idx, []):
            terms.append(term); where.append((idx, si, kind, err, dg))
    bad, errors = common.run_shards(HEADER, terms, "chk", tag, shard=max(40, min(250, len(terms) // 48 + 1)))
    out = {i: [] for i in range(len(specs))}
    for j, (idx, si, kind, err, dg) in enumerate(where):
        out[idx].append((si, kind, bad.get(j, 0), err, dg))
    return out, notes, errors, len(terms)


def key_of(code, spec, si, err):
    """canonical key of a failing step = (layer, input class)"""
    if code == 3: return "fill/entry-ends-with-line-break"
    if code in (4, 8, 10) and ('"link"' in json.dumps(spec) or '"note"' in json.dumps(spec) or '"annotation"' in json.dumps(spec)):
        return "fill/heading-with-link-or-note"
    if code == 11:
        if err and "NoneType" in err and "get_element" in err: return "fill/toc-without-index-body"
        return "fill/exception"
    return "c20/code-%d" % code


def run(tier, seed, replay=None):
    t0 = time.time(); rng = random.Random(seed)
    common.use_repo()
    proofs = common.build_proofs(PROP, extra_targets=["TocChk"])
    known = {e["key"]: e for e in common.known_findings(PROP)}
    corpus = [json.load(open(f))["case"] for f in sorted((common.ROOT / "corpus" / PROP).glob("*.json"))]
    if replay:
        specs, nexh = [json.load(open(replay))["case"]], 0
    else:
        specs, nexh = gen_cases(tier, rng)
        specs = corpus + specs
    res, notes, errors, nterms = evaluate(specs, "c20")
    hard, fidelity, fam_hist, op_hist, kinds = [], 0, {}, {}, {}
    digests = set()
    for idx, spec in enumerate(specs):
        fam_hist[spec.get('family', 'corpus')] = fam_hist.get(spec.get('family', 'corpus'), 0) + 1
        for op in spec['ops']: op_hist[op[0]] = op_hist.get(op[0], 0) + 1
        for si, kind, code, err, dg in res[idx]:
            kinds[kind] = kinds.get(kind, 0) + 1
            digests.add(dg)
            if code == FIDELITY: fidelity += 1
            elif code: hard.append((idx, si, code, err))
    violations, known_seen, seen_keys = [], [], {}
    for idx, si, code, err in hard:
        k = key_of(code, specs[idx], si, err)
        seen_keys.setdefault(k, []).append((idx, si, code, err))
    for k, lst in sorted(seen_keys.items()):
        idx, si, code, err = min(lst, key=lambda x: len(json.dumps(specs[x[0]])))
        spec = specs[idx]
        if not replay:      # shrink: a few rounds of single removals, re-evaluated through the same pipeline
            for _ in range(6):
                vs = shrink_variants(spec, si)
                r2, _, e2, _ = evaluate(vs, "c20s")
                better = [(len(json.dumps(v)), j) for j, v in enumerate(vs) if any(c == code for (_, _, c, _, _) in r2[j])]
                if e2 or not better: break
                j = min(better)[1]
                if len(json.dumps(vs[j])) >= len(json.dumps(spec)) and vs[j]['ops'] == spec['ops']: break
                spec = vs[j]; si = max(s for (s, _, c, _, _) in r2[j] if c == code)
        payload = dict(layer=LAYER.get(code, str(code)), code=code, step=si, case=spec, key=k, failing_steps_in_run=len(lst),
                       implementation_error=err, known_finding_key=k if k in known else None)
        rp = common.write_replay(PROP, seed, k.replace('/', '_'), payload)
        if k in known:
            known_seen.append("%s (%d step(s), replay=%s)" % (known[k]["description"], len(lst), rp))
        else:
            violations.append((rp, False))
    # Coq / proof trouble without a failing input: look for one with the direct Python oracle
    if ((not proofs["ok"]) or errors) and not hard:
        found = None
        odfdo = common.use_repo()
        signal.signal(signal.SIGALRM, _alarm)
        budget = time.time() + 300
        for idx, spec in enumerate(specs):
            if time.time() > budget: break
            try:
                signal.setitimer(signal.ITIMER_REAL, 30)
                steps = drive(odfdo, spec)
                signal.setitimer(signal.ITIMER_REAL, 0)
            except Exception:
                signal.setitimer(signal.ITIMER_REAL, 0); continue
            for si, kind, p in steps:
                if not py_oracle(kind, p):
                    found = (idx, si, kind, p); break
            if found: break
        if found:
            idx, si, kind, p = found
            rp = common.write_replay(PROP, seed, "oracle", dict(layer="python oracle of the property (Coq evaluation unavailable)", step=si, case=specs[idx]))
            violations.append((rp, False)); hard.append(found)
    violations += common.proof_violation(PROP, seed, proofs, errors, bool(hard))
    if notes and not replay:
        # an abstraction that cannot be computed on generated (in-domain) input is a harness failure, not silence
        bad_notes = {i: n for i, n in notes.items()}
        rp = common.write_replay(PROP, seed, "abstraction", dict(layer="abstraction", notes=list(bad_notes.items())[:5],
                                                                 case=specs[min(bad_notes)]))
        violations.append((rp, True))
    samples = [dict(blocks=s['blocks'], ops=s['ops']) for s in specs[len(corpus) + nexh:][:2]] + \
              [dict(blocks=s['blocks'], ops=s['ops']) for s in specs[len(corpus):][37:38]]
    coverage = dict(
        trusted_base=["lxml (tree API used by the abstraction; parse/serialise on the reload leg)",
                      "ODF 1.2 section 6.1.2 consumer as modelled in WS.consume (C05 reading)",
                      "modelled in Toc.v: TOC._header_numbering, TOC.fill (title kept, outline level 0 -> 10, level filter, entry text from the heading's inner_text / str()), scripts/headers.py headers_document; Paragraph(...) via WS.append_plain_text",
                      "Python str(int) = Coq stdlib N.to_uint digits"],
        evaluations=nterms, distinct_nontrivial=len(digests),
        rule="histories = document (headings 1..10 with white-space elements and nested spans, API-built and raw XML; paragraphs, sections, lists; 1-2 TOCs anywhere, title variants, outline 0..10) + ops (fill, immediate refill always, heading edits, level/outline/title changes, insert/delete heading, add TOC, save+reload, odfdo-headers). Exhaustive: every level sequence over {1,2,3,4} up to length %d (thorough: also every sequence of length 8 over {1,2,3}), every such sequence up to length %d x every outline 0..10, other 4-level alphabets; then random histories and an edge stream. evaluations = checked steps (fill+refill, tool) evaluated in Coq; distinct_nontrivial = distinct (level sequence, inline-content shape, outline, title kind, TOC count, step kind) among them"
             % ((5, 3) if tier == "quick" else (7, 4)),
        samples=samples, histories=len(specs), families=fam_hist, ops=op_hist, checked_step_kinds=kinds,
        exhaustive_prefix_cases=nexh, corpus_cases=len(corpus), fidelity_divergences=fidelity,
        property_level_failures=len(hard), driver_notes=len(notes), exhaustive=False)
    return common.finish(PROP, tier, seed, proofs, coverage, violations, known_seen, t0,
                         assumptions=["heading levels 1..10 (text:outline-level is mandatory on text:h), outline level 0..10",
                                      "heading content: character data, text:s, text:tab, text:line-break, text:span, text:a (its text counts), notes and annotations (no part of the heading's text)",
                                      "the number of a heading is counted over the headings listed (level <= outline), as DESIGN.md section 5/C20 specifies; with no skipped level this equals numbering the whole document (theorem)",
                                      "the white-space reading fixed in DESIGN.md section 5/C05"])


if __name__ == "__main__":
    common.main(run)
