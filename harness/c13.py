"""C13: styles land in the right container, stay unique by family+name, are found again; generated automatic names
never collide; merge_styles_from yields the union (other wins) and leaves the other document unchanged.

Theorems: coq/theories/C13.v (model Styles.v, tables Gen_Contexts.v regenerated from the source on every run).
Correspondence: histories of insert_style / set_table_displayed / add_page_break_style / delete_styles /
merge_styles_from / save+reload over the four templates and the sample documents; after every step the eight style
containers (content.xml, styles.xml x styles, automatic-styles, master-styles, font-face-decls) are abstracted by an
independent lxml walk to lists of (tag, family, name, content digest); Coq (StylesChk.chk, vm_compute) evaluates
uniqueness / landing container / found-again / freshness / union on the implementation's states and compares with the
model's own step from the same pre-state."""
import sys, os, json, random, time, io, signal, hashlib, glob, re
from pathlib import Path
sys.path.insert(0, str(Path(__file__).resolve().parent))
import common, styles_gen
from lxml import etree

PROP = "C13"
NSMAP = {
    'urn:oasis:names:tc:opendocument:xmlns:office:1.0': 'office', 'urn:oasis:names:tc:opendocument:xmlns:style:1.0': 'style',
    'urn:oasis:names:tc:opendocument:xmlns:text:1.0': 'text', 'urn:oasis:names:tc:opendocument:xmlns:table:1.0': 'table',
    'urn:oasis:names:tc:opendocument:xmlns:drawing:1.0': 'draw', 'urn:oasis:names:tc:opendocument:xmlns:datastyle:1.0': 'number',
    'urn:oasis:names:tc:opendocument:xmlns:presentation:1.0': 'presentation', 'urn:oasis:names:tc:opendocument:xmlns:svg-compatible:1.0': 'svg',
    'urn:oasis:names:tc:opendocument:xmlns:xsl-fo-compatible:1.0': 'fo', 'urn:oasis:names:tc:opendocument:xmlns:chart:1.0': 'chart',
}
ST = '{urn:oasis:names:tc:opendocument:xmlns:style:1.0}'
DR = '{urn:oasis:names:tc:opendocument:xmlns:drawing:1.0}'
OF = '{urn:oasis:names:tc:opendocument:xmlns:office:1.0}'
TB = '{urn:oasis:names:tc:opendocument:xmlns:table:1.0}'
FO = '{urn:oasis:names:tc:opendocument:xmlns:xsl-fo-compatible:1.0}'
XMLNS = ' '.join('xmlns:%s="%s"' % (p, u) for u, p in NSMAP.items())
KINDS = ['styles', 'automatic-styles', 'master-styles', 'font-face-decls']
PAGEBREAK = 'odfdopagebreak'

LAYER = {1: "container: the inserted style is not the last child of the container its family and kind require",
         2: "uniqueness: two styles with the same tag class, family and name in one container (or in two containers of one part)",
         3: "found-again: the document's style lookup does not return, under a name an operation returned, the style it was returned for",
         4: "frame: another style was changed or lost",
         5: "fresh-name: the generated name is already the name of a style of that family",
         6: "another document (the source of a merge, or a twin document alive in the same process) was changed",
         7: "merge: the result is not the union with the other document's definitions winning",
         8: "reload: the style containers or the lookups differ after save + reload",
         11: "exception: the operation raised on an input of the property's domain",
         12: "refused: a valid insertion was rejected"}
FIDELITY = 9
NOTES = {9: 'fidelity', 13: 'inv2_lost', 20: 'pre_state_outside_inv2'}     # reported in the evidence, not alarms


class Interner:
    def __init__(self, base=1000): self.d, self.base = {}, base

    def __call__(self, x):
        if x not in self.d: self.d[x] = self.base + len(self.d)
        return self.d[x]


class Abs:
    """abstraction functions (independent of odfdo getters: lxml + private field names only)"""
    def __init__(self, tables):
        self.t = tables
        self.tag_i, self.fam_i, self.name_i, self.eid_i = Interner(), Interner(), Interner(1), Interner(1)

    def qname(self, tag):
        ns, local = tag[1:].split('}')
        return '%s:%s' % (NSMAP.get(ns, '{%s}' % ns), local)

    def tag_id(self, q):
        return self.t['tag_id'].get(q) or self.tag_i(q)

    def fam_id(self, f):
        return self.t['fam_id'].get(f) or self.fam_i(f)

    def name(self, s):
        """style name string -> Coq sname term"""
        if s is None: return None
        if s.startswith('odfdo_auto_'):
            rest = s[len('odfdo_auto_'):]
            try:
                n = int(rest)          # CPython int(): what _set_automatic_name itself applies (trusted)
                return 'NAuto (%d)' % n if str(n) == rest else 'NAutoX (%d) %d' % (n, self.name_i(s))
            except ValueError:
                pass
        if re.fullmatch(r'ta_(0|[1-9][0-9]*)', s):
            return 'NTa %s' % s[3:]
        return 'NOther %d' % self.name_i(s)

    def digest(self, el):
        """content identity: tag-free, name-free structural form of the element (independent of namespace prefixes)"""
        def norm(e, top):
            if not isinstance(e.tag, str): return ('#', e.text or '', e.tail or '')
            attrs = sorted((k, v) for k, v in e.attrib.items() if not (top and k in (ST + 'name', ST + 'family')))
            return ('x' if top else e.tag, attrs, e.text or '', [norm(c, False) for c in e], '' if top else (e.tail or ''))
        return self.eid_i(hashlib.md5(repr(norm(el, True)).encode()).hexdigest())

    def entry(self, el):
        fam = el.get(ST + 'family')
        return (self.tag_id(self.qname(el.tag)), None if fam is None else self.fam_id(fam), self.name(el.get(ST + 'name')), self.digest(el), self.name(el.get(DR + 'name')))

    def roots(self, doc):
        return [doc.get_part(p).root._Element__element for p in ('content', 'styles')]

    def store(self, doc):
        """-> (list of 8 slots: None | list of entries, {id(lxml element): (slot, index)})"""
        slots, where = [], {}
        for pi, root in enumerate(self.roots(doc)):
            for ki, kind in enumerate(KINDS):
                c = root.find(OF + kind)
                if c is None:
                    slots.append(None); continue
                l = []
                for e in c:
                    if not isinstance(e.tag, str): continue
                    where[e] = (4 * pi + ki, len(l)); l.append(self.entry(e))
                slots.append(l)
        return slots, where

    def tables(self, doc):
        body = doc.body._Element__element
        return [self.name(t.get(TB + 'style-name')) for t in body.iter(TB + 'table')]


def coq_opt(x, f=str):
    return 'None' if x is None else '(Some %s)' % f(x)


def coq_entry(e):
    return 'mkE %d %s %s %s %d' % (e[0], coq_opt(e[1], lambda v: '%d' % v), coq_opt(e[2], lambda v: '(%s)' % v), coq_opt(e[4], lambda v: '(%s)' % v), e[3])


class Share:
    def __init__(self): self.names, self.binds = {}, []

    def __call__(self, term):
        if len(term) < 14: return term
        if term not in self.names:
            self.names[term] = 'v%d' % len(self.names); self.binds.append((self.names[term], term))
        return self.names[term]

    def wrap(self, body):
        return '(' + ''.join('let %s := %s in ' % b for b in self.binds) + body + ')'


def coq_store(st, sh):
    return sh('[' + ';'.join('None' if s is None else '(Some %s)' % sh('[' + ';'.join(coq_entry(e) for e in s) + ']') for s in st) + ']')


def coq_loc(l):
    return coq_opt(l, lambda v: '(%d%%nat, %d%%nat)' % v)


def coq_bool(b):
    return 'true' if b else 'false'


def coq_outcome(o, f):
    return '(Done %s)' % f(o[1]) if o[0] == 'done' else 'Rejected' if o[0] == 'rejected' else 'Crashed'


HEADER = ('Require Import Styles StylesChk Gen_Contexts. From Coq Require Import List ZArith Arith Bool. Import ListNotations. '
          'Open Scope Z_scope.\nDefinition chk := StylesChk.chk gen_tables.')


def step_term(p):
    sh = Share(); k = p['kind']
    if k == 'insert':
        impl = coq_outcome(p['impl'], lambda v: '(%s, %s)' % (coq_store(v[0], sh), coq_opt(v[1], lambda n: '(%s)' % n)))
        return sh.wrap('SInsert %s (%s) %s %s %s %s %s' % (coq_store(p['pre'], sh), coq_entry(p['style']), coq_opt(p['name_arg'], lambda n: '(%s)' % n),
                                                          coq_bool(p['automatic']), coq_bool(p['default']), impl, coq_loc(p['found'])))
    if k == 'merge':
        impl = coq_outcome(p['impl'], lambda v: '(%s, %s)' % (coq_store(v[0], sh), coq_store(v[1], sh)))
        return sh.wrap('SMerge %s %s %s' % (coq_store(p['pre'], sh), coq_store(p['other_pre'], sh), impl))
    if k == 'delete':
        impl = coq_outcome(p['impl'], lambda v: '(%s, %d)' % (coq_store(v[0], sh), v[1]))
        return sh.wrap('SDelete %s %s' % (coq_store(p['pre'], sh), impl))
    if k == 'table':
        sd = lambda st, tb: '(mkS %s [%s])' % (coq_store(st, sh), ';'.join(coq_opt(n, lambda v: '(%s)' % v) for n in tb))
        impl = coq_outcome(p['impl'], lambda v: sd(v[0], v[1]))
        return sh.wrap('STable %s %d%%nat %d %d %s %s' % (sd(p['pre'], p['tables']), p['tidx'], p['eid_created'], p['eid_final'], impl, coq_loc(p['found'])))
    if k == 'pagebreak':
        impl = coq_outcome(p['impl'], lambda v: coq_store(v, sh))
        return sh.wrap('SPageBreak %s (%s) %s %d %s %s' % (coq_store(p['pre'], sh), p['n_pb'], coq_opt(p['existing_ok'], coq_bool), p['eid_new'], impl, coq_loc(p['found'])))
    if k == 'reload':
        lk = '[' + ';'.join('(%d, %s, %s, %s)' % (f, coq_opt(n, lambda v: '(%s)' % v), coq_loc(b), coq_loc(a)) for f, n, b, a in p['lookups']) + ']'
        return sh.wrap('SReload %s %s %s' % (coq_store(p['pre'], sh), coq_store(p['post'], sh), lk))
    if k == 'untouched':
        return sh.wrap('SUntouched %s %s' % (coq_store(p['pre'], sh), coq_store(p['post'], sh)))
    if k == 'found':
        pr = '[' + ';'.join('(%d, (%s), %d, %s)' % (f, n, e, coq_loc(l)) for f, n, e, l in p['promises']) + ']'
        return sh.wrap('SFound %s %s' % (coq_store(p['pre'], sh), pr))
    raise ValueError(k)


# ----------------------------------------------------------------------------- driver
class Timeout(Exception):
    pass


def _alarm(sig, frm):
    raise Timeout()


def style_xml(t, spec):
    """own serialiser of a style element: spec = {family, name|None, variant}"""
    fam, name, var = spec['family'], spec.get('name'), spec.get('variant', 0)
    tag = t['FM'].get(fam, 'style:style')
    attrs = []
    if tag == 'style:style': attrs.append('style:family="%s"' % fam)
    if name is not None: attrs.append('style:name="%s"' % name.replace('&', '&amp;').replace('<', '&lt;'))
    if tag == 'style:style':
        inner = '<style:text-properties fo:color="#%06x"/>' % (var * 1234567 % 0xffffff)
    elif tag == 'style:font-face':
        attrs.append('svg:font-family="F%d"' % var); inner = ''
    elif tag == 'style:master-page':
        attrs.append('style:page-layout-name="L%d"' % var); inner = ''
    else:
        inner = '<!--v%d-->' % var if False else ''
        attrs.append('style:display-name="D%d"' % var)
    return '<%s %s %s>%s</%s>' % (tag, XMLNS, ' '.join(attrs), inner, tag)


def classify(e):
    if isinstance(e, AttributeError) and 'Invalid combination' in str(e): return 'rejected'
    if isinstance(e, ValueError) and str(e).startswith('Invalid style'): return 'rejected'
    return 'crashed'


def locate(where, res):
    if res is None: return None
    return where.get(res._Element__element)


def pagebreak_ok(A, doc, st):
    """what add_page_break_style will see, read off the XML: Some true / Some false / None (KeyError)"""
    # the style it looks up: (paragraph, "odfdopagebreak") content.xml first (font-face-decls, automatic-styles), then styles.xml
    order = [3, 1, 4, 5]
    roots = A.roots(doc)
    for slot in order:
        c = roots[slot // 4].find(OF + KINDS[slot % 4])
        if c is None: continue
        for e in c:
            if not isinstance(e.tag, str): continue
            if e.tag in (ST + 'style', ST + 'default-style') and e.get(ST + 'family') == 'paragraph' and e.get(ST + 'name') == PAGEBREAK:
                pp = e.find(ST + 'paragraph-properties')
                if pp is None or not pp.attrib: return False
                if FO + 'break-after' not in pp.attrib: return None
                return pp.get(FO + 'break-after') == 'page'
    return False


def drive(odfdo, A, spec, pool):
    t = A.t
    doc = odfdo.Document(spec['doc'])
    steps, registry = [], []
    promises = []          # (family string, name string, content id) an operation has returned and nobody redefined since
    ctx, cur = {}, ['A']   # twin documents: name -> saved context; the current one lives in doc / registry / promises
    queue = [(si, op) for si, op in enumerate(spec['ops'])]
    while queue:
        si, op = queue.pop(0)
        name = op[0]
        if name == 'on':
            # ['on', 'B', op]: run op on the twin document B (a second document alive in the same process), come back
            queue[0:0] = [(si, ['_switch', op[1]]), (si, op[2]), (si, ['_switch', 'A'])]
            continue
        if name == '_switch':
            ctx[cur[0]] = dict(doc=doc, registry=registry, promises=promises, store=A.store(doc)[0])
            cur[0] = op[1]
            if cur[0] not in ctx:
                ctx[cur[0]] = dict(doc=odfdo.Document(spec.get('twin', spec['doc'])), registry=[], promises=[], store=None)
            doc, registry, promises = ctx[cur[0]]['doc'], ctx[cur[0]]['registry'], ctx[cur[0]]['promises']
            continue
        pre, _ = A.store(doc)
        nsteps = len(steps); npromised = len(promises); old_promises = list(promises)
        if name == 'adv':
            # adversarial names: a style called like the NEXT name the generator would produce enters the document
            # (by insert_style or by a merge), then the generator runs again
            gen, how, fam = op[1], op[2], op[3]
            allnames = {e_.get(ST + 'name') for r_ in A.roots(doc) for c_ in r_ for e_ in c_ if isinstance(e_.tag, str)}
            if gen == 'ta':
                k = 0
                while 'ta_%d' % k in allnames: k += 1
                nm, fam = 'ta_%d' % (k + op[4]), 'table'
            else:
                mx = 0
                for nm_ in allnames:
                    if nm_ and nm_.startswith('odfdo_auto_'):
                        try: mx = max(mx, int(nm_[11:]))
                        except ValueError: pass
                nm = 'odfdo_auto_%d' % (mx + 1 + op[4])
            sp = dict(family=fam, name=nm, variant=7, how='xml')
            new = []
            if how == 'merge':
                new.append(['merge', 'text' if spec['doc'] != 'text' else 'spreadsheet', [], [[1, sp]]])
            else:
                new.append(['insert', sp, how, None])
            new.append(['table', op[5], True] if gen == 'ta' else ['insert', dict(family=fam, name=None, variant=8, how='xml'), 'automatic', None])
            queue[0:0] = [(si, o) for o in new]
            continue
        if name == 'insert':
            s = op[1]
            if s.get('how', 'xml') == 'str':
                el = style_xml(t, s)                      # the XML definition string itself is handed to insert_style
                style_abs = A.entry(etree.fromstring(el))
            else:
                el = odfdo.Element.from_tag(style_xml(t, s)) if s.get('how', 'xml') == 'xml' else odfdo.Style(s['family'], name=s.get('name'))
                style_abs = A.entry(el._Element__element)
            kw = dict(automatic=op[2] in ('automatic', 'both'), default=op[2] in ('default', 'both'))
            if op[3] is not None: kw['name'] = op[3]
            try:
                ret = doc.insert_style(el, **kw)
                post, where = A.store(doc)
                try:
                    found = locate(where, doc.get_style(s['family'], ret))
                except Exception:
                    found = None
                impl = ('done', (post, A.name(ret)))
                if ret is not None or op[2] in ('default', 'both'):
                    registry.append((s['family'], ret))
                if ret is not None and s['family'] in t['fam_id']:
                    promises[:] = [q for q in promises if q[1] != ret]          # redefined on purpose (or shadowed: F96)
                    if found is not None and found in where.values():
                        ent = post[found[0]][found[1]]
                        if ent[3] == style_abs[3] and ent[2] == A.name(ret):
                            promises.append((s['family'], ret, ent[3]))
            except Timeout:
                raise
            except Exception as e:
                impl, found = (classify(e), repr(e)), None
            hint = None
            if impl[0] == 'done' and ret is not None:
                # F96 class: the style was put into styles.xml (any family - common style, master page, default font face
                # ... - any flag combination) and content.xml, which Document.get_style searches first, holds a style with
                # the same family and name
                rn = A.name(ret)
                in_styles_xml = any(post[k] and post[k][-1][3] == style_abs[3] and post[k][-1][2] == rn for k in (4, 5, 6, 7))
                if in_styles_xml and any(e[2] == rn and e[1] == style_abs[1] and e[0] in (style_abs[0], t['tag_id']['style:default-style'])
                                         for sl in (post[3], post[1]) if sl for e in sl):
                    hint = 'shadowed'
            steps.append((si, dict(kind='insert', pre=pre, style=style_abs, name_arg=A.name(op[3]) if op[3] else None,
                                   automatic=kw['automatic'], default=kw['default'], impl=impl, found=found, hint=hint)))
        elif name == 'raw':
            root = A.roots(doc)[op[1] // 4]
            c = root.find(OF + KINDS[op[1] % 4])
            c.append(etree.fromstring(op[2]['xml'].replace('<number:text-style', '<number:text-style ' + XMLNS, 1) if 'xml' in op[2] else style_xml(t, op[2])))
        elif name == 'add_table':
            doc.body.append(odfdo.Table(op[1]))
        elif name == 'merge':
            other = odfdo.Document(op[1])
            for slot, s in (op[3] if len(op) > 3 else []):
                A.roots(other)[slot // 4].find(OF + KINDS[slot % 4]).append(etree.fromstring(s['xml'].replace('<number:text-style', '<number:text-style ' + XMLNS, 1) if 'xml' in s else style_xml(t, s)))
            for s, mode in op[2]:
                try: other.insert_style(odfdo.Element.from_tag(style_xml(t, s)), automatic=mode in ('automatic', 'both'), default=mode in ('default', 'both'))
                except Exception: pass
            opre, _ = A.store(other)
            try:
                doc.merge_styles_from(other)
                impl = ('done', (A.store(doc)[0], A.store(other)[0]))
            except Timeout:
                raise
            except Exception as e:
                impl = ('crashed', repr(e))
            steps.append((si, dict(kind='merge', pre=pre, other_pre=opre, impl=impl)))
        elif name == 'delete':
            try:
                n = doc.delete_styles()
                impl = ('done', (A.store(doc)[0], n))
            except Timeout:
                raise
            except Exception as e:
                impl = ('crashed', repr(e))
            steps.append((si, dict(kind='delete', pre=pre, impl=impl)))
        elif name == 'table':
            tabs = A.tables(doc)
            if not tabs: continue
            tidx = len(tabs) - 1 if op[1] == -1 else op[1] % len(tabs)
            names_pre = {e[2] for s in pre if s for e in s}
            try:
                doc.set_table_displayed(tidx, op[2])
                post, where = A.store(doc)
                tabs2 = A.tables(doc)
                body = doc.body._Element__element
                tel = list(body.iter(TB + 'table'))[tidx]
                try:
                    found = locate(where, doc.get_style('table', tel.get(TB + 'style-name')))
                except Exception:
                    found = None
                # opaque content ids of the entries the operation created (read from the post state)
                new = [e for s in post if s for e in s if e[2] is not None and e[2] not in names_pre and e[2].startswith('NTa')]
                final = [e for e in new if e[2] == tabs2[tidx]]
                created = [e for e in new if e[2] != tabs2[tidx]]
                impl = ('done', (post, tabs2))
                table_style_name = tel.get(TB + 'style-name')
                eid_final = final[0][3] if final else 0
                eid_created = created[0][3] if created else 0
            except Timeout:
                raise
            except Exception as e:
                impl, found, eid_final, eid_created = ('crashed', repr(e)), None, 0, 0
            steps.append((si, dict(kind='table', pre=pre, tables=tabs, tidx=tidx, eid_created=eid_created, eid_final=eid_final, impl=impl, found=found)))
        elif name == 'pagebreak':
            ok = pagebreak_ok(A, doc, pre)
            try:
                doc.add_page_break_style()
                post, where = A.store(doc)
                try:
                    found = locate(where, doc.get_style('paragraph', PAGEBREAK))
                except Exception:
                    found = None
                new = [e for k, s in enumerate(post) if s for e in s if e[2] == A.name(PAGEBREAK) and e not in (pre[k] or [])]
                impl = ('done', post)
                eid_new = new[-1][3] if new else 0
            except Timeout:
                raise
            except Exception as e:
                impl, found, eid_new = ('crashed', repr(e)), None, 0
            steps.append((si, dict(kind='pagebreak', pre=pre, n_pb=A.name(PAGEBREAK), existing_ok=ok, eid_new=eid_new, impl=impl, found=found)))
        elif name == 'reload':
            _, where = A.store(doc)
            before = []
            for fam, ret in registry:
                try: before.append(locate(where, doc.get_style(fam, ret)))
                except Exception: before.append(None)
            buf = io.BytesIO(); doc.save(buf); buf.seek(0)
            doc = odfdo.Document(buf)
            post, where = A.store(doc)
            lookups = []
            for (fam, ret), b in zip(registry, before):
                try: a = locate(where, doc.get_style(fam, ret))
                except Exception: a = None
                if fam in t['fam_id']:
                    lookups.append((t['fam_id'][fam], A.name(ret), b, a))
            steps.append((si, dict(kind='reload', pre=pre, post=post, lookups=lookups)))
        else:
            raise ValueError(name)
        # ---- promises: names returned earlier must keep finding the same style
        if len(steps) > nsteps:
            last = steps[-1][1]; kind = last['kind']; done = last.get('impl', ('done',))[0] == 'done'
            if kind == 'merge' and done:
                onames = {e[2] for sl in last['other_pre'] if sl for e in sl}
                promises[:] = [q for q in promises if A.name(q[1]) not in onames]
            elif kind == 'delete':
                promises[:] = []
            elif kind == 'pagebreak':
                promises[:] = [q for q in promises if q[1] != PAGEBREAK]
            elif kind == 'table' and done and last['eid_final']:
                promises[:] = [q for q in promises if q[1] != table_style_name] + [('table', table_style_name, last['eid_final'])]
            earlier = [q for q in promises if q in old_promises]      # promises made by earlier operations
            if earlier and kind in ('insert', 'merge', 'table', 'pagebreak'):
                cur_, where = A.store(doc)
                pr = []
                for fam, nm, eid in promises:
                    try: loc = locate(where, doc.get_style(fam, nm))
                    except Exception: loc = None
                    pr.append((t['fam_id'][fam], A.name(nm), eid, loc))
                steps.append((si, dict(kind='found', pre=cur_, promises=pr)))
            for other_name, c in ctx.items():
                if other_name == cur[0] or c['store'] is None: continue
                now, where_o = A.store(c['doc'])
                steps.append((si, dict(kind='untouched', pre=c['store'], post=now)))
                c['store'] = now
                if c['promises']:
                    pr = []
                    for fam, nm, eid in c['promises']:
                        try: loc = locate(where_o, c['doc'].get_style(fam, nm))
                        except Exception: loc = None
                        pr.append((t['fam_id'][fam], A.name(nm), eid, loc))
                    steps.append((si, dict(kind='found', pre=now, promises=pr, twin=other_name)))
    return steps


def shape(p):
    """digest key for distinct_nontrivial: kind, flags, family, name class, whether something was replaced, doc sizes"""
    k = p['kind']
    sizes = tuple(None if s is None else min(len(s), 3) for s in p['pre'])
    if k == 'insert':
        s = p['style']
        replaced = any(e[0] == s[0] and e[1] == s[1] and e[2] == (p['name_arg'] or s[2]) for sl in p['pre'] if sl for e in sl)
        nm = (p['name_arg'] or s[2] or 'none').split(' ')[0]
        return (k, s[0], s[1], nm, p['automatic'], p['default'], p['name_arg'] is not None, replaced, p['impl'][0], sizes)
    if k == 'merge': return (k, sizes, tuple(None if s is None else len(s) for s in p['other_pre']))
    if k == 'table': return (k, sizes, p['tables'][p['tidx']] is None, p['eid_created'] != 0)
    if k == 'pagebreak': return (k, sizes, p['existing_ok'])
    if k == 'reload': return (k, sizes, len(p['lookups']))
    if k == 'found': return (k, sizes, len(p['promises']), tuple(q[1].split(' ')[0] for q in p['promises']), p.get('twin'))
    if k == 'untouched': return (k, sizes, p['pre'] == p['post'])
    return (k, sizes)


_WORK = {}


def work(chunk):
    odfdo = common.use_repo()
    signal.signal(signal.SIGALRM, _alarm)
    tables = _WORK['tables']; pool = _WORK['pool']
    out = []
    for idx, spec in chunk:
        A = Abs(tables)
        try:
            signal.setitimer(signal.ITIMER_REAL, 60)
            steps = drive(odfdo, A, spec, pool)
            signal.setitimer(signal.ITIMER_REAL, 0)
            out.append((idx, [(si, p['kind'], step_term(p), p['impl'][1] if 'impl' in p and p['impl'][0] != 'done' else p.get('hint'),
                               common.digest(shape(p)), p['impl'][0] if 'impl' in p else 'done') for si, p in steps], None))
        except Timeout:
            out.append((idx, [], 'time limit'))
        except Exception as e:
            signal.setitimer(signal.ITIMER_REAL, 0)
            import traceback
            out.append((idx, [], 'driver %r %s' % (e, traceback.format_exc()[-400:])))
    return out


# ----------------------------------------------------------------------------- generators
def doc_pool():
    samples = sorted(glob.glob(str(common.REPO / 'tests' / 'samples' / '*.od?')))
    skip = ('styled_table.ods', 'test_col_cell.ods', 'test_col_cell_blue.ods', 'big.ods')   # ~10^6 declared rows: body walks too slow
    return ['text', 'spreadsheet', 'presentation', 'drawing'], [s for s in samples if os.path.basename(s) not in skip]


NAMES = ['A', 'B', 'Standard', 'odfdo_auto_1', 'odfdo_auto_3', 'odfdo_auto_007', 'odfdo_auto_x', 'ta_0', 'ta_1', PAGEBREAK,
         'X y', "it's", 'é中', 'Default', 'Heading_20_1', 'P1', 'T1', 'L1', 'ce1', 'N0']


SPECIAL = ('master-page', 'font-face', 'page-layout')


STD_ = set()
MODES = ('common', 'automatic', 'default', 'both')        # flags (automatic, default) = (F,F) (T,F) (F,T) (T,T)


def in_domain(t, fam, mode, name):
    """every family x every flag combination the code accepts (the rejected ones are generated too: both sides must
    reject).  Master pages, font faces and page layouts are identified by their name (an unnamed one cannot be looked
    up); for them the flags are accepted: font-face + default goes to styles.xml, otherwise the flags are ignored."""
    if fam in SPECIAL and name is None: return False
    return True


def gen_style(rng, t, existing_names):
    fams = sorted(t['FM'])
    r = rng.random()
    if r < 0.5: fam = rng.choice(['paragraph', 'text', 'table', 'table-cell', 'graphic', 'table-row', 'table-column', 'section'])
    elif r < 0.75: fam = rng.choice(['master-page', 'font-face', 'page-layout', 'list', 'number', 'date', 'outline', 'percentage', 'time', 'currency', 'boolean'])
    elif r < 0.97: fam = rng.choice(fams)
    else: fam = rng.choice(['bogus', 'fill-image'])
    r = rng.random()
    if r < 0.2: name = None
    elif r < 0.55 and existing_names: name = rng.choice(existing_names)
    else: name = rng.choice(NAMES)
    return dict(family=fam, name=name, variant=rng.randint(0, 9), how='xml')


def existing_names_of(path_or_type, cache={}):
    return cache.get(path_or_type, [])


def gen_history(rng, t, templates, samples, names_by_doc):
    r = rng.random()
    src = rng.choice(templates) if r < 0.7 or not samples else rng.choice(samples)
    ex = names_by_doc.get(src, [])
    ops = []
    for _ in range(rng.randint(1, 7)):
        r = rng.random()
        if r < 0.62:
            s = gen_style(rng, t, ex)
            mode = rng.choice(['common', 'common', 'automatic', 'automatic', 'default'])
            if mode == 'default' and s['family'] not in t['STD'] and s['family'] not in SPECIAL and rng.random() < 0.85:
                s['family'] = rng.choice(t['STD'])          # default styles are documented for the standard families
            if s['family'] in SPECIAL:
                mode = rng.choice(MODES)                    # font face: default -> styles.xml; otherwise flags ignored
                if s['name'] is None: s['name'] = rng.choice(NAMES)
            elif rng.random() < 0.04:
                mode = 'both'                               # rejected combination
            name_arg = rng.choice(NAMES + ex[:5]) if rng.random() < 0.15 else None
            if rng.random() < 0.3: s['how'] = 'str'
            ops.append(['insert', s, mode, name_arg])
        elif r < 0.70: ops.append(['table', rng.randrange(5), rng.random() < 0.5])
        elif r < 0.77: ops.append(['pagebreak'])
        elif r < 0.81: ops.append(['delete'])
        elif r < 0.92:
            other = rng.choice(templates) if rng.random() < 0.6 or not samples else rng.choice(samples)
            extra = [(gen_style(rng, t, ex), rng.choice(['common', 'automatic', 'default'])) for _ in range(rng.randint(0, 3))]
            extra = [(s_, m_) for s_, m_ in extra if in_domain(t, s_['family'], m_, s_['name']) and (s_['name'] is not None or m_ != 'common')
                     and not (m_ == 'default' and s_['family'] not in t['STD'])]
            ops.append(['merge', other, extra])
        else: ops.append(['reload'])
    if rng.random() < 0.25:        # a twin document alive in the same process takes some of the operations
        ops = [['on', 'B', o] if rng.random() < 0.4 else o for o in ops]
        for o in list(ops):           # the same string definition goes into both documents
            if o[0] == 'insert' and o[1].get('how') == 'str' and rng.random() < 0.7: ops.append(['on', 'B', o])
    if rng.random() < 0.5: ops.append(['reload'])
    return dict(doc=src, ops=ops, family='random')


def gen_cases(tier, rng, t, templates, samples, names_by_doc):
    cases = []
    # (a) every family x {common, automatic, default} x {named, unnamed} on every template, once fresh and once replacing
    for tpl in templates:
        for fi, fam in enumerate(sorted(t['FM'])):
            if tier == 'quick' and tpl in ('presentation', 'drawing') and fi % 3 != (0 if tpl == 'presentation' else 1):
                continue            # the two big templates: every third family in the quick tier (all of them in thorough)
            for mode in MODES:
                for nm in ('N1', None):
                    if not in_domain(t, fam, mode, nm): continue
                    s = dict(family=fam, name=nm, variant=1, how='xml')
                    cases.append(dict(doc=tpl, ops=[['insert', s, mode, None], ['insert', dict(s, variant=2), mode, None], ['reload']], family='systematic'))
    nsys = len(cases)
    # (b) gaps in the generated names
    for gap in ([1, 3], [7], [2, 2], ['007'], ['-4'], ['x'], [1, 2, 3, 10], [3, 1, 2], [2, 1], [5, 4, 1]):
        ops = [['insert', dict(family='paragraph', name='odfdo_auto_%s' % g, variant=i, how='xml'), ['automatic', 'common'][i % 2], None] for i, g in enumerate(gap)]
        ops += [['insert', dict(family='paragraph', name=None, variant=5, how='xml'), 'automatic', None]] * 2 + [['reload']]
        cases.append(dict(doc='text', ops=ops, family='auto-name-gaps'))
    # (b'') generated numbers across a digit-count boundary (9|10, 99|100, 2 next to 10: their decimal strings order differently
    #       from their values), all of them automatic, and a long run of unnamed insertions that crosses the boundary by itself
    for gap in ([9, 10], [8, 9, 10, 11], [99, 100], [2, 10], [10, 9], [100, 20, 3]):
        ops = [['insert', dict(family='paragraph', name='odfdo_auto_%s' % g, variant=i, how='xml'), 'automatic', None] for i, g in enumerate(gap)]
        ops += [['insert', dict(family='paragraph', name=None, variant=5 + j, how='xml'), 'automatic', None] for j in range(3)] + [['reload']]
        cases.append(dict(doc='text', ops=ops, family='auto-name-gaps'))
    for fam in ('paragraph', 'text'):
        cases.append(dict(doc='text', ops=[['insert', dict(family=fam, name=None, variant=j, how='xml'), 'automatic', None] for j in range(13)] + [['reload']],
                          family='auto-name-gaps'))
    # (b') styles of every standard family sitting in office:automatic-styles of styles.xml (as header / footer content
    #      produces them), on both sides of a merge and under a later insertion
    for fam in t['STD']:
        raw = dict(family=fam, name='R1', variant=3, how='xml')
        cases.append(dict(doc='text', ops=[['raw', 5, raw], ['merge', 'text', [], [[5, dict(raw, variant=4)]]], ['reload']], family='styles-xml-automatic'))
    # (b'') set_table_displayed when ta_N names are already taken in styles.xml / content.xml, with and without a table style
    for src in ['spreadsheet'] + [x for x in samples if x.endswith('.ods') or x.endswith('table.odt')]:
        for taken in (['ta_0'], ['ta_0', 'ta_1'], ['ta_1']):
            for mode in ('common', 'automatic'):
                ops = [['insert', dict(family=('table-cell', 'table')[i % 2], name=nm, variant=i, how='xml'), mode, None] for i, nm in enumerate(taken)]
                cases.append(dict(doc=src, ops=ops + [['table', 0, False], ['table', 0, True], ['table', 1, False], ['reload']], family='table-names-taken'))
    # (b3) a table without style name (the default table style of the text template must not be cloned)
    for src in templates:
        cases.append(dict(doc=src, ops=[['add_table', 'NewT'], ['table', -1, False], ['table', -1, True], ['reload']], family='unstyled-table'))
    # (b4) an element with style:name that is no Style class (number:text-style, frequent in spreadsheets)
    NTS = dict(xml='<number:text-style style:name="N100"><number:text-content/></number:text-style>')
    cases.append(dict(doc='spreadsheet', ops=[['raw', 1, NTS], ['merge', 'spreadsheet', [], [[1, NTS]]]], family='number-text-style'))
    cases.append(dict(doc='spreadsheet', ops=[['merge', 'spreadsheet', [], [[1, NTS]]]], family='number-text-style'))
    cases.append(dict(doc='spreadsheet', ops=[['raw', 1, NTS], ['table', 0, False]], family='number-text-style'))
    cases.append(dict(doc='spreadsheet', ops=[['raw', 1, NTS], ['delete']], family='number-text-style'))
    cases += gen_adversarial(tier, t, templates, samples)
    cases += gen_twins(tier, t, templates, samples)
    cases += gen_cross_container(tier, t, templates, samples, scan_styles_xml(templates + samples, set(t['STD'])))
    # (c) every document merged into a template of its kind and into itself
    for s in templates + samples:
        cases.append(dict(doc='text', ops=[['merge', s, []], ['reload']], family='merge-all'))
        cases.append(dict(doc=s, ops=[['merge', s, []]], family='merge-self'))
        cases.append(dict(doc=s, ops=[['pagebreak'], ['table', 0, False], ['delete'], ['reload']], family='ops-all-docs'))
    # (d) random histories
    for _ in range(200 if tier == 'quick' else 2500):
        cases.append(gen_history(rng, t, templates, samples, names_by_doc))
    return cases, nsys


def scan_names(srcs):
    """names of the styles present in each pool document (so that generated names hit existing ones)"""
    import zipfile
    out = {}
    tpl = {'text': 'text.ott', 'spreadsheet': 'spreadsheet.ots', 'presentation': 'presentation.otp', 'drawing': 'drawing.otg'}
    for s in srcs:
        path = str(common.SRC / 'odfdo' / 'templates' / tpl[s]) if s in tpl else s
        names = set()
        try:
            z = zipfile.ZipFile(path)
            for part in ('content.xml', 'styles.xml'):
                for e in etree.fromstring(z.read(part)).iter():
                    if isinstance(e.tag, str) and e.get(ST + 'name') and e.getparent() is not None and e.getparent().tag.startswith(OF):
                        names.add(e.get(ST + 'name'))
        except Exception:
            pass
        out[s] = sorted(n for n in names if '"' not in n)
    return out


def scan_styles_xml(srcs, std):
    """(container kind 0 = office:styles / 1 = office:automatic-styles, family, name) of the named style:style elements of
    the standard families in styles.xml of each pool document"""
    import zipfile
    out = {}
    tpl = {'text': 'text.ott', 'spreadsheet': 'spreadsheet.ots', 'presentation': 'presentation.otp', 'drawing': 'drawing.otg'}
    for s in srcs:
        path = str(common.SRC / 'odfdo' / 'templates' / tpl[s]) if s in tpl else s
        l = []
        try:
            root = etree.fromstring(zipfile.ZipFile(path).read('styles.xml'))
            for ki, kind in enumerate(KINDS[:2]):
                c = root.find(OF + kind)
                for e in (c if c is not None else []):
                    if isinstance(e.tag, str) and e.tag == ST + 'style' and e.get(ST + 'name') and e.get(ST + 'family') in std and '"' not in e.get(ST + 'name'):
                        l.append((ki, e.get(ST + 'family'), e.get(ST + 'name')))
        except Exception:
            pass
        out[s] = l
    return out


def gen_adversarial(tier, t, templates, samples):
    """name generators against adversarial names: after a generated name has been seen, a style called like the next
    name(s) enters by insert_style or by a merge, then the generator runs again; every name returned must keep finding
    its style (SFound steps)"""
    cases = []
    sheets = ['spreadsheet'] + [x for x in samples if x.endswith('.ods')][: (1 if tier == 'quick' else 9)]
    for src in sheets:
        for how in ('automatic', 'common', 'merge'):
            for off in (0, 1):
                cases.append(dict(doc=src, ops=[['table', 0, False], ['adv', 'ta', how, 'table', off, 0], ['table', 0, False], ['reload']], family='adversarial-names'))
    for how in ('automatic', 'merge'):
        cases.append(dict(doc='spreadsheet', ops=[['add_table', 'T1'], ['table', -1, False], ['adv', 'ta', how, 'table', 0, -1], ['adv', 'ta', how, 'table', 0, 0], ['reload']], family='adversarial-names'))
        cases.append(dict(doc='text', ops=[['add_table', 'T1'], ['table', -1, True], ['adv', 'ta', how, 'table', 1, -1], ['reload']], family='adversarial-names'))
    for src in ('text', 'spreadsheet'):
        for fam in ('paragraph', 'table-cell'):
            for how in ('automatic', 'common', 'merge'):
                for off in (0, 1):
                    cases.append(dict(doc=src, ops=[['insert', dict(family=fam, name=None, variant=1, how='xml'), 'automatic', None],
                                                    ['adv', 'auto', how, fam, off, 0], ['adv', 'auto', how, fam, 0, 0], ['reload']], family='adversarial-names'))
    return cases


def gen_twins(tier, t, templates, samples):
    """style definitions given as XML strings; the same definition inserted more than once (two names / two kinds in one
    document, and into two documents alive in the same process); add_page_break_style / set_table_displayed on twin
    documents alternately.  After every operation on one document the other one must be untouched and keep its promises."""
    cases = []
    for tpl in templates:
        cases.append(dict(doc=tpl, ops=[['pagebreak'], ['on', 'B', ['pagebreak']], ['pagebreak'], ['on', 'B', ['pagebreak']], ['reload'], ['on', 'B', ['reload']]], family='twins'))
        for fam in (('paragraph', 'table-cell', 'font-face', 'list') if tier == 'quick' else sorted(t['FM'])):
            if fam in SPECIAL and False: continue
            S = dict(family=fam, name='D1', variant=6, how='str')
            U = dict(family=fam, name=None, variant=6, how='str')
            # the same definition string twice in one document under two names, and as two kinds
            cases.append(dict(doc=tpl, ops=[['insert', S, 'automatic', 'A1'], ['insert', S, 'automatic', 'B1'], ['insert', S, 'common', None], ['insert', S, 'automatic', None], ['reload']], family='repeated-definition'))
            if fam not in SPECIAL:
                cases.append(dict(doc=tpl, ops=[['insert', U, 'automatic', None], ['insert', U, 'automatic', None], ['insert', U, 'common', 'C1'], ['reload']], family='repeated-definition'))
            # ... and into a twin document
            cases.append(dict(doc=tpl, ops=[['insert', S, 'common', None], ['on', 'B', ['insert', S, 'common', None]], ['on', 'B', ['insert', S, 'automatic', 'Z1']],
                                            ['insert', S, 'automatic', 'Y1'], ['on', 'B', ['reload']], ['reload']], family='twins'))
    for src in ['spreadsheet'] + [x for x in samples if x.endswith('.ods')][: (1 if tier == 'quick' else 9)]:
        cases.append(dict(doc=src, ops=[['table', 0, False], ['on', 'B', ['table', 0, False]], ['table', 0, True], ['on', 'B', ['table', 0, True]],
                                        ['on', 'B', ['merge', 'spreadsheet', []]], ['reload']], family='twins'))
    return cases


def gen_cross_container(tier, t, templates, samples, sx):
    """the same (family, name) sits in office:styles on one side of a merge and in office:automatic-styles of styles.xml on
    the other side, both directions; constructed names and names the pool documents really carry (MP1 ...)"""
    cases = []
    fams = ['paragraph', 'graphic', 'table', 'text'] if tier == 'quick' else list(t['STD'])
    for r, o in (('text', 'presentation'), ('presentation', 'text')):
        for fam in fams:
            a, b = dict(family=fam, name='X1', variant=3, how='xml'), dict(family=fam, name='X1', variant=4, how='xml')
            cases.append(dict(doc=r, ops=[['insert', a, 'common', None], ['merge', o, [], [[5, b]]], ['reload']], family='merge-cross-container'))
            cases.append(dict(doc=r, ops=[['raw', 5, a], ['merge', o, [[b, 'common']], []], ['reload']], family='merge-cross-container'))
    docs = templates if tier == 'quick' else templates + samples[:8]
    for r in docs:
        have = {(f, n) for _, f, n in sx.get(r, [])}
        for o in docs:
            if o == r: continue
            for kind, rawslot in ((1, None), (0, 5)):
                cand = [(f, n) for k, f, n in sx.get(o, []) if k == kind and (f, n) not in have][: (1 if tier == 'quick' else 3)]
                for f, n in cand:
                    sp = dict(family=f, name=n, variant=5, how='xml')
                    pre = ['insert', sp, 'common', None] if rawslot is None else ['raw', rawslot, sp]
                    cases.append(dict(doc=r, ops=[pre, ['merge', o, []], ['reload']], family='merge-cross-container'))
    return cases


def run_shards_hands(header, hands, checker, tag):
    """common.run_shards on explicitly given shards (one call per hand would serialise; instead the hands are padded to
    equal length with a trivially passing case so that consecutive chunking reproduces them)"""
    if not hands: return {}, []
    width = max(len(h) for h in hands)
    pad = '(SFound [] [])'
    flat = []
    for h in hands:
        flat += h + [pad] * (width - len(h))
    bad, errors = common.run_shards(header, flat, checker, tag, shard=width)
    out = {}
    for j, code in bad.items():
        hi, pos = divmod(j, width)
        if pos < len(hands[hi]): out[(hi, pos)] = code
    return out, errors


def evaluate(specs, tables, pool, tag, nproc=16):
    import multiprocessing as mp
    _WORK['tables'], _WORK['pool'] = tables, pool
    indexed = list(enumerate(specs))
    nchunks = max(1, min(len(indexed), nproc * 4))
    chunks = [indexed[i::nchunks] for i in range(nchunks)]
    if len(indexed) <= 3:
        results = [work(indexed)]
    else:
        with mp.get_context('fork').Pool(min(nproc, nchunks)) as p:
            results = p.map(work, chunks)
    per, notes = {}, {}
    for r in results:
        for idx, res, note in r:
            per[idx] = res
            if note: notes[idx] = note
    terms, where = [], []
    for idx in range(len(specs)):
        for si, kind, term, err, dg, oc in per.get(idx, []):
            terms.append(term); where.append((idx, si, kind, err, dg, oc))
    # balance the shards: deal the terms out by decreasing size (big presentation stores would otherwise share a shard)
    nsh = max(1, min(48, len(terms) // 20 + 1))
    order = sorted(range(len(terms)), key=lambda j: -len(terms[j]))
    shard = (len(terms) + nsh - 1) // nsh if terms else 1
    perm = [j for k in range(nsh) for j in order[k::nsh]]
    # consecutive blocks of `shard` terms of perm must be the dealt hands: pad-free because hands differ by at most one
    hands = [order[k::nsh] for k in range(nsh)]
    perm, starts = [], []
    for h in hands:
        perm += h
    bad_p, errors = run_shards_hands(HEADER, [[terms[j] for j in h] for h in hands], "chk", tag)
    bad = {}
    for hi, h in enumerate(hands):
        for pos, j in enumerate(h):
            if (hi, pos) in bad_p: bad[j] = bad_p[(hi, pos)]
    out = {i: [] for i in range(len(specs))}
    for j, (idx, si, kind, err, dg, oc) in enumerate(where):
        out[idx].append((si, kind, bad.get(j, 0), err, dg, oc))
    return out, notes, errors, len(terms)


def key_of(code, kind, spec, si, err):
    op = spec['ops'][si]
    if kind == 'untouched': return "twin-document/changed-by-an-operation-on-the-other-document"
    if kind == 'found' and spec['ops'][si][0] == 'on': return "twin-document/promise-broken-by-an-operation-on-the-other-document"
    if op[0] == 'on': op = op[2]
    if op[0] == 'adv': return "adversarial-name/%s-code-%d" % (kind, code)
    if code == 11 and err and "object has no attribute" in err and any(o[0] == 'raw' and 'xml' in o[2] for o in spec['ops'][:si + 1]) \
            or code == 11 and err and "object has no attribute" in err and op[0] == 'merge' and len(op) > 3 and any('xml' in x[1] for x in op[3]):
        return "get_styles/element-with-style-name-that-is-no-style-class"
    if code == 1 and kind == 'table': return "set_table_displayed/default-table-style-cloned-into-automatic-styles"
    if code == 6: return "merge_styles_from/other-document-emptied"
    if kind == 'insert' and code in (2, 3, 4) and op[0] == 'insert' and op[2] == 'default' and op[1]['family'] not in STD_ and op[1]['family'] not in SPECIAL:
        return "insert_style/default-flag-on-non-standard-family"
    if code == 5 and kind == 'insert': return "insert_style/generated-name-equals-common-style-name"
    if code == 3 and kind == 'insert' and err == 'shadowed': return "insert_style/common-style-shadowed-by-content-style-of-same-name"
    if code == 11 and kind == 'pagebreak': return "add_page_break_style/existing-style-without-break-after"
    if code == 11 and kind == 'insert':
        if err and 'not a child' in err: return "insert_style/existing-style-in-another-container"
        if err and 'KeyError' in err: return "insert_style/default-with-name-argument-on-unnamed-style"
    return "%s/code-%d" % (kind, code)


def shrink_variants(spec, upto):
    ops = spec['ops'][:upto + 1]
    out = [dict(spec, ops=ops)]
    for i in range(len(ops) - 1):
        out.append(dict(spec, ops=ops[:i] + ops[i + 1:]))
    if spec['doc'] not in ('text', 'spreadsheet', 'presentation', 'drawing'):
        out.append(dict(spec, ops=ops, doc='text')); out.append(dict(spec, ops=ops, doc='spreadsheet'))
    for i, op in enumerate(ops):
        if op[0] == 'merge' and op[2]:
            out.append(dict(spec, ops=ops[:i] + [['merge', op[1], []]] + ops[i + 1:]))
        if op[0] == 'merge' and op[1] not in ('text', 'spreadsheet', 'presentation', 'drawing'):
            out.append(dict(spec, ops=ops[:i] + [['merge', 'text', op[2]]] + ops[i + 1:]))
    return out


def py_oracle_search(specs, tables, budget_s=300):
    """direct Python oracle (no Coq): uniqueness per container + found-again + other unchanged; first failing history"""
    odfdo = common.use_repo()
    signal.signal(signal.SIGALRM, _alarm)
    end = time.time() + budget_s
    for idx, spec in enumerate(specs):
        if time.time() > end: break
        A = Abs(tables)
        try:
            signal.setitimer(signal.ITIMER_REAL, 60); steps = drive(odfdo, A, spec, None); signal.setitimer(signal.ITIMER_REAL, 0)
        except Exception:
            signal.setitimer(signal.ITIMER_REAL, 0); continue
        for si, p in steps:
            if p.get('impl', ('done',))[0] == 'crashed': return idx, si, 'exception'
            post = p['impl'][1] if p['kind'] == 'pagebreak' else p['post'] if p['kind'] == 'reload' else p['impl'][1][0] if p.get('impl', ('x',))[0] == 'done' else None
            if post is None: continue
            for sl in post:
                keys = [(e[0], e[1], e[2]) for e in (sl or []) if e[2] is not None]
                if len(keys) != len(set(keys)): return idx, si, 'duplicate'
            if p['kind'] == 'insert' and p['found'] is None: return idx, si, 'not found'
            if p['kind'] == 'merge' and p['impl'][1][1] != p['other_pre']: return idx, si, 'other changed'
    return None


def run(tier, seed, replay=None):
    t0 = time.time(); rng = random.Random(seed)
    common.use_repo()
    gen_error = None
    try:
        tables = styles_gen.generate()
    except styles_gen.GenError as e:
        tables, gen_error = None, str(e)
    known = {e["key"]: e for e in common.known_findings(PROP)}
    templates, samples = doc_pool()
    if tables is not None: STD_.update(tables['STD'])
    if tables is None:
        # fail closed: the tables could not be read; keep the last generated file for the proofs, report
        proofs = common.build_proofs(PROP, extra_targets=["StylesChk"]) if (common.TH / "Gen_Contexts.v").exists() else None
        rp = common.write_replay(PROP, seed, "tables", dict(layer="generated tables", error=gen_error))
        cov = dict(trusted_base=[], evaluations=0, distinct_nontrivial=0, rule="style tables not understood: " + gen_error, samples=[], exhaustive=False)
        return common.finish(PROP, tier, seed, proofs, cov, [(rp, True)], [], t0)
    proofs = common.build_proofs(PROP, extra_targets=["StylesChk", "Gen_Contexts"])
    names_by_doc = scan_names(templates + samples)
    corpus = [json.load(open(f))["case"] for f in sorted((common.ROOT / "corpus" / PROP).glob("*.json"))]
    if replay:
        specs, nsys = [json.load(open(replay))["case"]], 0
    else:
        specs, nsys = gen_cases(tier, rng, tables, templates, samples, names_by_doc)
        specs = corpus + specs
    res, notes, errors, nterms = evaluate(specs, tables, None, "c13")
    hard, fidelity, fam_hist, op_hist, kinds, outcomes, digests, notes_count = [], 0, {}, {}, {}, {}, set(), {}
    for idx, spec in enumerate(specs):
        fam_hist[spec.get('family', 'corpus')] = fam_hist.get(spec.get('family', 'corpus'), 0) + 1
        for op in spec['ops']:
            if op[0] == 'on': op = op[2]; op_hist['on-twin'] = op_hist.get('on-twin', 0) + 1
            k = op[0] + ('/' + op[2] if op[0] in ('insert', 'adv') else '')
            op_hist[k] = op_hist.get(k, 0) + 1
        for si, kind, code, err, dg, oc in res[idx]:
            kinds[kind] = kinds.get(kind, 0) + 1; outcomes[oc] = outcomes.get(oc, 0) + 1
            digests.add(dg)
            if code in NOTES:
                notes_count[NOTES[code]] = notes_count.get(NOTES[code], 0) + 1
                if code == FIDELITY: fidelity += 1
            elif code: hard.append((idx, si, kind, code, err))
    violations, known_seen, seen = [], [], {}
    for idx, si, kind, code, err in hard:
        seen.setdefault(key_of(code, kind, specs[idx], si, err), []).append((idx, si, kind, code, err))
    for k, lst in sorted(seen.items()):
        idx, si, kind, code, err = min(lst, key=lambda x: (len(x and specs[x[0]]['ops']), len(json.dumps(specs[x[0]]))))
        spec = dict(specs[idx], ops=specs[idx]['ops'][:si + 1])
        if not replay and k not in known:
            for _ in range(5):
                vs = shrink_variants(spec, si)
                r2, _, e2, _ = evaluate(vs, tables, None, "c13s")
                better = [(len(json.dumps(v)), j) for j, v in enumerate(vs) if any(c == code and kd == kind for (_, kd, c, _, _, _) in r2[j])]
                if e2 or not better: break
                j = min(better)[1]
                if len(json.dumps(vs[j])) >= len(json.dumps(spec)) and len(vs[j]['ops']) == len(spec['ops']): break
                spec = vs[j]; si = max(s for (s, kd, c, _, _, _) in r2[j] if c == code and kd == kind)
        rp = common.write_replay(PROP, seed, k.replace('/', '_'), dict(layer=LAYER.get(code, str(code)), code=code, step=si, case=spec, key=k,
                                 failing_steps_in_run=len(lst), implementation_error=err, known_finding_key=k if k in known else None))
        if k in known:
            known_seen.append("%s (%d step(s), replay=%s)" % (known[k]["description"], len(lst), rp))
        else:
            violations.append((rp, False))
    if ((not proofs["ok"]) or errors) and not hard:
        f = py_oracle_search(specs, tables)
        if f:
            rp = common.write_replay(PROP, seed, "oracle", dict(layer="python oracle (%s); Coq evaluation unavailable" % f[2], step=f[1], case=specs[f[0]]))
            violations.append((rp, False)); hard.append(f)
    violations += common.proof_violation(PROP, seed, proofs, errors, bool(hard))
    if notes and not replay:
        rp = common.write_replay(PROP, seed, "abstraction", dict(layer="abstraction / driver", notes=[(i, n) for i, n in sorted(notes.items())[:5]], case=specs[min(notes)]))
        violations.append((rp, True))
    coverage = dict(
        trusted_base=["lxml (tree API used by the abstraction; parse/serialise on the reload leg)",
                      "CPython int() on the suffix of 'odfdo_auto_' names (what _set_automatic_name applies)",
                      "Gen_Contexts.v: CONTEXT_MAPPING, FAMILY_MAPPING, FAMILY_ODF_STD, FALSE_FAMILY_MAP_REVERSE, the literal context lists of Styles/Content._get_style_contexts, regenerated from the source by harness/styles_gen.py on this run",
                      "modelled in Styles.v: Document.insert_style and its _insert_style_* helpers, _set_automatic_name, _unique_style_name, get_style (Document / Styles / Content / Element), get_styles, merge_styles_from, delete_styles, set_table_displayed, add_page_break_style; style content is opaque (digest)"],
        evaluations=nterms, distinct_nontrivial=len(digests),
        rule="histories over the four templates and %d sample documents: systematic (every family of FAMILY_MAPPING x common/automatic/default x named/unnamed, inserted twice, reloaded), generated-name gaps, every pool document merged into a template and into itself, every document through add_page_break_style / set_table_displayed / delete_styles / reload, then random histories (names drawn from the names existing in the document, generated-name shapes, unusual characters). evaluations = steps evaluated in Coq; distinct_nontrivial = distinct (operation, family/tag, name class, flags, replaced-or-not, outcome, container occupancy) among them" % len(samples),
        samples=[dict(doc=os.path.basename(s['doc']), ops=s['ops']) for s in specs[len(corpus) + nsys:][-3:]], histories=len(specs),
        families=fam_hist, ops=op_hist, checked_step_kinds=kinds, outcomes=outcomes, systematic_cases=nsys, corpus_cases=len(corpus),
        fidelity_divergences=fidelity, notes=notes_count, steps_with_theorem_hypotheses_met=nterms - notes_count.get('pre_state_outside_inv2', 0) - len(hard) - notes_count.get('fidelity', 0) - notes_count.get('inv2_lost', 0), property_level_failures=len(hard), driver_notes=len(notes), documents=len(templates) + len(samples), exhaustive=False)
    return common.finish(PROP, tier, seed, proofs, coverage, violations, known_seen, t0,
                         assumptions=["style elements are fresh objects (not already attached to a document) when inserted",
                                      "default=True only documented for the standard families (mostly generated so)",
                                      "pseudo styles named by draw:name (draw:marker, draw:fill-image) are carried as entries but their lookup by draw:name is not modelled",
                                      "three sample sheets declaring ~10^6 rows and big.ods are left out of the pool (time limit)"])


if __name__ == "__main__":
    common.main(run)
