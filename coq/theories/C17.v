(* Property C17 — whole-table transformations preserve the content they are not meant to remove. (first stage) *)
From Coq Require Import List ZArith Lia Bool Arith.
Import ListNotations.
Require Import Vault Row Table Grid Tableabs Transform Transformspec Transformproof.

Theorem strip_is_idempotent : forall (A : Type) (p : A -> bool) (l : list A), strip_end p (strip_end p l) = strip_end p l.
Proof. exact (@strip_end_idem). Qed.
Print Assumptions strip_is_idempotent.
