(* PkgLocalproof2.v — locality of save and of the step function; C10: any interleaved run = the two solo runs *)
From Coq Require Import List ZArith Bool Arith Lia.
Import ListNotations.
Require Import Package Pkgproof PkgLocalproof.
Open Scope Z_scope.

Section L2.
Variable xml bytes kid : Type.
Variable ser : xml -> bytes.
Variable par : bytes -> xml.
Variable pretty stamp : xml -> xml.
Variable entries : xml -> mentries.
Variable with_entries : mentries -> xml -> xml.
Variable kids : xml -> list kid.
Variable mime : bytes -> mtype.
Variable mime_bytes : mtype -> bytes.
Variable rdf0 : bytes.
Variable fx : fixes.
Notation container := (container bytes).
Notation document := (document xml bytes).
Notation fsys := (fsys bytes kid).
Notation disk_entries := (disk_entries bytes kid).
Notation same_at := (same_at bytes kid).
Notation P := (P xml bytes).
Notation d_tree := (d_tree xml bytes kid par fx).
Notation ser_loop := (ser_loop xml bytes kid ser par pretty fx).
Notation check_rdf := (check_rdf xml bytes kid par entries rdf0 fx).
Notation c_save := (c_save xml bytes kid par kids mime fx).
Notation d_save := (d_save xml bytes kid ser par pretty stamp entries kids mime rdf0 fx).
Notation step := (step xml bytes kid ser par pretty stamp entries with_entries kids mime mime_bytes rdf0 fx).
Notation run := (run xml bytes kid ser par pretty stamp entries with_entries kids mime mime_bytes rdf0 fx).

Lemma ser_loop_local : forall fs fs' pty ns (d : document), same_at (P d) fs fs' ->
  ser_loop fs pty ns d = ser_loop fs' pty ns d /\ P (fst (ser_loop fs' pty ns d)) = P d.
Proof.
  intros fs fs' pty ns d H. unfold Package.ser_loop. generalize true.
  revert d H. induction ns as [|n ns IH]; intros d H b0; cbn [fold_left fst snd]; [split; reflexivity|].
  rewrite (d_tree_local xml bytes kid par fx fs fs' n d H).
  pose proof (d_tree_cpath xml bytes kid par fx fs' n d) as C.
  destruct (d_tree fs' n d) as [dd [x|]]; cbn [fst snd] in C.
  - destruct pty.
    + set (a := d_with_cont _ _ (if fx15 fx then dd else set_tree xml bytes n (pretty x) dd)
                  (c_set_part bytes fx n (ser (pretty x)) (cont _ _ (if fx15 fx then dd else set_tree xml bytes n (pretty x) dd)))).
      assert (Pa : P a = P d) by (unfold PkgLocalproof.P, a; destruct (fx15 fx); cbn [cont d_with_cont set_tree c_set_part cpath]; exact C).
      destruct (IH a ltac:(rewrite Pa; exact H) b0) as [E1 E2]. split; [exact E1|]. rewrite E2. exact Pa.
    + set (a := d_with_cont _ _ dd (c_set_part bytes fx n (ser x) (cont _ _ dd))).
      assert (Pa : P a = P d) by (unfold PkgLocalproof.P, a; cbn [cont d_with_cont c_set_part cpath]; exact C).
      destruct (IH a ltac:(rewrite Pa; exact H) b0) as [E1 E2]. split; [exact E1|]. rewrite E2. exact Pa.
  - destruct (IH dd ltac:(unfold PkgLocalproof.P; rewrite C; exact H) false) as [E1 E2].
    split; [exact E1|]. rewrite E2. exact C.
Qed.

Lemma check_rdf_local : forall fs fs' (d : document), same_at (P d) fs fs' ->
  check_rdf fs d = check_rdf fs' d /\ P (fst (check_rdf fs' d)) = P d.
Proof.
  intros fs fs' d H. unfold Package.check_rdf.
  rewrite (d_tree_local xml bytes kid par fx fs fs' MANIFEST d H).
  pose proof (d_tree_cpath xml bytes kid par fx fs' MANIFEST d) as C.
  destruct (d_tree fs' MANIFEST d) as [d1 [xm|]]; cbn [fst snd] in C; [|split; [reflexivity|exact C]].
  assert (H1 : same_at (cpath _ (cont _ _ d1)) fs fs') by (rewrite C; exact H).
  rewrite (listing_same bytes kid fx fs fs' (cont _ _ d1) H1).
  split; [reflexivity|].
  destruct (rdf_listed fx (entries xm)); destruct (memz RDF (c_listing bytes kid fx fs' (cont _ _ d1))); cbn [fst]; exact C.
Qed.

(* Container.save: same container, same file written *)
Lemma c_save_local : forall fs fs' (c : container) t pk, same_at (cpath _ c) fs fs' ->
  fst (c_save fs c t pk) = fst (c_save fs' c t pk) /\ cpath _ (fst (c_save fs' c t pk)) = cpath _ c /\
  ((snd (c_save fs c t pk) = None /\ snd (c_save fs' c t pk) = None) \/
   exists f, snd (c_save fs c t pk) = Some (upsert (tgt_id t) f fs) /\ snd (c_save fs' c t pk) = Some (upsert (tgt_id t) f fs')).
Proof.
  intros fs fs' c t pk H. unfold Package.c_save.
  rewrite (listing_same bytes kid fx fs fs' c H), (c_load_missing_local bytes kid fx fs fs' _ c H).
  set (c1 := c_load_missing bytes kid fx fs' (c_listing bytes kid fx fs' c) c).
  assert (C1 : cpath _ c1 = cpath _ c) by apply c_load_missing_cpath.
  destruct pk.
  - destruct (save_zip _ c1) as [es|]; cbn [fst snd]; (split; [reflexivity|split; [exact C1|]]); [right; eauto|left; auto].
  - destruct t as [p|p]; cbn [fst snd tgt_id]; (split; [reflexivity|split; [exact C1|]]); [right; eauto|left; auto].
  - destruct (lookup MIMETYPE (live _ c1)); cbn [fst snd]; (split; [reflexivity|split; [exact C1|]]); [right; eauto|left; auto].
Qed.

Definition fs_step (t : option Z) (fs1 fs1' fs fs' : fsys) : Prop :=
  (fs1 = fs /\ fs1' = fs') \/ exists q f, t = Some q /\ fs1 = upsert q f fs /\ fs1' = upsert q f fs'.

Lemma d_save_local : forall fs fs' (d : document) t pk pty, same_at (P d) fs fs' ->
  snd (fst (d_save fs d t pk pty)) = snd (fst (d_save fs' d t pk pty)) /\ snd (d_save fs d t pk pty) = snd (d_save fs' d t pk pty)
  /\ P (snd (fst (d_save fs' d t pk pty))) = P d
  /\ fs_step (Some (tgt_id t)) (fst (fst (d_save fs d t pk pty))) (fst (fst (d_save fs' d t pk pty))) fs fs'.
Proof.
  intros fs fs' d t pk pty H. unfold Package.d_save.
  rewrite (d_tree_local xml bytes kid par fx fs fs' META d H).
  pose proof (d_tree_cpath xml bytes kid par fx fs' META d) as C1.
  destruct (d_tree fs' META d) as [d1 [x|]]; cbn [fst snd] in *; [|repeat split; auto; left; auto].
  set (d2 := set_tree xml bytes META (stamp x) d1).
  assert (H2 : same_at (P d2) fs fs') by (unfold PkgLocalproof.P, d2; cbn [cont set_tree]; rewrite C1; exact H).
  destruct (check_rdf_local fs fs' d2 H2) as [R1 R2]. rewrite R1.
  destruct (check_rdf fs' d2) as [d3 ok3]. cbn [fst] in R2.
  assert (P3 : P d3 = P d) by (rewrite R2; unfold PkgLocalproof.P, d2; cbn [cont set_tree]; exact C1).
  destruct ok3; cbn [negb]; [|cbn [fst snd]; repeat split; auto; left; auto].
  assert (H3 : same_at (P d3) fs fs') by (rewrite P3; exact H).
  assert (HL : (if pty && negb (pk_eqb pk PXml)
                then let '(da, oka) := ser_loop fs true (map fst (xps _ _ d3)) d3 in
                     let '(db, okb) := ser_loop fs true (filter (fun n => match lookup n (xps _ _ da) with Some _ => false | None => true end) [CONTENT; META; SETTINGS; STYLES]) da in (db, oka && okb)
                else ser_loop fs false (map fst (xps _ _ d3)) d3)
             = (if pty && negb (pk_eqb pk PXml)
                then let '(da, oka) := ser_loop fs' true (map fst (xps _ _ d3)) d3 in
                     let '(db, okb) := ser_loop fs' true (filter (fun n => match lookup n (xps _ _ da) with Some _ => false | None => true end) [CONTENT; META; SETTINGS; STYLES]) da in (db, oka && okb)
                else ser_loop fs' false (map fst (xps _ _ d3)) d3)
             /\ P (fst (if pty && negb (pk_eqb pk PXml)
                then let '(da, oka) := ser_loop fs' true (map fst (xps _ _ d3)) d3 in
                     let '(db, okb) := ser_loop fs' true (filter (fun n => match lookup n (xps _ _ da) with Some _ => false | None => true end) [CONTENT; META; SETTINGS; STYLES]) da in (db, oka && okb)
                else ser_loop fs' false (map fst (xps _ _ d3)) d3)) = P d3).
  { destruct (pty && negb (pk_eqb pk PXml)).
    - destruct (ser_loop_local fs fs' true (map fst (xps _ _ d3)) d3 H3) as [E1 E2]. rewrite E1.
      destruct (ser_loop fs' true (map fst (xps _ _ d3)) d3) as [da oka]. cbn [fst] in E2.
      match goal with |- context [ser_loop fs true ?l da] => destruct (ser_loop_local fs fs' true l da) as [F1 F2]; [rewrite E2; exact H3|rewrite F1] end.
      match goal with |- context [ser_loop fs' true ?l da] => destruct (ser_loop fs' true l da) as [db okb] end. cbn [fst] in *.
      split; [reflexivity|congruence].
    - apply (ser_loop_local fs fs' false _ d3 H3). }
  destruct HL as [HL1 HL2]. rewrite HL1.
  match goal with |- context [if pty && negb (pk_eqb pk PXml) then ?a else ?b] => destruct (if pty && negb (pk_eqb pk PXml) then a else b) as [d4 ok4] end.
  cbn [fst] in HL2.
  destruct ok4; cbn [negb]; [|cbn [fst snd]; repeat split; auto; [congruence|left; auto]].
  assert (H4 : same_at (cpath _ (cont _ _ d4)) fs fs') by (change (cpath _ (cont _ _ d4)) with (P d4); rewrite HL2; exact H3).
  destruct (c_save_local fs fs' (cont _ _ d4) t pk H4) as [S1 [S2 S3]].
  destruct (c_save fs (cont _ _ d4) t pk) as [c5 ofs]. destruct (c_save fs' (cont _ _ d4) t pk) as [c5' ofs']. cbn [fst snd] in *. subst c5'.
  assert (P5 : P (d_with_cont _ _ d4 c5) = P d) by (unfold PkgLocalproof.P in *; cbn [cont d_with_cont]; congruence).
  destruct S3 as [[-> ->]|[f [-> ->]]]; cbn [fst snd]; repeat split; auto.
  - left; auto.
  - right. exists (tgt_id t), f. auto.
Qed.

(* operations that do not (re)open a file *)
Definition stays (o : op xml bytes) : bool := match o with OOpen _ _ | ONew _ _ => false | _ => true end.
Definition tgt_of (o : op xml bytes) : option Z := match o with OSave t _ _ => Some (tgt_id t) | _ => None end.

Theorem step_local : forall fs fs' (d : document) o, same_at (P d) fs fs' -> stays o = true ->
  snd (fst (step (fs, d) o)) = snd (fst (step (fs', d) o)) /\ snd (step (fs, d) o) = snd (step (fs', d) o)
  /\ fs_step (tgt_of o) (fst (fst (step (fs, d) o))) (fst (fst (step (fs', d) o))) fs fs'
  /\ (P (snd (fst (step (fs', d) o))) = P d \/ P (snd (fst (step (fs', d) o))) = None).
Proof.
  intros fs fs' d o H Hs. unfold Package.step.
  destruct o as [p b|p m'|n|n|n x'|n b|n|n b m|n b m|t pk pty| |sc sx imgs]; try discriminate Hs; cbn [tgt_of].
  - destruct (is_xml n); cbn [fst snd]; [repeat split; auto; left; auto|].
    rewrite (c_get_part_local bytes kid fx fs fs' n _ H).
    pose proof (c_get_part_cpath bytes kid fx fs' n (cont _ _ d)) as C.
    destruct (Package.c_get_part bytes kid fx fs' n (cont _ _ d)) as [c' ob]. cbn [fst snd]. repeat split; auto; left; auto.
  - destruct (is_xml n); cbn [negb fst snd]; [|repeat split; auto; left; auto].
    rewrite (d_tree_local xml bytes kid par fx fs fs' n d H). pose proof (d_tree_cpath xml bytes kid par fx fs' n d) as C.
    destruct (d_tree fs' n d) as [d' ox]. cbn [fst snd]. repeat split; auto; left; auto.
  - destruct (is_xml n); cbn [negb fst snd]; [|repeat split; auto; left; auto].
    rewrite (d_tree_local xml bytes kid par fx fs fs' n d H). pose proof (d_tree_cpath xml bytes kid par fx fs' n d) as C.
    destruct (d_tree fs' n d) as [d' [x|]]; cbn [fst snd]; repeat split; auto; left; auto.
  - cbn [fst snd]. repeat split; auto; left; auto.
  - rewrite (d_del_part_local xml bytes kid par entries with_entries fx fs fs' n d H).
    assert (C : P (fst (d_del_part xml bytes kid par entries with_entries fx fs' n d)) = P d).
    { unfold d_del_part. destruct ((n =? MANIFEST) || is_xml n); [reflexivity|]. destruct (fx11 fx); [|reflexivity].
      unfold d_manifest. pose proof (d_tree_cpath xml bytes kid par fx fs' MANIFEST (d_with_cont _ _ d (c_del_part bytes n (cont _ _ d)))) as G.
      destruct (d_tree fs' MANIFEST _) as [d1 [x|]]; exact G. }
    destruct (d_del_part xml bytes kid par entries with_entries fx fs' n d) as [d' ok]. cbn [fst snd] in *. repeat split; auto; left; auto.
  - rewrite (d_add_file_local xml bytes kid par entries with_entries fx fs fs' n b m d H).
    assert (C : P (fst (d_add_file xml bytes kid par entries with_entries fx fs' n b m d)) = P d).
    { unfold d_add_file. pose proof (d_tree_cpath xml bytes kid par fx fs' MANIFEST d) as G.
      destruct (d_tree fs' MANIFEST d) as [d1 [x|]]; exact G. }
    destruct (d_add_file xml bytes kid par entries with_entries fx fs' n b m d) as [d' ok]. cbn [fst snd] in *. repeat split; auto; left; auto.
  - rewrite (d_import_local xml bytes kid par entries with_entries fx fs fs' n b m d H).
    pose proof (d_import_cpath xml bytes kid par entries with_entries fx fs' n b m d) as C.
    destruct (d_import xml bytes kid par entries with_entries fx fs' n b m d) as [d' ok]. cbn [fst snd] in *. repeat split; auto; left; auto.
  - destruct (d_save_local fs fs' d t pk pty H) as [A [B [C D]]].
    destruct (d_save fs d t pk pty) as [[f1 d1] ok1]. destruct (d_save fs' d t pk pty) as [[f2 d2] ok2]. cbn [fst snd] in *. subst.
    repeat split; auto.
  - cbn [fst snd]. rewrite (d_clone_local xml bytes kid ser par fx fs fs' d H). repeat split; auto; [left; auto|right].
    unfold Package.d_clone, PkgLocalproof.P.
    destruct (c_clone bytes kid fx fs' (cont _ _ d)) as [c1 cl] eqn:E.
    assert (Hcl : cpath _ cl = None) by (unfold Package.c_clone in E; inversion E; reflexivity).
    destruct (fx14 fx); [|exact Hcl].
    match goal with |- context [fold_left ?f ?l (?a, cl)] =>
      assert (G : forall ns acc, cpath _ (snd acc) = None -> cpath _ (snd (fold_left f ns acc)) = None) end.
    { induction ns as [|k ns IH]; intros acc Ha; cbn [fold_left]; [exact Ha|]. apply IH.
      destruct (d_tree fs' k (fst acc)) as [dd [x|]]; cbn [snd c_set_part cpath]; exact Ha. }
    match goal with |- context [fold_left ?f ?l (?a, cl)] => specialize (G l (a, cl) Hcl); destruct (fold_left f l (a, cl)) as [d2 cl2] end. exact G.
  - rewrite (d_merge_local xml bytes kid par entries with_entries fx fs fs' sc sx imgs d H).
    assert (C : P (fst (d_merge xml bytes kid par entries with_entries fx fs' sc sx imgs d)) = P d).
    { unfold d_merge.
      pose proof (d_set_tree_opt_cpath xml bytes kid par fx fs' CONTENT sc (mkD (cont _ _ d) (xp_cache xml MANIFEST (xps _ _ d)))) as C1.
      destruct (d_set_tree_opt xml bytes kid par fx fs' CONTENT sc _) as [d1 ok1]. cbn [fst] in C1.
      pose proof (d_set_tree_opt_cpath xml bytes kid par fx fs' STYLES sx d1) as C2.
      destruct (d_set_tree_opt xml bytes kid par fx fs' STYLES sx d1) as [d2 ok2]. cbn [fst] in C2.
      generalize (ok1 && ok2). intros b0. transitivity (P d2); [|rewrite C2; exact C1].
      clear. revert d2 b0. induction imgs as [|e imgs IH]; intros d2 b0; cbn [fold_left fst snd]; [reflexivity|].
      pose proof (d_import_cpath xml bytes kid par entries with_entries fx fs' (fst (fst e)) (snd (fst e)) (snd e) d2) as C.
      destruct (d_import xml bytes kid par entries with_entries fx fs' (fst (fst e)) (snd (fst e)) (snd e) d2) as [d' ok]. cbn [fst] in C.
      rewrite IH. exact C. }
    destruct (d_merge xml bytes kid par entries with_entries fx fs' sc sx imgs d) as [d' ok]. cbn [fst snd] in *. repeat split; auto; left; auto.
Qed.
End L2.
