(* TableBproof.v — layer B, part 1: sizes read from coherent maps, the wrapper cache under Coh, and every READ:
   it keeps Coh (it only adds coherent entries to the caches), leaves the XML alone, and answers what the same read
   answers on the XML alone (a_read). *)
From Coq Require Import List ZArith Lia Bool Arith.
Import ListNotations.
Require Import Vault Vaultproof Vaultproof2 Vaultproof3 Vaultproof4 Row Table Grid Tableabs Tableproof Tableproof2 Tableproof5 Tableproof7 TableB TableBabs.
Open Scope Z_scope.

(* ---- sizes ---- *)
Lemma last_cons {A} (l : list A) x d : last (x :: l) d = last l x.
Proof. revert x; induction l as [|y l IH]; intros x; [reflexivity|]. cbn [last] in *. destruct l; [reflexivity|apply IH]. Qed.
Lemma last_cmap_from {A} acc (v : runs A) : last (cmap_from acc v) acc = acc + Z.of_nat (width v).
Proof.
  revert acc; induction v as [|[n a] v IH]; intros acc; unfold width in *.
  - cbn. lia.
  - cbn [cmap_from expand]. rewrite last_cons, IH, app_length, repeat_length. lia.
Qed.
Lemma hmap_cmap {A} (v : runs A) : hmap (cmap v) = Z.of_nat (width v).
Proof. unfold hmap, cmap. rewrite last_cmap_from. lia. Qed.
Lemma cmap_length {A} (v : runs A) : length (cmap v) = length v.
Proof. apply cmap_from_length. Qed.

Lemma bheight_coh b : CohM b -> bheight b = theight (ax b).
Proof. intros (Ht & _). unfold bheight, theight. rewrite Ht. apply hmap_cmap. Qed.
Lemma bwidth_coh b : CohM b -> bwidth b = twidth (ax b).
Proof. intros (_ & Hc & _). unfold bwidth, twidth. rewrite Hc. apply hmap_cmap. Qed.
Lemma bny_coh b y : CohM b -> bny y b = ny y (ax b).
Proof. intros H. unfold bny, ny. now rewrite bheight_coh. Qed.
Lemma bnx_coh b x : CohM b -> bnx x b = nx x (ax b).
Proof. intros H. unfold bnx, nx. now rewrite bwidth_coh. Qed.

(* ---- association lists ---- *)
Lemma lookupn_in {V} k (l : list (nat * V)) v : lookupn k l = Some v -> In (k, v) l.
Proof.
  induction l as [|[k' v'] l IH]; cbn [lookupn]; [discriminate|].
  destruct (Nat.eqb_spec k k'); intros H; [inversion H; subst; now left|right; auto].
Qed.
Lemma lookupn_upsertn {V} k (v : V) l : lookupn k (upsertn k v l) = Some v.
Proof. unfold upsertn. cbn [lookupn]. now rewrite Nat.eqb_refl. Qed.
(* storing under key k: the new entry satisfies Q, every entry under another key is kept *)
Lemma Forall_upsertn' {V} (P Q : nat * V -> Prop) k v l :
  Q (k, v) -> (forall kv, fst kv <> k -> P kv -> Q kv) -> Forall P l -> Forall Q (upsertn k v l).
Proof.
  intros Hq Hpq Hl. unfold upsertn. constructor; [exact Hq|].
  rewrite Forall_forall in *. intros kv Hin. apply filter_In in Hin. destruct Hin as [Hin Hne].
  apply Hpq; [|exact (Hl _ Hin)]. destruct (Nat.eqb_spec (fst kv) k); [discriminate|assumption].
Qed.
Lemma Forall_upsertn {V} (P : nat * V -> Prop) k v l : P (k, v) -> Forall P l -> Forall P (upsertn k v l).
Proof. intros Hp Hl. apply (Forall_upsertn' P P); auto. Qed.

Lemma keys_ok_mono n m l : (n <= m)%nat -> keys_ok n l -> keys_ok m l.
Proof. intros Hnm H. unfold keys_ok in *. eapply Forall_impl; [|exact H]. cbv beta. intros kp [H1 H2]. split; [exact H1|lia]. Qed.
Lemma keys_ok_upsert n k l : (k < n)%nat -> keys_ok n l -> keys_ok n (upsertn k (Z.of_nat k) l).
Proof. intros Hk H. apply Forall_upsertn; [cbn [fst snd]; split; [reflexivity|exact Hk]|exact H]. Qed.
Lemma keys_ok_lookup n k l p : keys_ok n l -> lookupn k l = Some p -> p = Z.of_nat k /\ (k < n)%nat.
Proof. intros H Hl. apply lookupn_in in Hl. unfold keys_ok in H. rewrite Forall_forall in H. exact (H _ Hl). Qed.

(* ---- the wrapper cache under Coh ---- *)
Lemma wrap_ok_fresh t i rep st cs : nth_error (rows t) i = Some (rep, (st, cs)) ->
  fresh_wrap i t = Some {| w_pos := Z.of_nat i; w_rmap := cmap cs; w_cells := [] |} /\
  wrap_ok t (i, {| w_pos := Z.of_nat i; w_rmap := cmap cs; w_cells := [] |}).
Proof.
  intros H. unfold fresh_wrap. rewrite H. split; [reflexivity|].
  exists rep, st, cs. cbn [fst snd w_pos w_rmap w_cells]. repeat split; [exact H|constructor].
Qed.

Lemma CohM_with_tcache b c : CohM b -> Forall (wrap_ok (ax b)) c -> CohM (with_tcache b c).
Proof. intros (H1 & H2 & H3 & H4) Hc. unfold CohM, with_tcache; cbn [ax tmapB cmapB tcache ccache]. auto. Qed.

Lemma get_wrap_coh b y : Coh b -> 0 <= y < bheight b ->
  exists i w b1 rep st cs,
    get_wrap y b = Some (i, w, b1) /\ find_idx (cmap (rows (ax b))) y = Some i /\
    nth_error (rows (ax b)) i = Some (rep, (st, cs)) /\ row_at y (ax b) = Some (rep, (st, cs)) /\
    wrap_ok (ax b) (i, w) /\ lookupn i (tcache b1) = Some w /\
    ax b1 = ax b /\ tmapB b1 = tmapB b /\ cmapB b1 = cmapB b /\ ccache b1 = ccache b /\ Coh b1.
Proof.
  intros [[[Hwr Hwc] Hcw] Hm] Hy. pose proof Hm as (Ht & Hc & Htc & Hcc).
  rewrite (bheight_coh b Hm) in Hy. unfold theight in Hy.
  destruct (locate _ (rows (ax b)) y Hwr Hy) as (i & n & [st cs] & Hf & Hn & Hi & _).
  unfold get_wrap. rewrite Ht, Hf.
  assert (Hra : row_at y (ax b) = Some (n, (st, cs))) by (unfold row_at; now rewrite Hf).
  destruct (lookupn i (tcache b)) as [w|] eqn:El.
  - exists i, w, b, n, st, cs. repeat split; auto.
    apply lookupn_in in El. rewrite Forall_forall in Htc. exact (Htc _ El).
  - destruct (wrap_ok_fresh (ax b) i n st cs Hn) as [Hfw Hok]. rewrite Hfw.
    eexists i, _, _, n, st, cs. split; [reflexivity|]. repeat split; auto.
    + cbn [with_tcache tcache]. apply lookupn_upsertn.
    + apply CohM_with_tcache; [exact Hm|]. apply Forall_upsertn; assumption.
Qed.

Lemma wrap_row_ok t i w rep st cs : wrap_ok t (i, w) -> nth_error (rows t) i = Some (rep, (st, cs)) ->
  wrap_row w t = Some (rep, (st, cs)) /\ w_rmap w = cmap cs /\ keys_ok (length cs) (w_cells w) /\ Z.to_nat (w_pos w) = i.
Proof.
  intros (rep' & st' & cs' & Hn & Hp & Hr & Hk) H. cbn [fst snd] in *. rewrite H in Hn. inversion Hn; subst.
  unfold wrap_row. rewrite Hp. destruct (Z.ltb_spec (Z.of_nat i) 0); [lia|]. rewrite Nat2Z.id. auto.
Qed.

Lemma wrap_cell_pos_ok t i w rep st cs x : wrap_ok t (i, w) -> nth_error (rows t) i = Some (rep, (st, cs)) ->
  exists w', wrap_cell_pos x w t = Some (cell_pos_at x cs, w') /\ wrap_ok t (i, w') /\ w_rmap w' = w_rmap w /\ w_pos w' = w_pos w.
Proof.
  intros Hok Hn. destruct (wrap_row_ok t i w rep st cs Hok Hn) as (Hr & Hm & Hk & Hp).
  unfold wrap_cell_pos, cell_pos_at. rewrite Hm, Hr.
  destruct (find_idx (cmap cs) x) as [ci|] eqn:Ef; [|exists w; auto].
  assert (Hci : (ci < length cs)%nat).
  { unfold find_idx in Ef. destruct (Nat.ltb_spec (bisect (cmap cs) x) (length (cmap cs))); [|discriminate].
    inversion Ef; subst. now rewrite cmap_length in *. }
  destruct (nth_error cs ci) as [c|] eqn:Ec; [|apply nth_error_None in Ec; lia].
  destruct (lookupn ci (w_cells w)) as [p|] eqn:El.
  - destruct (keys_ok_lookup _ _ _ _ Hk El) as [-> _].
    destruct (Z.ltb_spec (Z.of_nat ci) 0); [lia|]. rewrite Nat2Z.id, Ec. exists w. auto.
  - eexists. split; [reflexivity|]. cbn [w_rmap w_pos]. repeat split; auto.
    destruct Hok as (rep' & st' & cs' & Hn' & Hp' & Hr' & Hk'). cbn [fst snd] in *. rewrite Hn in Hn'. inversion Hn'; subst.
    exists rep', st', cs'. cbn [fst snd w_pos w_rmap w_cells]. repeat split; auto. now apply keys_ok_upsert.
Qed.

Lemma cell_pos_at_cell_at x cs : option_map (fun pc : nat * (nat * cell) => snd (snd pc)) (cell_pos_at x cs) = cell_at x cs.
Proof.
  unfold cell_pos_at, cell_at. destruct (find_idx (cmap cs) x) as [ci|]; [|reflexivity].
  destruct (nth_error cs ci) as [[n c]|]; reflexivity.
Qed.

(* Row.traverse() through a coherent wrapper is the expansion of the row, and fills the cell cache coherently *)
Lemma wrap_traverse_ok (cs : rruns) : forall (pre rest : rruns) bef cells, cs = pre ++ rest -> keys_ok (length cs) cells ->
  exists cells', wrap_traverse (length pre) bef (cmap_from bef rest) cs cells = Some (expand rest, cells') /\ keys_ok (length cs) cells'.
Proof.
  intros pre rest; revert pre; induction rest as [|[n c] rest IH]; intros pre bef cells Hcs Hk.
  - exists cells. split; [reflexivity|exact Hk].
  - cbn [cmap_from wrap_traverse].
    assert (Hlen : (length pre < length cs)%nat) by (subst cs; rewrite app_length; cbn [length]; lia).
    assert (Hnth : nth_error cs (length pre) = Some (n, c)).
    { subst cs. rewrite nth_error_app2 by lia. now rewrite Nat.sub_diag. }
    assert (Hp : (match lookupn (length pre) cells with Some p => p | None => Z.of_nat (length pre) end) = Z.of_nat (length pre)).
    { destruct (lookupn (length pre) cells) as [p|] eqn:El; [|reflexivity]. now destruct (keys_ok_lookup _ _ _ _ Hk El). }
    rewrite Hp. destruct (Z.ltb_spec (Z.of_nat (length pre)) 0); [lia|]. rewrite Nat2Z.id, Hnth.
    destruct (IH (pre ++ [(n, c)]) (bef + Z.of_nat n) (upsertn (length pre) (Z.of_nat (length pre)) cells)) as (cells' & He & Hk').
    { subst cs. now rewrite <- app_assoc. }
    { now apply keys_ok_upsert. }
    rewrite app_length in He. cbn [length] in He. rewrite Nat.add_1_r in He. rewrite He.
    exists cells'. split; [|exact Hk']. cbn [expand]. replace (Z.to_nat (bef + Z.of_nat n - bef)) with n by lia. reflexivity.
Qed.

Lemma cols_traverse_ok (cs : list (nat * Z)) : forall (pre rest : list (nat * Z)) bef cache, cs = pre ++ rest -> keys_ok (length cs) cache ->
  exists cache', cols_traverse (length pre) bef (cmap_from bef rest) cs cache = Some (expand rest, cache') /\ keys_ok (length cs) cache'.
Proof.
  intros pre rest; revert pre; induction rest as [|[n c] rest IH]; intros pre bef cache Hcs Hk.
  - exists cache. split; [reflexivity|exact Hk].
  - cbn [cmap_from cols_traverse].
    assert (Hlen : (length pre < length cs)%nat) by (subst cs; rewrite app_length; cbn [length]; lia).
    assert (Hnth : nth_error cs (length pre) = Some (n, c)).
    { subst cs. rewrite nth_error_app2 by lia. now rewrite Nat.sub_diag. }
    assert (Hp : (match lookupn (length pre) cache with Some p => p | None => Z.of_nat (length pre) end) = Z.of_nat (length pre)).
    { destruct (lookupn (length pre) cache) as [p|] eqn:El; [|reflexivity]. now destruct (keys_ok_lookup _ _ _ _ Hk El). }
    rewrite Hp. destruct (Z.ltb_spec (Z.of_nat (length pre)) 0); [lia|]. rewrite Nat2Z.id, Hnth.
    destruct (IH (pre ++ [(n, c)]) (bef + Z.of_nat n) (upsertn (length pre) (Z.of_nat (length pre)) cache)) as (cache' & He & Hk').
    { subst cs. now rewrite <- app_assoc. }
    { now apply keys_ok_upsert. }
    rewrite app_length in He. cbn [length] in He. rewrite Nat.add_1_r in He. rewrite He.
    exists cache'. split; [|exact Hk']. cbn [expand]. replace (Z.to_nat (bef + Z.of_nat n - bef)) with n by lia. reflexivity.
Qed.

(* storing a coherent wrapper back *)
Lemma Coh_store b i w : Coh b -> wrap_ok (ax b) (i, w) -> Coh (with_tcache b (upsertn i w (tcache b))).
Proof.
  intros [Hwf Hm] Hok. split; [exact Hwf|]. apply CohM_with_tcache; [exact Hm|].
  destruct Hm as (_ & _ & Htc & _). now apply Forall_upsertn.
Qed.

Ltac wrapfacts Hc Hy :=
  let i := fresh "i" in let w := fresh "w" in let b1 := fresh "b1" in let rep := fresh "rep" in let st := fresh "st" in let cs := fresh "cs" in
  destruct (get_wrap_coh _ _ Hc Hy) as (i & w & b1 & rep & st & cs & Hgw & Hfi & Hnth & Hrat & Hok & Hlk & Hax & Htm & Hcm & Hcc & Hc1).

(* ---- every read: Coh kept, XML untouched, the answer is the answer computed from the XML alone ---- *)
Theorem b_read_spec b q : Coh b ->
  Coh (fst (b_read b q)) /\ ax (fst (b_read b q)) = ax b /\ snd (b_read b q) = a_read (ax b) q.
Proof.
  intros Hc. pose proof Hc as [Hwf Hm]. pose proof Hwf as [[Hwr Hwc] Hcw].
  assert (Hh := bheight_coh b Hm). assert (Hw := bwidth_coh b Hm).
  assert (Hny : forall y, 0 <= bny y b) by (intros; rewrite (bny_coh b _ Hm); apply norm_coord_nonneg, theight_nonneg).
  destruct q as [q|y cl|x y cl| |x|]; [destruct q as [|x y|y| |x|y|x y z t'|x y]|..]; cbn [b_read a_read t_read].
  - (* size *) rewrite Hh, Hw. auto.
  - (* get_value *)
    cbv zeta. rewrite (bnx_coh b x Hm), (bny_coh b y Hm), Hh. unfold t_get_value.
    destruct (Z.leb_spec (theight (ax b)) (ny y (ax b))) as [Hout|Hin]; [cbn [fst snd]; auto|].
    assert (Hy : 0 <= ny y (ax b) < bheight b) by (rewrite Hh; split; [rewrite <- (bny_coh b y Hm); apply Hny|lia]).
    wrapfacts Hc Hy. rewrite Hgw, Hrat.
    rewrite <- Hax in Hok, Hnth.
    destruct (wrap_cell_pos_ok (ax b1) i w rep st cs (nx x (ax b)) Hok Hnth) as (w' & Hwc' & Hok' & _ & _).
    unfold wrap_cell. rewrite Hwc'. cbn [fst snd]. split; [|split].
    + apply Coh_store; assumption.
    + cbn [with_tcache ax]. exact Hax.
    + do 2 f_equal. rewrite <- (cell_pos_at_cell_at (nx x (ax b)) cs).
      destruct (cell_pos_at (nx x (ax b)) cs) as [[p [n c]]|]; reflexivity.
  - (* get_row_values *)
    cbv zeta. rewrite (bny_coh b y Hm), Hh. unfold t_row_values, base_row.
    destruct (Z.leb_spec (theight (ax b)) (ny y (ax b))) as [Hout|Hin].
    { cbn [fst snd]. split; [|split]; auto. rewrite Hw. reflexivity. }
    assert (Hy : 0 <= ny y (ax b) < bheight b) by (rewrite Hh; split; [rewrite <- (bny_coh b y Hm); apply Hny|lia]).
    wrapfacts Hc Hy. rewrite Hgw, Hrat. rewrite <- Hax in Hok, Hnth.
    destruct (wrap_row_ok (ax b1) i w rep st cs Hok Hnth) as (Hr & Hrm & Hk & Hp). rewrite Hr, Hrm.
    destruct (wrap_traverse_ok cs [] cs (-1) (w_cells w) eq_refl Hk) as (cells' & Htr & Hk').
    cbn [length] in Htr. unfold cmap. rewrite Htr. cbn [fst snd]. split; [|split].
    + apply Coh_store; [assumption|].
      destruct Hok as (rep' & st' & cs' & Hn' & Hp' & Hr' & Hk''). cbn [fst snd] in *. rewrite Hnth in Hn'. inversion Hn'; subst.
      exists rep', st', cs'. cbn [fst snd w_pos w_rmap w_cells]. auto.
    + cbn [with_tcache ax]. exact Hax.
    + unfold pad0, row_values, bwidth. rewrite Hcm. fold (bwidth b). rewrite Hw. reflexivity.
  - (* get_values *) cbn [fst snd]. split; [|split]; auto. rewrite Hw. reflexivity.
  - (* get_column_values *) cbv zeta. cbn [fst snd]. split; [|split]; auto. rewrite (bnx_coh b x Hm). reflexivity.
  - (* row width *)
    cbv zeta. rewrite (bny_coh b y Hm), Hh. unfold t_row_width, base_row.
    destruct (Z.leb_spec (theight (ax b)) (ny y (ax b))) as [Hout|Hin]; [cbn [fst snd]; auto|].
    assert (Hy : 0 <= ny y (ax b) < bheight b) by (rewrite Hh; split; [rewrite <- (bny_coh b y Hm); apply Hny|lia]).
    wrapfacts Hc Hy. rewrite Hgw, Hrat. cbn [fst snd]. split; [|split]; auto.
    destruct Hok as (rep' & st' & cs' & Hn' & Hp' & Hr' & Hk''). cbn [fst snd] in *. rewrite Hnth in Hn'. inversion Hn'; subst.
    rewrite Hr', hmap_cmap. reflexivity.
  - (* area *) cbv zeta. cbn [fst snd]. split; [|split]; auto.
    rewrite !(bnx_coh b _ Hm), !(bny_coh b _ Hm), Hw. reflexivity.
  - (* get_cell *)
    cbv zeta. rewrite (bnx_coh b x Hm), (bny_coh b y Hm), Hh. unfold t_get_cell. cbv zeta.
    destruct (Z.leb_spec (theight (ax b)) (ny y (ax b))) as [Hout|Hin]; [cbn [fst snd]; auto|].
    assert (Hy : 0 <= ny y (ax b) < bheight b) by (rewrite Hh; split; [rewrite <- (bny_coh b y Hm); apply Hny|lia]).
    wrapfacts Hc Hy. rewrite Hgw, Hrat. rewrite <- Hax in Hok, Hnth.
    destruct (wrap_row_ok (ax b1) i w rep st cs Hok Hnth) as (Hr & Hrm & Hk & Hp). rewrite Hrm, hmap_cmap.
    assert (Hnx : 0 <= nx x (ax b)) by (apply norm_coord_nonneg, twidth_nonneg).
    assert (Hwcs : wf cs).
    { unfold cwf in Hcw. rewrite Forall_forall in Hcw. rewrite Hax in Hnth. apply nth_error_In in Hnth. exact (Hcw _ Hnth). }
    destruct (Z.leb_spec (Z.of_nat (width cs)) (nx x (ax b))) as [Hxo|Hxi].
    { cbn [fst snd]. split; [|split]; auto. do 2 f_equal.
      rewrite (cell_at_spec cs (nx x (ax b)) Hwcs Hnx).
      destruct (nth_error (expand cs) (Z.to_nat (nx x (ax b)))) eqn:E; [|reflexivity].
      assert (Z.to_nat (nx x (ax b)) < length (expand cs))%nat by (apply nth_error_Some; congruence). unfold width in Hxo. lia. }
    destruct (wrap_cell_pos_ok (ax b1) i w rep st cs (nx x (ax b)) Hok Hnth) as (w' & Hwc' & Hok' & _ & _).
    unfold wrap_cell. rewrite Hwc'.
    destruct (locate _ cs (nx x (ax b)) Hwcs ltac:(lia)) as (ci & n & c & Hf & Hn & _).
    assert (Hcp : cell_pos_at (nx x (ax b)) cs = Some (ci, (n, c))) by (unfold cell_pos_at; now rewrite Hf, Hn).
    rewrite Hcp. cbn [option_map snd fst]. split; [|split].
    + apply Coh_store; assumption.
    + cbn [with_tcache ax]. exact Hax.
    + unfold cell_at. rewrite Hf, Hn. reflexivity.
  - (* get_row *)
    cbv zeta. rewrite (bny_coh b y Hm), Hh.
    destruct (Z.leb_spec (theight (ax b)) (ny y (ax b))) as [Hout|Hin]; [cbn [fst snd]; auto|].
    assert (Hy : 0 <= ny y (ax b) < bheight b) by (rewrite Hh; split; [rewrite <- (bny_coh b y Hm); apply Hny|lia]).
    wrapfacts Hc Hy. rewrite Hgw, Hrat. rewrite <- Hax in Hok, Hnth.
    destruct (wrap_row_ok (ax b1) i w rep st cs Hok Hnth) as (Hr & _). rewrite Hr. cbn [fst snd]. auto.
  - (* get_cell keeping the repeat *)
    cbv zeta. rewrite (bnx_coh b x Hm), (bny_coh b y Hm), Hh.
    destruct (Z.leb_spec (theight (ax b)) (ny y (ax b))) as [Hout|Hin]; [cbn [fst snd]; auto|].
    assert (Hy : 0 <= ny y (ax b) < bheight b) by (rewrite Hh; split; [rewrite <- (bny_coh b y Hm); apply Hny|lia]).
    wrapfacts Hc Hy. rewrite Hgw, Hrat. rewrite <- Hax in Hok, Hnth.
    destruct (wrap_row_ok (ax b1) i w rep st cs Hok Hnth) as (Hr & Hrm & Hk & Hp). rewrite Hrm, hmap_cmap.
    unfold rwidth.
    destruct (Z.leb_spec (Z.of_nat (width cs)) (nx x (ax b))) as [Hxo|Hxi]; [cbn [fst snd]; auto|].
    assert (Hnx : 0 <= nx x (ax b)) by (apply norm_coord_nonneg, twidth_nonneg).
    assert (Hwcs : wf cs).
    { unfold cwf in Hcw. rewrite Forall_forall in Hcw. rewrite Hax in Hnth. apply nth_error_In in Hnth. exact (Hcw _ Hnth). }
    destruct (wrap_cell_pos_ok (ax b1) i w rep st cs (nx x (ax b)) Hok Hnth) as (w' & Hwc' & Hok' & _ & _).
    unfold wrap_cell. rewrite Hwc'.
    destruct (locate _ cs (nx x (ax b)) Hwcs ltac:(lia)) as (ci & n & c & Hf & Hn & _).
    assert (Hcp : cell_pos_at (nx x (ax b)) cs = Some (ci, (n, c))) by (unfold cell_pos_at; now rewrite Hf, Hn).
    rewrite Hcp, Hf, Hn. cbn [option_map snd fst]. split; [|split].
    + apply Coh_store; assumption.
    + cbn [with_tcache ax]. exact Hax.
    + reflexivity.
  - (* traverse *) cbn [fst snd]. auto.
  - (* get_column *)
    cbv zeta. rewrite (bnx_coh b x Hm), Hw. destruct Hm as (_ & Hcmq & _). rewrite Hcmq.
    destruct (twidth (ax b) <=? nx x (ax b)); [cbn [fst snd]; auto|].
    destruct (find_idx (cmap (cols (ax b))) (nx x (ax b))) as [i|]; [|cbn [fst snd]; auto].
    destruct (nth_error (cols (ax b)) i); cbn [fst snd]; auto.
  - (* columns *)
    pose proof Hm as (_ & Hcmq & _ & Hck). rewrite Hcmq.
    destruct (cols_traverse_ok (cols (ax b)) [] (cols (ax b)) (-1) (ccache b) eq_refl Hck) as (cache' & Htr & Hk').
    cbn [length] in Htr. unfold cmap. rewrite Htr. cbn [fst snd]. split; [|split]; auto.
    destruct Hm as (H1 & H2 & H3 & H4). split; [exact Hwf|]. unfold CohM, with_ccache; cbn [ax tmapB cmapB tcache ccache]. auto.
Qed.
