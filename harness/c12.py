"""C12: every element class round-trips through XML and comes back as the same class.

PARTIAL for this technique by design (DESIGN.md section 5/C12 and section 9):

  proved (coq/theories/C12.v, re-checked on every run against tables regenerated from the sources by
  harness/gen_registry.py): the dispatch mechanism for all registration sequences and all tags; on the generated
  registry every class's own tag dispatches to it (or the documented first registrant) and unknown tags fall back;
  the generic PropDef getter/setter laws with the exact exception set; every constructor argument that the table
  records as stored through a generic property is exposed after the whole constructor; no argument is dropped.

  NOT proved -- differential testing by this file, labelled as such in the evidence (keys `partial`, `not_proved`):
  lxml serialisation is well-formed and infoset-preserving, re-parsing gives the same class and equal property values,
  class identity through every access path, arguments stored through hand-written properties.

Correspondence evaluated inside Coq (vm_compute): every (lxml tag, class) pair observed on the implementation through
any access path is compared with the model registry; every (class, argument, value, read-back) tuple on a generic
property is compared with the Gen_Ctors table + Attr model; every generic property assignment is compared
(attribute map before/after, value read back) with the Attr model through the Gen_Registry property table."""
import sys, os, json, random, time, re, traceback, signal, zipfile, itertools
from pathlib import Path
from datetime import datetime, timedelta, time as dt_time
sys.path.insert(0, str(Path(__file__).resolve().parent))
import common
from lxml import etree

PROP = "C12"

# ------------------------------------------------------------------------------------------------ Coq side

HEADER = r'''Require Import Registry Attr Gen_Registry Gen_Ctors C12defs.
From Coq Require Import String List Bool Ascii NArith ZArith. Import ListNotations. Open Scope string_scope.
Definition S_ (l : list nat) : string := fold_right (fun n s => String (ascii_of_nat n) s) EmptyString l.  (* UTF-8 bytes, each < 256 *)
Inductive case :=
| Dispatch (tag observed : string)
| CtorObs (cls arg : string) (sf : option (option string)) (raw conv rb rb2 : val)
| AttrObs (cls prop : string) (sf : option (option string)) (before : attrs) (v : val) (after : attrs) (rb : val).
Definition find_entry (c a : string) : option centry :=
  find (fun e => String.eqb (c_class e) c && String.eqb (c_arg e) a) ctors.
Definition find_prop (c p : string) : option (string * string) :=
  match find (fun x => String.eqb (fst x) c && String.eqb (fst (snd x)) p) propdefs with Some x => Some (snd (snd x)) | None => None end.
(* 0 agree / not modelled;  1 dispatch differs from the model registry;  2 constructor argument not exposed as the table + Attr
   model say;  3 ... after re-parsing;  5 attribute map after a generic set differs (as a map);  6 generic read-back differs;
   7 the harness names a (class, argument / property) the generated tables do not have;  4 attribute ORDER differs (fidelity only) *)
Definition chk (c : case) : nat :=
  match c with
  | Dispatch tag observed => if String.eqb (dispatch tag) observed then 0 else 1
  | CtorObs cls arg sf raw conv rb rb2 =>
      match find_entry cls arg with
      | None => 7
      | Some e =>
          match c_kind e with
          | Stored _ g _ (Some (n, fam)) =>
              if holds g raw then
                let want := if blocked fam sf then VNone else decode (encode conv) in
                if negb (val_eqb rb want) then 2 else if negb (val_eqb rb2 want) then 3 else 0
              else 0
          | StoredConst _ b (Some (n, fam)) =>
              if truthy raw then
                let want := if blocked fam sf then VNone else VBool b in
                if negb (val_eqb rb want) then 2 else if negb (val_eqb rb2 want) then 3 else 0
              else 0
          | _ => 0
          end
      end
  | AttrObs cls prop sf before v after rb =>
      match find_prop cls prop with
      | None => 7
      | Some (n, fam) =>
          let m := setter n fam sf v before in
          if negb (attrs_same m after) then 5
          else if negb (val_eqb rb (getter n fam sf after)) then 6
          else if attrs_eqb m after then 0 else 4
      end
  end.'''

LAYER = {1: "dispatch: the class observed for this tag differs from the model registry (Gen_Registry replayed through Registry.register)",
         2: "ctor-arg: a constructor argument stored through a generic property is not exposed as decode(encode(value))",
         3: "ctor-arg-reparse: after serialise + re-parse the property no longer exposes the constructor argument",
         5: "attr-set: the attribute map after a generic property assignment differs from Attr.setter",
         6: "attr-get: the value read back from a generic property differs from Attr.getter",
         7: "table: the harness observed a (class, argument/property) pair the generated tables do not contain"}


def coq_str(s):
    if all(32 <= ord(c) < 127 and c != '"' for c in s):
        return '"%s"' % s
    return "(S_ [%s])" % ";".join(str(b) for b in s.encode("utf-8"))


def coq_val(v):
    if v is None:
        return "VNone"
    if isinstance(v, bool):
        return "(VBool %s)" % ("true" if v else "false")
    if isinstance(v, str):
        return "(VStr %s)" % coq_str(v)
    if isinstance(v, int):
        return "(VNum (%d)%%Z %s)" % (v, coq_str(str(v)))
    try:
        t = bool(v)
    except Exception:
        t = True
    return "(VOther %s %s)" % (coq_str(str(v)), "true" if t else "false")


def coq_sf(sf):
    if sf == "<noattr>":
        return "None"
    if sf is None:
        return "(Some None)"
    return "(Some (Some %s))" % coq_str(str(sf))


def coq_attrs(pairs):
    return "[" + ";".join("(%s,%s)" % (coq_str(k), coq_str(v)) for k, v in pairs) + "]"


# ------------------------------------------------------------------------------------------------ values

def enc(v):
    """JSON-able encoding of a constructor value (for replays / evidence)"""
    if v is None: return {"t": "none"}
    if isinstance(v, bool): return {"t": "bool", "v": v}
    if isinstance(v, int): return {"t": "int", "v": v}
    if isinstance(v, float): return {"t": "float", "v": v}
    if isinstance(v, str): return {"t": "str", "v": v}
    if isinstance(v, datetime): return {"t": "datetime", "v": v.isoformat()}
    if isinstance(v, dt_time): return {"t": "time", "v": v.isoformat()}
    if isinstance(v, timedelta): return {"t": "timedelta", "v": v.total_seconds()}
    if isinstance(v, tuple): return {"t": "tuple", "v": [enc(x) for x in v]}
    if isinstance(v, list): return {"t": "list", "v": [enc(x) for x in v]}
    if type(v).__name__ == "Paragraph": return {"t": "paragraph", "v": v.inner_text}
    raise TypeError("cannot encode %r" % (v,))


def dec(d, odfdo):
    t = d["t"]
    if t == "none": return None
    if t in ("bool", "int", "float", "str"): return d["v"]
    if t == "datetime": return datetime.fromisoformat(d["v"])
    if t == "time": return dt_time.fromisoformat(d["v"])
    if t == "timedelta": return timedelta(seconds=d["v"])
    if t == "tuple": return tuple(dec(x, odfdo) for x in d["v"])
    if t == "list": return [dec(x, odfdo) for x in d["v"]]
    if t == "paragraph": return odfdo.Paragraph(d["v"])
    raise TypeError(t)


# strings: plain, non-ASCII, XML-special, the attribute layer's exception set, and a lattice of leading / trailing / only
# white space and line feeds (hand-written properties normalise some of these: harness/c12_readback_golden.json)
STRS = ["x", "Name_1", "é中 b", "q\"<&'>", "true", "false", " lead", "0", "", " ", "\n", "x\n", "x\n\n", "\nx", " x ", "a\nb"]
DT = datetime(2024, 2, 29, 13, 14, 15)
TD = timedelta(hours=1, minutes=2, seconds=3)

# arguments whose domain is restricted by the constructor (or by what the argument means): explicit value lists
OVERRIDES = {
    ("Style", "family"): ["paragraph", "text", "table-cell", "table-row", "table-column", "graphic", "master-page", "list"],
    ("Style", "area"): [None],
    ("Style", "font_name"): [None],
    ("VarChapter", "display"): ["number", "name", "number-and-name", "plain-number", "plain-number-and-name"],
    ("VarFileName", "display"): ["full", "path", "name", "name-and-extension"],
    ("Note", "note_class"): ["footnote", "endnote"],
    ("Table", "name"): ["x", "Name_1", "é中 b", "true"],
    ("NamedRange", "name"): ["x", "Name_1"],
    ("NamedRange", "table_name"): ["T", "Sheet 1"],
    ("NamedRange", "crange"): ["A1:B2", "C3"],
    ("NamedRange", "usage"): [None, "filter", "print-range"],
    ("Cell", "cell_type"): [None],
    ("Cell", "currency"): [None],
    ("Cell", "value"): [None, "x", 7, True],
    ("Cell", "formula"): [None, "=A1"],
    ("Frame", "anchor_type"): ["page", "paragraph", "char", "as-char", "frame"],
    ("DrawGroup", "anchor_type"): ["page", "paragraph", "char", "as-char", "frame"],
    ("Row", "width"): [None, 0, 2],
    ("Table", "width"): [None, 2], ("Table", "height"): [None, 2],
    ("RowGroup", "height"): [None, 2], ("RowGroup", "width"): [None, 2],
    ("Tab", "position"): [None, 0, 3],
    ("Spacer", "number"): [None, 0, 1, 2, 5],
    ("Header", "level"): [1, 3, 10],
    ("TocEntryTemplate", "outline_level"): [None, 1, 4],
    ("TOC", "outline_level"): [0, 2],
    ("TOC", "entry_style"): ["Contents_20_%d"],
    ("VarChapter", "outline_level"): [None, 1, 3],
    ("VarPageNumber", "select_page"): [None, "current", "previous", "next"],
    ("VarPageNumber", "page_adjust"): [None, 0, 2, -1],
    ("Link", "target_frame"): [None, "_blank", "_self"],
    ("MetaAutoReload", "delay"): [TD],
    ("MetaHyperlinkBehaviour", "show"): ["replace", "new"],
    ("VarTime", "time"): [None, DT, dt_time(7, 8, 9)],
    ("VarDate", "date"): [None, DT],
    ("AnnotationEnd", "annotation"): [None],
    ("Annotation", "parent"): [None],
    ("UserDefined", "from_document"): [None],
    ("ConnectorShape", "connected_shapes"): [None], ("ConnectorShape", "glue_points"): [None, ("1", "2")],
    ("LineShape", "p1"): [None, ("1cm", "2cm")], ("LineShape", "p2"): [None, ("3cm", "4cm")],
    ("ConnectorShape", "p1"): [None, ("1cm", "2cm")], ("ConnectorShape", "p2"): [None, ("3cm", "4cm")],
    ("VarSet", "value_type"): [None], ("VarGet", "value_type"): [None], ("UserFieldDecl", "value_type"): [None],
    ("UserFieldGet", "value_type"): [None], ("UserFieldInput", "value_type"): [None], ("UserDefined", "value_type"): [None],
    ("VarDecl", "value_type"): ["string", "float", "boolean"],
    ("List", "list_content"): [None, "item", ["a", "b"]],
    # Reference.ref_format: the setter maps anything outside its list to "page" (documented)
    ("Reference", "ref_format"): ["page", "chapter", "text", "number"],
    # repeated=1 is the absence of the attribute (reads None): the domain starts at 2
    ("Row", "repeated"): [None, 0, 2, 5], ("Column", "repeated"): [None, 2, 5], ("Cell", "repeated"): [None, 2, 5],
}
FALSY_NORMALISED = set()     # (class, argument) whose property documents a normalisation of the falsy value -- none so far
ZERO_IS_NOT_A_VALUE = {("Row", "repeated"), ("TocEntryTemplate", "outline_level")}   # a count / level that starts at 1
NCNAMES = ["x", "Name_1", "id-7", "true", "é中"]      # xml:id values must be NCNames (libxml2 rejects others at parse time)
# minimal valid keyword arguments of classes whose constructor needs some
BASE = {
    "Style": dict(family="paragraph"), "AnnotationEnd": dict(name="ann1"), "MetaAutoReload": dict(delay=TD),
    "NamedRange": dict(name="nr", crange="A1:B2", table_name="T"), "Table": dict(name="T1"),
    "TabStopStyle": dict(), "Reference": dict(name="r1"),
}


def values_for(cls, arg, ann, default, odfdo, tier):
    if (cls, arg) in OVERRIDES:
        return list(OVERRIDES[(cls, arg)])
    if arg == "xml_id":
        return NCNAMES + [None]
    if "color" in arg.lower() and "str" in ann:      # colour arguments are validated (hex or CSS name)
        return ["#ff0000", "blue", None]
    a = ann.replace(" ", "")
    out = []
    # every type contributes its FALSY member too (0, 0.0, "", False, timedelta(0), (), []): an explicit falsy value is a value
    if "bool" in a: out += [True, False]
    if re.search(r"\bint\b", a): out += [0, 1, 7]
    if re.search(r"\bfloat\b", a): out += [0.0, 2.5]
    if re.search(r"\bstr\b", a) and "list[str]" not in a: out += STRS
    if "list[str]" in a: out += [["A1:B2", "C3:D4"], []]
    if "tuple" in a: out += [("1cm", "2.5cm"), ()]
    if "datetime" in a: out += [DT]
    if "timedelta" in a: out += [TD, timedelta(0)]
    if "Element" in a and "str" not in a: out += [odfdo.Paragraph("p")]
    if "None" in a or default == "None": out += [None]
    return out


# ------------------------------------------------------------------------------------------------ independent observation

def priv(e):
    return e._Element__element          # the lxml node, by private name (never through odfdo's getters)


def c14n(node):
    return etree.tostring(node, method="c14n", exclusive=False, with_comments=True)


class Alarm(Exception):
    pass


def with_timeout(fn, seconds=20):
    def handler(signum, frame):
        raise Alarm()
    old = signal.signal(signal.SIGALRM, handler)
    signal.alarm(seconds)
    try:
        return fn()
    finally:
        signal.alarm(0)
        signal.signal(signal.SIGALRM, old)


def norm(v, depth=0):
    """comparable image of a property value"""
    from odfdo import Element
    if isinstance(v, Element):
        return ("<el>", type(v).__name__, c14n(priv(v)))
    if isinstance(v, (list, tuple)):
        if depth > 3: return ("<deep>",)
        return tuple(norm(x, depth + 1) for x in v)
    if isinstance(v, dict):
        return tuple(sorted((str(k), norm(x, depth + 1)) for k, x in v.items()))
    if isinstance(v, (str, int, float, bool, bytes, type(None), datetime, timedelta, dt_time)):
        return v
    if hasattr(v, "__iter__") and not isinstance(v, (str, bytes)):
        try:
            return ("<iter>",) + tuple(norm(x, depth + 1) for x in itertools.islice(v, 50))
        except Exception as e:
            return ("<iter-exc>", type(e).__name__)
    return ("<obj>", type(v).__name__, str(v))


# properties that speak about the position of the element in a tree / a document, not about the element
CONTEXT_PROPS = {"parent", "root", "document_body", "is_bound", "tail"}


def read_props(obj, names):
    out = {}
    for p in names:
        try:
            out[p] = ("ok", norm(with_timeout(lambda: getattr(obj, p), 10)))
        except Alarm:
            out[p] = ("timeout",)
        except Exception as e:
            out[p] = ("exc", type(e).__name__)
    return out


def property_names(cls):
    import inspect
    return sorted(n for n in dir(cls) if not n.startswith("_") and n not in CONTEXT_PROPS
                  and isinstance(inspect.getattr_static(cls, n, None), property))


def load_reference():
    """the hand-maintained reference table coq/theories/AttrSpec.v: (class, property) -> attribute qname"""
    txt = (common.TH / "AttrSpec.v").read_text()
    return {(c, p): a for c, p, a in re.findall(r'\("([^"]+)", \("([^"]+)", "([^"]+)"\)\)', txt)}


def load_guard_reference():
    """the hand-maintained reference table coq/theories/CtorGuardSpec.v: (class, argument) -> guard kind"""
    txt = (common.TH / "CtorGuardSpec.v").read_text()
    return {(c, a): g for c, a, g in re.findall(r'\("([^"]+)", \("([^"]+)", (\(GGe -?\d+\)|G\w+)\)\)', txt)}


GOLDEN_FILE = Path(__file__).resolve().parent / "c12_readback_golden.json"
RECORD = {}


def load_golden():
    """documented normalisations of hand-written properties: {"Class.arg": {repr(value): repr(read-back)}} as observed on the
    reference tree (/repo fdb0cab).  Where there is no entry the property must give the value back unchanged."""
    try:
        return json.loads(GOLDEN_FILE.read_text())
    except FileNotFoundError:
        return {}


def is_falsy_value(v):
    if v is None:
        return False
    try:
        return not bool(v)
    except Exception:
        return False


class Ctx:
    """everything the case runners need"""
    def __init__(self, odfdo, info):
        self.reference = load_reference()
        self.guard_reference = load_guard_reference()
        self.golden = load_golden()
        self.odfdo = odfdo
        self.info = info
        from odfdo.element import _class_registry, Element, ODF_NAMESPACES
        self.Element = Element
        self.registry = dict(_class_registry)
        self.ns = dict(ODF_NAMESPACES)
        self.wrapper = "<r " + " ".join('xmlns:%s="%s"' % (p, u) for p, u in self.ns.items()) + ">%s</r>"
        self.rev = {}
        for p, u in self.ns.items():
            self.rev.setdefault(u, p)
        self.classes = {}     # name -> class object (registered + losers)
        self.cinfo = {}
        if info:
            import importlib
            for c in info["classes"]:
                self.classes[c["name"]] = getattr(importlib.import_module(c["module"]), c["name"])
                self.cinfo[c["name"]] = c
        else:       # translator stopped: fall back to the live registry and same-name properties
            for k in self.registry.values():
                self.classes[k.__name__] = k
        self.documented = {"TabStopStyle": "Style"}

    def qname(self, clark):
        m = re.match(r"^\{(.*)\}(.*)$", clark)
        if not m:
            return clark
        return self.rev.get(m.group(1), "{" + m.group(1) + "}") + ":" + m.group(2)

    def clark(self, qname):
        p, n = qname.split(":")
        return "{%s}%s" % (self.ns[p], n)

    def bare_parse(self, xml):
        """well-formed namespaced XML?  parsed by lxml alone"""
        return etree.fromstring((self.wrapper % xml).encode("utf-8"))[0]


# ------------------------------------------------------------------------------------------------ case runners
# every runner returns (coq case strings, python-level failures [(key, detail)], descriptor for histograms)

def run_dispatch(ctx, d):
    """d = {kind:'dispatch', tag: qname or raw xml, depth: 1..3}"""
    E = ctx.Element
    q = d["tag"]
    leaf = "<%s/>" % q
    xml = {1: leaf, 2: "<text:section>%s</text:section>" % leaf,
           3: "<office:text><text:section>%s%s</text:section></office:text>" % (leaf, leaf)}[d["depth"]]
    obs, fails = [], []

    def see(path, e):
        if e is None:
            fails.append(("path-lost/%s" % path, "%s depth %d: path %s returned None" % (q, d["depth"], path)))
            return
        obs.append((path, priv(e).tag, type(e).__name__))
    # wrapping a parsed node must not change it (MetaAutoReload / MetaTemplate wrote attributes in __init__: F55)
    bare = ctx.bare_parse(leaf)
    sig = c14n(bare)
    wrapped = E.from_tag(bare)
    if c14n(bare) != sig:
        fails.append(("parse-mutates/%s" % q, "Element.from_tag(<%s/>) changed the node into %s" % (q, etree.tostring(bare).decode()[-200:])))
    root = E.from_tag(xml)
    see("from_tag(str)", root)
    depth = d["depth"]
    xp = "descendant-or-self::%s" % q
    node = root
    for _ in range(depth - 1):
        ch = node.children
        see("children", ch[0] if ch else None)
        node = ch[0]
    target = node
    want_tag = priv(target).tag
    see("from_tag(lxml)", E.from_tag(priv(target)))
    for path, fn in (("get_elements", lambda: root.get_elements(xp)), ("xpath", lambda: root.xpath(xp))):
        r = fn()
        if not r:
            fails.append(("path-lost/%s" % path, "%s depth %d: %s found nothing" % (q, depth, path)))
        for e in r:
            see(path, e)
    see("get_element", root.get_element(xp))
    if depth > 1:
        par = target.parent
        see("parent", par)
        if par is not None:
            ch = par.children
            see("parent.children", ch[0] if ch else None)
        see("root", target.root)
    see("clone", target.clone)
    rc = root.clone
    see("clone(root)", rc)
    for e in rc.get_elements(xp):
        see("clone.get_elements", e)
    if hasattr(root, "traverse") and not hasattr(type(root), "_tmap"):
        pass
    # the node reached must be the node asked for
    for path, tag, cls in obs:
        if path in ("from_tag(lxml)", "get_elements", "xpath", "get_element", "clone", "clone.get_elements", "parent.children") and tag != want_tag:
            fails.append(("path-wrong-node/%s" % path, "%s: reached %s instead of %s" % (path, tag, want_tag)))
    cases = ['Dispatch %s %s' % (coq_str(tag), coq_str(cls)) for path, tag, cls in obs]
    return cases, fails, [("dispatch", path) for path, _, _ in obs], obs


def build_kwargs(ctx, d):
    return {k: dec(v, ctx.odfdo) for k, v in d["kwargs"].items()}


def expected_custom(v, r):
    """is the value v exposed by a hand-written property that returned r?  (differential, Python level)"""
    if r == v:
        return True
    if isinstance(v, (list, tuple)) and isinstance(r, (list, tuple)) and len(v) == len(r):
        return all(expected_custom(a, b) for a, b in zip(v, r))
    if v in ("true", "false") and r is (v == "true"):
        return True     # the exception set of the attribute layer (Attr.v): the STRING "true" reads back as a bool
    if isinstance(v, bool) or isinstance(r, bool):
        return False
    if v is not None and r is not None and str(r) == str(v):
        return True
    if type(v).__name__ == "Paragraph":
        return True     # an element argument is appended, read back as text: covered by the infoset comparison
    return False


def run_ctor(ctx, d):
    """d = {kind:'ctor', cls, kwargs:{arg: encoded}, focus:[args under test]}"""
    if d["cls"] not in ctx.classes:     # (translator stopped: only the live registry is known)
        return [], [], [("ctor-skipped", "class-unknown")], {}
    cls = ctx.classes[d["cls"]]
    ci = ctx.cinfo.get(d["cls"])
    kwargs = build_kwargs(ctx, d)
    fails, cases, hist, reach = [], [], [], []
    try:
        inst = with_timeout(lambda: cls(**kwargs))
    except (ValueError, TypeError, KeyError, AttributeError, IndexError) as e:
        return [], [], [("ctor-rejected", d["cls"])], dict(rejected=repr(e)[:200])
    if type(inst) is not cls:
        fails.append(("ctor-class/%s" % d["cls"], "constructor returned %s" % type(inst).__name__))
    names = property_names(cls)
    extra = []
    args = {a["arg"]: a for a in (ci["args"] if ci else [])}
    for a in d["focus"]:
        e = args.get(a)
        if e and e["kind"] == "NonProp":
            extra.append(e["prop"])
    before = read_props(inst, names + extra)
    el = priv(inst)
    c_inst = c14n(el)
    # serialise -> well-formed namespaced XML (lxml alone) -> same infoset
    xml = inst.serialize()
    try:
        bare = ctx.bare_parse(xml)
    except etree.XMLSyntaxError as e:
        fails.append(("not-wellformed/%s" % d["cls"], "serialize() is not well-formed namespaced XML: %s" % e))
        return cases, fails, hist, dict(xml=xml)
    if c14n(bare) != c_inst:
        fails.append(("serialize-infoset/%s" % d["cls"], "C14N of the parsed serialisation differs from C14N of the element"))
    # re-parse through odfdo
    back = ctx.Element.from_tag(xml)
    want_cls = ctx.documented.get(d["cls"], d["cls"])
    if type(back).__name__ != want_cls:
        fails.append(("reparse-class/%s" % d["cls"], "re-parsed as %s" % type(back).__name__))
    cases.append("Dispatch %s %s" % (coq_str(priv(back).tag), coq_str(type(back).__name__)))
    if c14n(priv(back)) != c_inst:
        fails.append(("reparse-infoset/%s" % d["cls"], "C14N after re-parse differs"))
    if c14n(ctx.bare_parse(back.serialize())) != c_inst:
        fails.append(("reserialize-infoset/%s" % d["cls"], "C14N of the second serialisation differs"))
    # the constructor must not have been changed by being read / serialised
    if c14n(el) != c_inst:
        fails.append(("observation-mutates/%s" % d["cls"], "reading the properties or serialising changed the element"))
    compared = names + extra
    if type(back) is not cls:       # documented first registrant (TabStopStyle -> Style): the properties the winner has
        compared = [n for n in compared if n in property_names(type(back))]
    after = read_props(back, compared)
    for p in compared:
        if before[p] != after[p]:
            fails.append(("reparse-property/%s.%s" % (d["cls"], p),
                          "property %s: %r on the instance, %r after re-parse" % (p, before[p], after[p])))
    # each argument under test: exposed?
    sf = getattr(inst, "family", "<noattr>")
    if not (sf is None or isinstance(sf, str)):
        sf = str(sf)
    for a in d["focus"]:
        e = args.get(a)
        v = kwargs.get(a)
        if e is None:
            continue
        hist.append(("ctor-arg", e["kind"]))
        # an explicit FALSY value (0, "", False, timedelta(0), ()) is a value: where the reference says the argument is stored
        # always / whenever it is not None, the property must expose it (a guard weakened to truthiness drops it: C12-6)
        refg = ctx.guard_reference.get((d["cls"], a))
        if (refg in ("GNone", "GNotNone") and is_falsy_value(v) and e.get("prop") and (d["cls"], a) not in FALSY_NORMALISED):
            conv_ = v
            if e.get("conv") == "CConv":
                conv_ = apply_named(ctx, ci, e["convf"], v)
            elif e.get("conv") == "COrDefault":
                conv_ = v or eval(e["convf"])
            rb_ = raw_get(inst, e["prop"])
            want_ = conv_ if isinstance(conv_, (bool, type(None))) else (conv_ if not e.get("attr") else str(conv_))
            if not (rb_ == want_ or expected_custom(conv_, rb_)):
                fails.append(("ctor-arg-falsy-dropped/%s.%s" % (d["cls"], a),
                              "%s(%s=%r): the reference (CtorGuardSpec.v) says %s, the property %s reads %r instead of %r"
                              % (d["cls"], a, v, refg, e["prop"], rb_, want_)))
        # 0 is a value: an int argument given as 0 must be exposed (0 vs None), unless 0 means nothing for that argument
        if (e["kind"] == "Stored" and v == 0 and isinstance(v, int) and not isinstance(v, bool) and re.search(r"\bint\b", e["annotation"])
                and (d["cls"], a) not in ZERO_IS_NOT_A_VALUE and not (e["guard"].startswith("GGe:") and int(e["guard"][4:]) > 0)
                and str(raw_get(inst, e["prop"])) != "0"):
            fails.append(("ctor-arg-zero-dropped/%s.%s" % (d["cls"], a),
                          "%s(%s=0): property %s reads %r" % (d["cls"], a, e["prop"], raw_get(inst, e["prop"]))))
        # handed to a method / stored component-wise: no table obligation.  Differential, aggregated over the run: SOME case
        # with a non-default in-domain value must give another element than the same call without the argument (the
        # conditions on other arguments -- VarSet.text needs display=True -- are not known to the translator)
        if e["kind"] in ("ViaHelper", "StoredIndexed") and v not in (None, False, "", 0) and repr(v) != (e.get("default") or ""):
            try:
                other = cls(**{k: x for k, x in kwargs.items() if k != a})
                changed = c14n(priv(other)) != c_inst
            except Exception:
                changed = True
            reach.append((d["cls"], a, changed, e["note"]))
        # an argument that bears the name of a property of the class but is stored into ANOTHER one (BackgroundImage.repeat):
        # differential check that the same-named property exposes it
        if (e["kind"] in ("Stored", "NonProp") and e["prop"] != a and a in names and v not in (None, False, "", 0)
                and not expected_custom(v, raw_get(inst, a))):
            fails.append(("ctor-arg-wrong-property/%s.%s" % (d["cls"], a),
                          "%s(%s=%r) is stored into %s; the property %s reads %r" % (d["cls"], a, v, e["prop"], a, raw_get(inst, a))))
        if e["kind"] in ("Stored", "StoredConst") and e["attr"]:
            conv = v
            if e["kind"] == "Stored" and e["conv"] == "CConv":
                conv = apply_named(ctx, ci, e["convf"], v)
            elif e["kind"] == "Stored" and e["conv"] == "COrDefault":
                conv = v or eval(e["convf"])
            rb = raw_get(inst, e["prop"])
            rb2 = raw_get(back, e["prop"])
            if type(back) is not cls and e["prop"] not in property_names(type(back)):
                rb2 = rb        # documented first registrant: the winner class has no such property (counted)
                hist.append(("ctor-arg", "loser-property-not-on-winner"))
            cases.append("CtorObs %s %s %s %s %s %s %s" % (coq_str(d["cls"]), coq_str(a), coq_sf(sf), coq_val(v), coq_val(conv),
                                                          coq_val(rb), coq_val(rb2)))
        elif e["kind"] in ("Stored", "StoredConst", "StoredCond", "NonProp") or (e["kind"] == "Dropped"):
            # hand-written property (or plain attribute): differential check at Python level
            prop = e["prop"] or a
            if e["kind"] == "Dropped":
                if v is None or v is False or v == "" or v == 0:
                    continue
                base_kwargs = {k: x for k, x in kwargs.items() if k != a}
                try:
                    other = cls(**base_kwargs)
                    same = c14n(priv(other)) == c_inst or d["cls"] == "Annotation"
                except Exception:
                    same = True
                has = hasattr(inst, a) and not callable(getattr(inst, a, None))
                if (has and not expected_custom(v, raw_get(inst, a))) or (not has and same):
                    fails.append(("ctor-arg-dropped/%s.%s" % (d["cls"], a),
                                  "%s(%s=%r): the argument is stored nowhere (%s)" % (d["cls"], a, v, e["note"])))
                continue
            g = e["guard"]
            in_domain = (g == "GNone") or (g == "GTruthy" and bool(v)) or (g == "GNotNone" and v is not None) or \
                        (g.startswith("GGe:") and isinstance(v, int) and not isinstance(v, bool) and v >= int(g[4:]))
            if e["kind"] == "StoredCond" or not in_domain or e["conv"] in ("Const",):
                continue
            conv = v
            if e["conv"] == "CConv":
                conv = apply_named(ctx, ci, e["convf"], v)
            elif e["conv"] == "COrDefault":
                conv = v or eval(e["convf"])
            if conv is None:
                continue
            for who, o in (("instance", inst), ("re-parsed", back)):
                try:
                    r = getattr(o, prop)
                except Exception as ex:
                    r = ("exc", type(ex).__name__)
                if not expected_custom(conv, r):
                    gk = "%s.%s" % (d["cls"], a)
                    if len(d["focus"]) == 1 and ctx.golden.get(gk, {}).get(repr(conv)) == repr(r):
                        continue            # the documented normalisation of this property
                    if os.environ.get("VERIF_C12_RECORD") and len(d["focus"]) == 1 and isinstance(conv, str):
                        RECORD.setdefault(gk, {})[repr(conv)] = repr(r)
                        continue
                    fails.append(("ctor-arg-custom/%s.%s" % (d["cls"], a),
                                  "%s(%s=%r): property %s of the %s object reads %r" % (d["cls"], a, v, prop, who, r)))
                    break
    return cases, fails, hist, dict(xml=xml, reach=reach)


def raw_get(o, p):
    try:
        return getattr(o, p)
    except Exception as e:
        return "<exception %s>" % type(e).__name__


def apply_named(ctx, ci, fname, v):
    """the Python conversion named in the table (int, str, DateTime.encode ...), resolved in the constructor's module"""
    import importlib
    mod = importlib.import_module(ci["module"])
    owner_mod = mod
    for k in ctx.classes[ci["name"]].__mro__:
        if k.__name__ == ci["init_owner"]:
            owner_mod = importlib.import_module(k.__module__)
    env = dict(vars(owner_mod))
    import builtins
    env.setdefault("__builtins__", builtins)
    try:
        return eval(fname, env)(v)
    except Exception:
        return v


def run_attr(ctx, d):
    """d = {kind:'attr', cls, base:{kwargs}, sets:[[prop, encoded value], ...]}: generic property assignments"""
    if d["cls"] not in ctx.classes:
        return [], [], [("attr-skipped", "class-unknown")], {}
    cls = ctx.classes[d["cls"]]
    kwargs = {k: dec(v, ctx.odfdo) for k, v in d.get("base", {}).items()}
    inst = cls(**kwargs)
    el = priv(inst)
    cases, fails, hist = [], [], []
    for prop, ev in d["sets"]:
        v = dec(ev, ctx.odfdo)
        sf = getattr(inst, "family", "<noattr>")
        if not (sf is None or isinstance(sf, str)):
            sf = str(sf)
        before = [(ctx.qname(k), x) for k, x in el.attrib.items()]
        try:
            setattr(inst, prop, v)
            rb = getattr(inst, prop)
        except Exception as e:
            fails.append(("attr-exception/%s.%s" % (d["cls"], prop), "setting %r raised %r" % (v, e)))
            break
        after = [(ctx.qname(k), x) for k, x in el.attrib.items()]
        ref = ctx.reference.get((d["cls"], prop))
        if ref and isinstance(v, str) and rb == v and el.get(ctx.clark(ref)) != v:
            fails.append(("attr-name/%s.%s" % (d["cls"], prop),
                          "%s.%s = %r is written to %s; the reference table (AttrSpec.v) names %s"
                          % (d["cls"], prop, v, sorted(set(after) - set(before)), ref)))
        cases.append("AttrObs %s %s %s %s %s %s %s" % (coq_str(d["cls"]), coq_str(prop), coq_sf(sf), coq_attrs(before), coq_val(v),
                                                      coq_attrs(after), coq_val(rb)))
        hist.append(("attr-set", type(v).__name__))
    # and the element still round-trips
    xml = inst.serialize()
    try:
        bare = ctx.bare_parse(xml)
        if c14n(bare) != c14n(el):
            fails.append(("serialize-infoset/%s" % d["cls"], "after generic sets: C14N of the parsed serialisation differs"))
        back = ctx.Element.from_tag(xml)
        if type(back).__name__ != ctx.documented.get(d["cls"], d["cls"]):
            fails.append(("reparse-class/%s" % d["cls"], "re-parsed as %s" % type(back).__name__))
        if c14n(priv(back)) != c14n(el):
            fails.append(("reparse-infoset/%s" % d["cls"], "after generic sets: C14N after re-parse differs"))
        for prop in sorted({p for p, _ in d["sets"]}):
            if type(back) is not cls and prop not in property_names(type(back)):
                continue        # documented first registrant: only the winner's properties
            if norm(raw_get(back, prop)) != norm(raw_get(inst, prop)):
                fails.append(("reparse-property/%s.%s" % (d["cls"], prop), "%r on the instance, %r after re-parse"
                              % (raw_get(inst, prop), raw_get(back, prop))))
    except etree.XMLSyntaxError as e:
        fails.append(("not-wellformed/%s" % d["cls"], str(e)))
    return cases, fails, hist, dict(xml=xml)


def run_document(ctx, d):
    """d = {kind:'document', path, part, limit}: every element of a real document gets its class, through from_tag on the
    lxml node, through xpath from the root and through the typed finders (get_paragraphs ...)"""
    E = ctx.Element
    cases, fails, hist, seen = [], [], [], {}
    with zipfile.ZipFile(d["path"]) as z:
        data = z.read(d["part"])
    tree = etree.fromstring(data)
    root = E.from_tag(tree)
    count = {}
    for node in tree.iter():
        if not isinstance(node.tag, str):
            continue
        k = count.get(node.tag, 0)
        if k >= d.get("limit", 3):
            continue
        count[node.tag] = k + 1
        shallow = (sorted(node.attrib.items()), len(node), node.text, node.tail)
        e = E.from_tag(node)
        if (sorted(node.attrib.items()), len(node), node.text, node.tail) != shallow:
            fails.append(("parse-mutates/%s" % ctx.qname(node.tag), "Element.from_tag on a node of %s/%s changed its attributes / children" % (Path(d["path"]).name, d["part"])))
        cases.append("Dispatch %s %s" % (coq_str(node.tag), coq_str(type(e).__name__)))
        hist.append(("document", "from_tag"))
        if k == 0:
            depth = len(list(node.iterancestors()))
            q = ctx.qname(node.tag)
            if not q.startswith("{"):
                try:
                    found = with_timeout(lambda: root.get_elements("descendant-or-self::%s" % q), 10)
                    for f in found[:2]:
                        cases.append("Dispatch %s %s" % (coq_str(priv(f).tag), coq_str(type(f).__name__)))
                        hist.append(("document", "get_elements"))
                    p = e.parent
                    if p is not None:
                        cases.append("Dispatch %s %s" % (coq_str(priv(p).tag), coq_str(type(p).__name__)))
                        hist.append(("document", "parent"))
                    ch = with_timeout(lambda: e.children, 10)
                    for c in ch[:3]:
                        cases.append("Dispatch %s %s" % (coq_str(priv(c).tag), coq_str(type(c).__name__)))
                        hist.append(("document", "children"))
                except Alarm:
                    hist.append(("document", "timeout"))
            seen[q] = depth
    # receivers whose class overrides an access path (Table, Row ... found by introspection): heterogeneous queries
    nrecv = 0
    for node in tree.iter():
        if not isinstance(node.tag, str) or nrecv >= 6:
            continue
        k = ctx.registry.get(node.tag)
        if k is None or not overridden_paths(k, E) or len(node) == 0:
            continue
        nrecv += 1
        r = E.from_tag(node)
        for qy in ("*", "descendant::*"):
            try:
                found = with_timeout(lambda: r.get_elements(qy), 10)
            except Exception:
                continue
            for f in found[:60]:
                cases.append("Dispatch %s %s" % (coq_str(priv(f).tag), coq_str(type(f).__name__)))
                hist.append(("document", "receiver-override"))
    # typed finders of Element that take no argument and return elements
    import inspect
    for name in sorted(dir(E)):
        if not name.startswith("get_") or name in ("get_elements", "get_element", "get_between"):
            continue
        fn = getattr(root, name, None)
        try:
            sig = inspect.signature(fn)
            if any(p.default is inspect.Parameter.empty and p.kind in (p.POSITIONAL_ONLY, p.POSITIONAL_OR_KEYWORD) for p in sig.parameters.values()):
                continue
            r = with_timeout(fn, 10)
        except Alarm:
            hist.append(("document", "timeout")); continue
        except Exception:
            continue
        if isinstance(r, E):
            r = [r]
        if isinstance(r, (list, tuple)):
            for x in r[:5]:
                if isinstance(x, E):
                    cases.append("Dispatch %s %s" % (coq_str(priv(x).tag), coq_str(type(x).__name__)))
                    hist.append(("document", "finder"))
    return cases, fails, hist, dict(tags=len(count))


# ---- access paths on EVERY receiver class, heterogeneous results -----------------------------------------------------

PATH_NAMES = ("get_elements", "get_element", "children", "xpath", "parent", "clone", "root", "_filtered_elements", "_filtered_element",
              "from_tag", "from_tag_for_clone", "traverse", "get_rows", "get_cells", "get_columns")

# a fragment that mixes many registered (and unregistered) tags, at depth 1..3
MIXED = ('<table:table-column/><table:table-row><table:table-cell><text:p>x<text:span>y</text:span><text:line-break/></text:p>'
         '</table:table-cell><table:covered-table-cell/></table:table-row><table:table-header-rows><table:table-row>'
         '<table:table-cell/></table:table-row></table:table-header-rows><text:p>z<text:a xlink:href="u">l</text:a><text:s/></text:p>'
         '<text:h text:outline-level="1">h</text:h><text:list><text:list-item><text:p>i</text:p></text:list-item></text:list>'
         '<draw:frame><draw:text-box><text:p>b</text:p></draw:text-box><draw:image xlink:href="p.png"/></draw:frame>'
         '<text:section><text:note text:note-class="footnote"><text:note-citation>1</text:note-citation><text:note-body/></text:note>'
         '<text:unknown-odfdo/></text:section><table:table table:name="inner"><table:table-column/><table:table-row><table:table-cell/>'
         '</table:table-row></table:table>')


def overridden_paths(cls, Element):
    out = set()
    for k in cls.__mro__:
        if k is Element:
            break
        out.update(n for n in PATH_NAMES if n in k.__dict__)
    return sorted(out)


def run_paths(ctx, d):
    """d = {kind:'paths', tag: qname of the receiver}: the receiver wraps <tag>MIXED</tag>; every access path it offers is
    asked for heterogeneous node sets; every wrapper returned must have the class the registry gives for ITS OWN node's tag
    (judged in Coq), and all paths must agree on the same node."""
    E = ctx.Element
    q = d["tag"]
    xml = "<%s>%s</%s>" % (q, MIXED, q)
    recv = E.from_tag(xml)
    rnode = priv(recv)
    tree = rnode.getroottree()
    seen, fails, obs = {}, [], []

    def see(path, e, base=None):
        if not isinstance(e, E):
            return
        n = priv(e)
        obs.append((path, n.tag, type(e).__name__))
        if base is None:
            try:
                key = tree.getpath(n)
            except ValueError:
                return
            seen.setdefault(key, {}).setdefault(type(e).__name__, path)

    queries = ["*", "descendant::*", "table:table-row | table:table-column | text:p", "descendant::text:p | descendant::table:table-cell | descendant::draw:frame",
               "*[position() > 1]", "descendant::*[not(self::table:table-column)]", "descendant::table:table-row/*", "descendant-or-self::*"]
    for qy in queries:
        for name in ("get_elements", "xpath"):
            try:
                r = with_timeout(lambda: getattr(recv, name)(qy), 10)
            except Alarm:
                continue
            except Exception as e:
                fails.append(("path-exception/%s.%s" % (type(recv).__name__, name), "%s(%r) on <%s> raised %r" % (name, qy, q, e)))
                continue
            for x in r:
                see("%s(%s)" % (name, qy), x)
        try:
            see("get_element(%s)" % qy, recv.get_element(qy))
            see("get_element(%s[last()])" % qy, recv.get_element("(%s)[last()]" % qy))
        except Exception as e:
            fails.append(("path-exception/%s.get_element" % type(recv).__name__, "get_element(%r) on <%s> raised %r" % (qy, q, e)))
    kids = recv.children
    for k in kids:
        see("children", k)
        for g in k.children:
            see("children.children", g)
            see("children.children.parent", g.parent)
            for gg in g.children:
                see("children^3", gg)
        see("child.clone", k.clone, base="clone")
        see("child.parent", k.parent)
        for x in k.get_elements("descendant::* | following-sibling::*"):
            see("child.get_elements(mixed)", x)
    rc = recv.clone
    see("clone", rc, base="clone")
    for x in rc.get_elements("descendant::*"):
        see("clone.get_elements(descendant::*)", x, base="clone")
    for x in rc.children:
        see("clone.children", x, base="clone")
    # typed finders / iterators that the class offers without arguments
    for name in ("traverse", "get_rows", "get_columns", "get_cells", "get_paragraphs", "get_tables", "get_frames", "get_lists", "get_spans"):
        fn = getattr(recv, name, None)
        if fn is None:
            continue
        try:
            r = with_timeout(lambda: list(itertools.islice(iter(fn()), 50)), 10)
        except Exception:
            continue
        for x in r:
            if isinstance(x, list):
                for y in x:
                    see(name, y, base="copy")
            else:
                see(name, x, base="copy")
    for key, by in seen.items():
        if len(by) > 1:
            fails.append(("paths-disagree/%s" % type(recv).__name__,
                          "receiver <%s> (%s): node %s is %s" % (q, type(recv).__name__, key, ", ".join("%s via %s" % (c, pth) for c, pth in sorted(by.items())))))
    cases = ["Dispatch %s %s" % (coq_str(tag), coq_str(cls)) for _, tag, cls in obs]
    return cases, fails, [("paths", "override" if overridden_paths(type(recv), E) else "inherited")] * 1 + [("paths-obs", "n")] * 0, obs


# ---- mixed content: whitespace-only text nodes survive serialize -> from_tag -----------------------------------------

WS_PATTERNS = [
    # (text of the element, [(child text, child tail), ...]) -- children are text:span, the last one nests another
    (None, [("Hello", " "), ("World", None)]),
    (" ", [("a", "\n"), ("b", "  "), ("c", " ")]),
    ("\n  ", [("a", "\n  "), ("b", "\n")]),
    ("t", [(" ", " "), (None, "\t"), ("x", " tail ")]),
    (None, [(None, " "), (None, " "), (None, None)]),
]


def run_mixed(ctx, d):
    """d = {kind:'mixed', cls, pattern: index}: an instance whose content is mixed (text / elements / whitespace-only text and
    tail nodes, also nested) must keep its infoset through serialize -> bare lxml parse and serialize -> Element.from_tag"""
    if d["cls"] not in ctx.classes:
        return [], [], [("mixed-skipped", "class-unknown")], {}
    cls = ctx.classes[d["cls"]]
    kwargs = {k: dec(v, ctx.odfdo) for k, v in d.get("base", {}).items()}
    try:
        inst = with_timeout(lambda: cls(**kwargs))
    except Exception:
        return [], [], [("mixed-skipped", "ctor")], {}
    el = priv(inst)
    text, kids = WS_PATTERNS[d["pattern"]]
    SP = "{%s}span" % ctx.ns["text"]
    for c in list(el):
        el.remove(c)
    el.text = text
    last = None
    for ct, tail in kids:
        last = etree.SubElement(el, SP)
        last.text = ct
        last.tail = tail
    if last is not None:        # nested container with white space at start / between / end
        inner = etree.SubElement(last, SP); inner.text = " "; inner.tail = " "
        inner2 = etree.SubElement(last, SP); inner2.text = "n"; inner2.tail = "\n"
    before = c14n(el)
    seq = lambda n: [(x.tag, x.text, x.tail) for x in n.iter()]
    s_before = seq(el)
    fails = []
    xml = inst.serialize()
    try:
        bare = ctx.bare_parse(xml)
    except etree.XMLSyntaxError as e:
        return [], [("not-wellformed/%s" % d["cls"], str(e))], [("mixed", "x")], {}
    if c14n(bare) != before:
        fails.append(("serialize-infoset-mixed/%s" % d["cls"], "mixed content: C14N of the parsed serialisation differs"))
    back = ctx.Element.from_tag(xml)
    if c14n(priv(back)) != before:
        a, b = s_before, seq(priv(back))
        diff = next(((x, y) for x, y in zip(a, b) if x != y), (len(a), len(b)))
        fails.append(("reparse-infoset-mixed/%s" % d["cls"],
                      "mixed content %r + %r: text/tail sequence after serialize -> from_tag differs, first difference %r" % (text, kids, diff)))
    if c14n(el) != before:
        fails.append(("observation-mutates/%s" % d["cls"], "serialising changed the element"))
    cases = ["Dispatch %s %s" % (coq_str(priv(back).tag), coq_str(type(back).__name__))]
    return cases, fails, [("mixed", "pattern-%d" % d["pattern"])], dict(xml=xml)


# ---- detached objects: every way of obtaining a wrapper that is NOT inside a document -------------------------------

DIVERSE_ATTRS = ["draw:name", "svg:width", "xlink:href", "fo:color", "style:name", "table:name", "text:style-name",
                 "presentation:class", "office:value-type", "number:style", "meta:name", "dc:x", "xml:id", "smil:begin", "anim:id"]
DETACHED_WAYS = ("ctor", "clone", "clone-of-clone", "reparse", "extracted", "child-of-clone", "from_tag(qname)")


def obtain(ctx, cls, kwargs, way):
    E = ctx.Element
    inst = cls(**kwargs)
    if way == "ctor":
        return inst
    if way == "clone":
        return inst.clone
    if way == "clone-of-clone":
        return inst.clone.clone
    if way == "reparse":
        return E.from_tag(inst.serialize())
    if way == "from_tag(qname)":
        q = ctx.qname(priv(inst).tag)
        return E.from_tag(q)
    if way == "extracted":        # put into a parent, take out again
        parent = E.from_tag("text:section")
        parent.append(inst)
        child = parent.children[-1]
        parent.delete(child)
        return child
    if way == "child-of-clone":
        parent = E.from_tag("text:section")
        parent.append(inst)
        return parent.clone.children[-1]
    raise ValueError(way)


def run_detached(ctx, d):
    """d = {kind:'detached', cls, base, way}: an object obtained through `way`, while detached from any document, gets every
    generic property of its class and attributes from a namespace-diverse list set; then serialize -> bare lxml parse ->
    from_tag must work, every attribute must sit in the ODF namespace its qname names, and the infoset must be kept."""
    if d["cls"] not in ctx.classes:
        return [], [], [("detached-skipped", "class-unknown")], {}
    cls = ctx.classes[d["cls"]]
    kwargs = {k: dec(v, ctx.odfdo) for k, v in d.get("base", {}).items()}
    try:
        obj = with_timeout(lambda: obtain(ctx, cls, kwargs, d["way"]))
    except Exception as e:
        return [], [], [("detached-skipped", "obtain:" + type(e).__name__)], {}
    ci = ctx.cinfo.get(d["cls"]) or {}
    fails, want = [], {}
    for prop, (attr, fam) in sorted((ci.get("generic_props") or {}).items()):
        if prop in ci.get("pinned", []) or attr == "xml:id" or not hasattr(type(obj), prop):
            continue
        try:
            setattr(obj, prop, "v")
            if getattr(obj, prop) == "v":
                want[attr] = "v"
        except Exception:
            pass
    for qn in DIVERSE_ATTRS:
        val = {"xml:id": "NCName1", "fo:color": "#00ff00"}.get(qn, "w")
        try:
            obj.set_attribute(qn, val)
            want[qn] = val
        except Exception:
            pass            # a value the setter refuses: not this check's business
    el = priv(obj)
    for qn, v in want.items():
        if el.get(ctx.clark(qn)) != v:
            fails.append(("detached-attr-namespace/%s" % d["cls"], "%s obtained by %s: %s is not stored under its ODF namespace URI: %s"
                          % (d["cls"], d["way"], qn, sorted(el.attrib.items())[:6])))
            break
    before = c14n(el)
    try:
        xml = obj.serialize()
    except Exception as e:
        return [], fails + [("detached-serialize/%s" % d["cls"], "%s obtained by %s: serialize() raised %r" % (d["cls"], d["way"], e))], [("detached", d["way"])], {}
    try:
        bare = ctx.bare_parse(xml)
    except etree.XMLSyntaxError as e:
        fails.append(("not-wellformed-detached/%s" % d["way"], "%s obtained by %s, after setting %d attributes: serialize() is not well-formed namespaced XML: %s ... %s"
                      % (d["cls"], d["way"], len(want), str(e)[:120], xml[:160])))
        return [], fails, [("detached", d["way"])], dict(xml=xml)
    if c14n(bare) != before:
        fails.append(("serialize-infoset-detached/%s" % d["way"], "%s obtained by %s: C14N of the parsed serialisation differs" % (d["cls"], d["way"])))
    try:
        back = ctx.Element.from_tag(xml)
        if c14n(priv(back)) != before:
            fails.append(("reparse-infoset-detached/%s" % d["way"], "%s obtained by %s: C14N after from_tag(serialize()) differs" % (d["cls"], d["way"])))
        cases = ["Dispatch %s %s" % (coq_str(priv(back).tag), coq_str(type(back).__name__))]
    except Exception as e:
        fails.append(("reparse-raises-detached/%s" % d["way"], "%s obtained by %s: from_tag(serialize()) raised %r" % (d["cls"], d["way"], e)))
        cases = []
    return cases, fails, [("detached", d["way"])], dict(xml=xml)


# ---- wrapping an existing node never changes it, whatever the spelling of its attribute values ------------------------

def respell(value):
    """other valid lexical forms / foreign spellings of an attribute value, as other producers write them"""
    out = []
    if value in ("true", "false"):
        out.append({"true": "1", "false": "0"}[value])
    m = re.match(r"^(-?\d+(?:\.\d+)?)(cm|mm|in|pt)$", value)
    if m:
        x = float(m.group(1))
        out += ["%gmm" % (x * 10) if m.group(2) == "cm" else "%gpt" % x, "%.4fin" % (x / 2.54)]
    if re.match(r"^\d{4}-\d\d-\d\dT", value):
        out += [value[:10], value + "Z", value + ".000"]
    if "$" in value and "." in value:        # cell / range addresses
        out += [value.replace("$", ""), re.sub(r"^\$([^.$']+)\.", r"$'\1'.", value), re.sub(r"^\$([^.$']+)\.", r"\1.", value),
                re.sub(r"\$A\$1$", "$C$5", value), value.replace(":.", ":$T.")]
    if value and not out:
        out += [" " + value, value + " with space & é"]
    return [o for o in out if o != value]


def run_wrap(ctx, d):
    """d = {kind:'wrap', cls, base}: the all-defaults / all-arguments instance is serialised; each attribute value is re-spelled
    (one at a time, every re-spelling); Element.from_tag of the bare-parsed node -- and a few reads on the wrapper -- must
    leave the node byte-identical (lxml serialisation before = after)."""
    if d["cls"] not in ctx.classes:
        return [], [], [("wrap-skipped", "class-unknown")], {}
    cls = ctx.classes[d["cls"]]
    kwargs = {k: dec(v, ctx.odfdo) for k, v in d.get("kwargs", {}).items()}
    try:
        inst = with_timeout(lambda: cls(**kwargs))
    except Exception:
        return [], [], [("wrap-skipped", "ctor")], {}
    xml0 = inst.serialize()
    node0 = ctx.bare_parse(xml0)
    variants = [("as written by odfdo", None, None)]
    for a, v in list(node0.attrib.items()):
        for r in respell(v):
            variants.append(("%s=%r instead of %r" % (ctx.qname(a), r, v), a, r))
    fails, n = [], 0
    for label, a, r in variants[:40]:
        node = ctx.bare_parse(xml0)
        if a is not None:
            node.set(a, r)
        before = etree.tostring(node)
        try:
            w = ctx.Element.from_tag(node)
            for p in ("name", "style", "text", "tag"):
                try:
                    getattr(w, p, None)
                except Exception:
                    pass
            str(w)
        except Exception:
            continue            # a spelling the class refuses is not this check's business
        n += 1
        after = etree.tostring(node)
        if after != before:
            fails.append(("wrap-rewrites/%s" % d["cls"], "Element.from_tag on a <%s> with %s rewrote it: %s  ->  %s"
                          % (ctx.qname(node.tag), label, before.decode()[-220:], after.decode()[-220:])))
            break
    return [], fails, [("wrap", "variants")] * 1, dict(variants=n)


RUNNERS = {"dispatch": run_dispatch, "ctor": run_ctor, "attr": run_attr, "document": run_document, "paths": run_paths, "mixed": run_mixed, "detached": run_detached, "wrap": run_wrap}


# ------------------------------------------------------------------------------------------------ generation

def gen_cases(ctx, tier, rng):
    ds = []
    info = ctx.info
    # A. every registered tag at depth 1..3 through every access path; unknown tags
    tags = sorted({ctx.qname(t) for t in ctx.registry})
    if info:
        tags = sorted(set(tags) | {c["own_tag"] for c in info["classes"] if c["own_tag"]})
    for q in tags:
        for depth in (1, 2, 3):
            ds.append(dict(kind="dispatch", tag=q, depth=depth))
    for q in ["text:no-such-tag", "office:forms", "table:table-cell-odfdo", "draw:custom-shape", "text:P", "dc:creator",
              "style:paragraph-properties", "number:number", "presentation:notes"]:
        for depth in (1, 3):
            ds.append(dict(kind="dispatch", tag=q, depth=depth))
    # A2. every class as RECEIVER of heterogeneous queries (its own tag around a mixed fragment); A3. mixed content round trip
    for q in tags:
        ds.append(dict(kind="paths", tag=q))
    for cname in sorted(ctx.classes):
        base = {k: enc(v) for k, v in BASE.get(cname, {}).items()}
        for i in range(len(WS_PATTERNS)):
            ds.append(dict(kind="mixed", cls=cname, base=base, pattern=i))
    # A4. detached objects (every way of obtaining one) with namespace-diverse attributes; A5. wrapping re-spelled instances
    for cname in sorted(ctx.classes):
        base = {k: enc(v) for k, v in BASE.get(cname, {}).items()}
        for way in DETACHED_WAYS:
            ds.append(dict(kind="detached", cls=cname, base=base, way=way))
        ds.append(dict(kind="wrap", cls=cname, kwargs=base))
    # B. constructors: every argument alone over its type-directed values, then combinations
    for cname in sorted(ctx.classes):
        ci = ctx.cinfo.get(cname)
        base = {k: enc(v) for k, v in BASE.get(cname, {}).items()}
        ds.append(dict(kind="ctor", cls=cname, kwargs=dict(base), focus=[]))
        if not ci:
            continue
        per_arg = {}
        for a in ci["args"]:
            vals = values_for(cname, a["arg"], a["annotation"], a["default"], ctx.odfdo, tier)
            per_arg[a["arg"]] = vals
            for v in vals:
                kw = dict(base); kw[a["arg"]] = enc(v)
                ds.append(dict(kind="ctor", cls=cname, kwargs=kw, focus=[a["arg"]]))
        names = [a for a in per_arg if per_arg[a]]
        ncombo = (2 if tier == "quick" else 12) if names else 0
        for _ in range(ncombo):
            k = rng.randint(2, max(2, len(names)))
            chosen = rng.sample(names, min(k, len(names)))
            kw = dict(base)
            for a in chosen:
                kw[a] = enc(rng.choice(per_arg[a]))
            ds.append(dict(kind="ctor", cls=cname, kwargs=kw, focus=chosen))
        # arguments handed over only under a condition on OTHER arguments (Style: family / area): all arguments at once for
        # every value of those other arguments
        cond = sorted({n for a in ci["args"] for n in a.get("cond_names", [])} & set(names))
        if cond:
            combos = list(itertools.islice(itertools.product(*[[v for v in per_arg[c] if v is not None] or [None] for c in cond]), 16))
            extra_vals = {("Style", "family"): ["font-face"]}
            for c in cond:
                for v in extra_vals.get((cname, c), []):
                    combos.append(tuple(v if x == c else ([w for w in per_arg[x] if w is not None] or [None])[0] for x in cond))
            for combo in combos:
                kw = dict(base)
                for a in names:
                    tv = [v for v in per_arg[a] if v not in (None, False, "", 0)]
                    if tv:
                        kw[a] = enc(tv[0])
                for c, v in zip(cond, combo):
                    kw[c] = enc(v)
                if cname == "Style":
                    kw["font_name"] = enc("Arial"); kw.pop("area", None)
                ds.append(dict(kind="ctor", cls=cname, kwargs=kw, focus=[a for a in names if a in kw]))
        if names:   # all arguments at once, first truthy value of each
            kw = dict(base)
            for a in names:
                tv = [v for v in per_arg[a] if v not in (None, False, "", 0)]
                if tv:
                    kw[a] = enc(tv[0])
            ds.append(dict(kind="ctor", cls=cname, kwargs=kw, focus=[a for a in names if a in kw]))
            ds.append(dict(kind="wrap", cls=cname, kwargs=kw))
    # C. generic property assignments
    avals = [None, True, False, "x", "true", "false", "", 0, 3, 1.5, " a b ", "q\"<&'>", "é中", "True", "none"]
    for cname in sorted(ctx.classes):
        ci = ctx.cinfo.get(cname)
        if not ci or not ci["generic_props"]:
            continue
        # (properties the class re-pins to a constant on every __init__, also when parsing, are not free to set: MetaAutoReload.actuate ...)
        props = sorted(p for p in ci["generic_props"] if p not in ci.get("pinned", []))
        if not props:
            continue
        base = {k: enc(v) for k, v in BASE.get(cname, {}).items()}
        vals_for = lambda p: (NCNAMES + [None, True]) if ci["generic_props"][p][0] == "xml:id" else avals
        nseq = 2 if tier == "quick" else 10
        for p in props:     # every property once with a string, a bool and None
            ds.append(dict(kind="attr", cls=cname, base=base, sets=[[p, enc("v")], [p, enc(True)], [p, enc("true")], [p, enc(None)]]
                           + ([[p, enc(7)]] if vals_for(p) is avals else [])))
        for _ in range(nseq):
            n = rng.randint(2, 8)
            seq = []
            for _ in range(n):
                p = rng.choice(props)
                seq.append([p, enc(rng.choice(vals_for(p)))])
            ds.append(dict(kind="attr", cls=cname, base=base, sets=seq))
        if cname == "Style":
            for fam in ("master-page", "paragraph", "text"):
                ds.append(dict(kind="attr", cls=cname, base=dict(family=enc(fam)),
                               sets=[[p, enc(v)] for p in ("page_layout", "next_style", "master_page", "name") for v in ("x", None, "y")]))
    # D. real documents: every element gets its class
    samples = sorted((common.REPO / "tests" / "samples").glob("*.od?")) + sorted((common.SRC / "odfdo" / "templates").glob("*.ot?"))
    for f in samples:
        try:
            with zipfile.ZipFile(f) as z:
                parts = [n for n in z.namelist() if n in ("content.xml", "styles.xml", "meta.xml")]
        except zipfile.BadZipFile:
            continue
        for part in parts:
            ds.append(dict(kind="document", path=str(f), part=part, limit=2 if tier == "quick" else 6))
    return ds


# ------------------------------------------------------------------------------------------------ main

def python_oracle_for_tables(ctx):
    """When a generated-table obligation fails in Coq: look for the concrete failing input it stands for."""
    found = []
    info = ctx.info
    if not info:
        return found
    for c in info["classes"]:
        for a in c["args"]:
            if a["kind"] == "Dropped":
                found.append(dict(kind="ctor", cls=c["name"], focus=[a["arg"]],
                                  kwargs=dict({k: enc(v) for k, v in BASE.get(c["name"], {}).items()}, **{a["arg"]: enc("Given_1")})))
    return found


def run(tier, seed, replay=None):
    t0 = time.time(); rng = random.Random(seed)
    # 1. regenerate the tables from the tree under test (fresh interpreter), fail closed
    rc, out = common.sh("%s %s" % (common.PY, Path(__file__).resolve().parent / "gen_registry.py"), 300, env=common.repo_env())
    gen_msg = out.strip().splitlines()[-1] if out.strip() else ""
    info = None
    if rc == 0:
        info = json.loads((common.WORK / "gen_registry.json").read_text())
    # 2. proofs (C12.v and its cone, against the fresh tables)
    proofs = common.build_proofs("C12")
    if rc != 0:
        proofs["ok"] = False
        proofs["log"] = "translator gen_registry.py stopped (rc=%s): %s\n%s" % (rc, out[-1500:], proofs["log"][-1500:])
    odfdo = common.use_repo()
    ctx = Ctx(odfdo, info)
    known = {e["key"]: e for e in common.known_findings(PROP)}
    corpus = []
    for f in sorted((common.ROOT / "corpus" / PROP).glob("*.json")):
        corpus.append(json.load(open(f))["case"])
    if replay:
        descs = [json.load(open(replay))["case"]]
    else:
        descs = corpus + gen_cases(ctx, tier, rng)
        if not proofs["ok"]:
            descs = python_oracle_for_tables(ctx) + descs
    cases, owner, fails, hist, impl_exc, samples, reached = [], [], [], {}, [], [], {}
    rejected = 0
    for i, d in enumerate(descs):
        try:
            cs, fl, hs, extra = with_timeout(lambda: RUNNERS[d["kind"]](ctx, d), 60)
        except Alarm:
            hist["timeout"] = hist.get("timeout", 0) + 1
            continue
        except Exception as e:
            impl_exc.append((i, "".join(traceback.format_exception_only(type(e), e)).strip()[:300]))
            fl, cs, hs, extra = [("exception/%s/%s" % (d["kind"], d.get("cls") or d.get("tag") or Path(d.get("path", "")).name),
                                  traceback.format_exc()[-600:])], [], [], {}
        for c in cs:
            cases.append(c); owner.append(i)
        for key, detail in fl:
            fails.append((i, key, detail))
        for h in hs:
            hist["%s:%s" % h] = hist.get("%s:%s" % h, 0) + 1
        for (rc_, ra_, changed_, note_) in (extra or {}).get("reach", []) if isinstance(extra, dict) else []:
            st = reached.setdefault((rc_, ra_), [False, i, note_])
            st[0] = st[0] or changed_
        if len(samples) < 3 and d["kind"] == "ctor" and d["focus"]:
            samples.append(d)
    if os.environ.get("VERIF_C12_RECORD") and RECORD:
        GOLDEN_FILE.write_text(json.dumps(RECORD, indent=1, sort_keys=True, ensure_ascii=False) + "\n")
    if not replay:
        for (rc_, ra_), (ok_, i_, note_) in sorted(reached.items()):
            if not ok_:
                fails.append((i_, "ctor-arg-never-reaches-xml/%s.%s" % (rc_, ra_),
                              "%s(%s=...) (%s): in no exercised case does a non-default value change the element" % (rc_, ra_, note_)))
    # 3. Coq evaluates the model on everything observed
    # (identical observation terms are evaluated once; every owner of a failing term is reported)
    uniq, first = [], {}
    for ci, c in enumerate(cases):
        if c not in first:
            first[c] = len(uniq); uniq.append(c)
    ubad, errors = common.run_shards(HEADER, uniq, "chk", "c12", shard=1500) if uniq else ({}, [])
    bad = {ci: ubad[first[c]] for ci, c in enumerate(cases) if first[c] in ubad}
    fidelity = sum(1 for c in bad.values() if c == 4)
    coq_fail = {}
    for ci, code in bad.items():
        if code != 4:
            coq_fail.setdefault(owner[ci], []).append((code, cases[ci]))
    # 4. decision
    violations, known_seen, reported = [], [], set()

    def report(i, key, layer, detail, extra=None):
        if key in reported:
            return
        reported.add(key)
        if key in known:
            known_seen.append("%s (%s)" % (key, known[key]["description"][:120]))
            return
        if len([v for v in violations if not v[1]]) >= 15:
            return
        rp = common.write_replay(PROP, seed, re.sub(r"[^A-Za-z0-9_.-]+", "_", key)[:80],
                                 dict(layer=layer, key=key, detail=detail, case=descs[i], coq=extra, known_finding_key=None))
        violations.append((rp, False))

    for i, key, detail in fails:
        report(i, key, "differential (python level): " + key.split("/")[0], detail)
    for i, lst in sorted(coq_fail.items()):
        code, case = lst[0]
        d = descs[i]
        who = d.get("cls") or d.get("tag") or Path(d.get("path", "")).name
        m = re.match(r"(\w+) (\S+) (\S+)", case)
        sub = ""
        if case.startswith("CtorObs") or case.startswith("AttrObs"):
            parts = re.findall(r'"([^"]*)"', case)
            sub = ".".join(parts[:2])
        key = "%s/%s" % ({1: "dispatch", 2: "ctor-arg-generic", 3: "ctor-arg-generic-reparse", 5: "attr-set", 6: "attr-get", 7: "table"}[code], sub or who)
        report(i, key, LAYER[code], "Coq code %d on %s" % (code, case[:400]), extra=[c for _, c in lst[:3]])
    hard = bool(violations) or bool(known_seen and not proofs["ok"])
    violations += common.proof_violation(PROP, seed, proofs, errors, bool(violations))
    distinct = len({common.digest(c) for c in cases})
    kinds = {}
    if info:
        for c in info["classes"]:
            for a in c["args"]:
                kinds[a["kind"]] = kinds.get(a["kind"], 0) + 1
    coverage = dict(
        trusted_base=["lxml (parse, C14N, attrib) as the independent observer; CPython str()/bool() of argument values (enter the model as data)",
                      "harness/gen_registry.py: the translator of _class_registry / PropDef closures / __init__ ASTs into Gen_Registry.v, Gen_Ctors.v "
                      "(fail-closed; its output is cross-checked against the implementation by the Dispatch / CtorObs / AttrObs cases)",
                      "modelled in Registry.v / Attr.v: _register_element_class, _get_lxml_tag, Element.from_tag, _generic_attrib_getter/_setter, "
                      "the `self.<prop> = <arg>` stores of every __init__ the translator recognises"],
        partial=True,
        proved=["access paths in the model (Registry.access_run: children, parent, root, any selected node, clone): the wrapper's class is the registry's answer for its own node's tag, for every registry / tree / history, and two histories ending on one node agree (C12_access_paths_preserve_class, C12_access_paths_agree, C12_access_paths_dispatch); the model's assumption about the sources -- wrappers are only made by Element.from_tag / Element.from_tag_for_clone, self.from_tag in clone -- is the generated table wrap_sites (C12_wrap_sites_as_modelled)",
                "dispatch mechanism for all registration sequences (C12_registry_is_a_function, C12_first_registrant_wins, C12_known_tag_dispatches, C12_unknown_tag_falls_back)",
                "generated registry: own tags, effectiveness of every registration call, fallback, model = live dict (finite sweeps, bound = the tables)",
                "generic attribute property laws incl. the exact exception set (C12_attr_*)",
                "constructor arguments stored through generic properties are exposed after the whole constructor (C12_ctor_args_exposed, C12_ctor_flags_exposed); no argument dropped; guards equal the reference CtorGuardSpec.v (C12_ctor_guards_match_reference); no __init__ writes when wrapping (C12_wrapping_never_writes_static)"],
        not_proved=["well-formedness and infoset equality of the lxml serialisation, same class and equal property values after re-parsing: differential testing (python level) on every case",
                    "class identity through children / get_elements / get_element / xpath / parent / root / clone / typed finders: observed pairs compared in Coq with the model registry, for the generated trees (depth <= 3) and the sample documents only",
                    "arguments stored through hand-written properties, under conditions on other arguments, handed to a method (ViaHelper), stored component-wise (StoredIndexed) or used in other ways (Unrecognised): differential testing only (see ctor_table_kinds)"],
        level_note="proof for the mechanisms and the generated tables; testing (not proof) for per-class serialisation / re-parse / traversal behaviour",
        evaluations=len(cases), distinct_nontrivial=distinct, coq_terms_evaluated=len(uniq),
        receivers_overriding_an_access_path=sorted(n for n, k in ctx.classes.items() if overridden_paths(k, ctx.Element)),
        rule="A: every registered tag and own tag (+9 unregistered ones) at depth 1,2,3 through from_tag(str/lxml), children, get_elements, get_element, xpath, parent, root, clone; "
             "A2: every registered tag as RECEIVER around a fragment mixing ~25 tags at depth 1-3: get_elements/xpath/get_element with 8 heterogeneous queries (*, descendant::*, unions, positional), children to depth 3, parent, clone, typed finders/iterators; every wrapper's class judged in Coq against its own node's tag, and all paths must agree on a node (receivers overriding a path are found by introspection); "
             "A3: every class with 5 mixed-content patterns (whitespace-only text/tail nodes between siblings, at start/end, nested): C14N through serialize -> lxml and serialize -> from_tag; "
             "A4: every class obtained DETACHED in 7 ways (constructor, clone, clone of clone, re-parse, extracted child, child of a clone, from_tag(qname)), every generic property and 15 attributes from different ODF namespaces set, then serialize -> lxml -> from_tag; "
             "A5: wrapping (Element.from_tag) the default and the all-arguments instance with each attribute value re-spelled as other producers write it (1/0, other units, date only, relative / quoted / foreign-base addresses, padded strings) leaves the node byte-identical; "
             "B: every class: default constructor, every argument alone over type-directed values (annotation-driven; explicit lists for validated arguments), random combinations, all arguments at once; "
             "C: every generic property: fixed and random assignment sequences over None/bool/str/'true'/int/float/unicode; "
             "D: every element (first %d per tag) of content/styles/meta of every sample and template through from_tag, get_elements, parent, children and the zero-argument typed finders. "
             "evaluations = Coq-evaluated observations; distinct = distinct observation terms" % (2 if tier == "quick" else 6),
        samples=samples or descs[:3], case_descriptors=len(descs), histogram=dict(sorted(hist.items())),
        ctor_table_kinds=kinds, translator=gen_msg, translator_ok=(rc == 0),
        classes=len(ctx.classes), registered_tags=len(ctx.registry),
        python_level_failures=len(fails), coq_level_failures=sum(len(v) for v in coq_fail.values()),
        fidelity_divergences=fidelity, implementation_exceptions=len(impl_exc), implementation_exception_samples=impl_exc[:3],
        corpus_cases=len(corpus), known_findings_reobserved=known_seen, exhaustive=False)
    return common.finish(PROP, tier, seed, proofs, coverage, violations, known_seen, t0,
                         assumptions=["'valid constructor arguments' = values the constructor accepts without raising, drawn type-directed from the annotations",
                                      "a value is 'exposed' by a generic property when the property reads decode(encode(value)) (Attr.v): str(value) for non-str objects, a bool for the strings 'true'/'false'",
                                      "TabStopStyle (registered after Style for style:tab-stop) re-parses as Style: the documented first registrant"])


if __name__ == "__main__":
    common.main(run)
