(* TableBabs.v — what the answers of the layer-B reads MEAN: the same read on the layer-A state (maps recomputed
   from the XML, no caches: the answer of a fresh parse) and on the grid specification; the coherence invariant
   of property C02 as a proposition.  Definitions only. *)
From Coq Require Import List ZArith Bool Arith.
Import ListNotations.
Require Import Vault Row Table Grid Tableabs TableB.
Local Open Scope Z_scope.

(* the answer of the same read computed from the XML alone (every map = make_cache_map of the XML now) *)
Definition a_read (t : tstate) (q : bread) : bans :=
  match q with
  | RQ q' => BAns (t_read t q')
  | RGetRow y _ =>
      let y := ny y t in
      if theight t <=? y then BARow (1%nat, empty_row)
      else match row_at y t with Some r => BARow r | None => BFail end
  | RGetCellK x y _ =>
      let x := nx x t in let y := ny y t in
      if theight t <=? y then BACell (1%nat, empty_cell)
      else match row_at y t with
           | Some (_, (_, cs)) =>
               if rwidth cs <=? x then BACell (1%nat, empty_cell)
               else match find_idx (cmap cs) x with
                    | Some i => match nth_error cs i with Some c => BACell c | None => BFail end
                    | None => BFail end
           | None => BFail end
  | RTraverse => BARows (expand (rows t))
  | RGetColumn x =>
      let x := nx x t in
      if twidth t <=? x then BACol (1%nat, 0)
      else match find_idx (cmap (cols t)) x with
           | Some i => match nth_error (cols t) i with Some c => BACol c | None => BFail end
           | None => BFail end
  | RColumns => BACols (expand (cols t))
  end.

(* answers on the grid: no repeats, no styles of rows / columns *)
Inductive gans :=
| GAns (a : tans) | GRow (l : list cell) | GCell (c : cell) | GRows (l : list (list cell)) | GCol | GCols (n : Z) | GFail.
Definition proj (a : bans) : gans :=
  match a with
  | BAns a => GAns a
  | BARow (_, (_, cs)) => GRow (expand cs)
  | BACell (_, c) => GCell c
  | BARows l => GRows (map grow_of l)
  | BACol _ => GCol
  | BACols l => GCols (Z.of_nat (length l))
  | BFail => GFail
  end.
Definition gb_read (g : gridT) (q : bread) : gans :=
  let ny y := norm_coord y (gheight g) in
  let nx x := norm_coord x (ncols g) in
  match q with
  | RQ q' => GAns (g_read g q')
  | RGetRow y _ => GRow (g_row (ny y) g)
  | RGetCellK x y _ => GCell (nth (Z.to_nat (nx x)) (g_row (ny y) g) empty_cell)
  | RTraverse => GRows (grows g)
  | RGetColumn _ => GCol
  | RColumns => GCols (ncols g)
  end.

(* ---- coherence (C02): the maps are make_cache_map of the XML runs; every cached row wrapper sits at the index it is
        cached under, its _rmap is make_cache_map of that XML row's cells, its cached cells sit at their index;
        cached columns sit at their index ---- *)
Definition keys_ok (n : nat) (l : list (nat * Z)) : Prop :=
  Forall (fun kp : nat * Z => snd kp = Z.of_nat (fst kp) /\ (fst kp < n)%nat) l.
Definition wrap_ok (t : tstate) (kw : nat * rwrap) : Prop :=
  exists rep st cs, nth_error (rows t) (fst kw) = Some (rep, (st, cs)) /\
    w_pos (snd kw) = Z.of_nat (fst kw) /\ w_rmap (snd kw) = cmap cs /\ keys_ok (length cs) (w_cells (snd kw)).
Definition CohM (b : bstate) : Prop :=
  tmapB b = cmap (rows (ax b)) /\ cmapB b = cmap (cols (ax b)) /\
  Forall (wrap_ok (ax b)) (tcache b) /\ keys_ok (length (cols (ax b))) (ccache b).
Definition Coh (b : bstate) : Prop := WF (ax b) /\ CohM b.

(* admissible steps: mutators with admissible arguments (Tableabs.op_ok), any read *)
Definition lop_ok (l : lop) : Prop :=
  match l with
  | LRowOp _ (RSet _ c) | LRowOp _ (RIns _ c) | LRowOp _ (RApp c) => (1 <= fst c)%nat
  | LRowOp _ (RDel _) => True
  | LRowOp _ _ => False
  | _ => True end.
Definition bop_ok (o : bop) : Prop := match o with BMut m => op_ok m | BRead _ => True | BLive l => lop_ok l end.
