"""C05: paragraph text round-trips and is in ODF white-space normal form.

Theorems: coq/theories/C05.v (model WS.v).  Correspondence: every generated (class, pieces) is run on the
implementation; its XML is abstracted to an item list by an lxml walk; Coq evaluates on that item list
the normal-form predicate, the ODF consumer and the reader, and compares with the model's own output."""
import sys, os, json, random, itertools, time
from pathlib import Path
sys.path.insert(0, str(Path(__file__).resolve().parent))
import common
from lxml import etree

NS = 'urn:oasis:names:tc:opendocument:xmlns:text:1.0'; T = '{%s}' % NS
ALPHA = {'a': 'Ch 0', 'é': 'Ch 1', '<': 'Ch 2', '&': 'Ch 3', ' ': 'Sp', '\t': 'Tb', '\n': 'Nl', '"': 'Ch 4', 'Z': 'Ch 5',
         ' ': 'Ch 6', '中': 'Ch 7'}


def cs(s):
    # any other character gets the next free small index (characters are opaque to the model)
    return '[' + ';'.join(ALPHA.setdefault(c, 'Ch %d' % (len(ALPHA) + 10)) for c in s) + ']'


def abs_items(elem_xml):
    """independent lxml walk: XML of a text:p / text:h / text:span -> item list (Coq syntax)"""
    x = etree.fromstring('<r xmlns:text="%s">%s</r>' % (NS, elem_xml))[0]
    items = []
    if x.text: items.append('IStr ' + cs(x.text))
    for c in x:
        if c.tag == T + 's': items.append('IS %d' % int(c.get(T + 'c') or 1))
        elif c.tag == T + 'tab': items.append('ITab')
        elif c.tag == T + 'line-break': items.append('ILb')
        else: items.append('IElem 9 []')
        if c.tail: items.append('IStr ' + cs(c.tail))
    return '[' + ';'.join(items) + ']'


HEADER = '''Require Import WS WSnfproof. From Coq Require Import List Arith Bool. Import ListNotations.
Definition item_eqb (a b : item) : bool := match a,b with IStr x, IStr y => str_eqb x y | IS n, IS m => Nat.eqb n m | ITab,ITab | ILb,ILb => true | _,_ => false end.
Definition items_eqb (a b : list item) := Nat.eqb (length a) (length b) && forallb (fun p => item_eqb (fst p) (snd p)) (combine a b).
(* case = (pieces, implementation items, implementation inner_text, inner_text after re-parse)
   1: not in normal form / consumer reads something else   2: reported text differs   3: re-parsed text differs   4: model shape differs (fidelity only) *)
Definition chk (c : list str * list item * str * str) : nat :=
  let '(ps, its, txt, txt2) := c in
  let want := concat ps in
  if negb (NFb true its && str_eqb (consume its) want) then 1
  else if negb (str_eqb txt want && str_eqb (readable its) want) then 2
  else if negb (str_eqb txt2 want) then 3
  else if items_eqb (fold_left append_plain_text ps []) its then 0 else 4.'''

LAYER = {1: "normal-form: the ODF consumer does not read the string back from the XML produced",
         2: "text: the element reports another text than the string given",
         3: "reparse: the re-parsed element reports another text"}


def gen_inputs(tier, rng):
    inputs = []
    L = 4 if tier == "quick" else 6
    for n in range(L + 1):
        for tup in itertools.product(' a\t\n', repeat=n):
            inputs.append(('Paragraph', [''.join(tup)]))
    # all 2-splits (and all 3-splits of the shorter ones) of the short strings over the FULL small alphabet — a later
    # piece ending in a newline after an earlier tab / line break is a shape of its own
    L2 = 4 if tier == "quick" else 5
    k = 0
    for n in range(1, L2 + 1):
        for tup in itertools.product(' a\t\n', repeat=n):
            s = ''.join(tup)
            for cut in range(0, n + 1):
                inputs.append((('Paragraph', 'Span', 'Header')[k % 3], [s[:cut], s[cut:]])); k += 1
            if n <= (4 if tier == "quick" else 5):
                for c1 in range(0, n + 1):
                    for c2 in range(c1, n + 1):
                        inputs.append((('Paragraph', 'Span', 'Header')[k % 3], [s[:c1], s[c1:c2], s[c2:]])); k += 1
    # edge stream: long runs of spaces (the text:s count gets several decimal digits), leading / inner / trailing,
    # alone and next to tabs / newlines, whole or cut inside the run
    runs = list(range(2, 31)) + [99, 100, 101, 110, 199, 200, 201, 999, 1000, 1001] if tier != "quick" else \
        [2, 3, 8, 9, 10, 11, 12, 19, 20, 21, 22, 99, 100, 101, 199, 200, 1000]
    for n in runs:
        sp = ' ' * n
        for s, cut in ((sp + 'b', n // 2), ('a' + sp + 'b', 1 + n // 2), ('a' + sp, n), ('\t' + sp + '\n', n), (sp, n - 1)):
            inputs.append((('Paragraph', 'Span', 'Header')[k % 3], [s])); k += 1
            inputs.append((('Paragraph', 'Span', 'Header')[k % 3], [s[:cut], s[cut:]])); k += 1
    exhaustive_part = len(inputs)
    # random stream: XML-special, non-ASCII, NBSP, CJK, and one character of each Unicode class a codec could mistreat:
    # outside the BMP (U+1F600, U+1D11E, U+20000, U+10FFFF), the BMP edges around the surrogates (U+D7FF, U+E000, U+FFFD),
    # combining mark, zero-width joiner, RTL mark, other blanks (U+2003, U+3000, U+2028, U+0085), soft hyphen
    rare = ['\U0001F600', '\U0001D11E', '\U00020000', '\U0010FFFF', '\uD7FF', '\uE000', '\uFFFD', '\u0301', '\u200D',
            '\u200F', '\u2003', '\u3000', '\u2028', '\u0085', '\u00AD']
    syms = list('a\u00e9<&"Z\u00a0\u4e2d \t\n    ') + rare[:(4 if tier == "quick" else len(rare))] * 1
    rng.shuffle(rare)
    # every rare character at least once, alone / leading / inner / trailing, whole and split around it
    for ch in rare:
        for s0 in (ch, ch + 'a', 'a' + ch + 'b', 'a ' + ch, ch + ' ' + ch, ' ' + ch + '\t'):
            inputs.append((('Paragraph', 'Span', 'Header')[k % 3], [s0])); k += 1
            inputs.append((('Paragraph', 'Span', 'Header')[k % 3], [s0[:1], s0[1:]])); k += 1
    # strings that LOOK like markup: they are character data and must come back verbatim (the serialiser works on text)
    lookalikes = [' xmlns:a="b"', 'x xmlns:text="urn:x" y', ' xmlns:="" ', '<text:s/>', '<text:tab/>x', '&amp;', '&#32;x&#9;', ']]>',
                  '<!-- c -->', '<?pi d?>', '"q"', "'", 'a="b"', '<text:p>', '</text:p>', ' text:c="3"', '\\n', '%s', '{0}']
    for la in lookalikes:
        for s0 in (la, 'a' + la + 'b', la + ' ' + la, ' ' + la, la + '\t'):
            inputs.append((('Paragraph', 'Span', 'Header')[k % 3], [s0])); k += 1
            cut = len(s0) // 2
            inputs.append((('Paragraph', 'Span', 'Header')[k % 3], [s0[:cut], s0[cut:]])); k += 1
    for _ in range(1500 if tier == "quick" else 60000):
        n = rng.randint(0, 12 if tier == "quick" else 40)
        s = ''.join(rng.choice(syms + rare) for _ in range(n))
        k = rng.randint(0, 3); cuts = sorted(rng.randint(0, n) for _ in range(k))
        inputs.append((rng.choice(['Paragraph', 'Span', 'Header']), [s[i:j] for i, j in zip([0] + cuts, cuts + [n])],
                       rng.choice(['append', 'ctor', 'plain'])))
    return inputs, exhaustive_part


def run(tier, seed, replay=None):
    t0 = time.time(); rng = random.Random(seed)
    odfdo = common.use_repo()
    from odfdo import Paragraph, Span, Header, Element
    proofs = common.build_proofs("C05")
    corpus = []
    for f in sorted((common.ROOT / "corpus" / "C05").glob("*.json")):
        corpus.append(tuple(json.load(open(f))["case"]))
    if replay:
        inputs, nexh = [tuple(json.load(open(replay))["case"])], 0
    else:
        inputs, nexh = gen_inputs(tier, rng)
        inputs = corpus + inputs
    cases, hist, impl_errors, modes = [], {}, [], {}
    inputs = [tuple(x) if len(x) == 3 else (x[0], x[1], ('append', 'ctor')[i % 2]) for i, x in enumerate(inputs)]
    for idx, (cls, pieces, mode) in enumerate(inputs):
        try:
            # mode ctor: the first piece goes through the constructor; plain: append_plain_text is called directly
            first = pieces[:1] if mode == 'ctor' else []
            rest = pieces[1:] if mode == 'ctor' else pieces
            p = {'Paragraph': lambda *a: Paragraph(*a), 'Span': lambda *a: Span(*a), 'Header': lambda *a: Header(1, *a)}[cls](*first)
            for pc in rest:
                if mode == 'plain': p.append_plain_text(pc)
                else: p.append(pc)
            xml = p.serialize(); back = Element.from_tag(xml)
            cases.append('([%s], %s, %s, %s)' % (';'.join(cs(x) for x in pieces), abs_items(xml), cs(p.inner_text), cs(back.inner_text)))
        except Exception as e:  # the implementation fails on an input of the property's domain
            impl_errors.append((idx, repr(e)))
            cases.append('([%s], [], [Ch 99], [Ch 99])' % ';'.join(cs(x) for x in pieces))
        hist[cls] = hist.get(cls, 0) + 1; modes[mode] = modes.get(mode, 0) + 1
    bad, errors = common.run_shards(HEADER, cases, "chk", "c05")
    violations = []
    hard = {i: c for i, c in bad.items() if c != 4}
    for i in sorted(hard)[:3]:
        rp = common.write_replay("C05", seed, str(i), dict(layer=LAYER[hard[i]], case=inputs[i],
                                 implementation_error=dict(impl_errors).get(i)))
        violations.append((rp, False))
    violations += common.proof_violation("C05", seed, proofs, errors, bool(hard))
    ws = lambda x: any(c in ' \t\n' for pc in x[1] for c in pc)
    distinct = len({common.digest(x) for x in inputs if ws(x)})
    coverage = dict(
        trusted_base=["lxml parse/serialise (the re-parse leg)",
                      "ODF 1.2 section 6.1.2 consumer as modelled in WS.consume (LibreOffice reading: text:s / text:tab / text:line-break are non-collapsible and reset the collapse state)",
                      "modelled in WS.v: Paragraph._expand_spaces/_merge_spaces/_sub_merge_spaces/_replace_tabs_lb/append_plain_text, Element.__append for strings, inner_text of text:s/tab/line-break"],
        evaluations=len(cases), distinct_nontrivial=distinct,
        rule="all strings over {space,a,tab,newline} up to length %d as one piece; all 2-splits (3-splits of the shorter ones) of all strings over {space,a,tab,newline} up to length %d; random strings over 12 symbols (XML-special, non-ASCII, NBSP) cut into 1-4 appends, on Paragraph/Span/Header, the first piece through the constructor or through append or append_plain_text; corpus first. non-trivial = contains white space; distinct = distinct (class, pieces)"
             % ((4, 4) if tier == "quick" else (6, 5)),
        samples=[dict(cls=c, pieces=p, mode=m) for c, p, m in inputs[nexh + len(corpus):][:3]], modes=modes, classes=hist,
        exhaustive_prefix_cases=nexh, corpus_cases=len(corpus),
        fidelity_divergences=sum(1 for c in bad.values() if c == 4), implementation_exceptions=len(impl_errors),
        exhaustive=False)
    return common.finish("C05", tier, seed, proofs, coverage, violations, [], t0,
                         assumptions=["the white-space reading fixed in DESIGN.md section 5/C05", "CR is outside the property's alphabet"])


if __name__ == "__main__":
    common.main(run)
