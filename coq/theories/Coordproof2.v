(* written addresses parse back: convert_coordinates (print ...) *)
From Coq Require Import List ZArith NArith Lia Bool ZifyBool.
From Coq Require DecimalN DecimalFacts DecimalPos.
Import ListNotations.
Require Import Coord Coordproof1.
Open Scope Z_scope.

Definition nosp (c : Z) : Prop := is_space c = false.
Definition isup (c : Z) : Prop := 65 <= c <= 90.
Definition isdg (c : Z) : Prop := 48 <= c <= 57.

Lemma up_nosp c : isup c -> nosp c.
Proof. unfold isup, nosp, is_space, in_range. lia. Qed.
Lemma dg_nosp c : isdg c -> nosp c.
Proof. unfold isdg, nosp, is_space, in_range. lia. Qed.
Lemma up_alpha c : isup c -> is_alpha c = true.
Proof. unfold isup, is_alpha, is_upper, is_lower, in_range. lia. Qed.
Lemma dg_not_alpha c : isdg c -> is_alpha c = false.
Proof. unfold isdg, is_alpha, is_upper, is_lower, in_range. lia. Qed.
Lemma dg_digit c : isdg c -> is_digit c = true.
Proof. unfold isdg, is_digit, in_range. lia. Qed.

(* strip is the identity on strings without white space *)
Lemma lstrip_id s : Forall nosp s -> lstrip s = s.
Proof. destruct 1 as [|c s Hc _]; [reflexivity|]. cbn [lstrip]. unfold nosp in Hc. now rewrite Hc. Qed.
Lemma strip_id s : Forall nosp s -> strip s = s.
Proof.
  intros H. unfold strip. rewrite (lstrip_id s H). rewrite lstrip_id; [apply rev_involutive|].
  apply Forall_rev. exact H.
Qed.

(* decimal text *)
Lemma chars_uint_chars u : chars_uint (uint_chars u) = u.
Proof. induction u; cbn [uint_chars chars_uint]; try reflexivity; rewrite IHu; reflexivity. Qed.
Lemma uint_chars_dg u : Forall isdg (uint_chars u).
Proof. induction u; cbn [uint_chars]; constructor; auto; unfold isdg; lia. Qed.
Lemma to_uint_nonnil n : N.to_uint n <> Decimal.Nil.
Proof. destruct n; cbn; [discriminate|]. apply DecimalPos.Unsigned.to_uint_nonnil. Qed.
Lemma print_N_dg n : Forall isdg (print_N n).
Proof. apply uint_chars_dg. Qed.
Lemma print_N_nonempty n : print_N n <> [].
Proof. unfold print_N. pose proof (to_uint_nonnil n). destruct (N.to_uint n); cbn; congruence. Qed.
Lemma forall_dg_digit s : Forall isdg s -> forallb is_digit s = true.
Proof. induction 1; cbn [forallb]; [reflexivity|]. rewrite dg_digit by assumption. assumption. Qed.
Lemma digits_val_print n : digits_val (print_N n) = Some (Z.of_N n).
Proof.
  unfold digits_val. pose proof (print_N_nonempty n) as Hne. destruct (print_N n) as [|c r] eqn:E; [congruence|].
  rewrite <- E. rewrite (forall_dg_digit _ (print_N_dg n)). unfold print_N. rewrite chars_uint_chars.
  now rewrite DecimalN.Unsigned.of_to.
Qed.
Lemma py_int_print n : py_int (print_N n) = Some (Z.of_N n).
Proof.
  unfold py_int. rewrite strip_id by (eapply Forall_impl; [apply dg_nosp|apply print_N_dg]).
  pose proof (print_N_nonempty n) as Hne. pose proof (print_N_dg n) as Hd. pose proof (digits_val_print n) as Hv.
  destruct (print_N n) as [|c r]; [congruence|]. inversion Hd as [|? ? Hc _]; subst.
  unfold isdg in Hc. destruct (Z.eqb_spec c 43); [lia|]. destruct (Z.eqb_spec c 45); [lia|]. exact Hv.
Qed.
Lemma print_row_eq y : 0 <= y -> print_row y = print_N (Z.to_N (y + 1)).
Proof. intros H. unfold print_row, py_str_int. destruct (Z.ltb_spec (y + 1) 0); [lia|reflexivity]. Qed.
Lemma print_row_dg y : 0 <= y -> Forall isdg (print_row y) /\ print_row y <> [].
Proof. intros H. rewrite print_row_eq by lia. split; [apply print_N_dg|apply print_N_nonempty]. Qed.
Lemma py_int_print_row y : 0 <= y -> py_int (print_row y) = Some (y + 1).
Proof. intros H. rewrite print_row_eq, py_int_print by lia. f_equal. lia. Qed.

(* the letter prefix *)
Lemma span_alpha_app a d : Forall isup a -> (match d with [] => True | c :: _ => is_alpha c = false end) -> span_alpha (a ++ d) = (a, d).
Proof.
  intros Ha Hd. induction Ha as [|c a Hc _ IH]; cbn [app span_alpha].
  - destruct d as [|c d]; [reflexivity|]. cbn [span_alpha]. now rewrite Hd.
  - rewrite up_alpha by assumption. now rewrite IH.
Qed.

(* one side of the colon: letters then digits, either possibly absent *)
Definition col_of (a : str) : option Z := alpha_to_digit a.
Lemma alpha_nil : alpha_to_digit [] = None.
Proof. reflexivity. Qed.

Lemma conv_part_letters_digits a y : Forall isup a -> 0 <= y ->
  conv_part (a ++ print_row y) = Some (alpha_to_digit a, Some y).
Proof.
  intros Ha Hy. destruct (print_row_dg y Hy) as [Hd Hne].
  unfold conv_part. rewrite span_alpha_app; [|exact Ha|].
  - rewrite py_int_print_row by lia. replace (y + 1 - 1) with y by lia.
    destruct (Z.eqb_spec y 0); cbn [negb andb]; [reflexivity|]. destruct (Z.leb_spec y 0); [lia|reflexivity].
  - destruct (print_row y) as [|c r]; [congruence|]. inversion Hd; subst. now apply dg_not_alpha.
Qed.
Lemma conv_part_letters a : Forall isup a -> conv_part a = Some (alpha_to_digit a, None).
Proof.
  intros Ha. unfold conv_part. rewrite <- (app_nil_r a) at 1. rewrite span_alpha_app by (auto; exact I). reflexivity.
Qed.

(* splitting at the colon *)
Lemma split1_none sep s acc : ~ In sep s -> split1 sep s acc = [rev acc ++ s].
Proof.
  revert acc. induction s as [|c s IH]; intros acc H; cbn [split1]; [now rewrite app_nil_r|].
  destruct (Z.eqb_spec c sep) as [->|Hn]; [exfalso; apply H; now left|].
  rewrite IH by (intros Hi; apply H; now right). cbn [rev]. now rewrite <- app_assoc.
Qed.
Lemma split1_at sep s1 s2 acc : ~ In sep s1 -> split1 sep (s1 ++ sep :: s2) acc = [rev acc ++ s1; s2].
Proof.
  revert acc. induction s1 as [|c s IH]; intros acc H; cbn [split1 app].
  - rewrite Z.eqb_refl. now rewrite app_nil_r.
  - destruct (Z.eqb_spec c sep) as [->|Hn]; [exfalso; apply H; now left|].
    rewrite IH by (intros Hi; apply H; now right). cbn [rev]. now rewrite <- app_assoc.
Qed.
Lemma not_in_of_forall (P : Z -> Prop) ch s : Forall P s -> ~ P ch -> ~ In ch s.
Proof. intros H Hn Hi. rewrite Forall_forall in H. apply Hn. now apply H. Qed.

Definition ld (c : Z) : Prop := isup c \/ isdg c.     (* letter or digit *)
Lemma ld_nosp c : ld c -> nosp c.
Proof. intros [H|H]; [now apply up_nosp|now apply dg_nosp]. Qed.
Lemma ld_app a d : Forall isup a -> Forall isdg d -> Forall ld (a ++ d).
Proof. intros Ha Hd. apply Forall_app; split; (eapply Forall_impl; [|eassumption]); intros c H; [now left|now right]. Qed.
Lemma ld_not c ch : ld c -> ch = 58 \/ ch = 36 \/ ch = 46 \/ ch = 39 -> c <> ch.
Proof. unfold ld, isup, isdg. lia. Qed.

(* the printed column *)
Lemma print_col_spec x : 0 <= x -> exists a, digit_to_alpha x = Some a /\ alpha_to_digit a = Some x /\ Forall isup a /\ a <> [].
Proof. intros H. destruct (alpha_digit_lemma x H) as (s & H1 & H2 & H3 & H4). exists s. auto. Qed.

Theorem print_parse_cell x y : 0 <= x -> 0 <= y ->
  exists s, print_cell x y = Some s /\ convert_coordinates s = Some [Some x; Some y].
Proof.
  intros Hx Hy. destruct (print_col_spec x Hx) as (a & Hp & Ha & Hup & _). destruct (print_row_dg y Hy) as [Hd _].
  exists (a ++ print_row y). unfold print_cell. rewrite Hp. split; [reflexivity|].
  unfold convert_coordinates.
  assert (Hld : Forall ld (a ++ print_row y)) by now apply ld_app.
  rewrite split1_none by (apply (not_in_of_forall ld); [exact Hld|unfold ld, isup, isdg; lia]).
  cbn [rev app conv_parts]. rewrite strip_id by (eapply Forall_impl; [apply ld_nosp|exact Hld]).
  rewrite conv_part_letters_digits by assumption. rewrite Ha. reflexivity.
Qed.

Theorem print_parse_area x y z t : 0 <= x -> 0 <= y -> 0 <= z -> 0 <= t ->
  exists s, print_area x y z t = Some s /\ convert_coordinates s = Some [Some x; Some y; Some z; Some t].
Proof.
  intros Hx Hy Hz Ht.
  destruct (print_col_spec x Hx) as (a & Hp & Ha & Hup & _). destruct (print_row_dg y Hy) as [Hd _].
  destruct (print_col_spec z Hz) as (b & Hq & Hb & Hupb & _). destruct (print_row_dg t Ht) as [Hdt _].
  exists ((a ++ print_row y) ++ 58 :: (b ++ print_row t)). unfold print_area, print_cell. rewrite Hp, Hq. split; [reflexivity|].
  unfold convert_coordinates.
  assert (Hld : Forall ld (a ++ print_row y)) by now apply ld_app.
  assert (Hld2 : Forall ld (b ++ print_row t)) by now apply ld_app.
  rewrite split1_at by (apply (not_in_of_forall ld); [exact Hld|unfold ld, isup, isdg; lia]).
  cbn [rev app conv_parts]. rewrite !strip_id by (eapply Forall_impl; [apply ld_nosp|assumption]).
  rewrite !conv_part_letters_digits by assumption. rewrite Ha, Hb. reflexivity.
Qed.

Theorem print_parse_cols x z : 0 <= x -> 0 <= z ->
  exists s, print_cols x z = Some s /\ convert_coordinates s = Some [Some x; None; Some z; None].
Proof.
  intros Hx Hz.
  destruct (print_col_spec x Hx) as (a & Hp & Ha & Hup & _). destruct (print_col_spec z Hz) as (b & Hq & Hb & Hupb & _).
  exists (a ++ 58 :: b). unfold print_cols, print_col. rewrite Hp, Hq. split; [reflexivity|].
  unfold convert_coordinates.
  rewrite split1_at by (apply (not_in_of_forall isup); [exact Hup|unfold isup; lia]).
  cbn [rev app conv_parts]. rewrite !strip_id by (eapply Forall_impl; [apply up_nosp|assumption]).
  rewrite !conv_part_letters by assumption. rewrite Ha, Hb. reflexivity.
Qed.

Lemma conv_part_digits y : 0 <= y -> conv_part (print_row y) = Some (None, Some y).
Proof. intros Hy. change (print_row y) with ([] ++ print_row y). rewrite conv_part_letters_digits by (auto). reflexivity. Qed.

Theorem print_parse_rows y t : 0 <= y -> 0 <= t ->
  convert_coordinates (print_rows y t) = Some [None; Some y; None; Some t].
Proof.
  intros Hy Ht. destruct (print_row_dg y Hy) as [Hd _]. destruct (print_row_dg t Ht) as [Hdt _].
  unfold convert_coordinates, print_rows.
  rewrite split1_at by (apply (not_in_of_forall isdg); [exact Hd|unfold isdg; lia]).
  cbn [rev app conv_parts]. rewrite !strip_id by (eapply Forall_impl; [apply dg_nosp|assumption]).
  rewrite !conv_part_digits by assumption. reflexivity.
Qed.

(* single column "C", single row "4" (the forms translate_from_any reads) *)
Theorem print_parse_col x : 0 <= x -> exists s, print_col x = Some s /\ convert_coordinates s = Some [Some x; None].
Proof.
  intros Hx. destruct (print_col_spec x Hx) as (a & Hp & Ha & Hup & _). exists a. split; [exact Hp|].
  unfold convert_coordinates. rewrite split1_none by (apply (not_in_of_forall isup); [exact Hup|unfold isup; lia]).
  cbn [rev app conv_parts]. rewrite strip_id by (eapply Forall_impl; [apply up_nosp|assumption]).
  rewrite conv_part_letters by assumption. now rewrite Ha.
Qed.
Theorem print_parse_row y : 0 <= y -> convert_coordinates (print_row y) = Some [None; Some y].
Proof.
  intros Hy. destruct (print_row_dg y Hy) as [Hd _].
  unfold convert_coordinates. rewrite split1_none by (apply (not_in_of_forall isdg); [exact Hd|unfold isdg; lia]).
  cbn [rev app conv_parts]. rewrite strip_id by (eapply Forall_impl; [apply dg_nosp|assumption]).
  now rewrite conv_part_digits.
Qed.
