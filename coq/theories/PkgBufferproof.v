(* PkgBufferproof.v — what open reads back from a reused buffer is the last archive written *)
From Coq Require Import List ZArith Arith Bool Lia.
Import ListNotations.
Require Import PkgBuffer.

Section BP.
Variable size : Z -> nat.
Hypothesis size_pos : forall z, (0 < size z)%nat.
Notation archive_cells := (archive_cells size).
Notation write := (write size).
Notation read := (read size).
Notation at_end := at_end.

Lemma archive_len : forall z, length (archive_cells z) = size z.
Proof. intros. unfold PkgBuffer.archive_cells. rewrite map_length, seq_length. reflexivity. Qed.

Lemma cells_eqb_refl : forall l, cells_eqb l l = true.
Proof. induction l as [|[z k] l IH]; cbn; [reflexivity|]. unfold cell_eqb. cbn. rewrite Z.eqb_refl, Nat.eqb_refl, IH. reflexivity. Qed.

Lemma archive_last : forall z, exists k r, rev (archive_cells z) = (z, k) :: r.
Proof.
  intros z. unfold PkgBuffer.archive_cells. pose proof (size_pos z) as H. destruct (size z) as [|n]; [lia|].
  rewrite seq_S, map_app, rev_app_distr. cbn. eauto.
Qed.

(* writing at the end appends; the position stays at the end *)
Lemma write_at_end : forall z b, at_end b -> cells (write z b) = cells b ++ archive_cells z /\ at_end (write z b).
Proof.
  intros z b H. unfold at_end in *. unfold PkgBuffer.write. cbn [cells pos]. rewrite H.
  rewrite firstn_all, skipn_all2 by lia. rewrite app_nil_r. split; [reflexivity|].
  rewrite app_length, archive_len. reflexivity.
Qed.

(* C03 (buffer targets): after a save that does not move the position, open reads the archive just written, whatever the buffer
   held before *)
Theorem read_after_append : forall z b, at_end b -> read (save_append size z b) = Some z /\ at_end (save_append size z b).
Proof.
  intros z b H. unfold save_append. destruct (write_at_end z b H) as [E A]. split; [|exact A].
  unfold PkgBuffer.read. rewrite E, rev_app_distr. destruct (archive_last z) as [k [r Er]]. rewrite Er. cbn [app].
  rewrite app_length, archive_len.
  replace (length (cells b) + size z - size z)%nat with (length (cells b)) by lia.
  rewrite skipn_app, skipn_all, Nat.sub_diag. cbn [skipn app].
  rewrite cells_eqb_refl, andb_true_r.
  assert (L : (size z <=? length (cells b) + size z)%nat = true) by (apply Nat.leb_le; lia). rewrite L. reflexivity.
Qed.

(* any number of saves into the same buffer: the last one is what is read *)
Theorem read_last_of_many : forall zs z b, at_end b ->
  read (save_append size z (fold_left (fun b z => save_append size z b) zs b)) = Some z.
Proof.
  intros zs z b H. apply read_after_append.
  revert b H. induction zs as [|z0 zs IH]; intros b H; cbn [fold_left]; [exact H|]. apply IH. apply (read_after_append z0 b H).
Qed.
End BP.

(* the rewound-but-not-truncated writer: a shorter archive written over a longer one is not what open reads back *)
Definition ex_size (z : Z) : nat := if Z.eqb z 1 then 3%nat else 2%nat.
Theorem read_after_rewind_refuted : exists z1 z2 b, at_end b /\ read ex_size (save_append ex_size z1 b) = Some z1 /\
  read ex_size (save_rewound ex_size z2 (save_append ex_size z1 b)) <> Some z2
  /\ read ex_size (save_append ex_size z2 (save_append ex_size z1 b)) = Some z2.
Proof. exists 1%Z, 2%Z, (mkB [] 0). repeat split; vm_compute; congruence. Qed.
