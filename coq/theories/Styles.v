(* Executable model of the style store of a document: Document.insert_style / get_style / _set_automatic_name /
   _unique_style_name / merge_styles_from / delete_styles / set_table_displayed / add_page_break_style
   (src/odfdo/document.py), Styles / Content lookup contexts (styles.py, content.py), Element.get_style /
   get_styles (element.py).  Parametric in the tables read from the source (Gen_Contexts.v instantiates them).
   Definitions only. *)
From Coq Require Import List ZArith Bool Arith.
Import ListNotations.
Open Scope Z_scope.

(* ------------------------------------------------------------------ names *)
(* style names are opaque except for the two generated shapes:
   NAuto n      "odfdo_auto_<n>" with <n> the canonical decimal of n           (AUTOMATIC_PREFIX)
   NAutoX n id  "odfdo_auto_<s>" where int(<s>) = n but <s> is not canonical ("007", "+7", "1_0"), string #id
   NTa n        "ta_<n>" canonical                                              (_unique_style_name("ta"))
   NOther id    any other string, #id *)
Inductive sname := NAuto (n : Z) | NAutoX (n id : Z) | NTa (n : Z) | NOther (id : Z).
Definition sname_eqb (a b : sname) : bool :=
  match a, b with
  | NAuto x, NAuto y | NTa x, NTa y | NOther x, NOther y => x =? y
  | NAutoX x i, NAutoX y j => (x =? y) && (i =? j)
  | _, _ => false
  end.
Definition opt_eqb {A} (eqb : A -> A -> bool) (a b : option A) : bool :=
  match a, b with None, None => true | Some x, Some y => eqb x y | _, _ => false end.

(* one child of a style container: tag, style:family attribute, style:name attribute, draw:name attribute,
   content identity *)
Record entry := mkE { etag : Z; efam : option Z; ename : option sname; edraw : option sname; eid : Z }.
Definition entry_eqb (a b : entry) : bool :=
  (etag a =? etag b) && opt_eqb Z.eqb (efam a) (efam b) && opt_eqb sname_eqb (ename a) (ename b)
  && opt_eqb sname_eqb (edraw a) (edraw b) && (eid a =? eid b).

(* ------------------------------------------------------------------ tables read from the source *)
(* container kinds: 0 office:styles, 1 office:automatic-styles, 2 office:master-styles, 3 office:font-face-decls *)
Record tables := mkTab {
  family_tag : list (Z * Z);          (* FAMILY_MAPPING : family -> tag *)
  std : list Z;                       (* FAMILY_ODF_STD *)
  false_rev : list (Z * Z);           (* FALSE_FAMILY_MAP_REVERSE : tag -> family *)
  ctx : list (Z * list nat);          (* CONTEXT_MAPPING : family -> container kinds, in lookup order *)
  ctx_default : list nat;             (* the "or (...)" fallback of Styles._get_style_contexts *)
  content_ctx_font : list nat;        (* Content._get_style_contexts("font-face") *)
  content_ctx : list nat;             (* Content._get_style_contexts(other) *)
  t_default : Z; t_fill_image : Z; t_marker : Z; t_style : Z;
  f_master : Z; f_font : Z; f_page_layout : Z; f_table : Z; f_paragraph : Z }.

Fixpoint zassoc {A} (k : Z) (l : list (Z * A)) : option A :=
  match l with [] => None | (k', v) :: r => if k =? k' then Some v else zassoc k r end.
Definition zmem (k : Z) (l : list Z) : bool := existsb (Z.eqb k) l.

(* ------------------------------------------------------------------ the store *)
(* slot = 4 * part + kind;  part 0 = content.xml, part 1 = styles.xml;  None = the container element is absent *)
Definition store := list (option (list entry)).
Definition slot_of (styles_part : bool) (kind : nat) : nat := ((if styles_part then 4 else 0) + kind)%nat.
Definition slot_in_styles_part (s : nat) : bool := (4 <=? s)%nat.
Definition get_slot (st : store) (s : nat) : option (list entry) := nth s st None.
Fixpoint set_slot (st : store) (s : nat) (l : list entry) : store :=
  match st, s with
  | [], _ => []
  | _ :: r, O => Some l :: r
  | x :: r, S s' => x :: set_slot r s' l
  end.

Inductive res (A : Type) := Ok (a : A) | Err.
Arguments Ok {A}. Arguments Err {A}.

Inductive outcome (A : Type) := Done (a : A) | Rejected | Crashed.
Arguments Done {A}. Arguments Rejected {A}. Arguments Crashed {A}.

Section Model.
Variable T : tables.

Definition is_std (f : Z) : bool := zmem f (std T).
(* Style.family : FALSE_FAMILY_MAP_REVERSE.get(tag, style:family attribute) *)
Definition entry_family (e : entry) : option Z :=
  match zassoc (etag e) (false_rev T) with Some f => Some f | None => efam e end.

(* Element.get_style on one container: _get_style_tagname + make_xpath_query
   named:   (FAMILY_MAPPING[f] | style:default-style if f standard)[@style:family=f if f standard][@style:name=n]
   default: style:default-style[@style:family=f if f standard] *)
Definition fam_ok (f : Z) (e : entry) : bool := if is_std f then opt_eqb Z.eqb (efam e) (Some f) else true.
Definition match_named (f tg : Z) (n : sname) (e : entry) : bool :=
  ((etag e =? tg) || (is_std f && (etag e =? t_default T))) && fam_ok f e && opt_eqb sname_eqb (ename e) (Some n).
Definition match_default (f : Z) (e : entry) : bool := (etag e =? t_default T) && fam_ok f e.
(* get_styles(family) on one container: same tag / family test, any name *)
Definition match_family (f tg : Z) (e : entry) : bool :=
  ((etag e =? tg) || (is_std f && (etag e =? t_default T))) && fam_ok f e.
(* get_styles() without family: (style:default-style | *[@style:name] | draw:fill-image | draw:marker) *)
Definition match_any (e : entry) : bool :=
  (etag e =? t_default T) || (match ename e with Some _ => true | None => false end)
  || (etag e =? t_fill_image T) || (etag e =? t_marker T).

(* what the Python attribute .name reads: draw:name for DrawFillImage, style:name for the Style classes *)
Definition obj_name (e : entry) : option sname := if etag e =? t_fill_image T then edraw e else ename e.

Fixpoint find_idx {A} (p : A -> bool) (l : list A) : option nat :=
  match l with [] => None | x :: r => if p x then Some O else option_map S (find_idx p r) end.

Definition elem_get_style (l : list entry) (f : Z) (n : option sname) : res (option nat) :=
  match n with
  | None => Ok (find_idx (match_default f) l)
  | Some nm => match zassoc f (family_tag T) with
               | None => Err                                   (* ValueError: unknown family *)
               | Some tg => Ok (find_idx (match_named f tg nm) l)
               end
  end.

(* Styles._get_style_contexts(family) / Content._get_style_contexts(family) as slots *)
Definition part_slots (styles_part : bool) (f : Z) : list nat :=
  if styles_part then
    map (slot_of true) (match zassoc f (ctx T) with Some (k :: r) => k :: r | _ => ctx_default T end)
  else map (slot_of false) (if f =? f_font T then content_ctx_font T else content_ctx T).

Fixpoint slots_get_style (st : store) (slots : list nat) (f : Z) (n : option sname) : res (option (nat * nat)) :=
  match slots with
  | [] => Ok None
  | s :: r => match get_slot st s with
              | None => slots_get_style st r f n              (* if context is None: continue *)
              | Some l => match elem_get_style l f n with
                          | Err => Err
                          | Ok (Some i) => Ok (Some (s, i))
                          | Ok None => slots_get_style st r f n
                          end
              end
  end.
Definition part_get_style (st : store) (styles_part : bool) (f : Z) (n : option sname) :=
  slots_get_style st (part_slots styles_part f) f n.
(* Document.get_style: content.xml first, then styles.xml *)
Definition doc_get_style (st : store) (f : Z) (n : option sname) : res (option (nat * nat)) :=
  match part_get_style st false f n with
  | Err => Err
  | Ok (Some x) => Ok (Some x)
  | Ok None => part_get_style st true f n
  end.
Definition entry_at (st : store) (loc : nat * nat) : option entry :=
  match get_slot st (fst loc) with Some l => nth_error l (snd loc) | None => None end.

(* ------------------------------------------------------------------ _set_automatic_name *)
(* styles = content.get_styles(family) + styles.get_styles(family, automatic=True) *)
Definition family_entries (st : store) (slots : list nat) (f tg : Z) : list entry :=
  flat_map (fun s => match get_slot st s with Some l => filter (match_family f tg) l | None => [] end) slots.
Fixpoint max_auto (pinned : bool) (l : list entry) (acc : Z) : res Z :=
  match l with
  | [] => Ok acc
  | e :: r => match ename e with
              | None => if pinned then Err                    (* None.startswith: AttributeError *)
                        else max_auto pinned r acc            (* repaired: "if not existing_style.name: continue" *)
              | Some (NAuto n) | Some (NAutoX n _) => max_auto pinned r (Z.max acc n)
              | Some _ => max_auto pinned r acc
              end
  end.
(* pinned code: get_styles(family, automatic=True) = content + automatic-styles of styles.xml only (F94);
   repaired: get_styles(family) = content + every container styles.xml searches for the family *)
Definition auto_scope (pinned : bool) (f : Z) : list nat :=
  part_slots false f ++ (if pinned then [slot_of true 1] else part_slots true f).
Definition set_automatic_name (pinned : bool) (st : store) (f : Z) : res sname :=
  match zassoc f (family_tag T) with
  | None => Err
  | Some tg => match max_auto pinned (family_entries st (auto_scope pinned f) f tg) 0 with
               | Ok m => Ok (NAuto (m + 1))
               | Err => Err
               end
  end.

(* ------------------------------------------------------------------ insert_style *)

Fixpoint remove_nth {A} (l : list A) (i : nat) : list A :=
  match l, i with [], _ => [] | _ :: r, O => r | x :: r, S j => x :: remove_nth r j end.

(* "if existing is not None: style_container.delete(existing)"; "style_container.append(style_element)" *)
Definition delete_then_append (st : store) (container : nat) (existing : option (nat * nat)) (s : entry)
  : outcome store :=
  match get_slot st container with
  | None => Crashed                                            (* the container element is missing *)
  | Some l =>
    match existing with
    | None => Done (set_slot st container (l ++ [s]))
    | Some (sl, i) =>
      if Nat.eqb sl container then Done (set_slot st container (remove_nth l i ++ [s]))
      else Crashed                                             (* lxml: "Element is not a child of this node" *)
    end
  end.

Definition with_name (s : entry) (n : option sname) : entry := mkE (etag s) (efam s) n (edraw s) (eid s).
Definition with_tag (s : entry) (t : Z) : entry := mkE t (efam s) (ename s) (edraw s) (eid s).

(* pinned code: the name argument is applied to the style only on the automatic path (F92);
   repaired: "elif hasattr(style, 'name'): style.name = name" right after reading the family *)
Definition insert_style (pinned : bool) (st : store) (s0 : entry) (name_arg : option sname) (automatic default : bool)
  : outcome (store * option sname) :=
  let s := if pinned then s0 else match name_arg with Some n => with_name s0 (Some n) | None => s0 end in
  match entry_family s with
  | None => Rejected                                           (* ValueError: invalid style *)
  | Some f =>
    let name := match name_arg with Some n => Some n | None => ename s end in
    let finish (ex : res (option (nat * nat))) (container : nat) (s' : entry) :=
        match ex with
        | Err => Crashed
        | Ok e => match delete_then_append st container e s' with
                  | Done st' => Done (st', ename s')
                  | Rejected => Rejected | Crashed => Crashed
                  end
        end in
    if f =? f_master T then finish (part_get_style st true f name) (slot_of true 2) s
    else if f =? f_font T then
      if default then finish (part_get_style st true f name) (slot_of true 3) s
      else finish (part_get_style st false f name) (slot_of false 3) s
    else if f =? f_page_layout T then finish (part_get_style st true f name) (slot_of true 1) s
    else match zassoc f (family_tag T) with
         | None => Rejected                                    (* ValueError: invalid style *)
         | Some _ =>
           match name, automatic, default with
           | Some n, false, false => finish (part_get_style st true f name) (slot_of true 0) s
           | _, true, false =>
             match name with
             | Some n => finish (part_get_style st false f name) (slot_of false 1) (with_name s name)
             | None => match set_automatic_name pinned st f with
                       | Err => Crashed
                       | Ok n' => finish (Ok None) (slot_of false 1) (with_name s (Some n'))
                       end
             end
           | _, false, true =>
             let s1 := with_tag s (t_default T) in
             match name with
             | Some _ => match ename s with
                         | None => Crashed                     (* del_attribute("style:name"): KeyError *)
                         | Some _ => finish (part_get_style st true f None) (slot_of true 0) (with_name s1 None)
                         end
             | None => finish (part_get_style st true f None) (slot_of true 0) s1
             end
           | _, _, _ => Rejected                               (* AttributeError: invalid combination *)
           end
         end
  end.

(* ------------------------------------------------------------------ get_styles() / delete_styles / _unique_style_name *)
(* Document.get_styles(): content (font-face-decls, automatic-styles) then styles.xml "all possibilities"
   (automatic-styles, styles, master-styles, font-face-decls) *)
Definition all_slots : list nat := [3; 1; 5; 4; 6; 7]%nat.
Definition all_styles (st : store) : list (nat * entry) :=
  flat_map (fun s => match get_slot st s with Some l => map (fun e => (s, e)) (filter match_any l) | None => [] end) all_slots.

Definition deletable (e : entry) : bool := match_any e && (match obj_name e with Some _ => true | None => false end).
Definition delete_styles (st : store) : store * Z :=
  fold_left (fun acc s => match get_slot (fst acc) s with
                          | Some l => (set_slot (fst acc) s (filter (fun e => negb (deletable e)) l),
                                       snd acc + Z.of_nat (length (filter deletable l)))
                          | None => acc end) all_slots (st, 0).

Fixpoint first_free (fuel : nat) (idx : Z) (names : list (option sname)) : Z :=
  match fuel with
  | O => idx
  | S f => if existsb (opt_eqb sname_eqb (Some (NTa idx))) names then first_free f (idx + 1) names else idx
  end.
Definition unique_ta (st : store) : sname :=
  let names := map (fun p => obj_name (snd p)) (all_styles st) in
  NTa (first_free (S (length names)) 0 names).

(* ------------------------------------------------------------------ merge_styles_from *)
(* one style of the other document, found in slot sl: duplicate = part.get_style(family, name); duplicate.delete();
   dest.append(style).  [moved] = the code as pinned appends the element itself, which removes it from the other
   document (F18); the repaired code appends a clone. *)
Definition remove_at (st : store) (loc : nat * nat) : store :=
  match get_slot st (fst loc) with Some l => set_slot st (fst loc) (remove_nth l (snd loc)) | None => st end.
(* get_style("", name): (style:default-style | *[@style:name] | draw:fill-image | draw:marker)[@draw:name=name] *)
Definition match_draw (dn : sname) (e : entry) : bool := match_any e && opt_eqb sname_eqb (edraw e) (Some dn).
Fixpoint slots_get_draw (st : store) (slots : list nat) (dn : sname) : option (nat * nat) :=
  match slots with
  | [] => None
  | s :: r => match get_slot st s with
              | None => slots_get_draw st r dn
              | Some l => match find_idx (match_draw dn) l with
                          | Some i => Some (s, i)
                          | None => slots_get_draw st r dn
                          end
              end
  end.
Definition nofamily_slots (styles_part : bool) : list nat := if styles_part then [5; 4; 6; 7]%nat else [3; 1]%nat.

Definition merge_one (pinned : bool) (st : store) (sl : nat) (e : entry) : outcome store :=
  match get_slot st sl with
  | None => Crashed
  | Some _ =>
    let name := obj_name e in
    let by_family :=
        match entry_family e with
        | Some f => part_get_style st (slot_in_styles_part sl) f name
        | None => match name with                               (* family "" / None: looked up by draw:name *)
                  | Some dn => Ok (slots_get_draw st (nofamily_slots (slot_in_styles_part sl)) dn)
                  | None => slots_get_style st (nofamily_slots (slot_in_styles_part sl)) 0 None
                  end
        end in
    let dup :=
        if pinned then by_family
        else match name with
             | None => if etag e =? t_default T then by_family
                       else match edraw e with                  (* repaired (F96): draw:marker, by its draw:name in dest *)
                            | Some dn => Ok (slots_get_draw st [sl] dn)
                            | None => Ok None
                            end
             | Some _ => by_family
             end in
    match dup with
    | Err => Crashed
    | Ok d =>
      let st1 := match d with Some loc => remove_at st loc | None => st end in
      match get_slot st1 sl with
      | Some l => Done (set_slot st1 sl (l ++ [e]))
      | None => Crashed
      end
    end
  end.
Fixpoint merge_list (pinned : bool) (st : store) (l : list (nat * entry)) : outcome store :=
  match l with
  | [] => Done st
  | (sl, e) :: r => match merge_one pinned st sl e with Done st' => merge_list pinned st' r | x => x end
  end.
Definition remove_listed (other : store) : store :=
  fold_left (fun acc s => match get_slot acc s with
                          | Some l => set_slot acc s (filter (fun e => negb (match_any e)) l)
                          | None => acc end) all_slots other.
(* returns (self', other') *)
Definition merge_styles_from (pinned : bool) (self other : store) : outcome (store * store) :=
  match merge_list pinned self (all_styles other) with
  | Done st' => Done (st', if pinned then remove_listed other else other)
  | Rejected => Rejected | Crashed => Crashed
  end.

(* ------------------------------------------------------------------ set_table_displayed / add_page_break_style *)
Record sdoc := mkS { sstore : store; stables : list (option sname) }.   (* table:style-name of each table *)
Fixpoint set_nth {A} (l : list A) (i : nat) (x : A) : list A :=
  match l, i with [], _ => [] | _ :: r, O => x :: r | y :: r, S j => y :: set_nth r j x end.

(* eid_created: content of the style created when the table has none; eid_final: content of the new style after
   set_properties (both opaque, supplied by the caller) *)
Definition set_table_displayed (pinned : bool) (d : sdoc) (tidx : nat) (eid_created eid_final : Z) : outcome sdoc :=
  match nth_error (stables d) tidx with
  | None => Crashed
  | Some sn =>
    match doc_get_style (sstore d) (f_table T) sn with
    | Err => Crashed
    | Ok found =>
      let create :=
          let orig := mkE (t_style T) (Some (f_table T)) (Some (unique_ta (sstore d))) None eid_created in
          match insert_style pinned (sstore d) orig None true false with
          | Done (st1, _) => Done (st1, orig)
          | Rejected => Rejected | Crashed => Crashed
          end in
      let step1 :=
        match match found with Some loc => entry_at (sstore d) loc | None => None end with
        | Some orig =>
          (* a table without style name: get_table_style returns the default table style; the pinned code clones that
             style:default-style element into office:automatic-styles (F97), the repaired code creates a new style *)
          if pinned || negb (etag orig =? t_default T) then Done (sstore d, orig) else create
        | None => create
        end in
      match step1 with
      | Done (st1, orig) =>
        let nm := unique_ta st1 in
        let new := mkE (etag orig) (efam orig) (Some nm) (edraw orig) eid_final in
        match insert_style pinned st1 new None true false with
        | Done (st2, _) => Done (mkS st2 (set_nth (stables d) tidx (Some nm)))
        | Rejected => Rejected | Crashed => Crashed
        end
      | Rejected => Rejected | Crashed => Crashed
      end
    end
  end.

(* existing_ok: Some true = a style (paragraph, "odfdopagebreak") is found and has fo:break-after="page";
   Some false = not found or found without usable properties; None = found, has properties, but no fo:break-after
   key (KeyError) *)
Definition add_page_break_style (pinned : bool) (st : store) (n_pagebreak : sname) (existing_ok : option bool) (eid_new : Z)
  : outcome store :=
  match existing_ok with
  | None => Crashed
  | Some true => Done st
  | Some false =>
    match insert_style pinned st (mkE (t_style T) (Some (f_paragraph T)) (Some n_pagebreak) None eid_new) None false false with
    | Done (st', _) => Done st'
    | Rejected => Rejected | Crashed => Crashed
    end
  end.

(* ------------------------------------------------------------------ the invariant and the specification side *)
(* no two named styles (or two default styles) with the same tag class, family and name in one container *)
Definition keyed (e : entry) : bool := (etag e =? t_default T) || (match ename e with Some _ => true | None => false end).
Definition same_key (a b : entry) : bool :=
  (etag a =? etag b) && opt_eqb Z.eqb (entry_family a) (entry_family b) && opt_eqb sname_eqb (ename a) (ename b).
Fixpoint uniq_list (l : list entry) : bool :=
  match l with
  | [] => true
  | e :: r => (negb (keyed e) || negb (existsb (same_key e) r)) && uniq_list r
  end.
Definition uniq (st : store) : bool :=
  forallb (fun c => match c with Some l => uniq_list l | None => true end) st.

(* where the property says a style must land: (styles part?, kind) *)
Inductive mode := MCommon | MAutomatic | MDefault.
Definition required_slot (f : Z) (m : mode) : nat :=
  if f =? f_master T then slot_of true 2
  else if f =? f_font T then (match m with MDefault => slot_of true 3 | _ => slot_of false 3 end)
  else if f =? f_page_layout T then slot_of true 1
  else match m with MCommon => slot_of true 0 | MAutomatic => slot_of false 1 | MDefault => slot_of true 0 end.

End Model.

Arguments Ok {A}. Arguments Err {A}.
