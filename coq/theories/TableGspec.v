(* TableGspec.v — what property C08 demands of every getter, stated on the grid specification (no runs, no maps):
   WHICH logical positions a read returns, in which order and nesting, with which content; which getters are documented to
   return copies and which expand repetitions is TableG.promises_copy / TableG.expands.  Definitions only. *)
From Coq Require Import List ZArith Bool Arith.
Import ListNotations.
Require Import Vault Row Table Grid Tableabs TableB TableG.
Local Open Scope Z_scope.

Inductive sres := SCells (l : list (list (Z * Z * cell))) | SRows (l : list (Z * list cell)) | SCols (l : list Z).
(* the integers a .. b, both included *)
Definition zint (a b : Z) : list Z := map (fun d : nat => a + Z.of_nat d) (seq 0 (Z.to_nat (b - a + 1))).
Definition lo (s : option Z) : Z := Z.max 0 (match s with Some s => s | None => 0 end).
Definition hi (e : option Z) (len : Z) : Z := match e with Some e => Z.min e (len - 1) | None => len - 1 end.

(* [pad] = true: the documented reading of get_cells(area) ("the exact number of cells of the area", clipped to the table
   width like get_values); [pad] = false: the reading the code implements (each row gives the cells of the area it STORES) *)
Definition spec_get (pad : bool) (g : gridT) (q : getter) : sres :=
  let h := gheight g in let w := ncols g in
  let ny y := norm_coord y h in let nx x := norm_coord x w in
  let gc x y := nth (Z.to_nat x) (g_row y g) empty_cell in
  let rlen y := Z.of_nat (length (g_row y g)) in
  match q with
  | GGetCell x y _ _ => SCells [[(nx x, ny y, gc (nx x) (ny y))]]
  | GGetRow y _ => SRows [(ny y, g_row (ny y) g)]
  | GGetCells (Some (x, y, z, e)) =>
      SCells (map (fun yy => map (fun xx => (xx, yy, gc xx yy)) (zint (nx x) (Z.min (nx z) (if pad then w - 1 else Z.min (w - 1) (rlen yy - 1))))) (zint (ny y) (Z.min (ny e) (h - 1))))
  | GGetCells None | GCellsP =>
      SCells (map (fun yy => map (fun xx => (xx, yy, gc xx yy)) (zint 0 (rlen yy - 1))) (zint 0 (h - 1)))
  | GGetRows (Some (y, e)) => SRows (map (fun yy => (yy, g_row yy g)) (zint (ny y) (Z.min (ny e) (h - 1))))
  | GGetRows None => SRows (map (fun yy => (yy, g_row yy g)) (zint 0 (h - 1)))
  | GTraverse s e => SRows (map (fun yy => (yy, g_row yy g)) (zint (lo s) (hi e h)))
  | GGetColumn x => SCols [nx x]
  | GGetColumns (Some (x, z)) => SCols (zint (nx x) (Z.min (nx z) (w - 1)))
  | GGetColumns None => SCols (zint 0 (w - 1))
  | GTraverseColumns s e => SCols (zint (lo s) (hi e w))
  | GColumnCells x => SCells [map (fun yy => (nx x, yy, gc (nx x) yy)) (zint 0 (h - 1))]
  | GRowGetCell y _ x _ => let yy := ny y in let xx := norm_coord x (rlen yy) in SCells [[(xx, yy, gc xx yy)]]
  | GRowTraverse y _ s e => let yy := ny y in SCells [map (fun xx => (xx, yy, gc xx yy)) (zint (lo s) (hi e (rlen yy)))]
  | GRowCells y _ => let yy := ny y in SCells [map (fun xx => (xx, yy, gc xx yy)) (zint 0 (rlen yy - 1))]
  end.

(* a model result meets the specification: same nesting, every object carries the addressed coordinates and the content
   of that position, no repeat when the read expands, Detached when a copy is promised *)
Definition oz_eqb (a : option Z) (b : Z) : bool := match a with Some a => a =? b | None => false end.
Definition h_detached (h : handle) : bool := match h with Detached => true | _ => false end.
Definition cobj_meets (copy exp : bool) (o : cobj) (s : Z * Z * cell) : bool :=
  let '(x, y, c) := s in
  oz_eqb (c_x o) x && oz_eqb (c_y o) y && cell_eqb (c_val o) c && (negb exp || (c_rep o =? 1)%nat) && (negb copy || h_detached (c_h o)).
Definition robj_meets (copy exp : bool) (o : robj) (s : Z * list cell) : bool :=
  oz_eqb (r_y o) (fst s) && cells_eqb (expand (snd (r_val o))) (snd s) && (negb exp || (r_rep o =? 1)%nat) && (negb copy || h_detached (r_h o)).
Definition kobj_meets (copy exp : bool) (o : kobj) (s : Z) : bool :=
  oz_eqb (k_x o) s && (negb exp || (k_rep o =? 1)%nat) && (negb copy || h_detached (k_h o)).
Definition forall2b {A B} (f : A -> B -> bool) (a : list A) (b : list B) : bool :=
  (length a =? length b)%nat && forallb (fun p => f (fst p) (snd p)) (combine a b).
Definition meets (copy exp : bool) (r : gres) (s : sres) : bool :=
  match r, s with
  | GCells l, SCells l' => forall2b (forall2b (cobj_meets copy exp)) l l'
  | GRowsR l, SRows l' => forall2b (robj_meets copy exp) l l'
  | GColsR l, SCols l' => forall2b (kobj_meets copy exp) l l'
  | _, _ => false end.

(* the statement of C08 for one getter on one table: the code as it is against the documented reading ... *)
Definition C08_holds (t : tstate) (q : getter) : Prop :=
  meets (promises_copy q) (expands q) (m_get false false t q) (spec_get true (abs_t t) q) = true.
(* ... and against the reading it implements for get_cells(area) (cells a row does not store are not returned) *)
Definition C08_holds_as_stored (t : tstate) (q : getter) : Prop :=
  meets (promises_copy q) (expands q) (m_get false false t q) (spec_get false (abs_t t) q) = true.
(* ... and the candidate repair of F30 against the documented reading *)
Definition C08_holds_padded (t : tstate) (q : getter) : Prop :=
  meets (promises_copy q) (expands q) (m_get false true t q) (spec_get true (abs_t t) q) = true.
Definition is_area_get_cells (q : getter) : bool := match q with GGetCells (Some _) => true | _ => false end.
