(* Tablexml2.v — raw abstraction of a table:table that may contain the wrapper elements table:table-header-rows,
   table:table-rows, table:table-header-columns, table:table-columns and the group elements table:table-row-group,
   table:table-column-group (definitions only).

   What odfdo sees (its XPath unions): the rows / columns that are direct children or children of the four wrappers, in
   document order — [flatten]; rows and columns inside GROUP elements are invisible to every operation.
   The vault code addresses items by child index of the table element, so a row/column operation that has to insert or
   delete next to a WRAPPED item refuses with ValueError("Element is not a child of this node") before changing
   anything; edits that only change a repeat attribute or the cells of an unrepeated row work in place. *)
From Coq Require Import List ZArith NArith Bool Arith.
Import ListNotations.
Require Import Vault Row Table Tablexml.

Inductive xnode2 :=
| Y1 (n : xnode)                         (* a direct column / row / other child *)
| YHeaderRows (l : list xnode)           (* table:table-header-rows and its children *)
| YRows (l : list xnode)                 (* table:table-rows *)
| YHeaderCols (l : list xnode)           (* table:table-header-columns *)
| YCols (l : list xnode)                 (* table:table-columns *)
| YRowGroup (id : Z)                     (* table:table-row-group: opaque, id = its canonical content *)
| YColGroup (id : Z).                    (* table:table-column-group *)
Definition xtable2 := list xnode2.

Definition flatten1 (n : xnode2) : xtable :=
  match n with
  | Y1 a => [a] | YHeaderRows l | YRows l | YHeaderCols l | YCols l => l
  | YRowGroup _ | YColGroup _ => [] end.
Definition flatten (x : xtable2) : xtable := flat_map flatten1 x.
Definition groups (x : xtable2) : list Z :=
  flat_map (fun n => match n with YRowGroup i | YColGroup i => [i] | _ => [] end) x.

Definition is_row (n : xnode) : bool := match n with XRow _ _ _ => true | _ => false end.
Definition is_col (n : xnode) : bool := match n with XCol _ _ => true | _ => false end.
(* a wrapper holds at least one item, all of its own kind *)
Definition wrapper_ok (n : xnode2) : bool :=
  match n with
  | YHeaderRows l | YRows l => negb (match l with [] => true | _ => false end) && forallb is_row l
  | YHeaderCols l | YCols l => negb (match l with [] => true | _ => false end) && forallb is_col l
  | _ => true end.
(* column-ish children precede row-ish children *)
Definition rowish (n : xnode2) : bool :=
  match n with Y1 (XRow _ _ _) | YHeaderRows _ | YRows _ | YRowGroup _ => true | _ => false end.
Definition colish (n : xnode2) : bool :=
  match n with Y1 (XCol _ _) | YHeaderCols _ | YCols _ | YColGroup _ => true | _ => false end.
Fixpoint cols_first2 (seen_row : bool) (x : xtable2) : bool :=
  match x with
  | [] => true
  | n :: r => if colish n then negb seen_row && cols_first2 seen_row r
              else cols_first2 (seen_row || rowish n) r
  end.
(* structural validity with wrappers: the visible table is valid, the wrappers are well formed, order is kept *)
Definition XmlOK2 (x : xtable2) : bool :=
  XmlOK (flatten x) && forallb wrapper_ok x && cols_first2 false x.

(* equality of raw tables (to state "the call refused and left the table untouched") *)
Definition attr_eqb (a b : xattr) : bool :=
  match a, b with None, None => true | Some s, Some s' => list_eqb N.eqb s s' | _, _ => false end.
Definition xcell_eqb (a b : xcell) : bool :=
  let '(XC f r v s) := a in let '(XC f' r' v' s') := b in Bool.eqb f f' && attr_eqb r r' && (v =? v')%Z && (s =? s')%Z.
Definition xnode_eqb (a b : xnode) : bool :=
  match a, b with
  | XCol r s, XCol r' s' => attr_eqb r r' && (s =? s')%Z
  | XRow r s k, XRow r' s' k' => attr_eqb r r' && (s =? s')%Z && list_eqb xcell_eqb k k'
  | XOther, XOther => true
  | _, _ => false end.
Definition xnode2_eqb (a b : xnode2) : bool :=
  match a, b with
  | Y1 n, Y1 n' => xnode_eqb n n'
  | YHeaderRows l, YHeaderRows l' | YRows l, YRows l' | YHeaderCols l, YHeaderCols l' | YCols l, YCols l' => list_eqb xnode_eqb l l'
  | YRowGroup i, YRowGroup i' | YColGroup i, YColGroup i' => (i =? i')%Z
  | _, _ => false end.
Definition xtable2_eqb (a b : xtable2) : bool := list_eqb xnode2_eqb a b.
