#!/bin/bash
# offline build of the whole Coq development (full .vo build), plus hygiene scan
set -e
cd "$(dirname "$0")"
/venv/bin/python - <<'PY'
import sys; sys.path.insert(0, "harness")
import common
common.WORK.mkdir(exist_ok=True)
common.coq_project()
bad = common.forbidden_scan()
if bad:
    print("forbidden constructs:", bad); sys.exit(1)
PY
# data tables regenerated from /repo's current source (Gen_*.v, git-ignored): every harness/gen_*.py and harness/*_gen.py
for g in harness/gen_*.py harness/*_gen.py; do
  [ -f "$g" ] || continue
  echo "generator: $g"; PYTHONPATH=/repo/src PYTHONHASHSEED=0 /venv/bin/python "$g"
done
/venv/bin/python - <<'PY'
import sys; sys.path.insert(0, "harness")
import common
common.coq_project()
PY
cd coq && timeout 3000 make -j16
