(* Transformproof18.v — set_span(area, merge=True): which cells are cleared, which value the first cell receives (the
   join of the contents of the contributing cells in row-major order), the marks; and the checker's set_span_merge_law. *)
From Coq Require Import List ZArith Lia Bool Arith.
Import ListNotations.
Require Import Vault Vaultproof Row Table Grid Tableabs Tableproof Tableproof8 Transform Transformspec Transformproof4
               Transformproof6 Transformproof7 Transformproof8 Transformproof14 Transformchk.
Open Scope Z_scope.

Section Merge.
Variable a : calg.

(* ---- a block of the shape of the area, marked and written: the generic explicit form ---- *)
Lemma marked_block_explicit x y z t g (cells1 : list (list cell)) : 0 <= x <= z -> 0 <= y <= t ->
  length cells1 = Z.to_nat (t + 1 - y) ->
  (forall j', (j' < Z.to_nat (t + 1 - y))%nat -> length (nth j' cells1 []) = Z.to_nat (z + 1 - x)) ->
  forall i j, 0 <= i -> 0 <= j ->
  gcell i j (g_step g (OSetLines false x y (lines_of (mark_span a (z - x + 1) (t - y + 1) cells1)))) =
    if in_area x y z t i j then
      let c1 := nth (Z.to_nat (i - x)) (nth (Z.to_nat (j - y)) cells1 []) empty_cell in
      (if (i =? x) && (j =? y) then (ca_add_span a (fst c1) (z - x + 1) (t - y + 1), snd c1) else cov a c1)
    else gcell i j g.
Proof.
  intros Hx Hy Hlen Hrl i j Hi Hj. rewrite gcell_step_set_lines by lia.
  unfold in_block, in_area. rewrite mark_span_length, Hlen.
  destruct (Z.leb_spec y j); destruct (Z.leb_spec j t); destruct (Z.ltb_spec j (y + Z.of_nat (Z.to_nat (t + 1 - y))));
    try lia; cbn [andb]; try (rewrite !Bool.andb_false_r; reflexivity).
  assert (Hj' : (Z.to_nat (j - y) < Z.to_nat (t + 1 - y))%nat) by lia.
  rewrite mark_span_row_length, (Hrl _ Hj').
  destruct (Z.leb_spec x i); destruct (Z.leb_spec i z); destruct (Z.ltb_spec i (x + Z.of_nat (Z.to_nat (z + 1 - x))));
    try lia; cbn [andb]; try reflexivity.
  assert (Hi' : (Z.to_nat (i - x) < Z.to_nat (z + 1 - x))%nat) by lia.
  rewrite mark_span_nth by (rewrite ?Hlen, ?(Hrl _ Hj'); lia). cbv zeta.
  destruct (Z.eqb_spec i x); destruct (Z.eqb_spec j y); destruct (Nat.eqb_spec (Z.to_nat (i - x)) 0); destruct (Nat.eqb_spec (Z.to_nat (j - y)) 0);
    cbn [andb]; try reflexivity; lia.
Qed.

(* ---- merge_cells keeps the shape; its cells ---- *)
Definition any_contrib (cells : list (list cell)) : bool := existsb (existsb (contributes a)) cells.
Lemma merge_cells_length mid cells : length (merge_cells a mid cells) = length cells.
Proof.
  unfold merge_cells. destruct (existsb (existsb (contributes a)) cells).
  - destruct cells as [|[|c r0] rs]; cbn [map length]; rewrite ?map_length; reflexivity.
  - apply map_length.
Qed.
Lemma merge_cells_nth mid cells i' j' : (j' < length cells)%nat -> (i' < length (nth j' cells []))%nat ->
  length (nth j' (merge_cells a mid cells) []) = length (nth j' cells []) /\
  nth i' (nth j' (merge_cells a mid cells) []) empty_cell =
    if ((i' =? 0) && (j' =? 0))%nat && any_contrib cells then (mid, 0) else merge_clear a (nth i' (nth j' cells []) empty_cell).
Proof.
  intros Hj Hi.
  assert (Hcl : length (nth j' (map (map (merge_clear a)) cells) []) = length (nth j' cells []) /\
                nth i' (nth j' (map (map (merge_clear a)) cells) []) empty_cell = merge_clear a (nth i' (nth j' cells []) empty_cell)).
  { rewrite (nth_indep _ [] (map (merge_clear a) [])) by (rewrite map_length; exact Hj). rewrite map_nth.
    split; [apply map_length|]. rewrite (nth_indep _ empty_cell (merge_clear a empty_cell)) by (rewrite map_length; exact Hi). apply map_nth. }
  unfold merge_cells, any_contrib. destruct (existsb (existsb (contributes a)) cells); [|rewrite Bool.andb_false_r; exact Hcl].
  rewrite Bool.andb_true_r.
  destruct cells as [|r rs]; [cbn in Hj; lia|]. cbn [map] in *.
  destruct r as [|c r0].
  - destruct j'; [cbn in Hi; lia|]. rewrite Bool.andb_false_r. exact Hcl.
  - cbn [map]. destruct j' as [|j']; cbn [nth] in *.
    + destruct i' as [|i']; cbn [nth Nat.eqb andb length]; [split; [rewrite map_length; reflexivity|reflexivity]|].
      destruct Hcl as [H1 H2]. cbn [map nth length] in H1, H2. split; [exact H1|exact H2].
    + rewrite Bool.andb_false_r. exact Hcl.
Qed.

(* ---- the explicit form for merge=True ---- *)
Theorem g_set_span_merge_explicit x y z t mid g g' : 0 <= x <= z -> 0 <= y <= t ->
  g_set_span a x y z t true mid g = (g', true) ->
  forall i j, 0 <= i -> 0 <= j ->
  gcell i j g' =
    let c := gcell i j g in
    if in_area x y z t i j then
      (if (i =? x) && (j =? y) then
         (if any_contrib (g_area_cells x y z t g) then (ca_add_span a mid (z - x + 1) (t - y + 1), 0)
          else (ca_add_span a (fst (merge_clear a c)) (z - x + 1) (t - y + 1), snd (merge_clear a c)))
       else cov a (merge_clear a c))
    else c.
Proof.
  intros Hx Hy H i j Hi Hj. unfold g_set_span in H.
  destruct ((x =? z) && (y =? t)); [inversion H|].
  destruct (any_spanned a (g_area_cells x y z t g)); [inversion H|]. injection H as Hg. subst g'.
  set (cells := g_area_cells x y z t g).
  assert (Hlen : length cells = Z.to_nat (t + 1 - y)) by apply area_cells_length.
  rewrite (marked_block_explicit x y z t g (merge_cells a mid cells) Hx Hy).
  2:{ rewrite merge_cells_length. exact Hlen. }
  2:{ intros j' Hj'. assert (Hr : length (nth j' cells []) = Z.to_nat (z + 1 - x)) by (apply area_cells_row_length; exact Hj').
      destruct (Z.to_nat (z + 1 - x)) as [|w'] eqn:Ew; [lia|].
      destruct (merge_cells_nth mid cells 0 j') as [Hl _]; [rewrite Hlen; exact Hj'|rewrite Hr; lia|]. rewrite Hl. exact Hr. }
  2,3: assumption.
  cbv zeta. unfold in_area.
  destruct (Z.leb_spec x i); destruct (Z.leb_spec i z); destruct (Z.leb_spec y j); destruct (Z.leb_spec j t); cbn [andb]; try reflexivity.
  assert (Hj' : (Z.to_nat (j - y) < Z.to_nat (t + 1 - y))%nat) by lia.
  assert (Hi' : (Z.to_nat (i - x) < Z.to_nat (z + 1 - x))%nat) by lia.
  destruct (merge_cells_nth mid cells (Z.to_nat (i - x)) (Z.to_nat (j - y))) as [_ Hn];
    [rewrite Hlen; exact Hj'|unfold cells; rewrite area_cells_row_length by exact Hj'; exact Hi'|].
  rewrite Hn.
  assert (Ec : nth (Z.to_nat (i - x)) (nth (Z.to_nat (j - y)) cells []) empty_cell = gcell i j g).
  { unfold cells. rewrite area_cells_nth by assumption. f_equal; lia. }
  rewrite !Ec.
  destruct (Z.eqb_spec i x); destruct (Z.eqb_spec j y); destruct (Nat.eqb_spec (Z.to_nat (i - x)) 0); destruct (Nat.eqb_spec (Z.to_nat (j - y)) 0);
    cbn [andb]; try lia; try reflexivity.
  destruct (any_contrib cells); reflexivity.
Qed.

(* ---- the law the checker evaluates for merge=True ---- *)
Lemma merge_clear_cases c : merge_clear a c = c \/ merge_clear a c = empty_cell.
Proof. unfold merge_clear. destruct (cell_empty a true c); [left; reflexivity|]. destruct (ca_hasval a (fst c)); [right|left]; reflexivity. Qed.

Theorem g_set_span_merge_law x y z t g g' r : 0 <= x <= z -> 0 <= y <= t ->
  alg_ok_for a (XSetSpan x y z t true 0) g = true ->
  g_set_span a x y z t true (merge_mid a (g_area_cells x y z t g)) g = (g', r) ->
  set_span_merge_law a x y z t r g g' = true.
Proof.
  intros Hx Hy Halg H. unfold set_span_merge_law.
  set (mid := merge_mid a (g_area_cells x y z t g)) in *.
  destruct (((x =? z) && (y =? t)) || any_spanned a (g_area_cells x y z t g)) eqn:Eref.
  - rewrite (g_set_span_refuses a x y z t true mid g Eref) in H. injection H as <- <-. cbn [negb andb]. apply padded_eqb_refl.
  - pose proof (g_set_span_accepts a x y z t true mid g Eref) as Hacc. rewrite H in Hacc. cbn [snd] in Hacc. subst r. cbn [andb].
    pose proof (g_set_span_merge_explicit x y z t mid g g' Hx Hy H) as Hex.
    apply orb_false_elim in Eref. destruct Eref as [_ Hns].
    cbn [alg_ok_for] in Halg. apply andb_prop in Halg. destruct Halg as [Hcells Hextra].
    apply andb_prop in Hextra. destruct Hextra as [Hextra Hmid]. apply andb_prop in Hextra. destruct Hextra as [H0ok H0cov].
    fold mid in Hmid.
    unfold window. apply forallb_zrange. intros j Hj. apply forallb_zrange. intros i Hi.
    rewrite Hex by lia. cbv zeta. unfold in_area.
    destruct (Z.leb_spec x i); destruct (Z.leb_spec i z); destruct (Z.leb_spec y j); destruct (Z.leb_spec j t); cbn [andb]; try apply cell_eqb_refl.
    destruct (area_cell_in x y z t g i j ltac:(lia) ltac:(lia)) as (row & Hrow & Hc).
    set (c := gcell i j g) in *.
    assert (Hsp : is_spanned a (fst c) = false).
    { unfold any_spanned in Hns. destruct (is_spanned a (fst c)) eqn:Es; [|reflexivity].
      assert (existsb (existsb (fun c0 : cell => is_spanned a (fst c0))) (g_area_cells x y z t g) = true).
      { apply existsb_exists. exists row. split; [exact Hrow|]. apply existsb_exists. exists c. split; [exact Hc|exact Es]. }
      congruence. }
    unfold is_spanned in Hsp. apply orb_false_elim in Hsp. destruct Hsp as [Hcov _].
    assert (Hok : alg_cell_ok a (z - x + 1) (t - y + 1) (fst c) = true).
    { rewrite forallb_forall in Hcells. specialize (Hcells row Hrow). rewrite forallb_forall in Hcells. exact (Hcells c Hc). }
    (* facts about a content v that is not covered and on which the algebra is consistent *)
    assert (Fact : forall v, alg_cell_ok a (z - x + 1) (t - y + 1) v = true -> ca_cov a v = false ->
               ca_cov a (ca_to_cov a v) = true /\
               ca_cov a (ca_add_span a v (z - x + 1) (t - y + 1)) = false /\
               match ca_cs a (ca_add_span a v (z - x + 1) (t - y + 1)), ca_rs a (ca_add_span a v (z - x + 1) (t - y + 1)) with
               | Some nc, Some nr => (nc =? z - x + 1) && (nr =? t - y + 1) | _, _ => false end = true).
    { intros v Hv Hcv. unfold alg_cell_ok, alg_tag_ok in Hv. rewrite Hcv in Hv.
      repeat (apply andb_prop in Hv; let H' := fresh "K" in destruct Hv as [Hv H']).
      split; [exact Hv|]. split; [apply Bool.eqb_prop in K2; exact K2|exact K0]. }
    apply negb_true_iff in H0cov.
    destruct (Fact (fst c) Hok Hcov) as (Fc1 & Fc2 & Fc3).
    destruct (Fact 0 H0ok H0cov) as (F01 & F02 & F03).
    assert (Fclear : ca_cov a (ca_to_cov a (fst (merge_clear a c))) = true /\
                     ca_cov a (ca_add_span a (fst (merge_clear a c)) (z - x + 1) (t - y + 1)) = false /\
                     match ca_cs a (ca_add_span a (fst (merge_clear a c)) (z - x + 1) (t - y + 1)), ca_rs a (ca_add_span a (fst (merge_clear a c)) (z - x + 1) (t - y + 1)) with
                     | Some nc, Some nr => (nc =? z - x + 1) && (nr =? t - y + 1) | _, _ => false end = true).
    { destruct (merge_clear_cases c) as [-> | ->]; [auto|cbn [fst empty_cell]; auto]. }
    destruct Fclear as (G1 & G2 & G3).
    destruct ((i =? x) && (j =? y)).
    + destruct (any_contrib (g_area_cells x y z t g)) eqn:Eany; cbn [fst snd].
      * unfold any_contrib in Eany. rewrite Eany in Hmid. apply andb_prop in Hmid. destruct Hmid as [Hmok Hmcov]. apply negb_true_iff in Hmcov.
        destruct (Fact mid Hmok Hmcov) as (_ & M2 & M3). rewrite M2. cbn [negb andb]. exact M3.
      * rewrite G2. cbn [negb andb]. exact G3.
    + unfold cov. cbn [fst]. exact G1.
Qed.
End Merge.
