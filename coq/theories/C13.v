(* Property C13 — statements only.  Model: Styles.v (parametric), lemmas: Stylesproof.v / Styleshist.v; the tables are
   Gen_Contexts.v, regenerated from the source on every run.  [insert_style T false] etc. model the repaired code
   (fixes/F18, F91..F94), [... true] the code as pinned. *)
From Coq Require Import List ZArith Bool. Import ListNotations.
Require Import Styles Stylesproof Stylespart Stylesops Stylesinvb Styleshist Gen_Contexts.
Open Scope Z_scope.

(* ---- generated finite obligations on the tables of the current source *)
Theorem C13_tables_wellformed_generated : wf_tables gen_tables = true.
Proof. vm_compute. reflexivity. Qed.
Print Assumptions C13_tables_wellformed_generated.

(* every container insert_style uses for a family is among the containers its part searches for that family
   (false on the pinned tables for drawing-page: F91) *)
Theorem C13_contexts_cover_generated :
  forallb (fun f => forallb (covers_part gen_tables f) [MCommon; MAutomatic; MDefault]) gen_families = true.
Proof. vm_compute. reflexivity. Qed.
Print Assumptions C13_contexts_cover_generated.

Theorem C13_content_searches_automatic_generated :
  forallb (fun f => special gen_tables f
                    || existsb (Nat.eqb (slot_of false 1)) (part_slots gen_tables false f)) gen_families = true.
Proof. vm_compute. reflexivity. Qed.
Print Assumptions C13_content_searches_automatic_generated.

(* styles.xml may hold a style of a standard family both in office:styles and in office:automatic-styles (ODF schema);
   the lookup of the styles part must search both, or merge_styles_from / insert_style cannot see the style they replace *)
Theorem C13_standard_families_searched_everywhere_generated :
  forallb (fun f => existsb (Nat.eqb (slot_of true 0)) (part_slots gen_tables true f)
                    && existsb (Nat.eqb (slot_of true 1)) (part_slots gen_tables true f)) (std gen_tables) = true.
Proof. vm_compute. reflexivity. Qed.
Print Assumptions C13_standard_families_searched_everywhere_generated.

Lemma gen_cover f m : In f gen_families -> covers_part gen_tables f m = true.
Proof.
  intros H. pose proof C13_contexts_cover_generated as G. rewrite forallb_forall in G. specialize (G f H).
  rewrite forallb_forall in G. apply G. destruct m; cbn; auto.
Qed.
Lemma gen_auto f : In f gen_families -> special gen_tables f = false -> In (slot_of false 1) (part_slots gen_tables false f).
Proof.
  intros H S. pose proof C13_content_searches_automatic_generated as G. rewrite forallb_forall in G. specialize (G f H).
  rewrite S in G. cbn [orb] in G. apply existsb_exists in G as (x & Hx & E). apply PeanoNat.Nat.eqb_eq in E. now subst.
Qed.

(* ---- insertion of a style that ends up named: right container, replaces, unique, found in its container *)
Theorem C13_insert_named : forall st s0 name_arg automatic default f n st' ret,
  let s := final_style s0 name_arg in
  let m := mode_of_flags automatic default in
  In f gen_families -> wf_style gen_tables s f -> ename s = Some n -> wf_entry gen_tables s = true ->
  uniq gen_tables st = true -> wf_store gen_tables st = true ->
  (special gen_tables f = true \/ default = false) ->
  insert_style gen_tables false st s0 name_arg automatic default = Done (st', ret) ->
  ret = Some n /\
  exists l', get_slot st' (required_slot gen_tables f m) = Some (l' ++ [s])
    /\ (forall k, k <> required_slot gen_tables f m -> get_slot st' k = get_slot st k)
    /\ (exists l, get_slot st (required_slot gen_tables f m) = Some l /\ (l' = l \/ exists i, l' = remove_nth l i))
    /\ uniq gen_tables st' = true /\ wf_store gen_tables st' = true
    /\ elem_get_style gen_tables (l' ++ [s]) f (Some n) = Ok (Some (length l')).
Proof.
  intros. eapply insert_named_ok; eauto using C13_tables_wellformed_generated, gen_cover.
Qed.
Print Assumptions C13_insert_named.

(* ---- found again through Document.get_style (content.xml first, then styles.xml) *)
Theorem C13_found : forall st' f n s c l' before after,
  wf_style gen_tables s f ->
  lookup_slots gen_tables f = before ++ c :: after -> no_match_in gen_tables st' before f (etag s) n ->
  get_slot st' c = Some (l' ++ [s]) ->
  elem_get_style gen_tables (l' ++ [s]) f (Some n) = Ok (Some (length l')) ->
  doc_get_style gen_tables st' f (Some n) = Ok (Some (c, length l')) /\ entry_at st' (c, length l') = Some s.
Proof. exact (found_again gen_tables). Qed.
Print Assumptions C13_found.

(* ---- generated names *)
Theorem C13_fresh_auto_name : forall st f nm,
  set_automatic_name gen_tables false st f = Ok nm ->
  exists tg k, zassoc f (family_tag gen_tables) = Some tg /\ nm = NAuto k /\
    forall e, In e (family_entries gen_tables st (auto_scope gen_tables false f) f tg) -> ename e <> Some nm.
Proof. exact (fresh_auto_name gen_tables). Qed.
Print Assumptions C13_fresh_auto_name.

Theorem C13_insert_automatic_unnamed : forall st s0 f st' ret,
  In f gen_families -> uniq gen_tables st = true -> wf_store gen_tables st = true ->
  entry_family gen_tables s0 = Some f -> zassoc f (family_tag gen_tables) = Some (etag s0) -> ename s0 = None ->
  negb (etag s0 =? t_default gen_tables) = true -> special gen_tables f = false ->
  insert_style gen_tables false st s0 None true false = Done (st', ret) ->
  exists k, ret = Some (NAuto k) /\
    let s := with_name s0 ret in
    (forall e, In e (family_entries gen_tables st (auto_scope gen_tables false f) f (etag s0)) -> ename e <> ret) /\
    exists l', get_slot st' (slot_of false 1) = Some (l' ++ [s])
      /\ (forall c, c <> slot_of false 1 -> get_slot st' c = get_slot st c)
      /\ uniq gen_tables st' = true /\ wf_store gen_tables st' = true
      /\ elem_get_style gen_tables (l' ++ [s]) f (Some (NAuto k)) = Ok (Some (length l')).
Proof.
  intros. eapply insert_auto_unnamed_ok; eauto using C13_tables_wellformed_generated, gen_auto.
Qed.
Print Assumptions C13_insert_automatic_unnamed.

(* pinned code (F93): the name generated for an automatic style can be the name of a common style of the family *)
Theorem C13_fresh_auto_name_pinned_refuted : exists st nm e,
  set_automatic_name gen_tables true st fid_paragraph = Ok nm /\
  get_slot st 4 = Some [e] /\ entry_family gen_tables e = Some fid_paragraph /\ ename e = Some nm.
Proof.
  exists [None; Some []; None; Some []; Some [mkE (t_style gen_tables) (Some fid_paragraph) (Some (NAuto 1)) None 7]; Some []; Some []; Some []],
         (NAuto 1), (mkE (t_style gen_tables) (Some fid_paragraph) (Some (NAuto 1)) None 7).
  vm_compute. repeat split; reflexivity.
Qed.
Print Assumptions C13_fresh_auto_name_pinned_refuted.

(* ---- all the conditions on the generated tables that the general theorems need, in one obligation *)
Theorem C13_tables_ok_generated : tables_ok gen_tables gen_families = true.
Proof. vm_compute. reflexivity. Qed.
Print Assumptions C13_tables_ok_generated.

(* ---- every in-domain insertion (named; unnamed automatic; default=True for a standard family): the style lands in
   the container its family and kind require under the returned name, the part-level invariant is kept, and the only
   style that can disappear is one with the same key in the same part (it is replaced) *)
Theorem C13_insert : forall st s0 name_arg automatic default st' ret,
  Inv2 gen_tables st -> insert_dom gen_tables gen_families s0 name_arg automatic default ->
  insert_style gen_tables false st s0 name_arg automatic default = Done (st', ret) ->
  exists f s', entry_family gen_tables s' = Some f /\ In f gen_families /\ keyed gen_tables s' = true /\
    ename s' = ret /\ eid s' = eid s0 /\
    let c := required_slot gen_tables f (mode_of_flags automatic default) in
    Inv2 gen_tables st'
    /\ In s' (slot_list st' c)
    /\ (forall k x, In x (slot_list st' k) -> In x (slot_list st k) \/ (k = c /\ x = s'))
    /\ (forall k x, In x (slot_list st k) -> In x (slot_list st' k) \/ (same_key gen_tables x s' = true /\ same_part k c = true)).
Proof. exact (insert_inv2 gen_tables gen_families C13_tables_ok_generated). Qed.
Print Assumptions C13_insert.

(* ---- found again by Document.get_style: always for a style of content.xml; for a style of styles.xml provided
   content.xml holds no style with that key (finding F96 is exactly the failure of this hypothesis) *)
Theorem C13_found_by_document_lookup : forall st f s n c,
  Inv2 gen_tables st -> wf_style gen_tables s f -> ename s = Some n -> wf_entry gen_tables s = true ->
  In s (slot_list st c) -> In c (part_slots gen_tables (slot_in_styles_part c) f) ->
  (slot_in_styles_part c = true ->
   forall k e, In k (part_slots gen_tables false f) -> In e (slot_list st k) -> match_named gen_tables f (etag s) n e = false) ->
  exists i, doc_get_style gen_tables st f (Some n) = Ok (Some (c, i)) /\ entry_at st (c, i) = Some s.
Proof. exact (found_doc gen_tables gen_families C13_tables_ok_generated). Qed.
Print Assumptions C13_found_by_document_lookup.

(* ---- uniqueness along histories over the whole alphabet: insert_style (in-domain), delete_styles,
   merge_styles_from (other document satisfying the invariant and listing proper styles), add_page_break_style,
   set_table_displayed.  Inv2 = unique by (tag class, family, name) per container and across the containers of a
   part, default styles unnamed, every style in a container its part searches for its family. *)
Theorem C13_uniq_along_histories : forall ops d,
  Inv2 gen_tables (sstore d) -> Forall (in_domain gen_tables gen_families) ops ->
  Inv2 gen_tables (sstore (fold_left (step gen_tables) ops d)).
Proof. exact (history_inv gen_tables gen_families C13_tables_ok_generated). Qed.
Print Assumptions C13_uniq_along_histories.

Theorem C13_delete_styles_keeps_invariant : forall st,
  Inv2 gen_tables st -> Inv2 gen_tables (fst (delete_styles gen_tables st)).
Proof. exact (delete_styles_inv2 gen_tables). Qed.
Print Assumptions C13_delete_styles_keeps_invariant.

Theorem C13_set_table_displayed_keeps_invariant : forall d tidx e1 e2 d',
  Inv2 gen_tables (sstore d) -> set_table_displayed gen_tables false d tidx e1 e2 = Done d' -> Inv2 gen_tables (sstore d').
Proof. exact (set_table_displayed_inv2 gen_tables gen_families C13_tables_ok_generated). Qed.
Print Assumptions C13_set_table_displayed_keeps_invariant.

(* pinned code (F97): on a table without style name the default table style is cloned, named, into automatic-styles *)
Theorem C13_set_table_displayed_pinned_refuted : exists d d',
  inv2b gen_tables (sstore d) = true /\
  set_table_displayed gen_tables true d 0 1 2 = Done d' /\ wf_store gen_tables (sstore d') = false.
Proof.
  exists (mkS [None; Some []; None; Some []; Some [mkE (t_default gen_tables) (Some fid_table) None None 5]; Some []; Some []; Some []] [None]).
  eexists. split; [vm_compute; reflexivity|]. split; vm_compute; reflexivity.
Qed.
Print Assumptions C13_set_table_displayed_pinned_refuted.

Theorem C13_add_page_break_style_keeps_invariant : forall st n ok eid st',
  Inv2 gen_tables st -> add_page_break_style gen_tables false st n ok eid = Done st' -> Inv2 gen_tables st'.
Proof. exact (add_page_break_inv2 gen_tables gen_families C13_tables_ok_generated). Qed.
Print Assumptions C13_add_page_break_style_keeps_invariant.

(* ---- merge_styles_from *)
Theorem C13_merge_other_unchanged : forall self other self' other',
  merge_styles_from gen_tables false self other = Done (self', other') -> other' = other.
Proof. exact (merge_other_unchanged gen_tables). Qed.
Print Assumptions C13_merge_other_unchanged.

Theorem C13_merge_other_unchanged_pinned_refuted : exists self other self' other',
  merge_styles_from gen_tables true self other = Done (self', other') /\ other' <> other.
Proof.
  pose (e := mkE (t_style gen_tables) (Some fid_paragraph) (Some (NOther 1)) None 7).
  exists [None; Some []; None; Some []; Some []; Some []; Some []; Some []],
         [None; Some []; None; Some []; Some [e]; Some []; Some []; Some []].
  eexists. eexists. split; [vm_compute; reflexivity|]. vm_compute. discriminate.
Qed.
Print Assumptions C13_merge_other_unchanged_pinned_refuted.

Theorem C13_merge_each_style_lands : forall pinned st sl e st',
  merge_one gen_tables pinned st sl e = Done st' -> exists l', get_slot st' sl = Some (l' ++ [e]).
Proof. exact (merge_one_lands gen_tables). Qed.
Print Assumptions C13_merge_each_style_lands.

(* merging yields the union, the other document's definitions winning, the other document unchanged *)
Theorem C13_merge_union_other_wins : forall self other self' other',
  Inv2 gen_tables self -> Inv2 gen_tables other ->
  Forall (fun p => mergeable_entry gen_tables (fst p) (snd p)) (all_styles gen_tables other) ->
  merge_styles_from gen_tables false self other = Done (self', other') ->
  other' = other
  /\ Inv2 gen_tables self'
  /\ (forall sl e, In (sl, e) (all_styles gen_tables other) -> In e (slot_list self' sl))
  /\ (forall k x, In x (slot_list self k) -> In x (slot_list self' k) \/
                 exists sl e, In (sl, e) (all_styles gen_tables other) /\ same_part k sl = true /\ same_key gen_tables x e = true)
  /\ (forall k x, In x (slot_list self' k) -> In x (slot_list self k) \/ In (k, x) (all_styles gen_tables other)).
Proof.
  intros self other self' other' I Io Fo H.
  exact (merge_union gen_tables gen_families C13_tables_ok_generated self other self' other' I Fo (PW_all_styles gen_tables other Io) H).
Qed.
Print Assumptions C13_merge_union_other_wins.

(* the boolean forms the correspondence evaluates on implementation states imply the hypotheses used above *)
Theorem C13_boolean_invariant_sound : forall st, inv2b gen_tables st = true -> Inv2 gen_tables st.
Proof. exact (inv2b_sound gen_tables). Qed.
Print Assumptions C13_boolean_invariant_sound.
Theorem C13_boolean_mergeable_sound : forall other, mergeableb gen_tables other = true ->
  Forall (fun p => mergeable_entry gen_tables (fst p) (snd p)) (all_styles gen_tables other).
Proof. exact (mergeableb_sound gen_tables). Qed.
Print Assumptions C13_boolean_mergeable_sound.

(* ---- the property at full strength on the model of the repaired code: histories over the whole alphabet keep the
   invariant; every insertion lands and is found; generated names are fresh; merge is the union with the other
   document winning and unchanged.  Domain: [insert_dom] (documented uses of insert_style), [mergeable_entry] (the
   other document lists proper styles: pseudo styles named by draw:name and family-less elements are only covered by
   the correspondence), the shadowing hypothesis of the document lookup (F96), insertions that do not raise (F95). *)
Definition C13_full : Prop :=
  (forall ops d, Inv2 gen_tables (sstore d) -> Forall (in_domain gen_tables gen_families) ops ->
                 Inv2 gen_tables (sstore (fold_left (step gen_tables) ops d)))
  /\ (forall st s0 name_arg automatic default st' ret,
        Inv2 gen_tables st -> insert_dom gen_tables gen_families s0 name_arg automatic default ->
        insert_style gen_tables false st s0 name_arg automatic default = Done (st', ret) ->
        exists f s', entry_family gen_tables s' = Some f /\ In f gen_families /\ keyed gen_tables s' = true /\
          ename s' = ret /\ eid s' = eid s0 /\
          let c := required_slot gen_tables f (mode_of_flags automatic default) in
          Inv2 gen_tables st' /\ In s' (slot_list st' c)
          /\ (forall k x, In x (slot_list st' k) -> In x (slot_list st k) \/ (k = c /\ x = s'))
          /\ (forall k x, In x (slot_list st k) -> In x (slot_list st' k) \/ (same_key gen_tables x s' = true /\ same_part k c = true)))
  /\ (forall st f s n c,
        Inv2 gen_tables st -> wf_style gen_tables s f -> ename s = Some n -> wf_entry gen_tables s = true ->
        In s (slot_list st c) -> In c (part_slots gen_tables (slot_in_styles_part c) f) ->
        (slot_in_styles_part c = true ->
         forall k e, In k (part_slots gen_tables false f) -> In e (slot_list st k) -> match_named gen_tables f (etag s) n e = false) ->
        exists i, doc_get_style gen_tables st f (Some n) = Ok (Some (c, i)) /\ entry_at st (c, i) = Some s)
  /\ (forall st f nm, set_automatic_name gen_tables false st f = Ok nm ->
        exists tg k, zassoc f (family_tag gen_tables) = Some tg /\ nm = NAuto k /\
          forall e, In e (family_entries gen_tables st (auto_scope gen_tables false f) f tg) -> ename e <> Some nm)
  /\ (forall self other self' other',
        Inv2 gen_tables self -> Inv2 gen_tables other ->
        Forall (fun p => mergeable_entry gen_tables (fst p) (snd p)) (all_styles gen_tables other) ->
        merge_styles_from gen_tables false self other = Done (self', other') ->
        other' = other /\ Inv2 gen_tables self'
        /\ (forall sl e, In (sl, e) (all_styles gen_tables other) -> In e (slot_list self' sl))
        /\ (forall k x, In x (slot_list self k) -> In x (slot_list self' k) \/
               exists sl e, In (sl, e) (all_styles gen_tables other) /\ same_part k sl = true /\ same_key gen_tables x e = true)
        /\ (forall k x, In x (slot_list self' k) -> In x (slot_list self k) \/ In (k, x) (all_styles gen_tables other))).
Theorem C13_all : C13_full.
Proof.
  split; [exact C13_uniq_along_histories|]. split; [exact C13_insert|]. split; [exact C13_found_by_document_lookup|].
  split; [exact C13_fresh_auto_name|exact C13_merge_union_other_wins].
Qed.
Print Assumptions C13_all.

(* ---- the hypotheses are inhabited *)
Example C13_example :
  let st := [None; Some []; None; Some []; Some [mkE (t_style gen_tables) (Some fid_paragraph) (Some (NOther 3)) None 1];
             Some []; Some []; Some []] in
  let s0 := mkE (t_style gen_tables) (Some fid_paragraph) (Some (NOther 3)) None 2 in
  inv2b gen_tables st = true /\ mergeableb gen_tables st = true /\ wf_style gen_tables s0 fid_paragraph /\
  In fid_paragraph gen_families /\
  insert_style gen_tables false st s0 None false false
  = Done ([None; Some []; None; Some []; Some [s0]; Some []; Some []; Some []], Some (NOther 3)) /\
  insert_style gen_tables false st (with_name s0 None) None true false
  = Done ([None; Some [with_name s0 (Some (NAuto 1))]; None; Some []; Some [mkE (t_style gen_tables) (Some fid_paragraph) (Some (NOther 3)) None 1];
           Some []; Some []; Some []], Some (NAuto 1)).
Proof. vm_compute. repeat split; try reflexivity. tauto. Qed.
