(* Tree.v — executable model of odfdo's text-position arithmetic (properties C09, C16).  Definitions only.

   Two views of an lxml subtree:
   * the EVENT LIST  [Open kind attrs | Close | Txt s]  — a [Txt] after an [Open] is the element's text, a [Txt]
     after a [Close] is that element's tail; [Txt []] is an EMPTY text node (lxml keeps "" distinct from None and
     XPath [descendant::text()] returns it, which changes where [_insert] lands); never two adjacent [Txt];
   * the TREE [Node kind attrs sel text kids tail] with [flat] into the event list ([sel] is an argument mark used
     by [strip_elements], invisible to [flat]).
   Mirrors: paragraph.py [_by_regex_offset] (both branches), [set_span], [set_link]; element.py [_insert],
   [_insert_find_text], [_search_positive_position], [_search_negative_position], [delete], [_strip_tags],
   [strip_tags], [strip_elements], [__append]/[_add_text], [replace], [search*], [text_recursive], [inner_text].
   A regular expression enters as the list of its match spans per text node; [re.subn] as a function. *)
From Coq Require Import List Arith Bool ZArith.
Import ListNotations.
Require Import WS.

Inductive kind := KP | KH | KSpan | KLink | KS (n : nat) | KTab | KLb | KNote | KAnnot | KMark | KOther.
Inductive ev := Open (k : kind) (a : nat) | Close | Txt (s : str).
Inductive node := Node (k : kind) (a : nat) (sel : bool) (text : option str) (kids : list node) (tail : option str).

Definition kind_eqb (x y : kind) : bool :=
  match x, y with
  | KP, KP | KH, KH | KSpan, KSpan | KLink, KLink | KTab, KTab | KLb, KLb | KNote, KNote | KAnnot, KAnnot
  | KMark, KMark | KOther, KOther => true
  | KS n, KS m => Nat.eqb n m
  | _, _ => false
  end.
Definition ev_eqb (x y : ev) : bool :=
  match x, y with
  | Open k a, Open k' a' => kind_eqb k k' && Nat.eqb a a'
  | Close, Close => true
  | Txt s, Txt t => str_eqb s t
  | _, _ => false
  end.
Fixpoint evs_eqb (x y : list ev) : bool :=
  match x, y with
  | [], [] => true
  | e :: r, f :: q => ev_eqb e f && evs_eqb r q
  | _, _ => false
  end.

Definition otxt (o : option str) : list ev := match o with Some s => [Txt s] | None => [] end.
Definition oget (o : option str) : str := match o with Some s => s | None => [] end.
Definition netxt (s : str) : option str := match s with [] => None | _ => Some s end.   (* x if x else None *)

(* ------------------------------------------------------------------ tree -> events *)
Definition tail_of (n : node) := match n with Node _ _ _ _ _ tl => tl end.
Definition kind_of (n : node) := match n with Node k _ _ _ _ _ => k end.
Definition set_tail (n : node) (tl : option str) := match n with Node k a s tx ks _ => Node k a s tx ks tl end.
Fixpoint flat (n : node) : list ev :=
  match n with Node k a _ tx ks tl => Open k a :: otxt tx ++ flat_map flat ks ++ Close :: otxt tl end.
(* the events strictly inside the element: what [descendant::text()] and the child axis see *)
Definition content (n : node) : list ev := match n with Node _ _ _ tx ks _ => otxt tx ++ flat_map flat ks end.

(* ------------------------------------------------------------------ projections *)
Fixpoint texts (evs : list ev) : list str :=                 (* descendant::text(), document order *)
  match evs with [] => [] | Txt s :: r => s :: texts r | _ :: r => texts r end.
Definition raw (evs : list ev) : str := concat (texts evs).
Fixpoint skeleton (evs : list ev) : list ev :=               (* the markup without the character data *)
  match evs with [] => [] | Txt _ :: r => skeleton r | e :: r => e :: skeleton r end.
Definition hidden (k : kind) := match k with KNote | KAnnot => true | _ => false end.
(* readable text of the paragraph: text:s / tab / line-break decoded, note and annotation bodies skipped
   ([sk] = depth inside a skipped subtree) *)
Fixpoint readable_ (sk : nat) (evs : list ev) : str :=
  match evs with
  | [] => []
  | Open k _ :: r =>
      match sk with
      | S _ => readable_ (S sk) r
      | O => if hidden k then readable_ 1 r
             else match k with
                  | KS n => repeat Sp n ++ readable_ 0 r
                  | KTab => Tb :: readable_ 0 r
                  | KLb => Nl :: readable_ 0 r
                  | _ => readable_ 0 r
                  end
      end
  | Close :: r => readable_ (pred sk) r
  | Txt s :: r => match sk with O => s ++ readable_ 0 r | S _ => readable_ sk r end
  end.
Definition readable_ev (evs : list ev) : str := readable_ 0 evs.
(* skip state after a prefix *)
Fixpoint sk_after (sk : nat) (evs : list ev) : nat :=
  match evs with
  | [] => sk
  | Open k _ :: r => sk_after (match sk with S _ => S sk | O => if hidden k then 1 else 0 end) r
  | Close :: r => sk_after (pred sk) r
  | Txt _ :: r => sk_after sk r
  end.
(* nesting: [Some d] = depth reached, [None] = a Close without an Open *)
Fixpoint depth_ (d : nat) (evs : list ev) : option nat :=
  match evs with
  | [] => Some d
  | Open _ _ :: r => depth_ (S d) r
  | Close :: r => match d with O => None | S d' => depth_ d' r end
  | Txt _ :: r => depth_ d r
  end.
Definition balanced (evs : list ev) : bool := match depth_ 0 evs with Some 0 => true | _ => false end.
(* one whole element: Open ... matching Close, nothing after *)
Definition is_element (evs : list ev) : bool :=
  match evs with
  | Open _ _ :: r => match rev r with Close :: b => balanced (rev b) | _ => false end
  | _ => false
  end.

(* ------------------------------------------------------------------ Python slices *)
Definition idx (n : nat) (i : Z) : nat := if (i <? 0)%Z then n - Z.to_nat (- i) else Nat.min (Z.to_nat i) n.
Definition sl_to (s : str) (i : Z) : str := firstn (idx (length s) i) s.                          (* s[:i] *)
Definition sl_from (s : str) (i : Z) : str := skipn (idx (length s) i) s.                         (* s[i:] *)
Definition sl (s : str) (i j : Z) : str :=                                                        (* s[i:j] *)
  let a := idx (length s) i in let b := idx (length s) j in firstn (b - a) (skipn a s).

(* ------------------------------------------------------------------ rewriting the i-th text node *)
Fixpoint subst_nth (i : nat) (f : str -> list ev) (evs : list ev) : list ev :=
  match evs with
  | [] => []
  | Txt s :: r => match i with O => f s ++ r | S j => Txt s :: subst_nth j f r end
  | e :: r => e :: subst_nth i f r
  end.
Fixpoint subst_each (fs : list (str -> list ev)) (evs : list ev) : list ev :=
  match evs with
  | [] => []
  | Txt s :: r => match fs with f :: fr => f s ++ subst_each fr r | [] => Txt s :: subst_each [] r end
  | e :: r => e :: subst_each fs r
  end.

(* ------------------------------------------------------------------ set_span / set_link  (_by_regex_offset) *)
Definition item_evs (it : item) : list ev :=
  match it with
  | IStr s => [Txt s] | IS n => [Open (KS n) 0; Close] | ITab => [Open KTab 0; Close] | ILb => [Open KLb 0; Close]
  | IElem _ _ => []
  end.
(* x.text = ""; x.append_plain_text(m)  on an element without children *)
Definition fresh_content (m : str) : list ev :=
  match append_plain_text [] m with
  | IStr s :: r => Txt s :: flat_map item_evs r
  | its => Txt [] :: flat_map item_evs its
  end.
(* Span(match) re-encodes white space; Link(url, text=match) stores it raw *)
Definition wrap_content (k : kind) (m : str) : list ev :=
  match k with
  | KLink => [Txt m]
  | _ => fresh_content m      (* Span.__init__ runs Paragraph.__init__ first: text = "" even for an empty match *)
  end.
(* result.tail = tail  goes through Element.tail's setter: None becomes "" — the tail node always exists *)
Definition wrapped (k : kind) (a : nat) (m tl : str) : list ev := Open k a :: wrap_content k m ++ [Close; Txt tl].

(* the scan "for text in descendant::text(): if len(text) + counted <= offset: counted += len(text); continue" *)
Fixpoint sel_off (off len counted : Z) (i : nat) (ts : list str) : option (nat * Z * Z) :=
  match ts with
  | [] => None
  | s :: r =>
      let n := Z.of_nat (length s) in
      if (n + counted <=? off)%Z then sel_off off len (counted + n) (S i) r
      else let l := if (0 <? len)%Z then Z.min len n else n in     (* clipped to the length of THIS text node *)
           Some (i, (off - counted)%Z, (off - counted + l)%Z)
  end.
Definition wrap_off (k : kind) (a : nat) (off len : Z) (evs : list ev) : list ev :=
  match sel_off off len 0 0 (texts evs) with
  | Some (i, st, en) => subst_nth i (fun s => Txt (sl_to s st) :: wrapped k a (sl s st en) (sl_from s en)) evs
  | None => evs
  end.
(* regex branch: the matches of one text node, applied in reverse order by the code; [s] is what is left from [pos] *)
Fixpoint cut (k : kind) (a : nat) (pos : nat) (sp : list (nat * nat)) (s : str) : list ev :=
  match sp with
  | [] => [Txt s]
  | (x, y) :: q =>
      Txt (firstn (x - pos) s) :: Open k a :: wrap_content k (firstn (y - x) (skipn (x - pos) s))
      ++ Close :: cut k a y q (skipn (y - pos) s)
  end.
Definition wrap_re (k : kind) (a : nat) (spans : list (list (nat * nat))) (evs : list ev) : list ev :=
  subst_each (map (fun sp => match sp with [] => fun s => [Txt s] | _ => cut k a 0 sp end) spans) evs.

(* sorted, non-overlapping, non-empty, in range: what [re.finditer] returns for a pattern without empty matches *)
Fixpoint spans_ok (pos n : nat) (sp : list (nat * nat)) : bool :=
  match sp with
  | [] => true
  | (x, y) :: q => (pos <=? x) && (x <? y) && (y <=? n) && spans_ok y n q
  end.
Fixpoint all_spans_ok (ts : list str) (spans : list (list (nat * nat))) : bool :=
  match ts, spans with
  | [], [] => true
  | s :: r, sp :: q => spans_ok 0 (length s) sp && all_spans_ok r q
  | _, _ => false
  end.

(* ------------------------------------------------------------------ Element._insert *)
(* text_before = text[:pos] or None ; element.tail = text_after (setter: None -> "") *)
Definition split_ins (elem : list ev) (p : nat) (s : str) : list ev :=
  otxt (netxt (firstn p s)) ++ elem ++ [Txt (skipn p s)].
(* _insert_find_text *)
Fixpoint sel_pos (position count : nat) (i : nat) (ts : list str) : option (nat * nat) :=
  match ts with
  | [] => None
  | s :: r => if position <=? length s + count then Some (i, position - count)
              else sel_pos position (count + length s) (S i) r
  end.
(* _search_positive_position *)
Fixpoint sel_re_pos (position count : nat) (i : nat) (spans : list (list (nat * nat))) : option (nat * (nat * nat)) :=
  match spans with
  | [] => None
  | sp :: r => if position + 1 <=? length sp + count
               then match nth_error sp (position - count) with Some m => Some (i, m) | None => None end
               else sel_re_pos position (count + length sp) (S i) r
  end.
(* _search_negative_position: last text node that matches, its last match *)
Fixpoint sel_re_neg (i : nat) (spans : list (list (nat * nat))) (acc : option (nat * (nat * nat))) :=
  match spans with
  | [] => acc
  | sp :: r => sel_re_neg (S i) r (match rev sp with m :: _ => Some (i, m) | [] => acc end)
  end.
(* main_text=True (repaired code, fixes/F102): descendant::text()[not (ancestor::office:annotation)] — the text nodes
   inside an annotation (body, creator, date) are neither counted nor searched; [ad] = depth inside an annotation *)
Definition is_annot (k : kind) : bool := match k with KAnnot => true | _ => false end.
Definition ad_open (ad : nat) (k : kind) : nat := match ad with S _ => S ad | O => if is_annot k then 1 else 0 end.
Fixpoint texts_main_ (ad : nat) (evs : list ev) : list str :=
  match evs with
  | [] => []
  | Open k _ :: r => texts_main_ (ad_open ad k) r
  | Close :: r => texts_main_ (pred ad) r
  | Txt s :: r => match ad with O => s :: texts_main_ 0 r | S _ => texts_main_ ad r end
  end.
Definition texts_main (evs : list ev) : list str := texts_main_ 0 evs.
Fixpoint subst_main_ (ad : nat) (i : nat) (f : str -> list ev) (evs : list ev) : list ev :=
  match evs with
  | [] => []
  | Open k a :: r => Open k a :: subst_main_ (ad_open ad k) i f r
  | Close :: r => Close :: subst_main_ (pred ad) i f r
  | Txt s :: r => match ad with
                  | O => match i with O => f s ++ r | S j => Txt s :: subst_main_ 0 j f r end
                  | S _ => Txt s :: subst_main_ ad i f r
                  end
  end.
Definition subst_main := subst_main_ 0.
Inductive place :=
| WPos (p : Z)                                                     (* before = after = None *)
| WRe (use_end : bool) (p : Z) (spans : list (list (nat * nat))). (* before (start of match) / after (end) *)
(* [None] = ValueError, nothing modified *)
Definition insert_ (elem : list ev) (w : place) (evs : list ev) : option (list ev) :=
  match w with
  | WPos p =>
      if (p <? 0)%Z then Some (evs ++ elem)
      else match sel_pos (Z.to_nat p) 0 0 (texts_main evs) with
           | Some (i, q) => Some (subst_main i (split_ins elem q) evs)
           | None => None
           end
  | WRe ue p spans =>                                  (* [spans]: one list per MAIN text node *)
      match (if (p <? 0)%Z then sel_re_neg 0 spans None else sel_re_pos (Z.to_nat p) 0 0 spans) with
      | Some (i, (x, y)) => Some (subst_main i (split_ins elem (if ue then y else x)) evs)
      | None => None
      end
  end.
(* Element._insert_range (repaired code, fixes/F104): content=regex — ONE search, before any change; the start element
   goes before the match, the end element after it, both tails through the setter *)
Definition range_piece (e1 e2 : list ev) (x y : nat) (s : str) : list ev :=
  otxt (netxt (firstn x s)) ++ e1 ++ [Txt (firstn (y - x) (skipn x s))] ++ e2 ++ [Txt (skipn y s)].
Definition insert_range (e1 e2 : list ev) (p : Z) (spans : list (list (nat * nat))) (evs : list ev) : option (list ev) :=
  match (if (p <? 0)%Z then sel_re_neg 0 spans None else sel_re_pos (Z.to_nat p) 0 0 spans) with
  | Some (i, (x, y)) => Some (subst_main i (range_piece e1 e2 x y) evs)
  | None => None
  end.

(* ------------------------------------------------------------------ Element.delete(child, keep_tail) *)
Fixpoint skip_elem (d : nat) (evs : list ev) : list ev :=      (* what follows the Close matching an Open already read *)
  match evs with
  | [] => []
  | Open _ _ :: r => skip_elem (S d) r
  | Close :: r => match d with O => r | S d' => skip_elem d' r end
  | Txt _ :: r => skip_elem d r
  end.
Fixpoint merge_adj (evs : list ev) : list ev :=                 (* prev.tail += tail / parent.text += tail *)
  match evs with
  | [] => []
  | Txt x :: r => match merge_adj r with Txt y :: q => Txt (x ++ y) :: q | m => Txt x :: m end
  | e :: r => e :: merge_adj r
  end.
Fixpoint delete_at (i : nat) (keep : bool) (evs : list ev) : option (list ev) :=   (* i-th element in document order *)
  match evs with
  | [] => None
  | Open k a :: r =>
      match i with
      | O => let rest := skip_elem 0 r in
             Some (if keep then rest else match rest with Txt _ :: q => q | _ => rest end)
      | S j => option_map (cons (Open k a)) (delete_at j keep r)
      end
  | e :: r => option_map (cons e) (delete_at i keep r)
  end.
Definition delete_ (i : nat) (keep : bool) (evs : list ev) : option (list ev) :=
  option_map merge_adj (delete_at i keep evs).
(* the events of the i-th element (without its tail) and the tail that follows *)
Fixpoint take_elem (d : nat) (evs : list ev) : list ev :=
  match evs with
  | [] => []
  | Open k a :: r => Open k a :: take_elem (S d) r
  | Close :: r => match d with O => [Close] | S d' => Close :: take_elem d' r end
  | Txt s :: r => Txt s :: take_elem d r
  end.
Fixpoint elem_at (i : nat) (evs : list ev) : list ev :=
  match evs with
  | [] => []
  | Open k a :: r => match i with O => Open k a :: take_elem 0 r | S j => elem_at j r end
  | _ :: r => elem_at i r
  end.

(* ------------------------------------------------------------------ Element.replace (not formatted), count *)
Section Replace.
  Variable subn : str -> str * nat.                               (* cpattern.subn(new, ·) *)
  Variable nfind : str -> nat.                                    (* len(cpattern.findall(·)) *)
  Definition replace_ev (evs : list ev) : list ev :=
    map (fun e => match e with Txt s => Txt (fst (subn s)) | _ => e end) evs.
  Definition replace_count (evs : list ev) : nat := list_sum (map (fun s => snd (subn s)) (texts evs)).
  Definition count_only (evs : list ev) : nat := list_sum (map nfind (texts evs)).
End Replace.

(* ------------------------------------------------------------------ __append / _add_text *)
Fixpoint collapse (s : str) : str :=                              (* _re_anyspace.sub(" ", s) *)
  match s with
  | Sp :: ((Sp :: _) as r) => collapse r
  | t :: r => t :: collapse r
  | [] => []
  end.
Inductive piece := PS (s : str) | PN (n : node).                  (* list[Element | str] *)
Definition opiece (o : option str) : list piece := match o with Some s => [PS s] | None => [] end.
Section Append.
  Variable f : str -> str.                                        (* [collapse] in the code; [fun s => s] = no rewriting *)
  Definition add_text (x : option str) (y : str) : option str := Some (f (oget x ++ y)).
  (* Element.__append: a string goes to the tail of the last child, or to the text when there is no child *)
  Definition append_piece (st : option str * list node) (p : piece) : option str * list node :=
    let '(tx, ks) := st in
    match p with
    | PN n => (tx, ks ++ [n])
    | PS s => match rev ks with
              | [] => (add_text tx s, ks)
              | l :: rk => (tx, rev rk ++ [set_tail l (add_text (tail_of l) s)])
              end
    end.
  (* Element._strip_tags: [sp k sel] = the element is stripped; [pr k] = tag listed in protect.
     Result: the list that replaces the element in its parent, and "modified" *)
  Fixpoint strip_ (sp : kind -> bool -> bool) (pr : kind -> bool) (protected : bool) (n : node) : list piece * bool :=
    match n with
    | Node k a sel tx ks tl =>
        let res := map (strip_ sp pr (pr k)) ks in
        let children := flat_map fst res in
        let modified := existsb snd res in
        (* text = element_clone.text goes through the property [Element.text]: None reads as "", so the text is
           always re-appended (and [_add_text] runs even on "") *)
        if negb protected && sp k sel then (PS (oget tx) :: children ++ opiece tl, true)
        else if negb modified then ([PN n], false)
        else let '(tx', ks') := fold_left append_piece children (add_text None (oget tx), []) in
             ([PN (Node k a sel tx' ks' tl)], true)
    end.
  (* strip_tags on an element that is not itself stripped (in place) *)
  Definition strip_top (sp : kind -> bool -> bool) (pr : kind -> bool) (n : node) : option node :=
    match strip_ sp pr false n with
    | ([PN n'], _) => Some n'
    | _ => None
    end.
  (* strip_tags when the element itself is stripped (e.g. Span.remove_spans()): the pieces — own text, children, own
     tail — are embedded in a fresh default element (text:p, attributes [a0]) with __append (repaired code, fixes/F105;
     the pinned code assigned every string piece to new.text, keeping only the last one) *)
  Definition strip_default (a0 : nat) (sp : kind -> bool -> bool) (pr : kind -> bool) (n : node) : option node :=
    match strip_ sp pr false n with
    | ([PN n'], false) => Some n'
    | (ps, true) => if sp (kind_of n) (match n with Node _ _ s _ _ _ => s end)
                    then let '(tx, ks) := fold_left append_piece ps (None, []) in Some (Node KP a0 false tx ks None)
                    else match ps with [PN n'] => Some n' | _ => None end
    | _ => None
    end.
End Append.
(* PINNED code of that case, kept for the refutation (F105): [new.text = content] for every string piece *)
Definition strip_default_pinned (a0 : nat) (sp : kind -> bool -> bool) (pr : kind -> bool) (n : node) : option node :=
  match strip_ collapse sp pr false n with
  | (ps, true) =>
      let '(tx, ks) := fold_left (fun st p => match p with PS s => (Some s, snd st) | PN c => (fst st, snd st ++ [c]) end) ps (None, []) in
      Some (Node KP a0 false tx ks None)
  | _ => None
  end.
Definition strip_tags_ (kinds : list kind) (protect_h : bool) (n : node) : option node :=
  strip_top collapse (fun k _ => existsb (kind_eqb k) kinds) (fun k => protect_h && kind_eqb k KH) n.
Definition strip_elements_ (n : node) : option node :=
  strip_top collapse (fun _ sel => sel) (fun _ => false) n.
Fixpoint has_sel (n : node) : bool := match n with Node _ _ s _ ks _ => s || existsb has_sel ks end.

(* ------------------------------------------------------------------ replace(formatted=True), REPAIRED code (fixes/F27) *)
Definition container (k : kind) := match k with KP | KH | KSpan => true | _ => false end.
Definition ws_kind (k : kind) := match k with KS _ | KTab | KLb => true | _ => false end.
Definition is_spacer (k : kind) := match k with KS _ => true | _ => false end.
Definition node_item (n : node) : item :=
  match n with
  | Node (KS c) _ _ _ _ _ => IS c                     (* only text:s is expanded by _expand_spaces; an existing *)
  | Node k a s tx ks _ =>                             (* tab / line-break element is kept like any other child  *) IElem 0 (readable_ev (flat (Node k a s tx ks None)))
  end.
Definition ostr (o : option str) : list item := match o with Some (t :: s) => [IStr (t :: s)] | _ => [] end.
(* what Paragraph._expand_spaces walks: self.xpath("*|text()") *)
Definition items_of (tx : option str) (ks : list node) : list item :=
  ostr tx ++ flat_map (fun c => node_item c :: ostr (tail_of c)) ks.
Definition ws_node (k : kind) : node := Node k 0 false None [] None.
(* append_plain_text's final loop: self.text = None (setter: ""), then __append of every content item;
   kept children had their tail reset to "" by _expand_spaces *)
Fixpoint rebuild (its : list item) (elems : list node) (st : option str * list node) : option str * list node :=
  match its with
  | [] => st
  | IStr s :: r => rebuild r elems (append_piece collapse st (PS s))
  | IS n :: r => rebuild r elems (append_piece collapse st (PN (ws_node (KS n))))
  | ITab :: r => rebuild r elems (append_piece collapse st (PN (ws_node KTab)))
  | ILb :: r => rebuild r elems (append_piece collapse st (PN (ws_node KLb)))
  | IElem _ _ :: r => match elems with
                      | e :: es => rebuild r es (append_piece collapse st (PN (set_tail e (Some []))))
                      | [] => rebuild r [] st
                      end
  end.
Definition normalise (n : node) : node :=
  match n with
  | Node k a sel tx ks tl =>
      let its := append_plain_text (items_of tx ks) [] in
      let '(tx', ks') := rebuild its (filter (fun c => negb (is_spacer (kind_of c))) ks) (Some [], []) in
      Node k a sel tx' ks' tl
  end.
Section ReplaceTree.
  Variable subn : str -> str * nat.
  Definition osubn (o : option str) : option str * nat :=
    match o with Some s => (Some (fst (subn s)), snd (subn s)) | None => (None, 0) end.
  (* returns the new subtree (own tail untouched: it belongs to the parent's content) and the number of replacements;
     a container whose OWN text nodes (text, tails of its children) were changed is re-normalised afterwards *)
  Fixpoint repl (fmt : bool) (n : node) : node * nat :=
    match n with
    | Node k a sel tx ks tl =>
        let '(tx', c0) := osubn tx in
        let res := map (fun c => let '(c', n1) := repl fmt c in
                                 let '(tl', n2) := osubn (tail_of c) in (set_tail c' tl', n1, n2)) ks in
        let own := c0 + list_sum (map snd res) in
        let below := list_sum (map (fun x => snd (fst x)) res) in
        let n1 := Node k a sel tx' (map (fun x => fst (fst x)) res) tl in
        (if fmt && (0 <? own) && container k then normalise n1 else n1, own + below)
    end.
End ReplaceTree.

(* ------------------------------------------------------------------ search / match / text_at *)
(* repaired code (fixes/F28, F103): the positions refer to Element._own_text — text nodes in document order,
   Spacer / Tab / LineBreak decoded through their [text] property, links reduced to their text, notes and
   annotations skipped, the element's own tail excluded *)
Fixpoint own_text (n : node) : str :=
  match n with
  | Node k _ _ tx ks _ =>
      (match k with KS c => repeat Sp c | KTab => [Tb] | KLb => [Nl] | _ => oget tx end)
      ++ flat_map (fun c => (if hidden (kind_of c) then [] else own_text c) ++ oget (tail_of c)) ks
  end.
Section Search.
  Variable find : str -> option (nat * nat).                      (* re.search(pattern, ·) as (start, end) *)
  Variable findall : str -> list (nat * nat).                     (* re.finditer *)
  Definition search_ (n : node) : option nat := option_map fst (find (own_text n)).
  Definition search_first_ (n : node) : option (nat * nat) := find (own_text n).
  Definition search_all_ (n : node) : list (nat * nat) := findall (own_text n).
  Definition match_ (n : node) : bool := match search_ n with Some _ => true | None => false end.
End Search.
Definition text_at_ (n : node) (start : Z) (e : option Z) : str :=
  let st := if (start <? 0)%Z then 0%Z else start in
  match e with
  | None => sl_from (own_text n) st
  | Some e => sl (own_text n) st (if (e <? st)%Z then st else e)
  end.
(* PINNED code, kept for the refutation (F28): inner_text + tail; str() of Spacer / Tab / LineBreak; Link, Note and
   Annotation render markup and are excluded by [plain_tree] *)
Fixpoint inner_text (n : node) : str :=
  match n with
  | Node k _ _ tx ks _ =>
      match k with
      | KS c => repeat Sp c | KTab => [Tb] | KLb => [Nl]
      | _ => oget tx ++ flat_map (fun c => inner_text c ++ oget (tail_of c)) ks
      end
  end.
Definition text_recursive (n : node) : str := inner_text n ++ oget (tail_of n).
Fixpoint plain_tree (n : node) : bool :=
  match n with Node k _ _ _ ks _ => match k with KLink | KNote | KAnnot => false | _ => forallb plain_tree ks end end.
Definition search_pinned_ (find : str -> option (nat * nat)) (n : node) : option nat := option_map fst (find (text_recursive n)).

(* ------------------------------------------------------------------ domain of the model *)
(* white-space elements carry no character data of their own (Spacer overrides the text property) *)
Fixpoint in_domain_ (stack : list kind) (evs : list ev) : bool :=
  match evs with
  | [] => true
  | Open k _ :: r => in_domain_ (k :: stack) r
  | Close :: r => in_domain_ (tl stack) r
  | Txt _ :: r => match stack with
                  | (KS _ | KTab | KLb) :: _ => false
                  | _ => in_domain_ stack r
                  end
  end.
Definition in_domain (evs : list ev) : bool := in_domain_ [] evs.

(* ------------------------------------------------------------------ the observable view and the step function *)
(* white-space elements decoded into character data, adjacent character data merged, empty text nodes dropped:
   "the readable text and where every element sits in it" (what a serialised document shows, up to the choice of
   text:s / tab / line-break encoding) *)
Fixpoint decode (evs : list ev) : list ev :=
  match evs with
  | [] => []
  | Open (KS n) _ :: Close :: r => Txt (repeat Sp n) :: decode r
  | Open KTab _ :: Close :: r => Txt [Tb] :: decode r
  | Open KLb _ :: Close :: r => Txt [Nl] :: decode r
  | e :: r => e :: decode r
  end.
Definition drop_empty (evs : list ev) : list ev :=
  filter (fun e => match e with Txt [] => false | _ => true end) evs.
Definition nview (evs : list ev) : list ev := drop_empty (merge_adj (decode evs)).

(* the readable text between the element carrying attribute id [a1] (its own subtree skipped) and the next element
   carrying [a2]: what a start / end pair of marks encloses; [None] when the end mark does not follow *)
Fixpoint until_attr (a2 : nat) (evs : list ev) : option (list ev) :=
  match evs with
  | [] => None
  | Open k a :: r => if Nat.eqb a a2 then Some [] else option_map (cons (Open k a)) (until_attr a2 r)
  | e :: r => option_map (cons e) (until_attr a2 r)
  end.
Fixpoint after_attr (a1 : nat) (evs : list ev) : option (list ev) :=
  match evs with
  | [] => None
  | Open k a :: r => if Nat.eqb a a1 then Some (skip_elem 0 r) else after_attr a1 r
  | _ :: r => after_attr a1 r
  end.
Definition text_between (a1 a2 : nat) (evs : list ev) : option str :=
  match after_attr a1 evs with
  | Some r => option_map readable_ev (until_attr a2 r)
  | None => None
  end.

Inductive op :=
| OWrapOff (k : kind) (a : nat) (off len : Z)                     (* set_span / set_link (offset=, length=) *)
| OWrapRe (k : kind) (a : nat) (spans : list (list (nat * nat)))  (* set_span / set_link (regex=) *)
| OInsert (elem : list ev) (w : place)                            (* _insert: bookmark, reference mark, note, annotation *)
| OInsertRange (e1 e2 : list ev) (p : Z) (spans : list (list (nat * nat)))   (* _insert_range: content=regex *)
| ODelete (i : nat) (keep : bool)                                 (* delete(child, keep_tail) / child.delete() *)
| ODelete2 (j i : nat)                                            (* Annotation.delete / ReferenceMarkStart.delete: end mark j first *)
| OStripTags (kinds : list kind) (protect_h : bool)               (* remove_spans / remove_links / strip_tags *)
| OStripElems                                                     (* remove_span / remove_link / strip_elements: elements marked [sel] *)
| OStripDefault (kinds : list kind) (protect_h : bool) (a0 : nat)   (* strip_tags on an element that is itself stripped *)
| OSame.
(* [None] = the call raises and nothing is modified *)
Definition step (o : op) (n : node) : option (list ev) :=
  let c := content n in
  match o with
  | OWrapOff k a off len => if (off <? 0)%Z then None else Some (wrap_off k a off len c)   (* repaired code (fixes/F101): ValueError *)
  | OWrapRe k a spans => Some (wrap_re k a spans c)
  | OInsert e w => insert_ e w c
  | OInsertRange e1 e2 p spans => insert_range e1 e2 p spans c
  | ODelete i keep => delete_ i keep c
  | ODelete2 j i => match delete_ j true c with Some c' => delete_ i true c' | None => None end
  | OStripTags ks ph => option_map content (strip_tags_ ks ph n)
  | OStripElems => option_map content (strip_elements_ n)
  | OStripDefault ks ph a0 => option_map content (strip_default collapse a0 (fun k _ => existsb (kind_eqb k) ks) (fun k => ph && kind_eqb k KH) n)
  | OSame => Some c
  end.

(* ------------------------------------------------------------------ replace(formatted=True), PINNED code (before fixes/F27) *)
(* kept for the refutation C16_formatted_pinned_refuted.  The pinned loop re-normalises the container of every text
   node AT ONCE (append_plain_text("") rebuilds the children: text:s elements are dropped and recreated, so later text
   nodes whose container was a dropped text:s are written to a detached element) and, for a tail, re-normalises the
   element that OWNS the tail, not the parent.  Node identity is needed: in this model the [a] field of every element
   must be a unique non-zero identifier (new white-space elements get 0). *)
Definition attr_of (n : node) : nat := match n with Node _ a _ _ _ _ => a end.
Fixpoint refs (n : node) : list (nat * bool * str) :=          (* descendant::text() with its container *)
  match n with
  | Node _ a _ tx ks _ =>
      (match tx with Some s => [(a, true, s)] | None => [] end)
      ++ flat_map (fun c => refs c ++ match tail_of c with Some s => [(attr_of c, false, s)] | None => [] end) ks
  end.
Fixpoint write_at (id : nat) (is_text : bool) (s : str) (n : node) : node :=
  match n with
  | Node k a sel tx ks tl =>
      let ks' := map (fun c => let c' := write_at id is_text s c in
                               if Nat.eqb (attr_of c) id && negb is_text then set_tail c' (Some s) else c') ks in
      Node k a sel (if Nat.eqb a id && is_text then Some s else tx) ks' tl
  end.
Fixpoint norm_at (id : nat) (n : node) : node :=
  match n with
  | Node k a sel tx ks tl =>
      let n' := Node k a sel tx (map (norm_at id) ks) tl in
      if Nat.eqb a id && container k then normalise n' else n'
  end.
Section ReplPinned.
  Variable subn : str -> str * nat.
  Definition repl_pinned (n : node) : node * nat :=
    fold_left (fun st r => let '(t, cnt) := st in let '(id, is_text, s) := r in
                           (norm_at id (write_at id is_text (fst (subn s)) t), cnt + snd (subn s)))
              (refs n) (n, 0).
End ReplPinned.

(* ------------------------------------------------------------------ event list -> tree (inverse of [flat]) *)
(* [parse_kids] reads a sequence of elements (each with its optional tail) and stops at the first event that is not an
   [Open]; explicit fuel (one unit per element read), [parse] supplies more than enough *)
Definition take_txt (evs : list ev) : option str * list ev :=
  match evs with Txt s :: r => (Some s, r) | _ => (None, evs) end.
Fixpoint parse_kids (fuel : nat) (evs : list ev) : option (list node * list ev) :=
  match fuel with
  | O => None
  | S f =>
      match evs with
      | Open k a :: r =>
          let '(tx, r1) := take_txt r in
          match parse_kids f r1 with
          | Some (ks, Close :: r2) =>
              let '(tl, r3) := take_txt r2 in
              match parse_kids f r3 with
              | Some (rest, r4) => Some (Node k a false tx ks tl :: rest, r4)
              | None => None
              end
          | _ => None
          end
      | _ => Some ([], evs)
      end
  end.
Definition parse (evs : list ev) : option node :=
  match parse_kids (S (length evs)) evs with Some ([n], []) => Some n | _ => None end.
(* the content of an element: optional text, then children *)
Definition parse_content (evs : list ev) : option (option str * list node) :=
  let '(tx, r) := take_txt evs in
  match parse_kids (S (length evs)) r with Some (ks, []) => Some (tx, ks) | _ => None end.
Fixpoint nosel (n : node) : bool := match n with Node _ _ s _ ks _ => negb s && forallb nosel ks end.
