(* Property C06 — statements only.  Each is closed by [exact] of a lemma proved elsewhere.
   Model: Typed.v (ElementTyped.set_value_and_type / _get_typed_value, Cell.value setter / getter,
   Meta.set_user_defined_metadata / _get_meta_value_full as REPAIRED by fixes/F12 and fixes/F33; [set_meta_pinned] and
   [get_et_pinned] mirror the pinned code), on top of Codec.v. *)
From Coq Require Import List ZArith NArith. Import ListNotations.
Require Import Codec Typed Typeddecproof Typedproof.

(* every carrier (writer s, compatible reader g), every value of the domain: what is read back is an equal value of the
   corresponding type (bool -> bool, int/float/Decimal -> numerically equal int or Decimal, str -> str, datetime -> same datetime
   and offset, date -> that day at 00:00, timedelta -> equal, None -> None) *)
Theorem C06_roundtrip : forall (s : setk) (g : getk) (v : pyval),
  compatible s g = true -> in_domain_for s v = true ->
  exists e r, model_set s v = Ok e /\ model_get g e = Ok r /\ same_value v r = true.
Proof. exact roundtrip_lemma. Qed.
Print Assumptions C06_roundtrip.

(* the attribute written is in the lexical space of its ODF value type (true|false, decimal, xsd:date / dateTime, duration) *)
Theorem C06_lexical : forall (s : setk) (v : pyval) (e : elem),
  in_domain_for s v = true -> lexical_claimed v = true -> model_set s v = Ok e -> elem_lexical (is_meta s) e = true.
Proof. exact lexical_lemma. Qed.
Print Assumptions C06_lexical.

(* overwriting a carrier that already holds a value (of any type): the attribute set left behind is the one a fresh carrier would
   get - nothing of the previous value survives - hence the value read back is the last one written.
   [p] is any state a writer of that carrier can have left ([written_shape]); for SetET / SetCellValue (self.clear() first) any state. *)
Theorem C06_last_writer_wins : forall (k : setk) (p : elem) (v : pyval),
  written_shape k p -> model_set_on k (Some p) v = model_set k v.
Proof. exact last_writer_wins_lemma. Qed.
Print Assumptions C06_last_writer_wins.
Theorem C06_overwrite : forall (k : setk) (g : getk) (p : elem) (v : pyval),
  written_shape k p -> compatible k g = true -> in_domain_for k v = true ->
  exists e r, model_set_on k (Some p) v = Ok e /\ model_get g e = Ok r /\ same_value v r = true.
Proof. exact overwrite_roundtrip_lemma. Qed.
Print Assumptions C06_overwrite.
Example C06_overwrite_example :
  exists p, model_set SetMeta (VBool true) = Ok p /\ written_shape SetMeta p /\
            model_set_on SetMeta (Some p) (VInt 42) = Ok (build_meta t_float [52;50]%N).
Proof. eexists. repeat split; reflexivity. Qed.
(* pinned removal list of set_value_and_type (F72): calcext:value of a previous number survives an overwrite through set_value_and_type *)
Theorem C06_stale_calcext_refuted :
  exists p e, model_set SetETRaw (VFloat [49;46;53]%N) = Ok p /\ model_set_on_pinned SetETRaw (Some p) (VBool true) = Ok e /\
              x_value e = Some [49;46;53]%N /\ model_set SetETRaw (VBool true) <> Ok e.
Proof. exact stale_calcext_value_pinned. Qed.
Print Assumptions C06_stale_calcext_refuted.

(* set_value_and_type with its value_type / currency arguments and Cell.set_value's formula: a number stored as float, percentage or
   currency reads back as an equal number together with the type asked for; the currency name and the formula are written as given *)
Theorem C06_typed_numbers : forall vt cur fo v e, is_num v = true -> in_domain v = true -> numeric_type vt = true ->
  set_et_full (Some vt) cur fo v = Ok e ->
  exists r, get_et_typed e = Ok (r, Some vt) /\ same_value v r = true /\ a_currency e = (if str_eqb vt t_currency then cur else None) /\
            others e = match fo with Some f => [(n_formula, f)] | None => [] end.
Proof. exact typed_number_roundtrip_lemma. Qed.
Print Assumptions C06_typed_numbers.
(* without a type argument, get_value(get_type=True) reports the ODF type of the Python type: boolean, float, date, string, time *)
Theorem C06_type_reported : forall v, in_domain v = true ->
  exists e r, model_set SetET v = Ok e /\ get_et_typed e = Ok (r, default_type v) /\ same_value v r = true.
Proof. exact default_type_reported_lemma. Qed.
Print Assumptions C06_type_reported.
Theorem C06_args_default : forall v, set_et_full None None None v = model_set SetET v.
Proof. exact set_et_full_default. Qed.
Print Assumptions C06_args_default.
(* Row.set_value / Table.set_value into repeated runs, on the list of logical cells: the addressed cell gets the value, every other
   cell is what it was, the width grows only when the position is beyond the end (the refinement "run-length XML = this list" is C01's) *)
Theorem C06_one_cell : forall i e l, nth i (grid_set i e l) empty_elem = e.
Proof. exact grid_set_same. Qed.
Print Assumptions C06_one_cell.
Theorem C06_other_cells : forall i j e l, j <> i -> nth j (grid_set i e l) empty_elem = nth j l empty_elem.
Proof. exact grid_set_other. Qed.
Print Assumptions C06_other_cells.
Theorem C06_width : forall i e l, length (grid_set i e l) = Nat.max (S i) (length l).
Proof. exact grid_set_length. Qed.
Print Assumptions C06_width.

(* UserDefined(name, from_document=doc): the field carries the value of the document's metadata entry of that name, for EVERY value
   of the domain (False, 0, "", timedelta(0) included): stored in the metadata, read as Meta reads it, written through
   set_value_and_type with the entry's type, read back from the field *)
Theorem C06_from_document : forall v me, in_domain_for SetMeta v = true -> model_set SetMeta v = Ok me ->
  exists e r, set_ud_from_doc (Some me) None VNone = Ok e /\ get_et e = Ok r /\ same_value v r = true.
Proof. exact from_document_lemma. Qed.
Print Assumptions C06_from_document.

(* CPython's Decimal(str(d)) == d, on the model: every finite Decimal, scientific notation included *)
Theorem C06_decimal_text_roundtrip : forall d : dec, dec_of_text (str_of_dec d) = Some d.
Proof. exact dec_text_roundtrip_lemma. Qed.
Print Assumptions C06_decimal_text_roundtrip.

(* the domain is not empty at its corners *)
Example C06_example :
  in_domain_for SetMeta (VDateTime (mkdt 9999 12 31 23 59 59 999999 (Some (-50400000000)%Z))) = true /\
  in_domain_for SetET (VDec (mkdec true 110 (-2))) = true /\ in_domain_for SetCellValue (VFloat [49;101;43;51;48;48]%N) = true /\
  in_domain_for SetET (VInt (-1267650600228229401496703205376)%Z) = true /\ in_domain_for SetMeta (VStr [116;114;117;101]%N) = true.
Proof. repeat split; reflexivity. Qed.

(* pinned code, F12: a datetime stored in user-defined metadata comes back as midnight of its day *)
Theorem C06_meta_datetime_refuted :
  in_domain (VDateTime w_noon) = true /\
  exists e t, set_meta_pinned (VDateTime w_noon) = Ok (e, t) /\ get_meta e = Ok (VDateTime (mkdt 2024 1 1 0 0 0 0 None)) /\
              same_value (VDateTime w_noon) (VDateTime (mkdt 2024 1 1 0 0 0 0 None)) = false.
Proof. exact meta_datetime_pinned_loses_time. Qed.
Print Assumptions C06_meta_datetime_refuted.

(* pinned code, F33: the string "true" stored through set_value_and_type reads back as "True" through get_value *)
Theorem C06_string_true_refuted :
  in_domain (VStr s_true) = true /\
  exists e t, set_et (VStr s_true) = Ok (e, t) /\ get_et_pinned e = Ok (VStr s_True) /\ same_value (VStr s_true) (VStr s_True) = false.
Proof. exact string_true_pinned_capitalised. Qed.
Print Assumptions C06_string_true_refuted.

Definition C06_full : Prop :=
  forall (s : setk) (g : getk) (v : pyval), compatible s g = true -> in_domain_for s v = true ->
  exists e r, model_set s v = Ok e /\ model_get g e = Ok r /\ same_value v r = true /\
              (lexical_claimed v = true -> elem_lexical (is_meta s) e = true).
Theorem C06_typed_values : C06_full.
Proof.
  intros s g v Hc Hd. destruct (roundtrip_lemma s g v Hc Hd) as (e & r & H1 & H2 & H3).
  exists e, r. repeat split; auto. intros Hl. now apply (lexical_lemma s v e).
Qed.
Print Assumptions C06_typed_values.
