(* Grid.v — the SPECIFICATION: a table as a plain list of lists (no repeats, no maps), short enough to read.

   gridT = { ncols : declared number of columns ; grows : the rows, each a plain list of cells }
   Rows are kept as long as they are stored (ragged); a read pads them with empty cells up to ncols.
   Every g_* below is the list-of-lists meaning of the Table operation of the same name.
   Column count rules:  grow w    : ncols := max ncols w                 (after every write of a row of width w)
                        declare w : a table WITHOUT columns gets max 1 w  (only when a row is appended to it)  *)
From Coq Require Import List ZArith Bool Arith.
Import ListNotations.
Require Import Row.          (* only for: cell, empty_cell, norm_coord, rop (the Row-level alphabet) *)
Local Open Scope Z_scope.

Record gridT := { ncols : Z; grows : list (list cell) }.
Definition gheight (g : gridT) : Z := Z.of_nat (length (grows g)).

(* ---- plain list edits ---- *)
Definition l_set {A} (d : A) (x rep : nat) (c : A) (l : list A) : list A :=       (* overwrite rep positions from x, padding with d *)
  firstn x (l ++ repeat d (x - length l)) ++ repeat c rep ++ skipn (x + rep) l.
Definition l_insert {A} (d : A) (x rep : nat) (c : A) (l : list A) : list A :=    (* insert rep copies at x, padding with d *)
  firstn x (l ++ repeat d (x - length l)) ++ repeat c rep ++ skipn x l.
Definition l_delete {A} (x : nat) (l : list A) : list A := firstn x l ++ skipn (S x) l.
Definition cells_of (cs : list (nat * cell)) : list cell := flat_map (fun c => repeat (snd c) (fst c)) cs.

(* ---- the Row-level alphabet on a plain list of cells ---- *)
Fixpoint l_set_cells (x : nat) (cs : list (nat * cell)) (l : list cell) : list cell :=
  match cs with [] => l | c :: r => l_set_cells (x + fst c) r (l_set empty_cell x (fst c) (snd c) l) end.
Definition lstep (l : list cell) (o : rop) : list cell :=
  let w := Z.of_nat (length l) in
  match o with
  | RSet x c => l_set empty_cell (Z.to_nat (norm_coord x w)) (fst c) (snd c) l
  | RIns x c => l_insert empty_cell (Z.to_nat (norm_coord x w)) (fst c) (snd c) l
  | RDel x => l_delete (Z.to_nat (norm_coord x w)) l
  | RApp c => l ++ repeat (snd c) (fst c)
  | RSetCells cl s cs =>
      if (norm_coord s w =? 0) && negb cl && (w <=? Z.of_nat (length cs)) then cells_of cs
      else l_set_cells (Z.to_nat (norm_coord s w)) cs l
  | RExtend cs => l ++ cells_of cs
  | RClear => []
  end.

(* ---- column count ---- *)
Definition g_grow (w : Z) (g : gridT) : gridT := {| ncols := Z.max (ncols g) w; grows := grows g |}.
Definition g_declare (w : Z) (g : gridT) : gridT :=
  let n0 := if ncols g =? 0 then Z.max 1 w else ncols g in
  {| ncols := Z.max n0 w; grows := grows g |}.

(* ---- rows ---- *)
Definition g_pad_rows (y : nat) (l : list (list cell)) : list (list cell) := l ++ repeat [] (y - length l).
Definition g_append_row (rep : nat) (r : list cell) (g : gridT) : gridT :=
  g_declare (Z.of_nat (length r)) {| ncols := ncols g; grows := grows g ++ repeat r rep |}.
Definition g_set_rows (y rep : nat) (r : list cell) (l : list (list cell)) : list (list cell) :=
  firstn y (g_pad_rows y l) ++ repeat r rep ++ skipn (y + rep) l.
Definition g_set_row (y : Z) (rep : nat) (r : list cell) (g : gridT) : gridT :=
  let g' := {| ncols := ncols g; grows := g_set_rows (Z.to_nat y) rep r (grows g) |} in
  if y <? gheight g then g_grow (Z.of_nat (length r)) g' else g_declare (Z.of_nat (length r)) g'.
Definition g_insert_rows (y rep : nat) (r : list cell) (l : list (list cell)) : list (list cell) :=
  firstn y (g_pad_rows y l) ++ repeat r rep ++ skipn y l.
Definition g_insert_row (y : Z) (rep : nat) (r : list cell) (g : gridT) : gridT :=
  let g' := {| ncols := ncols g; grows := g_insert_rows (Z.to_nat y) rep r (grows g) |} in
  if y <? gheight g then g_grow (Z.of_nat (length r)) g' else g_declare (Z.of_nat (length r)) g'.
Definition g_delete_row (y : Z) (g : gridT) : gridT :=
  if gheight g <=? y then g
  else {| ncols := ncols g; grows := l_delete (Z.to_nat y) (grows g) |}.

(* ---- cells: exactly row y is rewritten ---- *)
Definition g_row (y : Z) (g : gridT) : list cell := nth (Z.to_nat y) (grows g) [].
Definition g_edit_row (y : Z) (f : list cell -> list cell) (g : gridT) : gridT := g_set_row y 1 (f (g_row y g)) g.
Definition g_set_cell (x y : Z) (c : nat * cell) (g : gridT) : gridT :=
  g_edit_row y (l_set empty_cell (Z.to_nat x) (fst c) (snd c)) g.
Definition g_insert_cell x y (c : nat * cell) g := g_edit_row y (l_insert empty_cell (Z.to_nat x) (fst c) (snd c)) g.
Definition g_append_cell y (c : nat * cell) g := g_edit_row y (fun l => l ++ repeat (snd c) (fst c)) g.
Definition g_delete_cell x y g := if gheight g <=? y then g else g_edit_row y (l_delete (Z.to_nat x)) g.

(* ---- columns: the same list edit on EVERY row longer than x ---- *)
Definition g_insert_column (x : Z) (rep : nat) (g : gridT) : gridT :=
  {| ncols := Z.max (ncols g) x + Z.of_nat rep;
     grows := map (fun r => if x <? Z.of_nat (length r) then l_insert empty_cell (Z.to_nat x) rep empty_cell r else r) (grows g) |}.
Definition g_delete_column (x : Z) (g : gridT) : gridT :=
  if ncols g <=? x then g else
  {| ncols := ncols g - 1;
     grows := map (fun r => if x <? Z.of_nat (length r) then l_delete (Z.to_nat x) r else r) (grows g) |}.
Definition g_append_column (rep : nat) (g : gridT) : gridT := {| ncols := ncols g + Z.of_nat (Nat.max 1 rep); grows := grows g |}.
Definition g_set_column (x : Z) (rep : nat) (g : gridT) : gridT :=
  {| ncols := Z.max (ncols g) (x + Z.of_nat (Nat.max 1 rep)); grows := grows g |}.

(* ---- bulk ---- *)
Fixpoint g_set_lines (clone : bool) (x y : Z) (lines : list (list (nat * cell))) (g : gridT) : gridT :=
  match lines with
  | [] => g
  | l :: ls =>
    match l with
    | [] => g_set_lines clone x (y + 1) ls g
    | _ => g_set_lines clone x (y + 1) ls (g_edit_row y (fun r => lstep r (RSetCells clone x l)) g)
    end
  end.
Definition max_len (l : list (list cell)) : Z := fold_left (fun a r => Z.max a (Z.of_nat (length r))) l 0.
Definition g_extend_rows (rs : list (nat * list cell)) (g : gridT) : gridT :=
  let rows' := grows g ++ flat_map (fun r => repeat (snd r) (fst r)) rs in
  let w := max_len rows' in
  {| ncols := (match rs with [] => Z.max (ncols g) w
               | _ => if ncols g =? 0 then Z.max 1 w else Z.max (ncols g) w end);
     grows := rows' |}.
Definition g_empty : gridT := {| ncols := 0; grows := [] |}.

(* ---- reads ---- *)
Definition gpad (w : Z) (l : list Z) : list Z := l ++ repeat 0 (Z.to_nat (w - Z.of_nat (length l))).
Definition g_value (x y : Z) (g : gridT) : Z :=          (* the value at (x,y); 0 = none, also outside the stored cells *)
  fst (nth (Z.to_nat x) (g_row y g) empty_cell).
