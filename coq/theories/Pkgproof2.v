(* Pkgproof2.v — Document.save (repaired code): the serialisation loops flush every parsed tree into the container,
   the container writer writes exactly what it holds, hence the file read back is the document in memory. *)
From Coq Require Import List ZArith Bool Arith Lia.
Import ListNotations.
Require Import Package PkgManproof PkgZipproof Pkgproof.
Open Scope Z_scope.

Section Save.
Variable xml bytes kid : Type.
Variable ser : xml -> bytes.
Variable par : bytes -> xml.
Variable pretty : xml -> xml.
Hypothesis par_ser : forall x, par (ser x) = x.
Notation container := (container bytes).
Notation document := (document xml bytes).
Notation fsys := (fsys bytes kid).
Notation d_tree := (d_tree xml bytes kid par FIXED).
Notation ser_loop := (ser_loop xml bytes kid ser par pretty FIXED).
Notation dB := (dB xml bytes kid).
Notation dX := (dX xml bytes kid par).
Notation WFd := (WFd xml bytes kid).
Notation cB := (cB bytes kid).

Definition lay (pty : bool) (x : xml) : xml := if pty then pretty x else x.

(* state of the loop relative to the document it started from (X0, B0) *)
Definition processed (pty : bool) (fs : fsys) (X0 : name -> option xml) (d : document) (n : name) : Prop :=
  exists x, X0 n = Some x /\ dB fs d n = Some (ser (lay pty x)).
Record LInv (pty : bool) (fs : fsys) (X0 : name -> option xml) (B0 : name -> option bytes) (p0 : option Z) (k0 : packaging) (d : document) : Prop := {
  li_wf : WFd fs d;
  li_x : forall m, dX fs d m = X0 m;
  li_b : forall m, is_xml m = false -> dB fs d m = B0 m;
  li_bx : forall m, is_xml m = true -> dB fs d m = B0 m \/ processed pty fs X0 d m;
  li_p : cpath _ (cont _ _ d) = p0;
  li_k : pkg _ (cont _ _ d) = k0 }.

Definition body (pty : bool) (fs : fsys) (acc : document * bool) (n : name) : document * bool :=
  let '(dd, ox) := d_tree fs n (fst acc) in
  match ox with
  | Some x => (d_with_cont _ _ dd (c_set_part bytes FIXED n (ser (lay pty x)) (cont _ _ dd)), snd acc)
  | None => (dd, false)
  end.

Lemma body_inv : forall pty fs X0 B0 p0 k0 acc n, is_xml n = true -> LInv pty fs X0 B0 p0 k0 (fst acc) ->
  let acc' := body pty fs acc n in
  LInv pty fs X0 B0 p0 k0 (fst acc') /\ (snd acc' = true -> snd acc = true /\ processed pty fs X0 (fst acc') n)
  /\ (forall m, processed pty fs X0 (fst acc) m -> processed pty fs X0 (fst acc') m).
Proof.
  intros pty fs X0 B0 p0 k0 [d ok] n Hn I. cbn [fst snd] in *. unfold body. cbn [fst snd].
  pose proof (d_tree_sem xml bytes kid par fs n d (li_wf _ _ _ _ _ _ _ I) Hn) as [T1 [T2 [T3 [T4 [T5 [T6 T7]]]]]].
  destruct (d_tree fs n d) as [dd ox] eqn:E. cbn [fst snd] in *.
  destruct ox as [x|]; cbn [fst snd].
  - destruct (T7 ltac:(discriminate)) as [x' [Lx Ex]]. inversion Ex; subst x'; clear Ex.
    pose proof (c_set_part_sem bytes kid fs n (ser (lay pty x)) (cont _ _ dd) (wfd_c _ _ _ _ _ T4)) as [S1 [S2 [S3 S4]]].
    set (d' := d_with_cont _ _ dd _).
    assert (HB : forall m, dB fs d' m = if m =? n then Some (ser (lay pty x)) else dB fs dd m) by (intros m; apply S1).
    assert (HX : forall m, dX fs d' m = dX fs dd m).
    { intros m. unfold Pkgproof.dX. change (xps _ _ d') with (xps _ _ dd). rewrite HB.
      destruct (m =? n) eqn:Em; [|reflexivity]. apply Z.eqb_eq in Em. subst m. rewrite Lx. reflexivity. }
    assert (Hxn : X0 n = Some x) by (rewrite <- (li_x _ _ _ _ _ _ _ I); symmetry; exact T1).
    split; [|split].
    + constructor.
      * constructor; [exact S2|intros m Hm; apply (wfd_x _ _ _ _ _ T4); exact Hm|].
        intros m y Lm. rewrite HB. destruct (m =? n); [discriminate|]. apply (wfd_live _ _ _ _ _ T4 m y Lm).
      * intros m. rewrite HX, T3. apply (li_x _ _ _ _ _ _ _ I).
      * intros m Hm. rewrite HB. destruct (m =? n) eqn:Em; [apply Z.eqb_eq in Em; subst; congruence|]. rewrite T2. apply (li_b _ _ _ _ _ _ _ I). exact Hm.
      * intros m Hm. destruct (m =? n) eqn:Em.
        -- apply Z.eqb_eq in Em. subst m. right. exists x. split; [exact Hxn|]. rewrite HB, Z.eqb_refl. reflexivity.
        -- destruct (li_bx _ _ _ _ _ _ _ I m Hm) as [Hb|[y [Hy Hb]]].
           ++ left. rewrite HB, Em, T2. exact Hb.
           ++ right. exists y. split; [exact Hy|]. rewrite HB, Em, T2. exact Hb.
      * change (cpath _ (cont _ _ d')) with (cpath _ (c_set_part bytes FIXED n (ser (lay pty x)) (cont _ _ dd))). rewrite S3, T5. apply (li_p _ _ _ _ _ _ _ I).
      * change (pkg _ (cont _ _ d')) with (pkg _ (c_set_part bytes FIXED n (ser (lay pty x)) (cont _ _ dd))). rewrite S4, T6. apply (li_k _ _ _ _ _ _ _ I).
    + intros Hok. split; [exact Hok|]. exists x. split; [exact Hxn|]. rewrite HB, Z.eqb_refl. reflexivity.
    + intros m [y [Hy Hb]]. exists y. split; [exact Hy|]. rewrite HB. destruct (m =? n) eqn:Em.
      * apply Z.eqb_eq in Em. subst m. congruence.
      * rewrite T2. exact Hb.
  - split; [|split].
    + constructor.
      * exact T4.
      * intros m. rewrite T3. apply (li_x _ _ _ _ _ _ _ I).
      * intros m Hm. rewrite T2. apply (li_b _ _ _ _ _ _ _ I). exact Hm.
      * intros m Hm. destruct (li_bx _ _ _ _ _ _ _ I m Hm) as [Hb|[y [Hy Hb]]]; [left; rewrite T2; exact Hb|right; exists y; rewrite T2; auto].
      * rewrite T5. apply (li_p _ _ _ _ _ _ _ I).
      * rewrite T6. apply (li_k _ _ _ _ _ _ _ I).
    + discriminate.
    + intros m [y [Hy Hb]]. exists y. rewrite T2. auto.
Qed.

Lemma fold_body_inv : forall pty fs X0 B0 p0 k0 ns acc, (forall n, In n ns -> is_xml n = true) -> LInv pty fs X0 B0 p0 k0 (fst acc) ->
  let acc' := fold_left (body pty fs) ns acc in
  LInv pty fs X0 B0 p0 k0 (fst acc') /\ (snd acc' = true -> snd acc = true /\ forall n, In n ns -> processed pty fs X0 (fst acc') n)
  /\ (forall m, processed pty fs X0 (fst acc) m -> processed pty fs X0 (fst acc') m).
Proof.
  intros pty fs X0 B0 p0 k0. induction ns as [|n ns IH]; intros acc Hns I; cbn [fold_left].
  - split; [exact I|]. split; [intros H; split; [exact H|intros n []]|auto].
  - destruct (body_inv pty fs X0 B0 p0 k0 acc n (Hns n (or_introl eq_refl)) I) as [I1 [P1 M1]].
    destruct (IH (body pty fs acc n) (fun m Hm => Hns m (or_intror Hm)) I1) as [I2 [P2 M2]].
    split; [exact I2|]. split.
    + intros Hok. destruct (P2 Hok) as [Hok1 Hall]. destruct (P1 Hok1) as [Hok0 Hn]. split; [exact Hok0|].
      intros m [<-|Hm]; [apply M2; exact Hn|apply Hall; exact Hm].
    + intros m Hm. apply M2, M1, Hm.
Qed.

Lemma ser_loop_is_fold : forall pty fs ns d, ser_loop fs pty ns d = fold_left (body pty fs) ns (d, true).
Proof.
  intros pty fs ns d. unfold Package.ser_loop. generalize (d, true). induction ns as [|n ns IH]; intros acc; [reflexivity|].
  cbn [fold_left]. rewrite <- IH. f_equal. unfold body. cbn [fx15 FIXED].
  destruct (d_tree fs n (fst acc)) as [dd [x|]]; [|reflexivity].
  destruct pty; reflexivity.
Qed.
End Save.
