(* C14 — unions: the identifier predicate on every branch *)
From Coq Require Import List NArith Bool Lia Arith.
Import ListNotations.
Require Import XPathLit XPathLitproof XPathLitproof4 XPathLitproof5.
Open Scope N_scope.

Lemma str_eqb_refl s : str_eqb s s = true.
Proof. induction s as [|c s IH]; [reflexivity|]. cbn [str_eqb]. now rewrite N.eqb_refl. Qed.

Lemma plainc_spec c : plainc c = true ->
  is_quote c = false /\ (c =? LBRA) = false /\ (c =? RBRA) = false /\ (c =? LPAR) = false /\ (c =? RPAR) = false /\ (c =? PIPE) = false.
Proof.
  unfold plainc. intros H. apply negb_true_iff in H.
  do 5 (apply orb_false_elim in H as [H ?]). repeat split; assumption.
Qed.

Lemma cov_plain0 v : forall s l st all cur, plainb s = true ->
  cov v (map SChar s ++ l) st all cur 0 = cov v l st all cur 0.
Proof.
  induction s as [|c s IH]; intros l st all cur H; [reflexivity|].
  cbn [plainb forallb] in H. apply andb_true_iff in H as [Hc H].
  destruct (plainc_spec c Hc) as (_ & H1 & H2 & H3 & H4 & H5).
  cbn [map app cov]. rewrite H1, H3, H4, H5. apply IH, H.
Qed.

Lemma cov_plain1 v : forall s l st all cur k, plainb s = true ->
  cov v (map SChar s ++ l) st all cur (S k) = cov v l st all cur (S k).
Proof.
  induction s as [|c s IH]; intros l st all cur k H; [reflexivity|].
  cbn [plainb forallb] in H. apply andb_true_iff in H as [Hc H].
  destruct (plainc_spec c Hc) as (_ & H1 & H2 & _).
  cbn [map app cov]. rewrite H1, H2. apply IH, H.
Qed.

Lemma plainb_nows s : plainb s = true -> plainb (nows s) = true.
Proof.
  induction s as [|c s IH]; intros H; [reflexivity|].
  cbn [plainb forallb] in H. apply andb_true_iff in H as [Hc H].
  cbn [nows filter]. destruct (negb (is_ws c)); [cbn [plainb forallb]; rewrite Hc; apply IH, H|apply IH, H].
Qed.

Lemma plainb_noquote s : plainb s = true -> noquote s = true.
Proof.
  induction s as [|c s IH]; intros H; [reflexivity|].
  cbn [plainb forallb] in H. apply andb_true_iff in H as [Hc H].
  destruct (plainc_spec c Hc) as (Hq & _). cbn [noquote forallb]. rewrite Hq. apply IH, H.
Qed.

Lemma nows_app a b : nows (a ++ b) = nows a ++ nows b.
Proof. apply filter_app. Qed.

Lemma noquote_app a b : noquote (a ++ b) = noquote a && noquote b.
Proof. apply forallb_app. Qed.

Lemma strip_suffix_eqs x : strip_suffix s_concat (x ++ [EQS]) = None.
Proof. unfold strip_suffix. rewrite rev_app_distr. reflexivity. Qed.

(* the text before the pasted literal of a predicate: steps [@ a = *)
Definition pred_open (b a : str) : str := b ++ [LBRA; AT] ++ a ++ [EQS].

Lemma pred_open_noquote b a : plainb b = true -> plainb a = true -> noquote (pred_open b a) = true.
Proof.
  intros Hb Ha. unfold pred_open. rewrite !noquote_app, (plainb_noquote b Hb), (plainb_noquote a Ha). reflexivity.
Qed.

Lemma nows_pred_open b a : nows (pred_open b a) = nows b ++ [LBRA; AT] ++ nows a ++ [EQS].
Proof. unfold pred_open. rewrite !nows_app. reflexivity. Qed.

Lemma other_pred_open b a : other (nows (pred_open b a)) = [TOther (nows (pred_open b a))].
Proof. rewrite nows_pred_open. destruct (nows b); reflexivity. Qed.

(* reading  steps [@ a = <string token v> ]  from outside a predicate marks the current branch as constrained *)
Lemma cov_pred v b a l st all cur : plainb b = true -> plainb a = true ->
  cov v (map SChar (nows (pred_open b a)) ++ SStr v :: SChar RBRA :: l) st all cur 0 = cov v l st all true 0.
Proof.
  intros Hb Ha. rewrite nows_pred_open, !map_app, <- !app_assoc.
  rewrite cov_plain0 by (apply plainb_nows, Hb).
  cbn [map app cov]. replace (LBRA =? LBRA) with true by reflexivity. cbn iota.
  replace (AT =? LBRA) with false by reflexivity. replace (AT =? RBRA) with false by reflexivity. cbn iota.
  rewrite cov_plain1 by (apply plainb_nows, Ha).
  cbn [map app cov]. replace (EQS =? LBRA) with false by reflexivity. replace (EQS =? RBRA) with false by reflexivity. cbn iota.
  rewrite str_eqb_refl, orb_true_r. replace (RBRA =? LBRA) with false by reflexivity. rewrite N.eqb_refl. reflexivity.
Qed.

Lemma skeleton_one b a v : plainb b = true -> plainb a = true ->
  skeleton (pred_open b a ++ quote v ++ [RBRA]) = Some [TOther (nows (pred_open b a)); TStr v; TOther [RBRA]].
Proof.
  intros Hb Ha.
  destruct (query_skeleton_simple (pred_open b a) v [RBRA] (pred_open_noquote b a Hb Ha) eq_refl) as [H _].
  - rewrite nows_pred_open, !app_assoc. apply strip_suffix_eqs.
  - rewrite H, other_pred_open. reflexivity.
Qed.

(* b1[@a=quote v] | b2[@a=quote v] : the identifier constrains both branches *)
Theorem union_both_covered b1 b2 a v : plainb b1 = true -> plainb b2 = true -> plainb a = true ->
  option_map (covered v) (skeleton (b1 ++ pred a v ++ [PIPE] ++ b2 ++ pred a v)) = Some true.
Proof.
  intros H1 H2 Ha.
  set (post := [RBRA; PIPE] ++ pred_open b2 a ++ quote v ++ [RBRA]).
  replace (b1 ++ pred a v ++ [PIPE] ++ b2 ++ pred a v) with (pred_open b1 a ++ quote v ++ post)
    by (unfold post, pred_open, pred; rewrite <- !app_assoc; reflexivity).
  assert (Hpost : skeleton post = Some [TOther (nows (pred_open ([RBRA; PIPE] ++ b2) a)); TStr v; TOther [RBRA]]).
  { unfold post.
    replace ([RBRA; PIPE] ++ pred_open b2 a ++ quote v ++ [RBRA]) with ((([RBRA; PIPE] ++ b2) ++ [LBRA; AT] ++ a ++ [EQS]) ++ quote v ++ [RBRA])
      by (unfold pred_open; rewrite <- !app_assoc; reflexivity).
    destruct (query_skeleton_simple (([RBRA; PIPE] ++ b2) ++ [LBRA; AT] ++ a ++ [EQS]) v [RBRA]) as [H _].
    - rewrite !noquote_app, (plainb_noquote b2 H2), (plainb_noquote a Ha). reflexivity.
    - reflexivity.
    - rewrite !nows_app, !app_assoc. apply strip_suffix_eqs.
    - rewrite H. unfold pred_open. rewrite !nows_app. reflexivity. }
  unfold skeleton in Hpost. destruct (lex LOut [] post) as [tp|] eqn:Etp; [|discriminate]. cbn [option_map] in Hpost.
  injection Hpost as Hpost.
  rewrite (query_skeleton_gen (pred_open b1 a) v post [] (rev (nows (pred_open b1 a))) tp).
  - cbn [fold_right option_map]. rewrite rev_involutive, Hpost, other_pred_open. f_equal.
    unfold covered. cbn [flatten app]. rewrite app_nil_r.
    replace (nows (pred_open ([RBRA; PIPE] ++ b2) a)) with (RBRA :: PIPE :: nows (pred_open b2 a)) by reflexivity.
    cbn [map app]. rewrite cov_pred by assumption.
    cbn [cov]. replace (PIPE =? LBRA) with false by reflexivity. replace (PIPE =? LPAR) with false by reflexivity.
    replace (PIPE =? RPAR) with false by reflexivity. rewrite N.eqb_refl. cbn iota. cbn [andb].
    change (nows (b2 ++ LBRA :: AT :: a ++ [EQS])) with (nows (pred_open b2 a)).
    rewrite cov_pred by assumption. reflexivity.
  - rewrite lexp_noquote by (apply pred_open_noquote; assumption). now rewrite app_nil_r.
  - rewrite rev_involutive, nows_pred_open, !app_assoc. apply strip_suffix_eqs.
  - exact Etp.
Qed.

(* b1 | b2[@a=quote v] : what make_xpath_query produces when the step text given to it is a union —
   the first branch is not constrained, whatever the identifier *)
Theorem union_last_only_not_covered b1 b2 a v : plainb b1 = true -> plainb b2 = true -> plainb a = true ->
  option_map (covered v) (skeleton (b1 ++ [PIPE] ++ b2 ++ pred a v)) = Some false.
Proof.
  intros H1 H2 Ha.
  replace (b1 ++ [PIPE] ++ b2 ++ pred a v) with (((b1 ++ [PIPE] ++ b2) ++ [LBRA; AT] ++ a ++ [EQS]) ++ quote v ++ [RBRA])
    by (unfold pred; rewrite <- !app_assoc; reflexivity).
  destruct (query_skeleton_simple ((b1 ++ [PIPE] ++ b2) ++ [LBRA; AT] ++ a ++ [EQS]) v [RBRA]) as [H _].
  - rewrite !noquote_app, (plainb_noquote b1 H1), (plainb_noquote b2 H2), (plainb_noquote a Ha). reflexivity.
  - reflexivity.
  - rewrite !nows_app, !app_assoc. apply strip_suffix_eqs.
  - rewrite H. cbn [option_map]. f_equal.
    rewrite !nows_app. cbn [nows filter]. replace (negb (is_ws PIPE)) with true by reflexivity.
    replace (negb (is_ws LBRA)) with true by reflexivity. replace (negb (is_ws AT)) with true by reflexivity.
    replace (negb (is_ws EQS)) with true by reflexivity. replace (negb (is_ws RBRA)) with true by reflexivity. cbn iota.
    rewrite <- !app_assoc. cbn [app].
    assert (Ho : forall x y : str, other (x ++ PIPE :: y) = [TOther (x ++ PIPE :: y)]) by (intros x y; destruct x; reflexivity).
    rewrite Ho. cbn [app]. unfold covered. cbn [flatten app]. rewrite ?app_nil_r. cbn [map].
    rewrite !map_app, <- !app_assoc. rewrite cov_plain0 by (apply plainb_nows, H1).
    cbn [map app cov]. replace (PIPE =? LBRA) with false by reflexivity. replace (PIPE =? LPAR) with false by reflexivity.
    replace (PIPE =? RPAR) with false by reflexivity. rewrite N.eqb_refl. cbn iota. cbn [andb].
    rewrite !map_app, <- !app_assoc. rewrite cov_plain0 by (apply plainb_nows, H2).
    cbn [map app cov]. rewrite N.eqb_refl. cbn iota.
    replace (AT =? LBRA) with false by reflexivity. replace (AT =? RBRA) with false by reflexivity. cbn iota.
    rewrite !map_app, <- !app_assoc. rewrite cov_plain1 by (apply plainb_nows, Ha).
    cbn [map app cov]. replace (EQS =? LBRA) with false by reflexivity. replace (EQS =? RBRA) with false by reflexivity. cbn iota.
    cbn [other flatten map app cov]. replace (RBRA =? LBRA) with false by reflexivity. rewrite N.eqb_refl. reflexivity.
Qed.
