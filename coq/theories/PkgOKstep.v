(* PkgOKstep.v — lemmas for C04_full: PkgOK in terms of the observations dB / dX, manifest entry-list facts *)
From Coq Require Import List ZArith Bool Arith Lia.
Import ListNotations.
Require Import Package PkgManproof PkgZipproof PkgOKproof Pkgproof.
Open Scope Z_scope.

(* ---------- entry lists ---------- *)
Lemma typed_all_mt : forall es, entries_typed es = true -> all_mt es = true.
Proof.
  unfold entries_typed, all_mt. induction es as [|e es IH]; cbn [forallb]; intros H; [reflexivity|].
  apply andb_true_iff in H as [H1 H2].
  apply andb_true_iff. split; [exact H1|apply IH; exact H2].
Qed.
Definition typed1 (n : name) (m : mtype) : bool := negb (m =? NOMT).
Lemma typed_app : forall a b, entries_typed (a ++ b) = entries_typed a && entries_typed b.
Proof. intros. unfold entries_typed. apply forallb_app. Qed.
Lemma typed_m_set : forall p m es es', typed1 p m = true -> entries_typed es = true -> m_set p m es = Some es' -> entries_typed es' = true.
Proof.
  induction es as [|[q m0] r IH]; cbn [m_set]; intros es' Ht Ha H; [discriminate|].
  unfold entries_typed in Ha. cbn [forallb fst snd] in Ha. apply andb_true_iff in Ha as [Hq Ha].
  destruct (q =? p) eqn:E.
  - apply Z.eqb_eq in E. subst q. inversion H; subst. unfold entries_typed. cbn [forallb fst snd]. fold (typed1 p m). rewrite Ht. exact Ha.
  - destruct (m_set p m r) eqn:S; [|discriminate]. inversion H; subst.
    unfold entries_typed. cbn [forallb fst snd]. rewrite Hq. cbn. eapply IH; eauto.
Qed.
Lemma typed_m_add : forall p m es, typed1 p m = true -> entries_typed es = true -> entries_typed (m_add true p m es) = true.
Proof.
  intros p m es Ht Ha. unfold m_add. destruct (m_get p es).
  - destruct (m_set p m es) as [es'|] eqn:S; [|exact Ha]. eapply typed_m_set; eauto.
  - rewrite typed_app, Ha. unfold entries_typed. cbn [forallb fst snd]. fold (typed1 p m). rewrite Ht. reflexivity.
Qed.
Lemma typed_m_del : forall p es es', entries_typed es = true -> m_del p es = Some es' -> entries_typed es' = true.
Proof.
  induction es as [|[q m0] r IH]; cbn [m_del]; intros es' Ha H; [discriminate|].
  unfold entries_typed in Ha. cbn [forallb] in Ha. apply andb_true_iff in Ha as [Hq Ha].
  destruct (q =? p); [inversion H; subst; exact Ha|].
  destruct (m_del p r) eqn:S; [|discriminate]. inversion H; subst. unfold entries_typed. cbn [forallb]. rewrite Hq. cbn. eapply IH; eauto.
Qed.

Lemma m_get_app_some : forall p a b m, m_get p a = Some m -> m_get p (a ++ b) = Some m.
Proof. induction a as [|[q m0] r IH]; cbn; intros b m H; [discriminate|]. destruct ((q =? p) && negb (m0 =? NOMT)); auto. Qed.
Lemma m_get_app_none : forall p a b, m_get p a = None -> m_get p (a ++ b) = m_get p b.
Proof. induction a as [|[q m0] r IH]; cbn; intros b H; [reflexivity|]. destruct ((q =? p) && negb (m0 =? NOMT)); [discriminate|auto]. Qed.
Lemma m_get_m_set_other : forall p q m es es', p <> q -> m_set q m es = Some es' -> m_get p es' = m_get p es.
Proof.
  induction es as [|[k m0] r IH]; cbn [m_set]; intros es' Hpq H; [discriminate|].
  destruct (k =? q) eqn:E.
  - apply Z.eqb_eq in E. subst k. inversion H; subst. cbn [m_get].
    destruct (q =? p) eqn:E2; [apply Z.eqb_eq in E2; congruence|reflexivity].
  - destruct (m_set q m r) as [r'|] eqn:S; [|discriminate]. inversion H; subst. cbn [m_get]. rewrite (IH r' Hpq eq_refl). reflexivity.
Qed.
Lemma m_get_m_set_same : forall q m es es', m <> NOMT -> m_set q m es = Some es' -> m_get q es' = Some m.
Proof.
  induction es as [|[k m0] r IH]; cbn [m_set]; intros es' Hm H; [discriminate|].
  destruct (k =? q) eqn:E.
  - inversion H; subst. cbn [m_get]. rewrite E. apply Z.eqb_neq in Hm. rewrite Hm. reflexivity.
  - destruct (m_set q m r) eqn:S; [|discriminate]. inversion H; subst. cbn [m_get]. rewrite E. cbn. eapply IH; eauto.
Qed.
Lemma m_get_m_add_other : forall p q m es, p <> q -> m_get p es <> None -> m_get p (m_add true q m es) = m_get p es.
Proof.
  intros p q m es Hpq Hp. unfold m_add. destruct (m_get q es) eqn:G.
  - destruct (m_set q m es) as [es'|] eqn:S; [|reflexivity]. eapply m_get_m_set_other; eauto.
  - destruct (m_get p es) eqn:Gp; [|congruence]. apply m_get_app_some. exact Gp.
Qed.
Lemma m_get_m_del_other : forall p q es es', p <> q -> m_del q es = Some es' -> m_get p es' = m_get p es.
Proof.
  induction es as [|[k m0] r IH]; cbn [m_del]; intros es' Hpq H; [discriminate|].
  destruct (k =? q) eqn:E.
  - apply Z.eqb_eq in E. subst k. inversion H; subst. cbn [m_get].
    destruct (q =? p) eqn:E2; [apply Z.eqb_eq in E2; congruence|reflexivity].
  - destruct (m_del q r) as [r'|] eqn:S; [|discriminate]. inversion H; subst. cbn [m_get]. rewrite (IH r' Hpq eq_refl). reflexivity.
Qed.

Lemma coherent_ext : forall f g es, (forall n, is_dir n = false -> f n = g n) -> coherent f es -> coherent g es.
Proof.
  intros f g es H [A B]. split; [exact A|]. intros n. rewrite B. split; intros [C D]; split; auto; [rewrite <- H|rewrite H]; auto.
Qed.

(* deleting the entry of a file: unique file entries suffice *)
Lemma m_del_declared : forall n es es', is_dir n = false -> NoDup (declared es) -> m_del n es = Some es' ->
  NoDup (declared es') /\ forall k, In k (declared es') <-> (k <> n /\ In k (declared es)).
Proof.
  intros n. induction es as [|[q m0] r IH]; cbn [m_del]; intros es' Hd Hn H; [discriminate|].
  destruct (q =? n) eqn:E.
  - apply Z.eqb_eq in E. subst q. inversion H; subst es'.
    unfold declared in Hn |- *. cbn [map fst filter] in Hn. rewrite Hd in Hn. cbn [negb] in Hn. inversion Hn; subst.
    split; [assumption|]. intros k. cbn [map fst filter]. rewrite Hd. cbn [negb In]. split.
    + intros Hk. split; [intros ->; contradiction|auto].
    + intros [A [B|B]]; [congruence|exact B].
  - apply Z.eqb_neq in E. destruct (m_del n r) as [r'|] eqn:D; [|discriminate]. inversion H; subst es'.
    assert (Hn' : NoDup (declared r)).
    { unfold declared in Hn |- *. cbn [map fst filter] in Hn. destruct (negb (is_dir q)); [inversion Hn; assumption|exact Hn]. }
    destruct (IH r' Hd Hn' eq_refl) as [N I].
    unfold declared in *. cbn [map fst filter] in *. destruct (negb (is_dir q)) eqn:Dq.
    + inversion Hn; subst. split.
      * constructor; [|exact N]. intros X. apply I in X as [_ X]. contradiction.
      * intros k. cbn [In]. rewrite I. split; [intros [<-|[A B]]; [split; [exact E|auto]|split; auto]|intros [A [B|B]]; auto].
    + split; [exact N|]. intros k. rewrite I. reflexivity.
Qed.

Lemma del_coherent_file : forall files es n, coherent files es -> is_dir n = false ->
  coherent (fun k => negb (k =? n) && files k) (match m_del n es with Some es' => es' | None => es end).
Proof.
  intros files es n [Hnd Hin] Hd.
  destruct (m_del n es) as [es'|] eqn:D.
  - destruct (m_del_declared n es es' Hd Hnd D) as [N I]. split; [exact N|].
    intros k. rewrite I, Hin. split.
    + intros [A [B C]]. split; [exact B|]. rewrite C. apply Z.eqb_neq in A. rewrite A. reflexivity.
    + intros [A B]. apply andb_true_iff in B as [B C]. apply negb_true_iff, Z.eqb_neq in B. auto.
  - assert (Hno : ~ In n (map fst es)).
    { clear - D. induction es as [|[q m0] r IH]; cbn in *; [tauto|]. destruct (q =? n) eqn:E; [discriminate|].
      apply Z.eqb_neq in E. destruct (m_del n r); [discriminate|]. intros [X|X]; [congruence|tauto]. }
    split; [exact Hnd|]. intros k. rewrite Hin. split.
    + intros [A B]. split; [exact A|]. rewrite B, andb_true_r. apply negb_true_iff, Z.eqb_neq. intros ->.
      apply Hno. assert (X : In n (declared es)) by (apply Hin; auto). apply in_declared in X. tauto.
    + intros [A B]. apply andb_true_iff in B as [_ B]. auto.
Qed.

Lemma declared_snoc_dir : forall es p m, is_dir p = true -> declared (es ++ [(p, m)]) = declared es.
Proof. intros. rewrite declared_app. unfold declared at 2. cbn. rewrite H. cbn. apply app_nil_r. Qed.

Lemma lookup_remove_key {V} : forall k m (l : list (Z * V)), lookup m (remove_key k l) = if m =? k then None else lookup m l.
Proof.
  intros k m. unfold remove_key. induction l as [|[q v] l IH]; cbn [filter lookup fst]; [destruct (m =? k); reflexivity|].
  destruct (q =? k) eqn:E; cbn [negb lookup].
  - rewrite IH. destruct (m =? k) eqn:E2; [reflexivity|]. destruct (m =? q) eqn:E3; [|reflexivity].
    apply Z.eqb_eq in E3. apply Z.eqb_eq in E. subst. rewrite Z.eqb_refl in E2. discriminate.
  - rewrite IH. destruct (m =? q) eqn:E3; [|reflexivity]. apply Z.eqb_eq in E3. subst. rewrite E. reflexivity.
Qed.

Section Obs.
Variable xml bytes kid : Type.
Variable par : bytes -> xml.
Variable entries : xml -> mentries.
Variable mime : bytes -> mtype.
Notation document := (document xml bytes).
Notation fsys := (fsys bytes kid).
Notation dB := (dB xml bytes kid).
Notation dX := (dX xml bytes kid par).
Notation PkgOK := (PkgOK xml bytes kid par entries mime).

Definition files (fs : fsys) (d : document) (n : name) : bool :=
  negb (n =? MIMETYPE) && negb (n =? MANIFEST) && match dB fs d n with Some _ => true | None => false end.

(* PkgOK through the observations *)
Lemma PkgOK_obs : forall fs d, PkgOK fs d <->
  exists xm mb, dX fs d MANIFEST = Some xm /\ dB fs d MIMETYPE = Some mb /\ coherent (files fs d) (entries xm)
                /\ m_get ROOT (entries xm) = Some (mime mb) /\ entries_typed (entries xm) = true.
Proof.
  intros fs d. unfold Package.PkgOK, coherent.
  assert (E : forall n, is_file_part xml bytes kid fs d n = true <-> (is_dir n = false /\ files fs d n = true)).
  { intros n. unfold is_file_part, files. change (bytes_of xml bytes kid fs d n) with (dB fs d n).
    destruct (is_dir n); cbn [negb andb].
    - split; intros X; [discriminate X|destruct X as [X _]; discriminate X].
    - split; intros H; [split; [reflexivity|exact H]|destruct H as [_ H]; exact H]. }
  split.
  - intros [xm [mb [A [B [C [D [F G]]]]]]]. exists xm, mb.
    split; [exact A|]. split; [exact B|]. split; [split; [exact C|intros n; rewrite D; apply E]|]. split; assumption.
  - intros [xm [mb [A [B [[C1 C2] [F G]]]]]]. exists xm, mb.
    split; [exact A|]. split; [exact B|]. split; [exact C1|]. split; [intros n; rewrite C2; symmetry; apply E|]. split; assumption.
Qed.

(* same existence of parts, same mimetype, same manifest entries: PkgOK carries over *)
Lemma PkgOK_transfer : forall fs d fs' d', PkgOK fs d ->
  (forall n, dB fs' d' n = None <-> dB fs d n = None) ->
  (forall mb, dB fs d MIMETYPE = Some mb -> exists mb', dB fs' d' MIMETYPE = Some mb' /\ mime mb' = mime mb) ->
  (forall xm, dX fs d MANIFEST = Some xm -> exists xm', dX fs' d' MANIFEST = Some xm' /\ entries xm' = entries xm) ->
  PkgOK fs' d'.
Proof.
  intros fs d fs' d' H HB HM HX. apply PkgOK_obs in H as [xm [mb [A [B [C [D F]]]]]]. apply PkgOK_obs.
  destruct (HX xm A) as [xm' [A' E]]. destruct (HM mb B) as [mb' [B' Em]].
  exists xm', mb'. rewrite E, Em. split; [exact A'|]. split; [exact B'|]. split; [|split; assumption].
  apply (coherent_ext (files fs d)); [|exact C]. intros n _. unfold files.
  specialize (HB n). destruct (dB fs' d' n), (dB fs d n); try reflexivity; exfalso.
  - destruct HB as [_ HB]. specialize (HB eq_refl). discriminate.
  - destruct HB as [HB _]. specialize (HB eq_refl). discriminate.
Qed.
End Obs.
